package main

// Reuse of one encoder / decoder object over parity counts on both sides of 256 and 512. The two
// large fields (Aztec layers 9..32) are the only ones where a block carries 256 or more check
// words; anything an object keeps per parity count in something narrower than an int (a byte-sized
// key, a fixed table) meets its first collision there. Every ordered pair and (thorough) triple of
// counts from the menu is encoded by ONE encoder and decoded - with three errors - by ONE decoder;
// every parity vector equals the reference and every word is restored.

import (
	"fmt"

	"verif/mc"

	rs "github.com/makiuchi-d/gozxing/common/reedsolomon"
)

func runLargeCountHistories() {
	menu := []int{6, 44, 255, 256, 257, 262, 300, 512, 518, 556}
	type h struct {
		f     int
		seq   []int
		clean int
	}
	var hs []h
	for _, fi := range []int{4, 5} {
		for _, a := range menu {
			for _, b := range menu {
				hs = append(hs, h{fi, []int{a, b}, -1})
				if !chk.Quick() {
					for _, c := range menu {
						hs = append(hs, h{fi, []int{a, b, c}, -1})
					}
				}
			}
		}
	}
	// parity counts beyond 1024 (GF(4096) only: the 12-bit Aztec field is the one field long enough)
	menu2 := []int{1000, 1024, 1025, 1300, 2048, 2049, 3000, 4000}
	for _, a := range menu2 {
		for _, b := range menu2 {
			hs = append(hs, h{5, []int{a, b}, -1})
		}
	}
	chk.Range(fmt.Sprintf("object reuse over LARGE parity counts: GF(4096) x every ordered pair of parity counts from %v, and GF(1024) and GF(4096) x every ordered pair (thorough: triple) of parity counts from %v (20 data words, 3 errors) on ONE encoder and ONE decoder object: parity == reference, every word restored", menu2, menu), len(hs),
		func(i int) string { return fmt.Sprint(fields[hs[i].f].name, hs[i].seq) },
		func(l *mc.Local, i int) {
			x := hs[i]
			f := fields[x.f]
			enc := rs.NewReedSolomonEncoder(f.lib)
			dec := rs.NewReedSolomonDecoder(f.lib)
			const k = 20
			for ci, r := range x.seq {
				if k+r > f.ref.Size-1 {
					continue
				}
				data := make([]int, k)
				for q := range data {
					data[q] = (q*37 + r + ci*5 + 1) % f.ref.Size
				}
				word := encode(l, f, enc, data, r)
				if word == nil {
					return
				}
				rcv := append([]int{}, word...)
				pos := []int{1, k + r/2, k + r - 1}
				for e, p := range pos {
					rcv[p] ^= 1 + (e*191+r)%(f.ref.Size-1)
				}
				var err error
				pm, site := mc.Guard(func() {
					if e := dec.Decode(rcv, r); e != nil {
						err = e
					}
				})
				l.Count("evaluations", 1)
				cs := rsCase{f.name, k, r, data, pos, nil}
				if pm != "" {
					chk.Violation("C04/rs/decode-reuse/panic/"+site, pm, cs)
					return
				}
				bad := err != nil
				for q := range word {
					if rcv[q] != word[q] {
						bad = true
					}
				}
				if bad {
					chk.Violation("C04/rs/decode-reuse/large-counts/"+f.name, fmt.Sprintf("call %d on a reused decoder object (parity counts %v, %d data words): word with 3 errors not restored (err=%v)", ci+1, x.seq, k, err), cs)
					return
				}
			}
			l.Distinct("nontrivial", fmt.Sprint("largehist", x.f, x.seq))
		})
}

// runManyErrors: error COUNTS on both sides of 2^8, 2^9, 2^10 and 2^11 - only the two large fields
// have code words long enough to carry that many errors within the design distance. Error positions
// are spread over the whole word (stride coprime to the length), magnitudes vary.
func runManyErrors() {
	type job struct{ f, k, r, t int }
	var jobs []job
	for _, t := range []int{255, 256, 257, 500} {
		jobs = append(jobs, job{4, 20, 1001, t})
	}
	for _, t := range []int{255, 256, 257, 511, 512, 513, 1023, 1024, 1025, 1050} {
		jobs = append(jobs, job{5, 1000, 2100, t})
	}
	if !chk.Quick() {
		for _, t := range []int{1026, 1500, 2000} {
			jobs = append(jobs, job{5, 90, 4001, t})
		}
	}
	chk.Range("many errors: GF(1024) (20 data + 1001 parity) with {255,256,257,500} errors, GF(4096) (1000 + 2100) with {255..257, 511..513, 1023..1025, 1050} errors (thorough: 90 + 4001 with up to 2000): every word restored", len(jobs),
		func(i int) string { return fmt.Sprint(jobs[i]) },
		func(l *mc.Local, i int) {
			j := jobs[i]
			f := fields[j.f]
			data := make([]int, j.k)
			for q := range data {
				data[q] = (q*131 + j.t) % f.ref.Size
			}
			word := append(append([]int{}, data...), f.ref.Parity(data, j.r, f.base)...)
			n := len(word)
			stride := 7
			for gcdInt(stride, n) != 1 {
				stride += 2
			}
			rcv := append([]int{}, word...)
			pos := make([]int, 0, j.t)
			for e := 0; e < j.t; e++ {
				p := (e*stride + 3) % n
				pos = append(pos, p)
				rcv[p] ^= 1 + (e*37+5)%(f.ref.Size-1)
			}
			var err error
			l.Beat("")
			pm, site := mc.Guard(func() {
				if e := rs.NewReedSolomonDecoder(f.lib).Decode(rcv, j.r); e != nil {
					err = e
				}
			})
			l.Count("evaluations", 1)
			cs := rsCase{f.name, j.k, j.r, nil, pos[:8], nil}
			if pm != "" {
				chk.Violation("C04/rs/decode/panic/"+site, pm, cs)
				return
			}
			bad := err != nil
			for q := range word {
				if rcv[q] != word[q] {
					bad = true
				}
			}
			if bad {
				chk.Violation("C04/rs/decode/many-errors/"+f.name, fmt.Sprintf("%d data + %d parity symbols with %d <= floor(%d/2) errors (positions 3 + e*%d mod %d): not restored (err=%v)", j.k, j.r, j.t, j.r, stride, n, err), cs)
				return
			}
			l.Distinct("nontrivial", fmt.Sprint("many", j))
		})
}

func gcdInt(a, b int) int {
	for b != 0 {
		a, b = b, a%b
	}
	return a
}
