package main

// Decoder-object histories THROUGH FAILURES, and algebraically special data.
//
// (1) One ReedSolomonDecoder object first receives a word damaged beyond the design distance
//     (every (t+1)-subset of positions of a short, shortened code x 3 magnitude sets: all the
//     failure exits of the decoder are taken - singular Euclid step, root-count mismatch, error
//     location outside the word - and some patterns mis-correct, which is not judged), then, on
//     the SAME object, every t-subset of positions must be corrected exactly.
// (2) Data that is a multiple of the generator polynomial has ALL-ZERO parity; data whose parity
//     starts with zeros. Encode must return exactly that parity, and the words decode.

import (
	"fmt"
	"strings"

	"verif/mc"
	"verif/ref/gf"

	rs "github.com/makiuchi-d/gozxing/common/reedsolomon"
)

type histCase struct {
	Kind    string // "decode-after-failure"
	Field   string
	K, R    int
	BadPos  []int
	BadMag  []int
	GoodPos []int
	GoodMag []int
}

func failureHistory(l *mc.Local, f field, k, r int, badPos, badMag []int, only *histCase) {
	data := make([]int, k)
	for i := range data {
		data[i] = (i*9 + 4) % f.ref.Size
	}
	word := append(append([]int{}, data...), f.ref.Parity(data, r, f.base)...)
	t := r / 2
	run := func(goodPos, goodMag []int) bool {
		dec := rs.NewReedSolomonDecoder(f.lib)
		bad := append([]int{}, word...)
		for i, p := range badPos {
			bad[p] ^= badMag[i]
		}
		var e1 error
		pm, site := mc.Guard(func() { e1 = dec.Decode(bad, r) })
		l.Count("evaluations", 1)
		hc := histCase{"decode-after-failure", f.name, k, r, badPos, badMag, goodPos, goodMag}
		if pm != "" {
			chk.Violation("C04/rs/decode/panic/"+site, fmt.Sprintf("Decode panics on an over-damaged word: %s", pm), hc)
			return false
		}
		cls := "miscorrected-or-restored"
		if e1 != nil {
			cls = e1.Error()
			if i := strings.Index(cls, "\n"); i > 0 {
				cls = cls[:i]
			}
		}
		l.Distinct("outcomes", "first-call: "+cls)
		rcv := append([]int{}, word...)
		for i, p := range goodPos {
			rcv[p] ^= goodMag[i]
		}
		var e2 error
		pm, site = mc.Guard(func() { e2 = dec.Decode(rcv, r) })
		l.Count("evaluations", 1)
		if pm != "" {
			chk.Violation("C04/rs/decode-reuse/panic/"+site, pm, hc)
			return false
		}
		ok := e2 == nil
		for i := range word {
			if rcv[i] != word[i] {
				ok = false
			}
		}
		if !ok {
			chk.Violation("C04/rs/decode-after-failure/"+f.name, fmt.Sprintf("(%d,%d) code: a word with %d <= floor(%d/2) errors at %v is not restored (err=%v) by a decoder object whose previous call was given a word with %d errors at %v (that call ended with: %s); a fresh decoder restores it", k+r, k, len(goodPos), r, goodPos, e2, len(badPos), badPos, cls), hc)
			return false
		}
		return true
	}
	if only != nil {
		run(only.GoodPos, only.GoodMag)
		return
	}
	okAll := true
	combos(k+r, t, func(pos []int) {
		if !okAll {
			return
		}
		mag := make([]int, t)
		for i := range mag {
			mag[i] = 1 + (i*5+pos[0])%(f.ref.Size-1)
		}
		okAll = run(append([]int{}, pos...), mag)
	})
	if okAll {
		l.Distinct("nontrivial", fmt.Sprint("fail-hist", f.name, k, r, badPos, badMag))
	}
}

func runDecoderFailureHistories() {
	type job struct {
		f, k, r int
		pos     []int
		m       int
	}
	var jobs []job
	for fi, f := range fields {
		for _, sh := range [][2]int{{4, 4}, {3, 6}} {
			k, r := sh[0], sh[1]
			if k+r >= f.ref.Size-1 {
				continue // the failure exit "error location outside the word" needs a shortened code
			}
			combos(k+r, r/2+1, func(pos []int) {
				for m := 0; m < 3; m++ {
					jobs = append(jobs, job{fi, k, r, append([]int{}, pos...), m})
				}
			})
		}
	}
	chk.Range("decoder reuse through failures: 6 fields x shortened codes (8,4) and (9,3): ONE decoder object is first given a word with t+1 errors (EVERY position subset x 3 magnitude sets; every failure exit of the decoder is taken), then must restore EVERY t-error pattern of positions", len(jobs),
		func(i int) string { return fmt.Sprint(jobs[i]) },
		func(l *mc.Local, i int) {
			j := jobs[i]
			f := fields[j.f]
			mag := make([]int, len(j.pos))
			for q := range mag {
				mag[q] = 1 + (q*7+j.m*11+j.pos[0]*3)%(f.ref.Size-1)
			}
			failureHistory(l, f, j.k, j.r, j.pos, mag, nil)
		})
	chk.Sample("decode-after-failure", histCase{"decode-after-failure", "QR_CODE_FIELD_256", 4, 4, []int{0, 1, 2}, []int{1, 2, 3}, []int{0, 1}, []int{5, 6}})
}

// runSpecialParity: data vectors whose parity is all zero / starts with zeros.
func runSpecialParity() {
	type job struct{ f, k, r, kind int }
	var jobs []job
	for fi, f := range fields {
		for _, r := range []int{1, 2, 3, 5, 7, 10} {
			for _, k := range []int{r + 1, r + 2, 2*r + 3, 19} {
				if k+r > f.ref.Size-1 || k <= r {
					continue
				}
				for kind := 0; kind < 3; kind++ {
					if kind == 2 && f.ref.Size > 256 {
						continue // the two-symbol search is quadratic in the field size
					}
					jobs = append(jobs, job{fi, k, r, kind})
				}
			}
		}
	}
	chk.Range("algebraically special data: 6 fields x parity counts {1,2,3,5,7,10} x lengths: data that is a multiple of the generator polynomial (ALL-ZERO parity), data whose first parity symbol is zero, data whose first two are zero: Encode returns exactly that parity; the words decode with 0 and floor(r/2) errors", len(jobs),
		func(i int) string { return fmt.Sprint(jobs[i]) },
		func(l *mc.Local, i int) {
			j := jobs[i]
			f := fields[j.f]
			data := make([]int, j.k)
			for q := range data {
				data[q] = (q*q*13 + q*3 + 1 + j.kind) % f.ref.Size
			}
			switch j.kind {
			case 0: // tail := parity of the prefix as a (k, k-r) code: the whole data is then a code word
				copy(data[j.k-j.r:], f.ref.Parity(data[:j.k-j.r], j.r, f.base))
			default: // search the last one / two data symbols for leading zero parity
				found := false
				for a := 0; a < f.ref.Size && !found; a++ {
					for b := 0; b < f.ref.Size && !found; b++ {
						data[j.k-1] = a
						if j.kind == 2 {
							data[j.k-2] = b
						}
						p := f.ref.Parity(data, j.r, f.base)
						if p[0] == 0 && (j.kind == 1 || j.r < 2 || p[1] == 0) {
							found = true
						}
						if j.kind == 1 {
							break
						}
					}
				}
				if !found {
					l.Count("special_parity_not_found", 1)
					return
				}
			}
			par := f.ref.Parity(data, j.r, f.base)
			zeros := 0
			for _, p := range par {
				if p == 0 {
					zeros++
				}
			}
			if j.kind == 0 && zeros != j.r {
				panic("harness: the constructed data does not have all-zero parity")
			}
			word := encode(l, f, rs.NewReedSolomonEncoder(f.lib), data, j.r)
			if word == nil {
				return
			}
			oneDecode(l, f, data, j.r, nil, nil)
			if t := j.r / 2; t > 0 {
				pos, mag := make([]int, t), make([]int, t)
				for q := range pos {
					pos[q] = j.k + q // the errors hit the (zero) parity symbols
					mag[q] = 1 + q%(f.ref.Size-1)
				}
				oneDecode(l, f, data, j.r, pos, mag)
			}
			l.Distinct("nontrivial", fmt.Sprint("special-parity", f.name, j.k, j.r, j.kind, zeros))
		})
}

var _ = gf.Alpha
