package main

// Cold start. The field tables and generator caches are package-level objects; whatever they build
// lazily is built by the FIRST operation that needs it, and the arithmetic sweep at the start of this
// check would build everything before the codec is ever called. This sub-space therefore runs
// first, in one worker: for each of the six fields the very first operation of the process on that
// field is a codec call - Decode of a damaged word for three fields, Encode for the other three
// (the thorough tier swaps the roles, so that over the two tiers each field meets both) - and
// only then Exp / Log / Multiply / Inverse are called for the first time, each checked against the
// reference.

import (
	"fmt"

	"verif/mc"
	"verif/ref/gf"

	rs "github.com/makiuchi-d/gozxing/common/reedsolomon"
)

func runColdStart() {
	chk.Range("cold start (first sub-space, one worker): for each of the six fields the FIRST operation of the process is Decode of a damaged word (three fields) or Encode (the other three; tiers swap roles), then the first Exp, Log, Inverse and Multiply calls: all equal the reference", 1,
		func(int) string { return "cold start" },
		func(l *mc.Local, _ int) {
			for fi, f := range fields {
				k, r := 5, 4
				if f.ref.Size-1 < k+r {
					k = 3
				}
				data := make([]int, k)
				for q := range data {
					data[q] = (q*3 + 2) % f.ref.Size
				}
				word := append(append([]int{}, data...), f.ref.Parity(data, r, f.base)...)
				decodeFirst := (fi%2 == 0) == chk.Quick()
				cs := rsCase{f.name, k, r, data, []int{1, k + 1}, nil}
				if decodeFirst {
					rcv := append([]int{}, word...)
					rcv[1] ^= 1
					rcv[k+1] ^= f.ref.Size - 1
					var err error
					pm, site := mc.Guard(func() {
						if e := rs.NewReedSolomonDecoder(f.lib).Decode(rcv, r); e != nil {
							err = e
						}
					})
					l.Count("evaluations", 1)
					if pm != "" {
						chk.Violation("C04/rs/cold-start/panic/"+site, pm, cs)
						continue
					}
					if err != nil || fmt.Sprint(rcv) != fmt.Sprint(word) {
						chk.Violation("C04/rs/cold-start/decode/"+f.name, fmt.Sprintf("Decode as the first operation of the process on %s: word with 2 errors not restored (err=%v): got %v, want %v", f.name, err, rcv, word), cs)
						continue
					}
				} else {
					w := append(append([]int{}, data...), make([]int, r)...)
					var err error
					pm, site := mc.Guard(func() { err = rs.NewReedSolomonEncoder(f.lib).Encode(w, r) })
					l.Count("evaluations", 1)
					if pm != "" {
						chk.Violation("C04/rs/cold-start/panic/"+site, pm, cs)
						continue
					}
					if err != nil || fmt.Sprint(w) != fmt.Sprint(word) {
						chk.Violation("C04/rs/cold-start/encode/"+f.name, fmt.Sprintf("Encode as the first operation of the process on %s: got %v (err=%v), want %v", f.name, w, err, word), cs)
						continue
					}
				}
				// first arithmetic calls, in an order that differs per field
				a, b := 3%f.ref.Size, (f.ref.Size-1)/2+1
				order := [][]string{{"exp", "log", "inv", "mul"}, {"mul", "inv", "log", "exp"}, {"log", "mul", "exp", "inv"}}[fi%3]
				for _, op := range order {
					bad := ""
					mc.Guard(func() {
						switch op {
						case "exp":
							if g, w := f.lib.Exp(5), f.ref.Pow(gf.Alpha, 5); g != w {
								bad = fmt.Sprintf("Exp(5) = %d, reference %d", g, w)
							}
						case "log":
							if g, e := f.lib.Log(a); e != nil || f.ref.Pow(gf.Alpha, g) != a {
								bad = fmt.Sprintf("Log(%d) = %d (%v)", a, g, e)
							}
						case "inv":
							if g, e := f.lib.Inverse(b); e != nil || f.ref.Mul(g, b) != 1 {
								bad = fmt.Sprintf("Inverse(%d) = %d (%v)", b, g, e)
							}
						case "mul":
							if g, w := f.lib.Multiply(a, b), f.ref.Mul(a, b); g != w {
								bad = fmt.Sprintf("Multiply(%d,%d) = %d, reference %d", a, b, g, w)
							}
						}
					})
					l.Count("evaluations", 1)
					if bad != "" {
						chk.Violation("C04/gf/cold-start/"+f.name, "first arithmetic calls of the process: "+bad, gfCase{Field: f.name, Op: op, A: a, B: b})
					}
				}
				l.Distinct("nontrivial", fmt.Sprint("cold", f.name, decodeFirst))
			}
		})
}
