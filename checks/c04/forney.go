package main

// Two families aimed at the LAST two steps of the decoder - the root search and Forney's formula.
//
// (1) Prefix-related locators across two calls of ONE decoder: the first word has d errors with
//     locator polynomial s1 (degree d), the second has e > d errors whose locator polynomial s2
//     has s1's d+1 coefficients as its own leading d+1 coefficients: s2 = x^(e-d)*s1 + lower.
//     Anything the decoder keeps from one call to the next that is compared by a prefix (or by
//     the shorter length) mistakes the second word for the first. The pairs are found by
//     enumeration in the reference field: every d-subset of positions (d = 1, 2; a stride of the
//     3-subsets), every admissible lower part, kept when s2 splits into e distinct locators of
//     positions inside the word. Both orders of the two words are run.
// (2) Forney extremes: t errors placed so that, for one chosen error i, the denominator
//     prod_{j != i}(1 + X_j/X_i) equals a and the evaluator value omega(1/X_i) equals b, for every
//     (a, b) in {1, alpha, alpha^2, alpha^-1, alpha^-2}^2 - the values at which logarithm
//     arithmetic (log 1 = 0, log alpha^-1 = n-1) is at the ends of its range. One position is
//     solved for the denominator, the magnitude of error i for the evaluator value.

import (
	"fmt"

	"verif/mc"
	"verif/ref/gf"
)

type tables struct {
	exp, log []int
	n        int
}

func tablesOf(F gf.Field) tables {
	t := tables{exp: make([]int, 2*F.Size), log: make([]int, F.Size), n: F.Size - 1}
	x := 1
	for i := 0; i < F.Size-1; i++ {
		t.exp[i] = x
		t.log[x] = i
		x = F.Mul(x, gf.Alpha)
	}
	for i := F.Size - 1; i < 2*F.Size; i++ {
		t.exp[i] = t.exp[i-(F.Size-1)]
	}
	return t
}

func (t tables) mul(a, b int) int {
	if a == 0 || b == 0 {
		return 0
	}
	return t.exp[t.log[a]+t.log[b]]
}

func (t tables) inv(a int) int { return t.exp[(t.n-t.log[a])%t.n] }

// locatorOf returns prod (1 + X_p x), highest degree first, X_p = alpha^(n-1-p).
func (t tables) locatorOf(pos []int, n int) []int {
	s := []int{1}
	for _, p := range pos {
		X := t.exp[(n-1-p)%t.n]
		ns := make([]int, len(s)+1)
		for i, c := range s { // s * (X x + 1)
			ns[i] ^= t.mul(c, X)
			ns[i+1] ^= c
		}
		s = ns
	}
	return s
}

// splitPositions returns the positions whose locators are the inverse roots of s (highest degree
// first) when s has deg(s) distinct roots that all belong to positions 0..n-1, else nil.
func (t tables) splitPositions(s []int, n int) []int {
	var pos []int
	for lg := 0; lg < t.n; lg++ {
		x := t.exp[lg]
		v := 0
		for _, c := range s {
			v = t.mul(v, x) ^ c
		}
		if v == 0 {
			X := (t.n - lg) % t.n // log of the locator 1/x
			p := n - 1 - X
			if p < 0 {
				return nil
			}
			pos = append(pos, p)
		}
	}
	if len(pos) != len(s)-1 {
		return nil
	}
	return pos
}

func runPrefixLocatorHistories() {
	type job struct{ f, d, g, lo, hi int }
	var jobs []job
	for fi, f := range fields {
		n := f.ref.Size - 1
		if n > 255 {
			n = 255 // shortened code in the large fields: the enumeration stays small
		}
		for d := 1; d <= 3; d++ {
			for g := 1; g <= 2; g++ {
				if 2*(d+g)+2 >= n || (chk.Quick() && g == 2 && d > 1) {
					continue // quick: the two-coefficient lower parts only behind single errors
				}
				for lo := 0; lo < n; lo += 16 {
					hi := lo + 16
					if hi > n {
						hi = n
					}
					jobs = append(jobs, job{fi, d, g, lo, hi})
				}
			}
		}
	}
	chk.Range("prefix-related error locators across two calls of ONE decoder: 6 fields (word length min(|F|-1, 255)) x first word with d = 1..3 errors (every position subset for d <= 2, the 3-subsets {p, p+1, q}) x second word with d+1 or d+2 errors whose locator polynomial begins with the first one's coefficients (every admissible lower part, kept when it splits into distinct positions of the word) x both orders: each word must be restored exactly", len(jobs),
		func(i int) string { return fmt.Sprint(jobs[i]) },
		func(l *mc.Local, i int) {
			j := jobs[i]
			f := fields[j.f]
			T := tablesOf(f.ref)
			n := f.ref.Size - 1
			if n > 255 {
				n = 255
			}
			e := j.d + j.g
			r := 2*e + 2
			k := n - r
			try := func(pos []int) {
				s1 := T.locatorOf(pos, n)
				lowers := [][]int{{1}}
				if j.g == 2 {
					lowers = nil
					for c := 0; c < f.ref.Size; c++ {
						if j.d >= 2 && c%5 != 1 {
							continue
						}
						lowers = append(lowers, []int{c, 1})
					}
				}
				for _, lw := range lowers {
					// s2 = x^g * s1 + lower: s1's constant term moves to x^g, the lower part follows
					s2 := append(append([]int{}, s1...), lw...)
					pos2 := T.splitPositions(s2, n)
					if pos2 == nil {
						continue
					}
					for m := 0; m < 2; m++ {
						mag1, mag2 := make([]int, len(pos)), make([]int, len(pos2))
						for q := range mag1 {
							mag1[q] = 1 + (q*7+m*29+pos[0])%(f.ref.Size-1)
						}
						for q := range mag2 {
							mag2[q] = 1 + (q*11+m*53+pos2[0]*3)%(f.ref.Size-1)
						}
						failureHistory(l, f, k, r, pos, mag1, &histCase{GoodPos: pos2, GoodMag: mag2})
						failureHistory(l, f, k, r, pos2, mag2, &histCase{GoodPos: pos, GoodMag: mag1})
						l.Count("prefix_locator_pairs", 1)
						l.Distinct("nontrivial", fmt.Sprint("prefix-locator", f.name, j.d, j.g, pos, lw))
					}
				}
			}
			for p := j.lo; p < j.hi; p++ {
				switch j.d {
				case 1:
					try([]int{p})
				case 2:
					for q := p + 1; q < n; q++ {
						try([]int{p, q})
					}
				case 3:
					for q := p + 2; q < n; q += 3 {
						try([]int{p, p + 1, q})
					}
				}
			}
		})
}

func runForneyExtremes() {
	type job struct{ f, t int }
	var jobs []job
	for fi, f := range fields {
		for _, t := range []int{2, 3, 5, 7, 8, 15, 16, 17, 30, 31, 32, 33, 40, 48} {
			if 2*t+2 < f.ref.Size-1 {
				jobs = append(jobs, job{fi, t})
			}
		}
	}
	chk.Range("Forney extremes: 6 fields (full-length code, 2t parity symbols; quick: 300 symbols in the two large fields) x t in {2,3,5,7,8,15,16,17,30,31,32,33,40,48} that fit x chosen error at the {last, second-to-last, first, middle} symbol x denominator value a and evaluator value b over {1, alpha, alpha^2, alpha^-1, alpha^-2}^2 (one position solved for a, the chosen magnitude for b) x 2 magnitude sets for the other errors: each word must be restored exactly", len(jobs),
		func(i int) string { return fmt.Sprint(fields[jobs[i].f].name, " t=", jobs[i].t) },
		func(l *mc.Local, i int) {
			j := jobs[i]
			f := fields[j.f]
			T := tablesOf(f.ref)
			n := f.ref.Size - 1 // word length; the locator of position p is alpha^(n-1-p)
			if chk.Quick() && n > 300 {
				n = 300 // quick: shortened code in the two large fields
			}
			r := 2 * j.t
			k := n - r
			data := make([]int, k)
			for q := range data {
				data[q] = (q*17 + 3) % f.ref.Size
			}
			special := []int{1, T.exp[1], T.exp[2], T.exp[T.n-1], T.exp[T.n-2]}
			for _, pi := range []int{n - 1, n - 2, 0, n / 2} {
				Xi := T.exp[n-1-pi]
				for _, a := range special {
					for shift := 0; shift < 12; shift++ {
						// t-2 spread positions (moved by shift until the solved one fits), none equal to pi
						used := map[int]bool{pi: true}
						var pos []int
						for q := 0; len(pos) < j.t-2; q++ {
							p := (q*(n/j.t) + 1 + shift + q) % n
							for used[p] {
								p = (p + 1) % n
							}
							used[p] = true
							pos = append(pos, p)
						}
						P := 1
						for _, p := range pos {
							P = T.mul(P, 1^T.mul(T.exp[n-1-p], T.inv(Xi)))
						}
						v := T.mul(a, T.inv(P)) // 1 + X_last/X_i
						if v == 1 {
							continue
						}
						Xl := T.mul(v^1, Xi)
						pl := n - 1 - T.log[Xl]
						if pl < 0 || used[pl] {
							continue
						}
						for _, b := range special {
							ei := T.mul(b, T.inv(a))
							if f.base != 0 {
								ei = T.mul(ei, T.inv(Xi))
							}
							for m := 0; m < 2; m++ {
								allPos := append(append([]int{pi}, pos...), pl)
								mag := make([]int, len(allPos))
								mag[0] = ei
								for q := 1; q < len(mag); q++ {
									mag[q] = 1 + (q*13+m*101+shift)%(f.ref.Size-1)
								}
								oneDecode(l, f, data, r, allPos, mag)
								l.Count("forney_extreme_words", 1)
							}
						}
						l.Distinct("nontrivial", fmt.Sprint("forney", f.name, j.t, pi, a))
						break
					}
				}
			}
		})
}

var _ = mc.Guard
