// C04 — GF(2^m) arithmetic and the Reed-Solomon codec.
// Complete enumeration of element pairs in all six fields; for the codec, enumeration of code
// shapes x data families x every error pattern up to a weight bound (deviation-bounded: 0, 1,
// 2 errors exhaustively, full weight t over position families) against a naive reference.
package main

import (
	"fmt"

	"verif/mc"
	"verif/ref/gf"

	rs "github.com/makiuchi-d/gozxing/common/reedsolomon"
)

var chk *mc.Check

type field struct {
	name string
	lib  *rs.GenericGF
	ref  gf.Field
	base int
}

var fields = []field{
	{"AZTEC_PARAM(16)", rs.GenericGF_AZTEC_PARAM, gf.Field{Poly: 0x13, Size: 16}, 1},
	{"AZTEC_DATA_6(64)", rs.GenericGF_AZTEC_DATA_6, gf.Field{Poly: 0x43, Size: 64}, 1},
	{"QR_CODE_FIELD_256", rs.GenericGF_QR_CODE_FIELD_256, gf.Field{Poly: 0x11D, Size: 256}, 0},
	{"DATA_MATRIX_FIELD_256", rs.GenericGF_DATA_MATRIX_FIELD_256, gf.Field{Poly: 0x12D, Size: 256}, 1},
	{"AZTEC_DATA_10(1024)", rs.GenericGF_AZTEC_DATA_10, gf.Field{Poly: 0x409, Size: 1024}, 1},
	{"AZTEC_DATA_12(4096)", rs.GenericGF_AZTEC_DATA_12, gf.Field{Poly: 0x1069, Size: 4096}, 1},
}

type gfCase struct {
	Field string
	Op    string
	A, B  int
}

type rsCase struct {
	Field  string
	K, R   int
	Data   []int
	ErrPos []int
	ErrMag []int
}

func main() {
	chk = mc.New("C04", "exploration")
	chk.Rule = "all element pairs of all six fields; RS: code shapes x data families x all error patterns of weight 0,1,2 (magnitude menus stated per sub-space) and full-weight position families; non-trivial = distinct (field, k, r, error positions) with at least one error actually corrected"
	if chk.ReplayFile() != "" {
		var hc histCase
		if mc.LoadReplay(chk.ReplayFile(), &hc) == nil && hc.Kind == "decode-after-failure" {
			for _, f := range fields {
				if f.name == hc.Field {
					l := chk.NewLocal()
					fmt.Printf("replay %+v\n", hc)
					failureHistory(l, f, hc.K, hc.R, hc.BadPos, hc.BadMag, &hc)
					l.Merge()
				}
			}
			chk.Finish()
		}
		var c rsCase
		if mc.LoadReplay(chk.ReplayFile(), &c) == nil && c.K > 0 {
			for _, f := range fields {
				if f.name == c.Field {
					l := chk.NewLocal()
					fmt.Printf("replay %+v\n", c)
					oneDecode(l, f, c.Data, c.R, c.ErrPos, c.ErrMag)
					l.Merge()
				}
			}
		}
		chk.Finish()
	}
	runColdStart() // must stay first: the first operations of the process
	runFields()
	runRS16()
	runRS256()
	runAztecShapes()
	runEncoderHistories()
	runDecoderHistories()
	runLargeCountHistories()
	runManyErrors()
	runDecoderFailureHistories()
	runSpecialParity()
	runSyndromeKernelErrors()
	runLookalikeSyndromes()
	runCosetErrors()
	runPrefixLocatorHistories()
	runForneyExtremes()
	runRegisterStates()
	chk.Finish()
}

func runFields() {
	type job struct {
		f      int
		lo, hi int
	}
	var jobs []job
	for fi, f := range fields {
		for lo := 0; lo < f.ref.Size; lo += 64 {
			jobs = append(jobs, job{fi, lo, lo + 64})
		}
	}
	chk.Range("GF arithmetic: all (a,b) pairs of all six fields; Inverse/Exp/Log for every element", len(jobs),
		func(i int) string { return fmt.Sprint(jobs[i]) },
		func(l *mc.Local, i int) {
			j := jobs[i]
			f := fields[j.f]
			n := f.ref.Size
			if f.lib.GetSize() != n || f.lib.GetGeneratorBase() != f.base {
				chk.Violation("C04/gf/params/"+f.name, fmt.Sprintf("size %d base %d", f.lib.GetSize(), f.lib.GetGeneratorBase()), gfCase{f.name, "params", 0, 0})
			}
			for a := j.lo; a < j.hi && a < n; a++ {
				for b := 0; b < n; b++ {
					got := f.lib.Multiply(a, b)
					want := f.ref.Mul(a, b)
					if got != want {
						chk.Violation("C04/gf/Multiply/"+f.name, fmt.Sprintf("Multiply(%d,%d)=%d, polynomial arithmetic gives %d", a, b, got, want), gfCase{f.name, "Multiply", a, b})
					}
				}
				l.Count("evaluations", int64(n))
				if rs.GenericGF_addOrSubtract(a, 5) != a^5 {
					chk.Violation("C04/gf/add/"+f.name, "addOrSubtract is not xor", gfCase{f.name, "add", a, 5})
				}
				if a == 0 {
					if _, e := f.lib.Inverse(0); e == nil {
						chk.Violation("C04/gf/Inverse0/"+f.name, "Inverse(0) returned no error", gfCase{f.name, "Inverse", 0, 0})
					}
					if _, e := f.lib.Log(0); e == nil {
						chk.Violation("C04/gf/Log0/"+f.name, "Log(0) returned no error", gfCase{f.name, "Log", 0, 0})
					}
					continue
				}
				inv, e := f.lib.Inverse(a)
				if e != nil || f.ref.Mul(a, inv) != 1 {
					chk.Violation("C04/gf/Inverse/"+f.name, fmt.Sprintf("Inverse(%d)=%d err=%v; a*inv=%d", a, inv, e, f.ref.Mul(a, inv)), gfCase{f.name, "Inverse", a, 0})
				}
				lg, e := f.lib.Log(a)
				if e != nil || lg < 0 || lg >= n-1 || f.lib.Exp(lg) != a {
					chk.Violation("C04/gf/ExpLog/"+f.name, fmt.Sprintf("Exp(Log(%d))=%d", a, f.lib.Exp(lg)), gfCase{f.name, "ExpLog", a, 0})
				}
				l.Distinct("nontrivial", fmt.Sprint(f.name, "elt", a))
			}
			if j.lo == 0 {
				// Exp(i) == alpha^i for every exponent, Log(Exp(i)) == i
				x := 1
				for e := 0; e < n-1; e++ {
					if f.lib.Exp(e) != x {
						chk.Violation("C04/gf/Exp/"+f.name, fmt.Sprintf("Exp(%d)=%d, alpha^%d=%d", e, f.lib.Exp(e), e, x), gfCase{f.name, "Exp", e, 0})
					}
					if lg, _ := f.lib.Log(x); lg != e {
						chk.Violation("C04/gf/LogExp/"+f.name, fmt.Sprintf("Log(Exp(%d))=%d", e, lg), gfCase{f.name, "LogExp", e, 0})
					}
					x = f.ref.Mul(x, gf.Alpha)
				}
				if x != 1 {
					chk.Violation("C04/gf/order/"+f.name, "alpha is not primitive in the reference field (harness error)", gfCase{f.name, "order", 0, 0})
				}
			}
		})
	chk.Sample("gf", gfCase{"QR_CODE_FIELD_256", "Multiply", 0x53, 0xCA})
}

// encode runs the library encoder on data and checks it against the property: data unchanged,
// zero syndromes (reference evaluation), equality with the reference parity.
func encode(l *mc.Local, f field, enc *rs.ReedSolomonEncoder, data []int, r int) []int {
	k := len(data)
	// the word is a window of a larger array: the caller's elements behind it must stay untouched
	const guard = -77
	backing := make([]int, k+r+8)
	for i := range backing {
		backing[i] = guard
	}
	word := backing[:k+r]
	copy(word, data)
	for i := k; i < k+r; i++ {
		word[i] = 0x7 // stale content must be overwritten
	}
	var err error
	pm, site := mc.Guard(func() { err = enc.Encode(word, r) })
	l.Count("evaluations", 1)
	for i := k + r; i < len(backing); i++ {
		if backing[i] != guard {
			chk.Violation("C04/rs/encode/writes-behind-word/"+f.name, fmt.Sprintf("Encode wrote behind the word it was given (offset +%d)", i-k-r), rsCase{f.name, k, r, data, nil, nil})
			return nil
		}
	}
	cs := rsCase{f.name, k, r, data, nil, nil}
	if pm != "" {
		chk.Violation("C04/rs/encode/panic/"+site, pm, cs)
		return nil
	}
	if err != nil {
		chk.Violation("C04/rs/encode/error/"+f.name, err.Error(), cs)
		return nil
	}
	for i := 0; i < k; i++ {
		if word[i] != data[i] {
			chk.Violation("C04/rs/encode/data-changed/"+f.name, fmt.Sprintf("data symbol %d changed", i), cs)
			return nil
		}
	}
	for i := 0; i < r; i++ {
		if s := f.ref.Eval(word, f.ref.Pow(gf.Alpha, i+f.base)); s != 0 {
			chk.Violation("C04/rs/encode/syndrome/"+f.name, fmt.Sprintf("syndrome %d of the encoded word is %d", i, s), cs)
			return nil
		}
	}
	par := f.ref.Parity(data, r, f.base)
	for i := 0; i < r; i++ {
		if par[i] != word[k+i] {
			chk.Violation("C04/rs/encode/parity/"+f.name, fmt.Sprintf("parity %v, reference %v", word[k:], par), cs)
			return nil
		}
	}
	return word
}

// oneDecode corrupts a pristine word at pos with magnitudes mag and requires exact restoration.
func oneDecode(l *mc.Local, f field, data []int, r int, pos, mag []int) {
	enc := rs.NewReedSolomonEncoder(f.lib)
	word := encode(l, f, enc, data, r)
	if word == nil {
		return
	}
	decodeWord(l, f, word, len(data), r, pos, mag)
}

func decodeWord(l *mc.Local, f field, word []int, k, r int, pos, mag []int) {
	l.Beat("")
	const guard = -77
	backing := make([]int, len(word)+8)
	for i := range backing {
		backing[i] = guard
	}
	rcv := backing[:len(word)]
	copy(rcv, word)
	for i, p := range pos {
		rcv[p] ^= mag[i]
	}
	var err error
	pm, site := mc.Guard(func() {
		if e := rs.NewReedSolomonDecoder(f.lib).Decode(rcv, r); e != nil {
			err = e
		}
	})
	l.Count("evaluations", 1)
	for i := len(word); i < len(backing); i++ {
		if backing[i] != guard {
			chk.Violation("C04/rs/decode/writes-behind-word/"+f.name, "Decode wrote behind the word it was given", rsCase{f.name, k, r, word[:k], pos, mag})
			return
		}
	}
	cs := rsCase{f.name, k, r, word[:k], pos, mag}
	wclass := fmt.Sprintf("w=%d", len(pos))
	if len(pos) > 2 {
		wclass = "w>2"
	}
	if pm != "" {
		chk.Violation("C04/rs/decode/panic/"+site, pm, cs)
		return
	}
	if err != nil {
		chk.Violation("C04/rs/decode/error/"+f.name+"/"+wclass, fmt.Sprintf("Decode failed with %d <= floor(%d/2) errors: %v", len(pos), r, err), cs)
		return
	}
	for i := range word {
		if rcv[i] != word[i] {
			chk.Violation("C04/rs/decode/wrong/"+f.name+"/"+wclass, fmt.Sprintf("symbol %d not restored (%d errors, r=%d)", i, len(pos), r), cs)
			return
		}
	}
	if len(pos) > 0 {
		l.Distinct("nontrivial", fmt.Sprint(f.name, k, r, pos))
	}
}

func dataFamily(k, size int, rich bool) [][]int {
	var out [][]int
	mk := func(fn func(i int) int) {
		d := make([]int, k)
		for i := range d {
			d[i] = fn(i) % size
		}
		out = append(out, d)
	}
	mk(func(i int) int { return 0 })
	mk(func(i int) int { return size - 1 })
	mk(func(i int) int { return i*7 + 1 })
	if rich {
		for u := 0; u < k; u++ {
			u := u
			mk(func(i int) int {
				if i == u {
					return 1
				}
				return 0
			})
		}
		mk(func(i int) int { return (i*i*31 + 5) })
	}
	return out
}

// combos calls fn for every t-subset of [0,n).
func combos(n, t int, fn func(pos []int)) {
	pos := make([]int, t)
	var rec func(start, d int)
	rec = func(start, d int) {
		if d == t {
			fn(pos)
			return
		}
		for i := start; i <= n-(t-d); i++ {
			pos[d] = i
			rec(i+1, d+1)
		}
	}
	rec(0, 0)
}

func runRS16() {
	f := fields[0]
	type shape struct{ k, r int }
	var shapes []shape
	for k := 1; k <= 14; k++ {
		for r := 1; k+r <= 15; r++ {
			shapes = append(shapes, shape{k, r})
		}
	}
	chk.Range("RS over GF(16): every (k,r) with k+r<=15; all data vectors for k<=2 plus a basis family; ALL error patterns of weight 1 and 2 with all non-zero magnitudes; ALL position sets of every weight 3..floor(r/2) with 3 magnitude menus", len(shapes),
		func(i int) string { return fmt.Sprint(shapes[i]) },
		func(l *mc.Local, i int) {
			s := shapes[i]
			n := s.k + s.r
			t := s.r / 2
			var datas [][]int
			if s.k <= 2 {
				total := 1
				for j := 0; j < s.k; j++ {
					total *= 16
				}
				for v := 0; v < total; v++ {
					d := make([]int, s.k)
					x := v
					for j := range d {
						d[j] = x % 16
						x /= 16
					}
					datas = append(datas, d)
				}
			} else {
				datas = dataFamily(s.k, 16, true)
			}
			enc := rs.NewReedSolomonEncoder(f.lib)
			for di, d := range datas {
				word := encode(l, f, enc, d, s.r)
				if word == nil {
					return
				}
				decodeWord(l, f, word, s.k, s.r, nil, nil)
				if di > 3 && s.k > 2 {
					// error patterns on the first four data words only; the code is linear, so the
					// decoder's behaviour depends on the error pattern, not on the codeword
					continue
				}
				if s.k <= 2 && di%37 != 0 {
					continue
				}
				if t >= 1 {
					for p := 0; p < n; p++ {
						for m := 1; m < 16; m++ {
							decodeWord(l, f, word, s.k, s.r, []int{p}, []int{m})
						}
					}
				}
				if t >= 2 {
					combos(n, 2, func(pos []int) {
						for m1 := 1; m1 < 16; m1++ {
							for m2 := 1; m2 < 16; m2++ {
								decodeWord(l, f, word, s.k, s.r, append([]int{}, pos...), []int{m1, m2})
							}
						}
					})
				}
				for w := 3; w <= t; w++ {
					combos(n, w, func(pos []int) {
						for menu := 0; menu < 3; menu++ {
							mag := make([]int, w)
							for j := range mag {
								switch menu {
								case 0:
									mag[j] = 1
								case 1:
									mag[j] = 15
								case 2:
									mag[j] = 1 + (j*5+pos[j])%15
								}
							}
							decodeWord(l, f, word, s.k, s.r, append([]int{}, pos...), mag)
						}
					})
				}
			}
		})
	chk.Sample("rs16", rsCase{f.name, 4, 6, []int{1, 2, 3, 4}, []int{0, 5, 9}, []int{1, 15, 7}})
}

func posFamilies(n, k, t int) [][]int {
	var out [][]int
	seq := func(start, step int) []int {
		p := make([]int, 0, t)
		for i := 0; i < t; i++ {
			v := start + i*step
			if v >= n {
				return nil
			}
			p = append(p, v)
		}
		return p
	}
	add := func(p []int) {
		if len(p) == t && t > 0 {
			out = append(out, p)
		}
	}
	add(seq(0, 1))
	add(seq(n-t, 1))
	if t > 0 {
		add(seq(0, n/t))
	}
	if k >= t {
		add(seq(k-t, 1)) // data only, adjacent to the parity
	}
	if n-k >= t {
		add(seq(k, 1)) // parity only
	}
	if t >= 2 {
		p := seq(0, 1)
		p[t-1] = n - 1
		add(p)
	}
	return out
}

func runShapes(name string, f field, shapes [][2]int, allMag bool, pairCap int) {
	size := f.ref.Size
	// one job = one chunk of single-error positions of one shape (chunk 0 also does the data
	// family, the position pairs and the full-weight families), so that a few long shapes still
	// spread over all workers
	type job struct{ s, lo, hi int }
	const chunk = 48
	var jobs []job
	for si, sh := range shapes {
		n := sh[0] + sh[1]
		for lo := 0; lo < n; lo += chunk {
			hi := lo + chunk
			if hi > n {
				hi = n
			}
			jobs = append(jobs, job{si, lo, hi})
		}
	}
	chk.Range(name, len(jobs),
		func(i int) string {
			return fmt.Sprint(f.name, shapes[jobs[i].s], " positions ", jobs[i].lo, "..", jobs[i].hi)
		},
		func(l *mc.Local, i int) {
			jb := jobs[i]
			k, r := shapes[jb.s][0], shapes[jb.s][1]
			n := k + r
			t := r / 2
			enc := rs.NewReedSolomonEncoder(f.lib)
			datas := dataFamily(k, size, false)
			var mags []int
			if allMag {
				for m := 1; m < size; m++ {
					mags = append(mags, m)
				}
			} else {
				mags = []int{1, 2, size / 2, size - 1, 0x35 % size, f.ref.Pow(gf.Alpha, 11)}
			}
			for di, d := range datas {
				if di != 2 && jb.lo != 0 {
					continue
				}
				word := encode(l, f, enc, d, r)
				if word == nil {
					return
				}
				if jb.lo == 0 {
					decodeWord(l, f, word, k, r, nil, nil)
				}
				if di != 2 {
					continue
				}
				if t >= 1 {
					for p := jb.lo; p < jb.hi; p++ {
						for _, m := range mags {
							decodeWord(l, f, word, k, r, []int{p}, []int{m})
						}
					}
				}
				if t >= 2 && n <= pairCap {
					// pairs whose first position lies in this chunk
					for p0 := jb.lo; p0 < jb.hi; p0++ {
						for p1 := p0 + 1; p1 < n; p1++ {
							for v := 0; v < 2; v++ {
								decodeWord(l, f, word, k, r, []int{p0, p1}, []int{1 + v*(size-2), 1 + (p0*3+p1+v)%(size-1)})
							}
						}
					}
				}
				if jb.lo == 0 {
					for _, pf := range posFamilies(n, k, t) {
						for menu := 0; menu < 3; menu++ {
							mag := make([]int, len(pf))
							for j := range mag {
								switch menu {
								case 0:
									mag[j] = 1
								case 1:
									mag[j] = size - 1
								case 2:
									mag[j] = 1 + (j*7+pf[j])%(size-1)
								}
							}
							decodeWord(l, f, word, k, r, pf, mag)
						}
					}
				}
				if chk.Expired() {
					return
				}
			}
		})
}

func runRS256() {
	// Block shapes (data, ec) of the Data Matrix size table and of the QR table families, plus
	// extreme shapes. The lists are written from the standards, not read from the library.
	dm := [][2]int{{3, 5}, {5, 7}, {8, 10}, {12, 12}, {18, 14}, {22, 18}, {30, 20}, {36, 24}, {44, 28}, {62, 36}, {86, 42}, {114, 48}, {72, 28}, {102, 42}, {140, 56}, {92, 36}, {144, 56}, {174, 68}, {136, 56}, {175, 68}, {163, 62}, {156, 62}, {155, 62}, {10, 11}, {16, 14}, {32, 24}, {49, 28}, {1, 1}, {1, 2}, {253, 2}, {1, 254}}
	qr := [][2]int{{19, 7}, {16, 10}, {13, 13}, {9, 17}, {34, 10}, {28, 16}, {22, 22}, {16, 28}, {55, 15}, {44, 26}, {17, 18}, {13, 22}, {80, 20}, {32, 18}, {24, 26}, {9, 16}, {108, 26}, {43, 24}, {15, 18}, {11, 22}, {68, 18}, {27, 16}, {19, 24}, {15, 28}, {78, 20}, {31, 18}, {14, 18}, {13, 26}, {97, 24}, {38, 22}, {18, 22}, {14, 26}, {116, 30}, {36, 22}, {16, 20}, {12, 24}, {68, 18}, {43, 26}, {19, 24}, {15, 28}, {81, 20}, {50, 30}, {22, 28}, {12, 24}, {92, 24}, {36, 22}, {20, 26}, {14, 28}, {107, 26}, {37, 22}, {20, 24}, {11, 22}, {115, 30}, {40, 24}, {16, 20}, {12, 24}, {87, 22}, {41, 24}, {24, 30}, {12, 24}, {98, 24}, {45, 28}, {19, 24}, {15, 30}, {107, 28}, {46, 28}, {22, 28}, {14, 28}, {120, 30}, {43, 26}, {22, 28}, {14, 28}, {113, 28}, {44, 26}, {21, 26}, {13, 26}, {116, 28}, {42, 26}, {23, 30}, {15, 28}, {111, 28}, {46, 28}, {24, 30}, {16, 30}, {121, 30}, {47, 28}, {24, 30}, {15, 30}, {117, 30}, {45, 28}, {23, 30}, {16, 30}, {106, 26}, {114, 28}, {122, 30}, {115, 30}, {118, 30}, {1, 1}, {1, 2}, {253, 2}, {1, 254}, {225, 30}}
	quick := chk.Quick()
	if quick {
		dmq := [][2]int{}
		for i, s := range dm {
			if i%3 == 0 || s[0]+s[1] > 200 || s[0] == 1 {
				dmq = append(dmq, s)
			}
		}
		qrq := [][2]int{}
		for i, s := range qr {
			if i%6 == 0 || s[0] == 1 {
				qrq = append(qrq, s)
			}
		}
		runShapes("RS over GF(256)/0x12D base 1 (Data Matrix, Aztec-8): subset of block shapes; all single errors x 6 magnitudes; all position pairs (n<=60) x 2; full-weight families", fields[3], dmq, false, 60)
		runShapes("RS over GF(256)/0x11D base 0 (QR): subset of block shapes; all single errors x 6 magnitudes; all position pairs (n<=60) x 2; full-weight families", fields[2], qrq, false, 60)
	} else {
		runShapes("RS over GF(256)/0x12D base 1 (Data Matrix, Aztec-8): all block shapes; all single errors x all 255 magnitudes; all position pairs x 2; full-weight families", fields[3], dm, true, 255)
		runShapes("RS over GF(256)/0x11D base 0 (QR): all block shapes; all single errors x all 255 magnitudes; all position pairs x 2; full-weight families", fields[2], qr, true, 255)
	}
}

func runAztecShapes() {
	// codeword counts of all 36 Aztec sizes from the layer formula; data count ~ 2/3 and extremes
	ws := func(layers int) int {
		switch {
		case layers <= 2:
			return 6
		case layers <= 8:
			return 8
		case layers <= 22:
			return 10
		}
		return 12
	}
	by := map[int][][2]int{}
	add := func(compact bool, layers int) {
		base := 112
		if compact {
			base = 88
		}
		w := ws(layers)
		n := (base + 16*layers) * layers / w
		ks := []int{1, n * 2 / 3, n - 3}
		if chk.Quick() {
			ks = []int{n * 2 / 3}
		}
		for _, k := range ks {
			if k >= 1 && k < n {
				by[w] = append(by[w], [2]int{k, n - k})
			}
		}
	}
	for l := 1; l <= 4; l++ {
		add(true, l)
	}
	for l := 1; l <= 32; l++ {
		add(false, l)
	}
	sel := func(s [][2]int) [][2]int {
		if !chk.Quick() {
			return s
		}
		var o [][2]int
		for i, v := range s {
			if i%4 == 1 && v[0]+v[1] < 1000 {
				o = append(o, v)
			}
		}
		return o
	}
	pc := chk.Pick(40, 200)
	runShapes(fmt.Sprintf("RS over GF(64): Aztec codeword shapes (layers 1-2); single errors x magnitude menu; position pairs for n<=%d; full-weight families", pc), fields[1], sel(by[6]), !chk.Quick(), pc)
	runShapes(fmt.Sprintf("RS over GF(1024): Aztec codeword shapes (layers 9-22); single errors x magnitude menu; position pairs for n<=%d; full-weight families", pc), fields[4], sel(by[10]), false, pc)
	runShapes(fmt.Sprintf("RS over GF(4096): Aztec codeword shapes (layers 23-32); single errors x magnitude menu; position pairs for n<=%d; full-weight families", pc), fields[5], sel(by[12]), false, pc)
	// mode message codes over GF(16): (2,5) and (4,6) are covered by runRS16
}

// runDecoderHistories: ONE ReedSolomonDecoder object decodes a sequence of damaged words of different
// shapes (parity counts in every order); each result must be what a fresh decoder object gives.
func runDecoderHistories() {
	type shp struct{ k, r int }
	menu := []shp{{5, 2}, {9, 5}, {4, 10}, {6, 7}, {3, 4}}
	type h struct{ f, a, b, c int }
	var hs []h
	for fi := range fields {
		for a := range menu {
			for b := range menu {
				for c := range menu {
					hs = append(hs, h{fi, a, b, c})
				}
			}
		}
	}
	chk.Range("decoder reuse: every sequence of three damaged words with shapes from {(5,2),(9,5),(4,10),(6,7),(3,4)} (floor(r/2) errors each; also one undamaged variant) on ONE decoder object per field: each word restored exactly", len(hs),
		func(i int) string { return fmt.Sprint(hs[i]) },
		func(l *mc.Local, i int) {
			x := hs[i]
			f := fields[x.f]
			for _, clean := range []int{-1, 0, 1} { // index of the call that gets an undamaged word (-1: none)
				dec := rs.NewReedSolomonDecoder(f.lib)
				for ci, mi := range []int{x.a, x.b, x.c} {
					sh := menu[mi]
					if sh.k+sh.r > f.ref.Size-1 {
						continue
					}
					data := make([]int, sh.k)
					for q := range data {
						data[q] = (q*5 + mi + 1) % f.ref.Size
					}
					par := f.ref.Parity(data, sh.r, f.base)
					word := append(append([]int{}, data...), par...)
					rcv := append([]int{}, word...)
					var pos []int
					if ci != clean {
						for e := 0; e < sh.r/2; e++ {
							p := (e*3 + ci) % len(word)
							dup := false
							for _, o := range pos {
								if o == p {
									dup = true
								}
							}
							if !dup {
								pos = append(pos, p)
								rcv[p] ^= 1 + (e+mi)%(f.ref.Size-1)
							}
						}
					}
					var err error
					pm, site := mc.Guard(func() {
						if e := dec.Decode(rcv, sh.r); e != nil {
							err = e
						}
					})
					l.Count("evaluations", 1)
					cs := rsCase{f.name, sh.k, sh.r, data, pos, nil}
					if pm != "" {
						chk.Violation("C04/rs/decode-reuse/panic/"+site, pm, cs)
						return
					}
					bad := err != nil
					for q := range word {
						if rcv[q] != word[q] {
							bad = true
						}
					}
					if bad {
						chk.Violation("C04/rs/decode-reuse/"+f.name, fmt.Sprintf("call %d on a reused decoder object (shapes %v,%v,%v): word with %d <= floor(%d/2) errors not restored (err=%v)", ci+1, menu[x.a], menu[x.b], menu[x.c], len(pos), sh.r, err), cs)
						return
					}
				}
			}
			l.Distinct("nontrivial", fmt.Sprint("dhist", x))
		})
}

// runEncoderHistories: an encoder instance caches generator polynomials; every sequence of
// three Encode calls with parity counts from a menu must give what fresh encoders give.
func runEncoderHistories() {
	menu := []int{1, 2, 5, 7, 10, 3}
	type h struct{ f, a, b, c int }
	var hs []h
	for fi := range fields {
		for _, a := range menu {
			for _, b := range menu {
				for _, c := range menu {
					hs = append(hs, h{fi, a, b, c})
				}
			}
		}
	}
	chk.Range("encoder reuse: every sequence of three parity counts from {1,2,5,7,10,3} on one encoder instance per field", len(hs),
		func(i int) string { return fmt.Sprint(hs[i]) },
		func(l *mc.Local, i int) {
			x := hs[i]
			f := fields[x.f]
			enc := rs.NewReedSolomonEncoder(f.lib)
			for _, r := range []int{x.a, x.b, x.c} {
				if 4+r > f.ref.Size-1 {
					continue
				}
				encode(l, f, enc, []int{1, 0, f.ref.Size - 1, 3}, r)
			}
			l.Distinct("nontrivial", fmt.Sprint("hist", x))
		})
}
