package main

// Algebraically special ERRORS and encoder register states.
//
// (1) Error patterns in the kernel of part of the syndrome map: t' <= floor(r/2) errors whose
//     magnitudes are chosen (by solving a linear system in the reference field) so that t'-1 of
//     the r syndromes vanish - the first t'-1, the last t'-1, or every second one. A random or
//     menu-driven magnitude never does that (probability |F|^-(t'-1)); a decoder that looks at
//     only part of the syndromes, or stops at the first zeros, fails exactly there.
// (2) Encoder register states: data whose division register, after a prefix, is exactly zero,
//     has only its first / only its last cell non-zero, or is constant, followed by zeros and a
//     tail (the prefix's last r symbols are solved for the wanted state). Shortcuts on the
//     register ("skip while empty", "stop when zero") fail exactly there.

import (
	"fmt"

	"verif/mc"
	"verif/ref/gf"

	rs "github.com/makiuchi-d/gozxing/common/reedsolomon"
)

func runSyndromeKernelErrors() {
	type job struct{ f, k, r int }
	var jobs []job
	for fi, f := range fields {
		for _, sh := range [][2]int{{6, 4}, {5, 6}, {10, 10}, {20, 18}, {14, 22}, {30, 30}, {40, 68}} {
			if sh[0]+sh[1] <= f.ref.Size-1 {
				jobs = append(jobs, job{fi, sh[0], sh[1]})
			}
		}
	}
	chk.Range("errors in the kernel of part of the syndrome map: 6 fields x code shapes {(10,6),(11,5),(20,10),(38,20),(36,14),(60,30),(108,40)} that fit x every error count t' = 2..floor(r/2) x 3 position families x syndrome subsets {first t'-1, last t'-1, every second, top and every second below it, top two and every second below, lowest and every second above}: each word must be restored exactly", len(jobs),
		func(i int) string { return fmt.Sprint(jobs[i]) },
		func(l *mc.Local, i int) {
			j := jobs[i]
			f := fields[j.f]
			n := j.k + j.r
			data := make([]int, j.k)
			for q := range data {
				data[q] = (q*11 + 3) % f.ref.Size
			}
			for tp := 2; tp <= j.r/2; tp++ {
				posFams := [][]int{nil, nil, nil}
				for e := 0; e < tp; e++ {
					posFams[0] = append(posFams[0], e)
					posFams[1] = append(posFams[1], n-tp+e)
					posFams[2] = append(posFams[2], (e*(n-1))/(tp-1+boolInt(tp == 1)))
				}
				for pf, pos := range posFams {
					if !distinct(pos) {
						continue
					}
					rowSets := [][]int{nil, nil, nil, nil, nil, nil}
					for q := 0; q < tp-1; q++ {
						rowSets[0] = append(rowSets[0], q)
						rowSets[1] = append(rowSets[1], j.r-(tp-1)+q)
						rowSets[2] = append(rowSets[2], (2*q)%j.r)
						// shapes of the FIRST quotient of the Euclidean run, x^r divided by the syndrome
						// polynomial: the top syndrome zero (quotient of degree 2) and every second one
						// below it zero (its middle coefficient zero, the next one not), and the top two
						// zero and then every second (degree 3 with an inner zero)
						rowSets[3] = append(rowSets[3], j.r-1-2*q)
						if q < 2 {
							rowSets[4] = append(rowSets[4], j.r-1-q)
						} else {
							rowSets[4] = append(rowSets[4], j.r-2*q)
						}
						// the lowest syndrome zero and every second above it
						rowSets[5] = append(rowSets[5], 2*q)
					}
					for si := 3; si < 6; si++ {
						for _, row := range rowSets[si] {
							if row < 0 || row >= j.r {
								rowSets[si] = []int{0, 0} // not distinct: skipped below
							}
						}
					}
					for rsI, rows := range rowSets {
						if !distinct(rows) {
							continue
						}
						l.Beat("")
						mag := f.ref.KernelErrors(n, pos, rows, f.base)
						if mag == nil {
							l.Count("kernel_system_singular", 1)
							continue
						}
						zero := false
						for _, m := range mag {
							if m == 0 {
								zero = true
							}
						}
						if zero {
							l.Count("kernel_vector_with_zero_magnitude", 1)
							continue
						}
						oneDecode(l, f, data, j.r, pos, mag)
						l.Distinct("nontrivial", fmt.Sprint("kernel", f.name, j.k, j.r, tp, pf, rsI))
					}
				}
			}
		})
}

func boolInt(b bool) int {
	if b {
		return 1
	}
	return 0
}

func distinct(v []int) bool {
	seen := map[int]bool{}
	for _, x := range v {
		if seen[x] {
			return false
		}
		seen[x] = true
	}
	return true
}

func runRegisterStates() {
	type job struct{ f, r, a, kind, z int }
	var jobs []job
	for fi := range fields {
		for _, r := range []int{2, 5, 7, 10, 14} {
			for _, a := range []int{1, 3, r} {
				for kind := 0; kind < 4; kind++ {
					for _, z := range []int{0, 1, 2, r} {
						jobs = append(jobs, job{fi, r, a, kind, z})
					}
				}
			}
		}
	}
	chk.Range("encoder register states: 6 fields x parity counts {2,5,7,10,14} x prefix lengths {1,3,r}+r x register state after the prefix {all zero, only the first cell non-zero, only the last cell non-zero, constant} x {0,1,2,r} zero symbols and a tail after it: Encode == reference parity", len(jobs),
		func(i int) string { return fmt.Sprint(jobs[i]) },
		func(l *mc.Local, i int) {
			j := jobs[i]
			f := fields[j.f]
			if j.a+j.r+j.z+3+j.r > f.ref.Size-1 {
				return
			}
			prefix := make([]int, j.a)
			for q := range prefix {
				prefix[q] = (q*17 + 66) % f.ref.Size
				if prefix[q] == 0 {
					prefix[q] = 1
				}
			}
			target := make([]int, j.r)
			switch j.kind {
			case 1:
				target[0] = 1 + 76%(f.ref.Size-1)
			case 2:
				target[j.r-1] = 1 + 33%(f.ref.Size-1)
			case 3:
				for q := range target {
					target[q] = 1 + 5%(f.ref.Size-1)
				}
			}
			u := f.ref.TailForParity(prefix, j.r, f.base, target)
			data := append(append([]int{}, prefix...), u...)
			if got := f.ref.Parity(data, j.r, f.base); fmt.Sprint(got) != fmt.Sprint(target) {
				panic("harness: TailForParity does not reach the wanted register state")
			}
			for q := 0; q < j.z; q++ {
				data = append(data, 0)
			}
			data = append(data, 115%f.ref.Size, 0, 117%f.ref.Size)
			if encode(l, f, rs.NewReedSolomonEncoder(f.lib), data, j.r) != nil {
				l.Distinct("nontrivial", fmt.Sprint("regstate", f.name, j.r, j.a, j.kind, j.z))
			}
		})
}

// runLookalikeSyndromes: error patterns whose FIRST j syndromes are exactly those of one single
// error (a geometric progression e*X^(i+base)) although j+1 symbols are wrong. A decoder that
// recognises "a single error" from a prefix of the syndromes, or an iteration that stops when a
// partial discrepancy sequence vanishes, is wrong exactly there; with random magnitudes the
// probability is |F|^-(j-1). The j+1 magnitudes are solved in the reference field: j linear
// conditions, the last magnitude fixed to 1. X is the locator of a position that is NOT in error
// (and, second variant, of the first wrong position).
func runLookalikeSyndromes() {
	type job struct{ f, k, r int }
	var jobs []job
	for fi, f := range fields {
		for _, sh := range [][2]int{{6, 6}, {10, 10}, {12, 16}, {20, 18}, {14, 22}, {30, 30}} {
			if sh[0]+sh[1] <= f.ref.Size-1 {
				jobs = append(jobs, job{fi, sh[0], sh[1]})
			}
		}
	}
	chk.Range("errors whose first j syndromes look like ONE error: 6 fields x code shapes {(12,6),(20,10),(28,12),(38,20),(36,14),(60,30)} that fit x every j = 1..min(12, floor(r/2)-1) x 3 position families x {locator of an undamaged position, of the first damaged one}: j+1 errors, each word must be restored exactly", len(jobs),
		func(i int) string { return fmt.Sprint(jobs[i]) },
		func(l *mc.Local, i int) {
			jb := jobs[i]
			f := fields[jb.f]
			F := f.ref
			n := jb.k + jb.r
			data := make([]int, jb.k)
			for q := range data {
				data[q] = (q*13 + 5) % F.Size
			}
			for j := 1; j <= 12 && j+1 <= jb.r/2; j++ {
				tp := j + 1
				posFams := [][]int{nil, nil, nil}
				for e := 0; e < tp; e++ {
					posFams[0] = append(posFams[0], e)
					posFams[1] = append(posFams[1], n-tp+e)
					posFams[2] = append(posFams[2], (e*(n-1))/(tp-1))
				}
				for pf, pos := range posFams {
					if !distinct(pos) {
						continue
					}
					inErr := map[int]bool{}
					for _, p := range pos {
						inErr[p] = true
					}
					free := -1
					for p := n / 2; p < n; p++ {
						if !inErr[p] {
							free = p
							break
						}
					}
					for variant, xp := range []int{free, pos[0]} {
						if xp < 0 {
							continue
						}
						X := F.Pow(gf.Alpha, n-1-xp)
						loc := make([]int, tp)
						for q, p := range pos {
							loc[q] = F.Pow(gf.Alpha, n-1-p)
						}
						// sum_k m_k * loc_k^(i+base) = X^(i+base), i = 0..j-1, with m_{tp-1} = 1
						A := make([][]int, j)
						b := make([]int, j)
						for row := 0; row < j; row++ {
							A[row] = make([]int, j)
							for q := 0; q < j; q++ {
								A[row][q] = F.Pow(loc[q], row+f.base)
							}
							b[row] = F.Pow(X, row+f.base) ^ F.Pow(loc[tp-1], row+f.base)
						}
						m, ok := F.Solve(A, b)
						if !ok {
							l.Count("lookalike_system_singular", 1)
							continue
						}
						mag := append(m, 1)
						zero := false
						for _, v := range mag {
							if v == 0 {
								zero = true
							}
						}
						if zero {
							l.Count("lookalike_vector_with_zero_magnitude", 1)
							continue
						}
						oneDecode(l, f, data, jb.r, pos, mag)
						l.Count("lookalike_words", 1)
						l.Distinct("nontrivial", fmt.Sprint("lookalike", f.name, jb.k, jb.r, j, pf, variant))
					}
				}
			}
		})
}

// runCosetErrors: e errors at positions p, p+s, p+2s, ... with s = (|F|-1)/e. Their locators form a
// coset of the e-th roots of unity, so the error-locator polynomial is 1 + c*x^e whatever the
// magnitudes are: a polynomial of degree e with ONE non-constant term. Root searches and shortcuts
// that count terms instead of the degree, or step through the non-zero terms only, meet their
// sparsest input here. Every divisor e of |F|-1 with 2 <= e <= 40, three start positions, three
// magnitude sets, in the full-length code with 2e + 2 parity symbols.
func runCosetErrors() {
	type job struct{ f, e int }
	var jobs []job
	for fi, f := range fields {
		for e := 2; e <= 40; e++ {
			if (f.ref.Size-1)%e == 0 && 2*e+2 < f.ref.Size-1 {
				jobs = append(jobs, job{fi, e})
			}
		}
	}
	chk.Range("errors whose locators are a coset of roots of unity (locator polynomial 1 + c*x^e, one non-constant term): 6 fields x every divisor e of |F|-1 in 2..40 x start positions {0, 1, s-1} x 3 magnitude sets, full-length code with 2e+2 parity symbols; and TWO such cosets together (4e+2 parity symbols, equal magnitudes inside each coset / everywhere / mixed: every Euclidean quotient has degree e): each word must be restored exactly", len(jobs),
		func(i int) string { return fmt.Sprint(fields[jobs[i].f].name, " e=", jobs[i].e) },
		func(l *mc.Local, i int) {
			j := jobs[i]
			f := fields[j.f]
			n := f.ref.Size - 1
			r := 2*j.e + 2
			k := n - r
			s := n / j.e
			data := make([]int, k)
			for q := range data {
				data[q] = (q*17 + 9) % f.ref.Size
			}
			enc := rs.NewReedSolomonEncoder(f.lib)
			word := encode(l, f, enc, data, r)
			if word == nil {
				return
			}
			for _, p0 := range []int{0, 1, s - 1} {
				pos := make([]int, j.e)
				for q := range pos {
					pos[q] = p0 + q*s
				}
				for ms := 0; ms < 3; ms++ {
					mag := make([]int, j.e)
					for q := range mag {
						switch ms {
						case 0:
							mag[q] = 1
						case 1:
							mag[q] = f.ref.Size - 1
						default:
							mag[q] = 1 + (q*29+p0*7+3)%(f.ref.Size-1)
						}
					}
					decodeWord(l, f, word, k, r, pos, mag)
					l.Count("coset_error_words", 1)
				}
			}
			l.Distinct("nontrivial", fmt.Sprint("coset", f.name, j.e))
			// TWO cosets, equal magnitudes inside each: the syndrome polynomial has non-zero
			// coefficients only at multiples of e, every Euclidean quotient has degree e and is as
			// sparse, and so are the intermediate locator polynomials they are multiplied with - long
			// polynomials full of zero coefficients on both sides of every product
			if 4*j.e+2 < n {
				r2 := 4*j.e + 2
				k2 := n - r2
				data2 := make([]int, k2)
				for q := range data2 {
					data2[q] = (q*23 + 1) % f.ref.Size
				}
				word2 := encode(l, f, rs.NewReedSolomonEncoder(f.lib), data2, r2)
				if word2 == nil {
					return
				}
				for _, gap := range []int{1, 2, s / 2} {
					if gap <= 0 || gap >= s {
						continue
					}
					pos := make([]int, 0, 2*j.e)
					for q := 0; q < j.e; q++ {
						pos = append(pos, q*s, gap+q*s)
					}
					for ms := 0; ms < 3; ms++ {
						mag := make([]int, len(pos))
						for q := range mag {
							switch ms {
							case 0: // the same magnitude everywhere
								mag[q] = 1
							case 1: // one magnitude per coset
								mag[q] = []int{3, f.ref.Size - 2}[q%2]
							default:
								mag[q] = 1 + (q*31+gap*5)%(f.ref.Size-1)
							}
						}
						decodeWord(l, f, word2, k2, r2, pos, mag)
						l.Count("double_coset_words", 1)
					}
				}
			}
		})
}
