//go:build !verif || blackbox

package main

const haveStepper = false

// Black-box build: no pre-screening. A non-terminating EncodeHighLevel call is then reported by
// the engine's watchdog (and ends the run); wrong symbols are classified from the codewords only.
func prescreen(t string, h hints) pre { return pre{} }
