package main

// Mode trace of a data codeword stream: which encodation every codeword is read in, following
// only the latch / unlatch / length-field rules of ISO/IEC 16022 (no character is decoded here;
// the text oracles are ref/dm.DecodeStream and the library's own decoders). The trace is the
// coverage measure of the exploration and the input of the violation classifier.

const (
	mASCII = iota
	mC40
	mText
	mX12
	mEDIFACT
	mB256
	mPad
)

var modeLetter = [...]byte{'a', 'C', 'T', 'X', 'E', 'B', 'p'}

// keyMode names a mode in violation keys; C40 and Text share one encoder implementation.
func keyMode(m int) string {
	switch m {
	case mASCII:
		return "ascii"
	case mC40, mText:
		return "c40text"
	case mX12:
		return "x12"
	case mEDIFACT:
		return "edifact"
	case mB256:
		return "base256"
	}
	return "pad"
}

type traceInfo struct {
	trace      string // e.g. "M5 E u T u B": latches in order, 'u' = explicit unlatch, 'e' = segment ran to the end of the symbol
	cwMode     []byte // reading mode of every codeword (latch codewords count as ASCII)
	b256ToEnd  bool   // a Base 256 segment used the "until the end of the symbol" length 0
	padStart   int    // index of the first pad codeword, len(cw) if none
	latches    int
	lastLatch  int // mode of the last latch, mASCII if none
	upperShift bool
}

func walk(cw []byte) traceInfo {
	n := len(cw)
	ti := traceInfo{cwMode: make([]byte, n), padStart: n}
	tr := make([]byte, 0, 16)
	i := 0
	for i < n {
		c := cw[i]
		ti.cwMode[i] = mASCII
		i++
		switch c {
		case 129:
			ti.padStart = i - 1
			for k := i - 1; k < n; k++ {
				ti.cwMode[k] = mPad
			}
			i = n
		case 230, 239, 238:
			m := mC40
			if c == 239 {
				m = mText
			} else if c == 238 {
				m = mX12
			}
			tr = append(tr, modeLetter[m])
			ti.latches++
			ti.lastLatch = m
			for {
				if i >= n {
					tr = append(tr, 'e')
					break
				}
				if cw[i] == 254 {
					ti.cwMode[i] = byte(m)
					i++
					tr = append(tr, 'u')
					break
				}
				if n-i == 1 {
					tr = append(tr, 'e')
					break
				}
				ti.cwMode[i], ti.cwMode[i+1] = byte(m), byte(m)
				i += 2
			}
		case 240:
			tr = append(tr, 'E')
			ti.latches++
			ti.lastLatch = mEDIFACT
		edifact:
			for {
				if n-i <= 2 {
					tr = append(tr, 'e')
					break
				}
				// four 6-bit values in three codewords
				v := uint32(cw[i])<<16 | uint32(cw[i+1])<<8 | uint32(cw[i+2])
				for k := 0; k < 4; k++ {
					if (v>>(18-6*uint(k)))&0x3f == 0x1f {
						used := (6*(k+1) + 7) / 8
						for j := 0; j < used; j++ {
							ti.cwMode[i+j] = mEDIFACT
						}
						i += used
						tr = append(tr, 'u')
						break edifact
					}
				}
				ti.cwMode[i], ti.cwMode[i+1], ti.cwMode[i+2] = mEDIFACT, mEDIFACT, mEDIFACT
				i += 3
			}
		case 231:
			tr = append(tr, 'B')
			ti.latches++
			ti.lastLatch = mB256
			if i >= n {
				break
			}
			d1 := unrand255(cw[i], i+1)
			ti.cwMode[i] = mB256
			i++
			count := 0
			switch {
			case d1 == 0:
				count = n - i
				ti.b256ToEnd = true
				tr = append(tr, 'e')
			case d1 < 250:
				count = d1
			default:
				if i < n {
					count = 250*(d1-249) + unrand255(cw[i], i+1)
					ti.cwMode[i] = mB256
					i++
				}
			}
			for k := 0; k < count && i < n; k++ {
				ti.cwMode[i] = mB256
				i++
			}
		case 235:
			ti.upperShift = true
			if i < n {
				ti.cwMode[i] = mASCII
				i++
			}
		case 236, 237:
			if i == 1 {
				tr = append(tr, 'M', '5'+c-236)
			}
		}
	}
	ti.trace = string(tr)
	return ti
}

func unrand255(v byte, position int) int {
	t := int(v) - ((149*position)%255 + 1)
	if t < 0 {
		t += 256
	}
	return t
}
