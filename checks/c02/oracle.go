package main

import (
	"bytes"
	"fmt"
	"image"
	"os"
	"sort"
	"strconv"
	"strings"
	"sync"
	"sync/atomic"
	"time"
	"unicode/utf8"

	"verif/mc"
	"verif/ref/dm"

	"github.com/makiuchi-d/gozxing"
	"github.com/makiuchi-d/gozxing/common"
	"github.com/makiuchi-d/gozxing/datamatrix"
	dmdec "github.com/makiuchi-d/gozxing/datamatrix/decoder"
	dmenc "github.com/makiuchi-d/gozxing/datamatrix/encoder"
)

// ------------------------------------------------------------------ hints

// hints is one configuration of the three Data Matrix encode hints; 0 = hint absent.
type hints struct {
	Shape      int // 0 none, 1 square, 2 rectangle
	MinR, MinC int // MIN_SIZE rows x cols
	MaxR, MaxC int // MAX_SIZE rows x cols
}

func (h hints) none() bool { return h == hints{} }

func (h hints) String() string {
	if h.none() {
		return ""
	}
	s := " shape=" + [...]string{"none", "square", "rectangle"}[h.Shape]
	if h.MinR != 0 {
		s += fmt.Sprintf(" min=%dx%d", h.MinR, h.MinC)
	}
	if h.MaxR != 0 {
		s += fmt.Sprintf(" max=%dx%d", h.MaxR, h.MaxC)
	}
	return s
}

func (h hints) args() (dmenc.SymbolShapeHint, *gozxing.Dimension, *gozxing.Dimension) {
	var min, max *gozxing.Dimension
	if h.MinR != 0 {
		min, _ = gozxing.NewDimension(h.MinC, h.MinR)
	}
	if h.MaxR != 0 {
		max, _ = gozxing.NewDimension(h.MaxC, h.MaxR)
	}
	return dmenc.SymbolShapeHint(h.Shape), min, max
}

func (h hints) mapHints() map[gozxing.EncodeHintType]interface{} {
	m := map[gozxing.EncodeHintType]interface{}{}
	shape, min, max := h.args()
	if h.Shape != 0 {
		m[gozxing.EncodeHintType_DATA_MATRIX_SHAPE] = shape
	}
	if min != nil {
		m[gozxing.EncodeHintType_MIN_SIZE] = min
	}
	if max != nil {
		m[gozxing.EncodeHintType_MAX_SIZE] = max
	}
	return m
}

// admits is the property's reading of the hints, independent of the library: the shape is the
// requested one and min <= size <= max holds in both dimensions.
func (h hints) admits(s dm.Symbol) (bool, string) {
	if h.Shape == 1 && s.Rect || h.Shape == 2 && !s.Rect {
		return false, "shape"
	}
	if h.MinR != 0 && (s.Rows < h.MinR || s.Cols < h.MinC) {
		return false, "min"
	}
	if h.MaxR != 0 && (s.Rows > h.MaxR || s.Cols > h.MaxC) {
		return false, "max"
	}
	return true, ""
}

// symbolFor is the first symbol (ascending capacity, square before rectangle) of exactly the
// given capacity that the hints admit.
func symbolFor(ncw int, h hints) (dm.Symbol, bool) {
	for _, s := range dm.Symbols {
		if s.DataCW == ncw {
			if ok, _ := h.admits(s); ok {
				return s, true
			}
		}
	}
	return dm.Symbol{}, false
}

func isCapacity(ncw int) bool {
	for _, s := range dm.Symbols {
		if s.DataCW == ncw {
			return true
		}
	}
	return false
}

// ------------------------------------------------------------------ text helpers

func isLatin1(t string) bool {
	for _, r := range t {
		if r > 0xFF {
			return false
		}
	}
	return true
}

// latin1Bytes is the ISO-8859-1 encoding of t (t must be Latin-1).
func latin1Bytes(t string) []byte {
	b := make([]byte, 0, len(t))
	for _, r := range t {
		b = append(b, byte(r))
	}
	return b
}

// lenient reads a decoder result in which some characters may have been appended as raw
// ISO-8859-1 bytes and others as UTF-8: a well-formed multi-byte sequence for a rune <= U+00FF is
// that rune, any other byte is the character with that value. (With the alphabets used here the
// two readings never collide: no input contains 0xC2/0xC3 followed by 0x80..0xBF as characters.)
func lenient(s string) string {
	ascii := true
	for i := 0; i < len(s); i++ {
		if s[i] >= 0x80 {
			ascii = false
			break
		}
	}
	if ascii {
		return s
	}
	var sb strings.Builder
	for i := 0; i < len(s); {
		r, n := utf8.DecodeRuneInString(s[i:])
		if n > 1 && r <= 0xFF {
			sb.WriteRune(r)
			i += n
			continue
		}
		sb.WriteRune(rune(s[i]))
		i++
	}
	return sb.String()
}

// asciiCodewords is the length of the plain ASCII encodation (digit pairs, upper shift): an
// upper bound on what any correct encoder needs, used for the weakest "fits" claim.
func asciiCodewords(t string) int {
	b := latin1Bytes(t)
	n := 0
	for i := 0; i < len(b); i++ {
		switch {
		case b[i] >= '0' && b[i] <= '9' && i+1 < len(b) && b[i+1] >= '0' && b[i+1] <= '9':
			n++
			i++
		case b[i] >= 128:
			n += 2
		default:
			n++
		}
	}
	return n
}

// fitsLargest: the text provably fits the largest symbol (1558 data codewords): either in plain
// ASCII encodation, or as ONE Base 256 run over the whole text (latch + length field of 1 codeword
// up to 249 bytes, else 2 - or the single length codeword 0 when the run ends exactly with the
// symbol). Both are encodations every text of that length has; a correct encoder needs no more.
func fitsLargest(t string) (bool, string) {
	if a := asciiCodewords(t); a <= 1558 {
		return true, fmt.Sprintf("even in plain ASCII encodation (%d codewords)", a)
	}
	for _, m := range []string{"05", "06"} {
		hdr := "[)>\x1e" + m + "\x1d"
		if strings.HasPrefix(t, hdr) && strings.HasSuffix(t, "\x1e\x04") && len(t) >= len(hdr)+2 {
			if a := 1 + asciiCodewords(t[len(hdr):len(t)-2]); a <= 1558 {
				return true, fmt.Sprintf("as a %s macro (one codeword for the envelope) with the body in plain ASCII encodation (%d codewords)", m, a)
			}
		}
	}
	n := len(latin1Bytes(t))
	switch {
	case n <= 249 && n+2 <= 1558, n+3 <= 1558:
		return true, fmt.Sprintf("as one Base 256 run (latch + length field + %d bytes)", n)
	case n+2 == 1558:
		return true, "as one Base 256 run that ends with the symbol (latch + length codeword 0 + 1556 bytes = 1558 codewords)"
	}
	return false, ""
}

func fitsYes(t string) bool { ok, _ := fitsLargest(t); return ok }

func q(s string) string { return strconv.QuoteToASCII(s) }

// show quotes a text for messages; long homogeneous runs are written as "c"xN.
func show(s string) string {
	rs := []rune(s)
	if len(rs) <= 40 {
		return q(s)
	}
	var parts []string
	lit := []rune{}
	flush := func() {
		if len(lit) > 0 {
			parts = append(parts, q(string(lit)))
			lit = lit[:0]
		}
	}
	for i := 0; i < len(rs); {
		j := i
		for j < len(rs) && rs[j] == rs[i] {
			j++
		}
		if j-i >= 8 {
			flush()
			parts = append(parts, q(string(rs[i]))+"x"+strconv.Itoa(j-i))
		} else {
			lit = append(lit, rs[i:j]...)
		}
		i = j
	}
	flush()
	return clip(strings.Join(parts, "+"))
}

func clip(s string) string {
	if len(s) > 160 {
		return s[:150] + "…(" + strconv.Itoa(len(s)) + " bytes)"
	}
	return s
}

// ------------------------------------------------------------------ pre-screen data

type step struct {
	mode, p0, p1, c0, c1 int
	err                  error
}

type pre struct {
	avail    bool // the white-box stepper ran
	livelock bool
	proven   bool // livelock shown by an unchanged complete state (otherwise: step limit)
	ctxErr   error
	steps    []step
	cws      []byte
}

// errText prints an error with its whole chain (gozxing exceptions format their cause only
// through fmt).
func errText(e error) string {
	if e == nil {
		return "<nil>"
	}
	return strings.Join(strings.Fields(fmt.Sprint(e)), " ")
}

func errClass(e error) string {
	if e == nil {
		return "no-error"
	}
	return errClassText(errText(e))
}

func errClassText(s string) string {
	switch {
	case strings.Contains(s, "Illegal character"):
		return "illegal-char"
	case strings.Contains(s, "Can't find a symbol arrangement"):
		return "no-symbol"
	case strings.Contains(s, "Unexpected case"):
		return "unexpected-case"
	}
	return "other"
}

// ------------------------------------------------------------------ known findings

var knownKeys = map[string]bool{}

func loadKnown() {
	b, err := os.ReadFile(mc.VerifDir + "/known_findings.txt")
	if err != nil {
		return
	}
	for _, ln := range strings.Split(string(b), "\n") {
		ln = strings.TrimSpace(ln)
		const pfx = "known: property=C02 key="
		if strings.HasPrefix(ln, pfx) {
			k := strings.TrimPrefix(ln, pfx)
			if i := strings.IndexByte(k, ' '); i > 0 {
				k = k[:i]
			}
			knownKeys[k] = true
		}
	}
}

// knownHangs: exact inputs on which EncodeHighLevel (no hints) does not return. They matter only
// in a build without the white-box stepper, which otherwise recognises every such input itself:
// they are skipped — and reported under the key below — only when that key is listed in
// known_findings.txt; otherwise they are executed and the engine's watchdog reports the hang.
const hangKey = "C02/hang/edifact-illegal-char"

var knownHangs = map[string]bool{
	"\\@^\\[=@/5q  :![0\"3": true,
	"A#Y#B1\\*0*Y\r0:C>/@":  true,
	"@@@@@@@@a   @@@@@@":    true,
	"@@@@@@@@\rAAAA@@@@@":   true,
	"@@@@@@@@1 a1@@@@@@":    true,
	"@@@@@@@@1A\r1A@@@@@":   true,
	"@@@@@@@@ a  @@@@@@":    true,
	"@@@@@@@@A\rAAA@@@@@":   true,
	"@@@@@@@@AA\rAA@@@@@":   true,
	"@@@@@@@@AAA\rA@@@@@":   true,
	"@@@@@@@@  a @@@@@@":    true,
	"@@@@@@@@   a@@@@@@":    true,
	"@@@@@@@@a1 1@@@@@@":    true,
	"@@@@@@@@1a1 @@@@@@":    true,
	"@@@@@@@@1 1a@@@@@@":    true,
	"@@@@@@@@\r1A1A@@@@@":   true,
	"@@@@@@@@1\r1A1@@@@@":   true,
	"@@@@@@@@1A1\r1@@@@@":   true,
	"A@A@A1@*1*A\r1@A>@@":   true,
	"@@^@@@@@1a  @!@1@1":    true,
}

// ------------------------------------------------------------------ one case

const (
	lvStream = 0 // EncodeHighLevel + both stream decoders
	lvMatrix = 1 // + writer -> module matrix -> Decoder.Decode, and -> image -> reader in pure-barcode mode
)

type rcase struct {
	Sub    string
	Text   string // the Go string handed to the library
	Quoted string
	Hints  hints
	Level  int
}

type result struct {
	hang    bool
	refused bool // the encoder returned an error
	errText string
	ncw     int
	sym     dm.Symbol // symbol of the returned stream (zero if refused)
	bad     bool      // a violation was reported for this case
}

var verbose bool

var confirmMu sync.Mutex
var confirmState = map[string]int{}

// violate reports one violating case. The description is built only for the first case of a
// key (the engine prints and stores only that one); later cases of the key are just counted.
func violate(l *mc.Local, r *result, key string, what func() string, rc rcase) {
	r.bad = true
	l.Distinct("outcomes", "violation:"+key)
	noteMinimal(key, rc)
	l.Count("violating_cases", 1)
	v, seen := reported.LoadOrStore(key, new(int32))
	flag := v.(*int32)
	if seen && !verbose {
		if atomic.LoadInt32(flag) != 0 { // the first case of the key has been handed to the engine
			chk.Violation(key, "", nil)
		}
		return
	}
	w := what()
	chk.Violation(key, w, rc)
	atomic.StoreInt32(flag, 1)
	if verbose {
		fmt.Printf("  -> %s: %s\n", key, w)
	}
}

var reported sync.Map
var sampled sync.Map // traces of which an ordinary round trip has been put into the evidence file

// The engine keeps the first case of every key; in addition the shortest violating input of
// every key (ties: fewer hints, then lexicographic) is tracked and listed at the end of the run.
type minEntry struct {
	mu sync.Mutex
	n  int64 // length of the best input so far (atomic read for the fast path)
	rc rcase
}

var minimal sync.Map // key -> *minEntry

func hintWeight(h hints) int {
	w := 0
	if h.Shape != 0 {
		w++
	}
	if h.MinR != 0 {
		w++
	}
	if h.MaxR != 0 {
		w++
	}
	return w
}

func noteMinimal(key string, rc rcase) {
	n := int64(len(rc.Text))*4 + int64(hintWeight(rc.Hints))
	v, ok := minimal.Load(key)
	if !ok {
		v, _ = minimal.LoadOrStore(key, &minEntry{n: 1 << 62})
	}
	e := v.(*minEntry)
	if n > atomic.LoadInt64(&e.n) {
		return
	}
	e.mu.Lock()
	if n < e.n || n == e.n && rc.Text < e.rc.Text {
		atomic.StoreInt64(&e.n, n)
		e.rc = rc
	}
	e.mu.Unlock()
}

// reportMinimal prints and records the shortest violating input per key.
func reportMinimal() {
	var keys []string
	minimal.Range(func(k, v interface{}) bool { keys = append(keys, k.(string)); return true })
	sort.Strings(keys)
	for _, k := range keys {
		v, _ := minimal.Load(k)
		e := v.(*minEntry)
		line := fmt.Sprintf("shortest input for %s: %s%s (family %s)", k, q(e.rc.Text), e.rc.Hints, e.rc.Sub)
		if len(e.rc.Text) > 60 {
			line = fmt.Sprintf("shortest input for %s: %s%s (family %s)", k, show(e.rc.Text), e.rc.Hints, e.rc.Sub)
		}
		fmt.Println("  " + line)
		chk.Note(line)
	}
}

// realCallReturns runs the real EncodeHighLevel on an input the stepper regards as a livelock,
// in a goroutine that cannot be stopped (if the call really never returns it keeps one core busy
// until the process exits), and reports whether it came back within five seconds — a million
// times the normal cost of such a call.
func realCallReturns(l *mc.Local, t string, h hints) bool {
	done := make(chan struct{})
	go func() {
		defer func() { recover(); close(done) }()
		shape, min, max := h.args()
		dmenc.EncodeHighLevel(t, shape, min, max)
	}()
	l.Count("transitions", 1)
	l.Count("evaluations", 1)
	for w := 0; w < 5; w++ {
		l.Beat("confirming livelock of EncodeHighLevel on " + show(t) + h.String())
		select {
		case <-done:
			return true
		case <-time.After(time.Second):
		}
	}
	return false
}

// The stepper goes on after an encoder error, as EncodeHighLevel's dispatch loop originally
// did. Whether the library under test still does is found out once, on the first input on which
// it matters (a step that returns an error and leaves the state unchanged): if the real call
// returns, the library propagates encoder errors and such inputs are evaluated normally.
var (
	policyOnce     sync.Once
	policyDiscards bool
	policyInput    string
)

func libraryDiscardsErrors(l *mc.Local, t string, h hints) bool {
	policyOnce.Do(func() {
		policyDiscards = !realCallReturns(l, t, h)
		policyInput = show(t) + h.String()
		if policyDiscards {
			chk.Note("EncodeHighLevel discards the errors of the mode encoders (established on " + policyInput + ": the real call was still running after 5 s); inputs with a proven livelock are reported without being executed")
		} else {
			chk.Note("EncodeHighLevel propagates the errors of the mode encoders (established on " + policyInput + ")")
		}
	})
	return policyDiscards
}

// isLivelock decides whether the pre-screened input must not be handed to the real entry point.
func isLivelock(l *mc.Local, t string, h hints, p pre) bool {
	if !p.avail || !p.livelock {
		return false
	}
	last := p.steps[len(p.steps)-1]
	if last.err == nil {
		return true // no error involved: the state repetition alone proves it
	}
	return libraryDiscardsErrors(l, t, h)
}

func reportHang(l *mc.Local, r *result, t string, h hints, p pre, rc rcase) {
	last := p.steps[len(p.steps)-1]
	key := "C02/hang/" + keyMode(last.mode) + "-" + errClass(last.err)
	what := func() string {
		how := "state unchanged by a dispatch step"
		if !p.proven {
			how = fmt.Sprintf("%d dispatch steps without reaching the end", len(p.steps))
		}
		if last.err == nil {
			return fmt.Sprintf("EncodeHighLevel(%s%s) never returns: the %s encoder at input position %d neither consumes input nor writes codewords nor changes mode (%s)",
				show(t), h, keyMode(last.mode), last.p0, how)
		}
		return fmt.Sprintf("EncodeHighLevel(%s%s) never returns: the %s encoder at input position %d returns the error %q, the dispatch loop discards it and calls the same encoder on the same state again (%s; the real call on %s was still running after 5 s)",
			show(t), h, keyMode(last.mode), last.p0, errText(last.err), how, policyInput)
	}
	if last.err == nil {
		confirmMu.Lock()
		first := confirmState[key] == 0
		confirmState[key] = 1
		confirmMu.Unlock()
		if first && realCallReturns(l, t, h) {
			violate(l, r, "C02/harness/livelock-predicted-but-call-returned", func() string {
				return "stepper predicted a livelock but EncodeHighLevel returned: " + show(t) + h.String()
			}, rc)
			return
		}
	}
	l.Count("livelock_inputs_not_executed", 1)
	violate(l, r, key, what, rc)
}

func grayOf(m *gozxing.BitMatrix) *image.Gray {
	w, h := m.GetWidth(), m.GetHeight()
	g := image.NewGray(image.Rect(0, 0, w, h))
	for y := 0; y < h; y++ {
		row := g.Pix[y*g.Stride : y*g.Stride+w]
		for x := 0; x < w; x++ {
			if m.Get(x, y) {
				row[x] = 0
			} else {
				row[x] = 255
			}
		}
	}
	return g
}

// evalCase executes one (text, hints) case on the real library and applies every oracle of the
// property that can be decided for this call alone. Obligations that relate two calls (fits =>
// symbol) are applied by the callers on the returned results.
func evalCase(l *mc.Local, sub, t string, h hints, level int) (r result) {
	l.Count("states", 1)
	sh := show(t)
	rc := rcase{sub, t, sh, h, level}
	latin := isLatin1(t)
	desc := sh + h.String()
	if verbose {
		fmt.Printf("case %s level=%d\n", desc, level)
	}

	p := prescreen(t, h)
	if isLivelock(l, t, h, p) {
		r.hang = true
		l.Distinct("outcomes", "livelock")
		reportHang(l, &r, t, h, p, rc)
		return r
	}
	if !haveStepper && h.none() && knownHangs[t] && knownKeys[hangKey] {
		r.hang = true
		violate(l, &r, hangKey, func() string { return "EncodeHighLevel(" + show(t) + ") does not return (listed input, not executed)" }, rc)
		return r
	}

	// ---- encode (termination: the heartbeat names the input for the watchdog)
	shape, min, max := h.args()
	var cw []byte
	var err error
	l.Beat("EncodeHighLevel " + desc)
	msg, site := mc.Guard(func() { cw, err = dmenc.EncodeHighLevel(t, shape, min, max) })
	l.Count("evaluations", 1)
	l.Count("transitions", 1)
	if msg != "" {
		violate(l, &r, "C02/panic/"+site, func() string { return fmt.Sprintf("EncodeHighLevel(%s) panicked: %s", desc, msg) }, rc)
		return r
	}
	if verbose {
		fmt.Printf("  codewords=%v err=%v\n", cw, err)
		for _, s := range p.steps {
			fmt.Printf("  step mode=%s input[%d:%d] codewords[%d:%d] err=%v\n", keyMode(s.mode), s.p0, s.p1, s.c0, s.c1, s.err)
		}
	}
	if err != nil {
		r.refused, r.errText = true, errText(err)
		switch {
		case !latin:
			l.Distinct("outcomes", "refused:non-latin1")
		case h.none() && t != "" && fitsYes(t):
			cls := errClass(err)
			if p.avail {
				for _, s := range p.steps {
					if s.err != nil {
						cls = keyMode(s.mode) + "-" + errClass(s.err) // the mode encoder whose error it is
						break
					}
				}
			}
			violate(l, &r, "C02/fits-but-refused/"+cls, func() string {
				_, how := fitsLargest(t)
				return fmt.Sprintf("EncodeHighLevel(%s) without hints returns the error %q although the text fits 144x144 %s", desc, clip(errText(err)), how)
			}, rc)
		default:
			l.Distinct("outcomes", "refused:"+errClass(err))
		}
		return r
	}
	if !latin {
		violate(l, &r, "C02/refuse/non-latin1", func() string {
			return fmt.Sprintf("EncodeHighLevel(%s) returned %d codewords for a text that is not representable in ISO-8859-1", desc, len(cw))
		}, rc)
		return r
	}
	if t == "" {
		return r
	}
	r.ncw = len(cw)
	if p.avail && !bytes.HasPrefix(cw, p.cws) {
		l.Count("stepper_diverged_from_real_call", 1)
		p.avail = false
	}

	// ---- the returned stream is the data region of a symbol the hints admit
	if !isCapacity(len(cw)) {
		violate(l, &r, "C02/stream/length-not-a-symbol-capacity", func() string {
			return fmt.Sprintf("EncodeHighLevel(%s) returned %d codewords, which is not the data capacity of any ECC 200 symbol", desc, len(cw))
		}, rc)
		return r
	}
	sym, ok := symbolFor(len(cw), h)
	if !ok {
		violate(l, &r, "C02/hints/size", func() string {
			return fmt.Sprintf("EncodeHighLevel(%s) returned %d codewords; no symbol of that capacity satisfies the hints", desc, len(cw))
		}, rc)
		return r
	}
	r.sym = sym

	// ---- stream level: reference decoder and the library's own decoder
	ti := walk(cw)
	nt := ti.trace + "|" + strconv.Itoa(sym.Rows) + "x" + strconv.Itoa(sym.Cols)
	l.Distinct("nontrivial", nt)
	l.Distinct("traces", ti.trace)
	l.Distinct("sizes", strconv.Itoa(sym.Rows)+"x"+strconv.Itoa(sym.Cols))

	refText, padStart, refErr := dm.DecodeStreamPad(cw)
	var lres *common.DecoderResult
	var lerr error
	msg, site = mc.Guard(func() { lres, lerr = dmdec.DecodedBitStreamParser_decode(cw) })
	l.Count("evaluations", 1)
	if msg != "" {
		violate(l, &r, "C02/panic/"+site, func() string {
			return fmt.Sprintf("DecodedBitStreamParser_decode panicked on the codewords %v of %s: %s", cw, desc, msg)
		}, rc)
		return r
	}
	libText := ""
	if lerr == nil {
		libText = lres.GetText()
	}
	if verbose {
		fmt.Printf("  trace=%q symbol=%v\n  ref: %s err=%v\n  lib: %s err=%v\n", ti.trace, sym, q(refText), refErr, strconv.Quote(libText), lerr)
	}
	refOK := refErr == nil && refText == t
	libExact := lerr == nil && libText == t
	libLenient := lerr == nil && (libExact || lenient(libText) == t)

	if refErr == nil && !bytes.Equal(cw, dm.PadStream(cw[:padStart], len(cw))) {
		violate(l, &r, "C02/stream/padding", func() string {
			return fmt.Sprintf("EncodeHighLevel(%s): the pad codewords after position %d are not 129 followed by the 253-state sequence: got %v want %v", desc, padStart, cw[padStart:], dm.PadStream(cw[:padStart], len(cw))[padStart:])
		}, rc)
	}
	switch {
	case refOK && libExact:
		l.Distinct("outcomes", "ok")
		if _, seen := sampled.Load(ti.trace); !seen && ti.latches >= 2 {
			if _, dup := sampled.LoadOrStore(ti.trace, true); !dup {
				chk.Sample("round trip, trace "+ti.trace, map[string]interface{}{"text": show(t), "hints": h.String(), "symbol": sym.String(), "codewords": clipCW(cw)})
			}
		}
	case libLenient && !libExact:
		// independent of everything else: the decoder's text is not the Go string that was written
		violate(l, &r, "C02/decoder/latin1-raw-bytes", func() string {
			return fmt.Sprintf("text %s: the codewords %v are correct (reference decoder returns the text) but DecodedBitStreamParser_decode returns %s — characters >= U+0080 from ASCII upper shift / C40 / Text segments are appended as raw ISO-8859-1 bytes, not as UTF-8", desc, clipCW(cw), strconv.Quote(libText))
		}, rc)
		if !refOK {
			l.Count("ref_rejects_lib_accepts", 1)
			chk.Sample("reference decoder rejects, library decoder returns the text", map[string]interface{}{"text": show(t), "codewords": clipCW(cw), "ref": fmt.Sprint(refErr)})
		}
	case libExact && refErr != nil:
		// non-conforming stream that the library's reader nevertheless reads back: not a violation of
		// this property (it speaks about the library's own reader); counted and sampled.
		l.Count("ref_rejects_lib_accepts", 1)
		l.Distinct("outcomes", "ok-but-reference-rejects")
		chk.Sample("reference decoder rejects, library decoder returns the text", map[string]interface{}{"text": show(t), "codewords": clipCW(cw), "ref": fmt.Sprint(refErr)})
	case refOK:
		// the stream is right, the library's reader is wrong
		m := keyMode(ti.lastLatch)
		if lerr != nil {
			violate(l, &r, "C02/decoder/rejects/"+m, func() string {
				return fmt.Sprintf("text %s: codewords %v are correct (reference decoder returns the text) but DecodedBitStreamParser_decode fails: %v", desc, clipCW(cw), lerr)
			}, rc)
		} else {
			violate(l, &r, "C02/decoder/wrong-text/"+m, func() string {
				return fmt.Sprintf("text %s: codewords %v are correct (reference decoder returns the text) but DecodedBitStreamParser_decode returns %s", desc, clipCW(cw), strconv.Quote(libText))
			}, rc)
		}
	default:
		// the stream does not carry the text
		got, have := refText, refErr == nil
		if !have && lerr == nil {
			got, have = lenient(libText), true
		}
		key, why := classifyWrong(t, got, have, refErr != nil, p, ti)
		rd := q(refText)
		if refErr != nil {
			rd = "error " + refErr.Error()
		}
		ld := strconv.Quote(libText)
		if lerr != nil {
			ld = "error " + errText(lerr)
		}
		violate(l, &r, key, func() string {
			return fmt.Sprintf("EncodeHighLevel(%s) = %v (%s, trace %q) does not carry the text: reference decoder: %s; library decoder: %s. %s", desc, clipCW(cw), sym, ti.trace, clip(rd), clip(ld), why)
		}, rc)
	}

	if level < lvMatrix {
		return r
	}

	// ---- matrix level
	var mtx *gozxing.BitMatrix
	var werr error
	l.Beat("DataMatrixWriter.Encode " + desc)
	msg, site = mc.Guard(func() {
		mtx, werr = datamatrix.NewDataMatrixWriter().Encode(t, gozxing.BarcodeFormat_DATA_MATRIX, 0, 0, h.mapHints())
	})
	l.Count("evaluations", 1)
	l.Count("transitions", 1)
	if msg != "" {
		violate(l, &r, "C02/panic/"+site, func() string { return fmt.Sprintf("DataMatrixWriter.Encode(%s) panicked: %s", desc, msg) }, rc)
		return r
	}
	if werr != nil || mtx == nil {
		violate(l, &r, "C02/writer/refuses-what-EncodeHighLevel-encodes", func() string {
			return fmt.Sprintf("DataMatrixWriter.Encode(%s) fails (%v) although EncodeHighLevel with the same hints returns %d codewords", desc, werr, len(cw))
		}, rc)
		return r
	}
	msym, ok := dm.SymbolBySize(mtx.GetHeight(), mtx.GetWidth())
	if !ok || msym.DataCW != len(cw) {
		violate(l, &r, "C02/matrix/size", func() string {
			return fmt.Sprintf("DataMatrixWriter.Encode(%s, 0x0) returned a %dx%d (rows x cols) matrix for %d data codewords", desc, mtx.GetHeight(), mtx.GetWidth(), len(cw))
		}, rc)
		return r
	}
	if ok, which := h.admits(msym); !ok {
		violate(l, &r, "C02/hints/"+which, func() string {
			return fmt.Sprintf("DataMatrixWriter.Encode(%s) returned a %s symbol, which violates the %s hint", desc, msym, which)
		}, rc)
	}
	r.sym = msym
	l.Distinct("sizes_matrix_level", msym.String())

	var dres *common.DecoderResult
	var derr error
	msg, site = mc.Guard(func() { dres, derr = dmdec.NewDecoder().Decode(mtx) })
	l.Count("evaluations", 1)
	if msg != "" {
		violate(l, &r, "C02/panic/"+site, func() string {
			return fmt.Sprintf("Decoder.Decode panicked on the matrix written for %s: %s", desc, msg)
		}, rc)
		return r
	}
	// The stream level has already judged the text the library's stream decoder returns; the
	// matrix and image levels must reproduce exactly that outcome (placement, ECC, interleaving
	// and module extraction are transparent).
	switch {
	case derr != nil && lerr == nil:
		violate(l, &r, "C02/matrix/decode-fails", func() string {
			return fmt.Sprintf("%s: Decoder.Decode fails on the %s matrix written by DataMatrixWriter (%v) although the codeword stream decodes", desc, msym, derr)
		}, rc)
	case derr == nil && lerr == nil && dres.GetText() != libText:
		violate(l, &r, "C02/matrix/text-differs-from-stream", func() string {
			return fmt.Sprintf("%s: Decoder.Decode of the %s matrix returns %s, the codeword stream decodes to %s", desc, msym, clip(strconv.Quote(dres.GetText())), clip(strconv.Quote(libText)))
		}, rc)
	}

	// ---- image level, pure-barcode mode
	var ires *gozxing.Result
	var ierr error
	l.Beat("DataMatrixReader.Decode(PURE_BARCODE) " + desc)
	msg, site = mc.Guard(func() {
		bmp, e := gozxing.NewBinaryBitmapFromImage(grayOf(mtx))
		if e != nil {
			ierr = e
			return
		}
		ires, ierr = datamatrix.NewDataMatrixReader().Decode(bmp, map[gozxing.DecodeHintType]interface{}{gozxing.DecodeHintType_PURE_BARCODE: true})
	})
	l.Count("evaluations", 1)
	l.Count("transitions", 1)
	if msg != "" {
		violate(l, &r, "C02/panic/"+site, func() string {
			return fmt.Sprintf("DataMatrixReader.Decode(PURE_BARCODE) panicked on the image written for %s: %s", desc, msg)
		}, rc)
		return r
	}
	switch {
	case ierr != nil && derr == nil:
		violate(l, &r, "C02/image/decode-fails", func() string {
			return fmt.Sprintf("%s: DataMatrixReader.Decode(PURE_BARCODE) fails on the rendered %s symbol (%v) although Decoder.Decode reads the same matrix", desc, msym, ierr)
		}, rc)
	case ierr == nil && derr == nil && ires.GetText() != dres.GetText():
		violate(l, &r, "C02/image/text-differs-from-matrix", func() string {
			return fmt.Sprintf("%s: reader returns %s, Decoder.Decode returns %s", desc, clip(strconv.Quote(ires.GetText())), clip(strconv.Quote(dres.GetText())))
		}, rc)
	case ierr == nil && ires.GetBarcodeFormat() != gozxing.BarcodeFormat_DATA_MATRIX:
		violate(l, &r, "C02/image/format", func() string { return fmt.Sprintf("%s: result format is %v", desc, ires.GetBarcodeFormat()) }, rc)
	}
	return r
}

func clipCW(cw []byte) string {
	if len(cw) > 48 {
		return fmt.Sprintf("%v…(%d codewords)", cw[:40], len(cw))
	}
	return fmt.Sprint(cw)
}

// classifyWrong names the class of a stream that does not carry its text. It uses what can be
// observed from outside: the error values the dispatch loop discarded (stepper), a disagreement
// between the mode the encoder wrote a codeword in and the mode a reader must read it in, the
// Base 256 length field, and where the decoded text departs from the input.
func classifyWrong(t, got string, have, refRejects bool, p pre, ti traceInfo) (key, why string) {
	generic := "C02/stream/wrong-text/"
	if refRejects {
		generic = "C02/stream/ref-rejects/"
	}
	if !p.avail {
		return generic + keyMode(ti.lastLatch), "(no stepper: classified by the last latch in the stream)"
	}
	for _, s := range p.steps {
		if s.err != nil {
			return "C02/encoder/errors-discarded/" + keyMode(s.mode) + "-" + errClass(s.err),
				fmt.Sprintf("The %s encoder returned the error %q at input[%d:%d]; the dispatch loop of EncodeHighLevel discarded it and went on.", keyMode(s.mode), clip(errText(s.err)), s.p0, s.p1)
		}
	}
	msgb := latin1Bytes(t)
	// encoder's mode per codeword
	enc := make([]byte, len(p.cws))
	for _, s := range p.steps {
		for i := s.c0; i < s.c1 && i < len(enc); i++ {
			enc[i] = byte(s.mode)
		}
	}
	for i := range enc {
		if i >= len(ti.cwMode) || i >= ti.padStart {
			break
		}
		e, d := int(enc[i]), int(ti.cwMode[i])
		if isLatch(p.cws[i]) && e == mASCII {
			continue
		}
		if e != d {
			if e == mASCII && d != mASCII {
				kind := "plain"
				for _, s := range p.steps {
					if s.c0 <= i && i < s.c1 {
						for _, b := range msgb[s.p0:] {
							if b >= 128 {
								kind = "extended" // an extended character is among those left over for ASCII
							}
						}
					}
				}
				return "C02/" + keyMode(d) + "/eod-" + kind,
					fmt.Sprintf("Codeword %d was written in ASCII encodation but no unlatch precedes it: a reader is still in %s encodation there.", i, keyMode(d))
			}
			return "C02/desync/" + keyMode(e) + "-read-as-" + keyMode(d),
				fmt.Sprintf("Codeword %d was written in %s encodation but a reader is in %s encodation there.", i, keyMode(e), keyMode(d))
		}
	}
	if !have {
		return generic + keyMode(ti.lastLatch), ""
	}
	tr, gr := []rune(t), []rune(got)
	d := 0
	for d < len(tr) && d < len(gr) && tr[d] == gr[d] {
		d++
	}
	em := mASCII
	found := false
	for _, s := range p.steps {
		if s.p0 <= d && d < s.p1 {
			em, found = s.mode, true
			break
		}
	}
	if !found && len(p.steps) > 0 {
		em = p.steps[len(p.steps)-1].mode
	}
	emName := keyMode(em)
	if (em == mC40 || em == mText) && len(msgb) > 0 && msgb[len(msgb)-1] >= 128 {
		// the C40/Text end-of-data code treats a final extended character (3 or 4 values) specially
		emName += "-lastext"
	}
	if em == mB256 && ti.b256ToEnd {
		return "C02/base256/exact-fill", fmt.Sprintf("The Base 256 segment that starts at input position %d carries the length 0 (\"to the end of the symbol\") followed by a second length byte, which is read as data.", d)
	}
	// a contiguous piece of the input is missing?
	if len(gr) < len(tr) {
		k := len(tr) - len(gr)
		if string(tr[d+k:]) == string(gr[d:]) {
			return "C02/dropped/" + emName, fmt.Sprintf("Input characters [%d:%d] = %s are missing from the symbol; they were consumed by the %s encoder.", d, d+k, q(string(tr[d:d+k])), keyMode(em))
		}
	}
	return generic + emName, fmt.Sprintf("The decoded text departs from the input at character %d, which the %s encoder consumed.", d, keyMode(em))
}

func isLatch(c byte) bool {
	switch c {
	case 230, 231, 238, 239, 240:
		return true
	}
	return false
}
