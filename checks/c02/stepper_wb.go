//go:build verif && !blackbox

package main

import (
	"strings"

	"verif/mc"

	dmenc "github.com/makiuchi-d/gozxing/datamatrix/encoder"
)

const haveStepper = true

// prescreen drives the body of EncodeHighLevel's dispatch loop step by step through the
// white-box accessor VerifEncodeStep (hooks/datamatrix/encoder/zz_verif_c02.go). It is NOT an
// oracle for the produced text. It serves two purposes:
//   - it sees the error values the real loop throws away (classification of a wrong symbol);
//   - it recognises a dispatch step after which the complete encoder state (mode, position,
//     codeword count, provisional symbol, no pending signal) is what it was before the step.
//     The per-mode encoders are deterministic functions of that state, so the real loop —
//     which executes exactly this step — can never leave it: a proven livelock, reported
//     without having to sit in it.
func prescreen(t string, h hints) (p pre) {
	msg, _ := mc.Guard(func() {
		ctx, e := dmenc.NewEncoderContext(t)
		if e != nil {
			p.avail, p.ctxErr = true, e
			return
		}
		shape, min, max := h.args()
		ctx.SetSymbolShape(shape)
		ctx.SetSizeConstraints(min, max)
		if strings.HasPrefix(t, dmenc.HighLevelEncoder_MACRO_05_HEADER) && strings.HasSuffix(t, dmenc.HighLevelEncoder_MACRO_TRAILER) {
			ctx.WriteCodeword(dmenc.HighLevelEncoder_MACRO_05)
			ctx.SetSkipAtEnd(2)
			dmenc.VerifSetPos(ctx, dmenc.VerifPos(ctx)+len(dmenc.HighLevelEncoder_MACRO_05_HEADER))
		} else if strings.HasPrefix(t, dmenc.HighLevelEncoder_MACRO_06_HEADER) && strings.HasSuffix(t, dmenc.HighLevelEncoder_MACRO_TRAILER) {
			ctx.WriteCodeword(dmenc.HighLevelEncoder_MACRO_06)
			ctx.SetSkipAtEnd(2)
			dmenc.VerifSetPos(ctx, dmenc.VerifPos(ctx)+len(dmenc.HighLevelEncoder_MACRO_06_HEADER))
		}
		mode := dmenc.HighLevelEncoder_ASCII_ENCODATION
		limit := 16*len(ctx.GetMessage()) + 64
		for ctx.HasMoreCharacters() {
			p0, c0, si := dmenc.VerifPos(ctx), ctx.GetCodewordCount(), ctx.GetSymbolInfo()
			err := dmenc.VerifEncodeStep(mode, ctx)
			p1, c1 := dmenc.VerifPos(ctx), ctx.GetCodewordCount()
			p.steps = append(p.steps, step{mode, p0, p1, c0, c1, err})
			next := mode
			if ctx.GetNewEncoding() >= 0 {
				next = ctx.GetNewEncoding()
				ctx.ResetEncoderSignal()
			}
			if next == mode && p1 == p0 && c1 == c0 && ctx.GetSymbolInfo() == si {
				p.livelock, p.proven = true, true
				break
			}
			if len(p.steps) > limit {
				p.livelock = true // no state repetition seen, but far beyond any terminating run
				break
			}
			mode = next
		}
		p.cws = ctx.GetCodewords()
		p.avail = true
	})
	if msg != "" {
		return pre{}
	}
	return p
}
