package main

// Run-structured texts. The encoder's look-ahead compares running cost counters of the six
// encodations character by character and decides only when one of them is ahead by a margin; texts
// that keep several counters TIED for fifteen or twenty characters before one class of characters
// tips the balance are far longer than the exhaustive short-string families and far more regular
// than the capacity runs. Every text made of one leading character followed by six runs of 0..5
// characters each, the run characters taken from four orderings of {space, digit, '@', upper case},
// is written and must read back (stream level).

import (
	"fmt"
	"strings"

	"verif/mc"
)

func runRunStructured() {
	firsts := []string{"a", "\x01", "é", "A", "*"}
	orders := [][6]string{
		{" ", "1", "@", "A", "@", "A"},
		{"A", "@", "A", "@", " ", "1"},
		{"@", "A", " ", "@", "A", "1"},
		{"1", " ", "A", "@", "*", "@"},
	}
	maxRun := chk.Pick(5, 6)
	type job struct{ f, o, r0 int }
	var jobs []job
	for f := range firsts {
		for o := range orders {
			for r0 := 0; r0 <= maxRun; r0++ {
				jobs = append(jobs, job{f, o, r0})
			}
		}
	}
	per := 1
	for i := 0; i < 5; i++ {
		per *= maxRun + 1
	}
	chk.Range(fmt.Sprintf("(g) run-structured texts: leading character from {a, SOH, é, A, *} followed by six runs of 0..%d characters each in four orderings of {space, digit, @, upper case, *} (%d texts): stream-level round trip", maxRun, len(jobs)*per), len(jobs),
		func(i int) string { return fmt.Sprint(jobs[i]) },
		func(l *mc.Local, i int) {
			j := jobs[i]
			ord := orders[j.o]
			var n [6]int
			n[0] = j.r0
			for {
				var sb strings.Builder
				sb.WriteString(firsts[j.f])
				for k := 0; k < 6; k++ {
					sb.WriteString(strings.Repeat(ord[k], n[k]))
				}
				evalCase(l, "runs", sb.String(), hints{}, lvStream)
				k := 5
				for k >= 1 {
					n[k]++
					if n[k] <= maxRun {
						break
					}
					n[k] = 0
					k--
				}
				if k < 1 {
					break
				}
			}
		})
}

var _ = mc.Guard
