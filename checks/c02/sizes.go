package main

// Requested image sizes: the property's "rendered image read in pure-barcode mode" must hold for
// any requested width and height, not only 0x0. For texts reaching square and rectangular symbols
// of several sizes, EVERY (width, height) pair from a menu around the symbol size (smaller than
// the symbol, equal, larger, on each axis independently) is written and read back.

import (
	"fmt"

	"verif/mc"

	"github.com/makiuchi-d/gozxing"
	"github.com/makiuchi-d/gozxing/datamatrix"
	dmenc "github.com/makiuchi-d/gozxing/datamatrix/encoder"
)

type sizeCase struct {
	Text  string
	Shape string
	W, H  int
}

func runRequestedSizes() {
	type tx struct {
		text  string
		shape string
	}
	texts := []tx{{"A", ""}, {"Hello, world!", ""}, {"abcdef", "rect"}, {"abcdefghij", "rect"}, {"hello, you", ""},
		{"0123456789012345678901234567890123456789012345678901234567890123", ""}, {"The quick brown fox jumps over the lazy dog. THE QUICK BROWN FOX JUMPS OVER THE LAZY DOG 0123456789", ""}}
	chk.Range(fmt.Sprintf("requested sizes: %d texts (square and rectangular symbols) x every (width,height) with each axis in {0, 1, n-2, n-1, n, n+1, n+2, 2n-1, 2n, 2n+3, 3n+1} and additionally the other axis' module count: write -> pure-barcode read == text", len(texts)), len(texts),
		func(i int) string { return fmt.Sprintf("%q", texts[i].text) },
		func(l *mc.Local, i int) {
			t := texts[i]
			hints := map[gozxing.EncodeHintType]interface{}{}
			if t.shape == "rect" {
				hints[gozxing.EncodeHintType_DATA_MATRIX_SHAPE] = dmenc.SymbolShapeHint_FORCE_RECTANGLE
			}
			bare, err := datamatrix.NewDataMatrixWriter().Encode(t.text, gozxing.BarcodeFormat_DATA_MATRIX, 0, 0, hints)
			if err != nil || bare == nil {
				return
			}
			sw, sh := bare.GetWidth(), bare.GetHeight()
			menu := func(n, other int) []int {
				m := []int{0, 1, n - 2, n - 1, n, n + 1, n + 2, 2*n - 1, 2 * n, 2*n + 3, 3*n + 1, other, other + 2, 2 * other}
				var o []int
				seen := map[int]bool{}
				for _, v := range m {
					if v >= 0 && !seen[v] {
						seen[v] = true
						o = append(o, v)
					}
				}
				return o
			}
			for _, w := range menu(sw, sh) {
				for _, h := range menu(sh, sw) {
					cs := sizeCase{t.text, t.shape, w, h}
					var m *gozxing.BitMatrix
					var res *gozxing.Result
					var rerr error
					l.Beat("")
					pm, site := mc.Guard(func() {
						m, err = datamatrix.NewDataMatrixWriter().Encode(t.text, gozxing.BarcodeFormat_DATA_MATRIX, w, h, hints)
						if err != nil || m == nil {
							return
						}
						bmp, e := gozxing.NewBinaryBitmapFromImage(grayOf(m))
						if e != nil {
							rerr = e
							return
						}
						res, rerr = datamatrix.NewDataMatrixReader().Decode(bmp, map[gozxing.DecodeHintType]interface{}{gozxing.DecodeHintType_PURE_BARCODE: true})
					})
					l.Count("evaluations", 1)
					l.Count("transitions", 1)
					cls := "both-fit"
					switch {
					case w < sw && h < sh:
						cls = "both-too-small"
					case w < sw || h < sh:
						cls = "one-axis-too-small"
					}
					switch {
					case pm != "":
						chk.Violation("C02/panic/"+site+"/requested-size", fmt.Sprintf("%q (%s) requested %dx%d: panic %s", t.text, t.shape, w, h, pm), cs)
					case err != nil || m == nil:
						chk.Violation("C02/image/requested-size/refused/"+cls, fmt.Sprintf("%q (%s) requested %dx%d for a %dx%d symbol: writer error %v", t.text, t.shape, w, h, sw, sh, err), cs)
					case rerr != nil || res == nil:
						chk.Violation("C02/image/requested-size/unreadable/"+cls, fmt.Sprintf("%q (%s) requested %dx%d for a %dx%d symbol: the %dx%d image is not read in pure-barcode mode: %v", t.text, t.shape, w, h, sw, sh, m.GetWidth(), m.GetHeight(), rerr), cs)
					case res.GetText() != t.text || res.GetBarcodeFormat() != gozxing.BarcodeFormat_DATA_MATRIX:
						chk.Violation("C02/image/requested-size/wrong-text/"+cls, fmt.Sprintf("%q (%s) requested %dx%d: read back %q", t.text, t.shape, w, h, res.GetText()), cs)
					default:
						l.Distinct("outcomes", "requested-size/"+cls)
					}
				}
			}
		})
	chk.Sample("requested size", sizeCase{"abcdef", "rect", 12, 12})
}
