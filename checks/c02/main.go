// C02 — Data Matrix: what is written is what is read (all contents, all 30 sizes).
//
// The high-level encoder is a six-mode state machine (ASCII, C40, Text, X12, EDIFACT, Base 256)
// whose transitions depend on the whole remaining input and on the remaining symbol capacity.
// It is explored as a state space: every input of a set of bounded, completely enumerated
// families is a path through that machine; the path is run on the real library
// (EncodeHighLevel / DataMatrixWriter.Encode) and the result is read back by an independent
// reference stream decoder (verif/ref/dm), by the library's stream decoder, by its matrix
// decoder and by its reader in pure-barcode mode. The mode-switch trace of every produced
// stream is read off its codewords; the number of distinct (trace, symbol size) pairs is the
// measure of how much of the machine the exploration has reached.
//
// Families (all enumerated completely, see the Range names for the exact bounds):
//
//	(g) literal regression strings
//	(a) all strings up to length 5/6 over Sigma_DM; (a') length 5..9/11 over five 4-symbol alphabets
//	(f) the encoder made resident in one mode by a prefix, then every continuation up to 9..11
//	    (the shortest inputs that keep EDIFACT / X12 over a foreign character are 16-18 long)
//	(d) macro 05/06 envelopes and near misses   (e) texts with a rune > U+00FF
//	(c) shape x (MIN_SIZE, MAX_SIZE) x short strings, with "fits => symbol"
//	(b) homogeneous runs that fill each of the 30 sizes exactly, +-1, +-2, with every tail
//
// Violation keys (one per root cause as far as it can be told from outside):
//
//	C02/hang/<mode>-<error class>                 EncodeHighLevel does not return
//	C02/encoder/errors-discarded/<mode>-<class>   wrong symbol after a mode encoder's error was dropped
//	C02/fits-but-refused/<mode>-<class>           error for a text that certainly fits
//	C02/base256/exact-fill, C02/<mode>/eod-<plain|extended>, C02/desync/<m>-read-as-<m>,
//	C02/dropped/<mode>, C02/stream/wrong-text/<mode>, C02/stream/ref-rejects/<mode>   the stream does not carry the text
//	C02/stream/padding, C02/stream/length-not-a-symbol-capacity, C02/hints/<which>, C02/matrix/*, C02/image/*
//	C02/decoder/latin1-raw-bytes, C02/decoder/rejects/<mode>, C02/decoder/wrong-text/<mode>   correct stream, wrong reading
//	C02/refuse/non-latin1, C02/panic/<site>
//
// Environment: C02_ONLY=<family,...> (regression short sub4 resident macro nonlatin1 hints
// capacity) runs a subset for development; such a run is marked incomplete.
package main

import (
	"fmt"
	"os"
	"sort"
	"strings"

	"verif/mc"
	"verif/ref/dm"

	"github.com/makiuchi-d/gozxing"
	"github.com/makiuchi-d/gozxing/datamatrix"
	dmenc "github.com/makiuchi-d/gozxing/datamatrix/encoder"
)

var chk *mc.Check

// sigmaDM: one representative per branch of the encoder's native-set tests, of c40EncodeChar /
// textEncodeChar, of the extended-ASCII paths and of digit pairing.
var sigmaDM = []string{"1", "A", "a", " ", "*", ">", "\r", "@", "^", "!", "`", "{", "\x01", "\x7f", "\u0080", "é", "ÿ"}

func main() {
	chk = mc.New("C02", "model_checking")
	mc.HangSeconds = 20 // a call normally costs microseconds (milliseconds for 144x144)
	chk.Rule = "every input of each bounded family is enumerated (odometer) and run through EncodeHighLevel -> reference stream decoder + library stream decoder (+ writer -> matrix decoder -> pure-barcode reader for short inputs, the capacity, hint and macro families); states = inputs (each input is the path that reaches one encoder state sequence), transitions = write->read executions; non-trivial = distinct (mode-switch trace read off the produced codewords, symbol size) pairs"
	chk.Assume("text is a Go string of runes U+0000..U+00FF; the text read back must be the same Go string (UTF-8), which is what Result.GetText of every other reader of the library returns")
	chk.Assume("'fits' is claimed only where it is certain: without hints if the plain ASCII encodation needs <= 1558 codewords; with hints if the call without MIN/MAX_SIZE returned a symbol whose size the hints admit")
	chk.Assume("hints are satisfied iff the symbol has the requested shape and min <= (rows, cols) <= max in both dimensions; MIN_SIZE/MAX_SIZE are given as Dimension(width=cols, height=rows) of real symbol sizes")
	chk.Assume("a stream the strict reference decoder rejects but the library's own decoder reads back correctly is counted (ref_rejects_lib_accepts), not reported: the property speaks about the library's reader; wrong pad codewords are reported (C02/stream/padding) because no reader may be assumed to ignore them")
	chk.Assume("the white-box stepper (hooks/datamatrix/encoder/zz_verif_c02.go) only pre-screens for livelocks and supplies the discarded errors for classification; every verdict about text comes from the real entry points")
	loadKnown()
	if chk.ReplayFile() != "" {
		replay()
		chk.Finish()
	}
	if !haveStepper {
		chk.Note("built without the white-box stepper: livelocks are reported by the watchdog only (and end the run); classification of wrong symbols is by last latch")
	}
	fams := []struct {
		name string
		run  func()
	}{
		{"regression", runRegression}, {"bytes", runEveryByte}, {"triplets", runTriplets}, {"extended-inside", runExtendedInsideRuns}, {"short", runShort}, {"sub4", runSubAlphabets}, {"resident", runResident}, {"runs", runRunStructured},
		{"macro", runMacro}, {"nonlatin1", runNonLatin1}, {"hints", runHints}, {"capacity", runCapacity}, {"sizes", runRequestedSizes},
	}
	only := os.Getenv("C02_ONLY") // development aid: comma-separated family names; the run is then marked incomplete
	for _, f := range fams {
		if only == "" || strings.Contains(","+only+",", ","+f.name+",") {
			f.run()
		} else {
			chk.Incomplete(f.name, "skipped by C02_ONLY")
		}
	}
	reportMinimal()
	chk.Finish()
}

// ------------------------------------------------------------------ string enumeration

// job: all strings prefix + w + suffix with w of length L over alpha whose first len(head)
// symbols are fixed by head; the remaining positions are enumerated inside the job.
type job struct {
	alpha          []string
	L              int
	head           []int
	prefix, suffix string
	level          int
	tag            string
}

func (j job) String() string {
	var sb strings.Builder
	for _, i := range j.head {
		sb.WriteString(j.alpha[i])
	}
	return fmt.Sprintf("%s len=%d %s%s…%s", j.tag, j.L, q(j.prefix), q(sb.String()), q(j.suffix))
}

func ipow(k, n int) int {
	r := 1
	for i := 0; i < n; i++ {
		r *= k
	}
	return r
}

// jobsFor splits all words of length minL..maxL over alpha into jobs of at most ~maxInner words.
func jobsFor(alpha []string, minL, maxL int, prefix, suffix string, level func(L int) int, tag string, maxInner int) []job {
	k := len(alpha)
	inner := 0
	for ipow(k, inner+1) <= maxInner {
		inner++
	}
	var jobs []job
	for L := minL; L <= maxL; L++ {
		hl := L - inner
		if hl < 0 {
			hl = 0
		}
		head := make([]int, hl)
		for {
			jobs = append(jobs, job{alpha, L, append([]int(nil), head...), prefix, suffix, level(L), tag})
			i := hl - 1
			for i >= 0 {
				head[i]++
				if head[i] < k {
					break
				}
				head[i] = 0
				i--
			}
			if i < 0 {
				break
			}
		}
	}
	return jobs
}

func (j job) each(fn func(t string)) {
	k := len(j.alpha)
	idx := make([]int, j.L)
	copy(idx, j.head)
	buf := make([]byte, 0, len(j.prefix)+2*j.L+len(j.suffix))
	for {
		buf = append(buf[:0], j.prefix...)
		for _, i := range idx {
			buf = append(buf, j.alpha[i]...)
		}
		buf = append(buf, j.suffix...)
		fn(string(buf))
		i := j.L - 1
		for i >= len(j.head) {
			idx[i]++
			if idx[i] < k {
				break
			}
			idx[i] = 0
			i--
		}
		if i < len(j.head) {
			return
		}
	}
}

func countWords(jobs []job) int {
	n := 0
	for _, j := range jobs {
		n += ipow(len(j.alpha), j.L-len(j.head))
	}
	return n
}

func constLevel(v int) func(int) int { return func(int) int { return v } }

func runJobs(name string, jobs []job) {
	name = fmt.Sprintf("%s [%d inputs]", name, countWords(jobs))
	chk.Range(name, len(jobs), func(i int) string { return jobs[i].String() }, func(l *mc.Local, i int) {
		j := jobs[i]
		j.each(func(t string) {
			if t == "" {
				return
			}
			evalCase(l, j.tag, t, hints{}, j.level)
		})
	})
}

// ------------------------------------------------------------------ (g) regression literals

var literals = []string{
	"ééé", "é", "^1A/AB8Cÿ", "C]Y XC\rB*9\r>I7", "mb tpkpuD7R\u0080",
	"\\@^\\[=@/5q  :![0\"3", "A#Y#B1\\*0*Y\r0:C>/@",
	"A^A AA\rA*1\r>A1", "aa aaaaaA1A\u0080", "^1A@AA1Aÿ", "@@@@@@@@a   @@@@@@", "@@@@@@@@@é\r\r\r\r\r\réé",
	"AAAAAAAAA", "HELLO", "Hello World", "123456", "ABC<>ABC<>ABC", "*\r>*\r>*\r>",
	// escape-like sequences (conventions a reader or writer might "understand")
	`\\\\fileserver\\share\\report.txt`, `a\\\\b`, `\\n`, `\\000026`, `\\\\000026`, `]d1`, `]d2x`, `%25`, `%%`, `%5C%5C`, `\\u0041`, `&amp;`, `&#65;`, `\\"`, `$$`, `${x}`, `\\\\\\\\`, `\\\\\\`, `a\\`, `~~`, `~d029`, `~1`, `^^`, "\x1d\x1d", "\x1dA\x1d", "\x1e\x04", "[)>\x1e", "\x00\x00", "\t\t", "\r\n\r\n",
	// Latin-1 texts whose single-byte form is well-formed UTF-8 (mojibake look-alikes)
	"\u00c3\u00a9", "n\u00c2\u00b01", "\u00e2\u0082\u00ac5", "caf\u00c3\u00a9", "\u00c3\u00a9\u00c3\u00a9\u00c3\u00a9", "\u00c3\u00a9\u00e9", "\u00d0\u009f\u00d1\u0080", "A\u00c3\u00a9Z",
}

func runRegression() {
	chk.Range(fmt.Sprintf("regression family: %d literal strings (the defects first seen by a helper probe, and the suite's classics), no hints, all four levels", len(literals)), len(literals),
		func(i int) string { return q(literals[i]) },
		func(l *mc.Local, i int) { evalCase(l, "regression", literals[i], hints{}, lvMatrix) })
}

// ------------------------------------------------------------------ (a) all short strings

// runEveryByte: every Latin-1 character value 0..255 alone, doubled, and inside each mode family's
// native context (digits, upper case, lower case, X12, EDIFACT, extended), at the front, in the
// middle and at the end — the per-character tables and range tests of the encoders and of the
// decoders' shift sets see every value, not only one representative per class.
func runEveryByte() {
	ctx := [][2]string{{"", ""}, {"A", ""}, {"", "A"}, {"12", "34"}, {"AB", "CD"}, {"ab", "cd"}, {"*>", "\r*"}, {"@^", "^@"}, {"é\u0080", "éé"},
		{"ABCDEFGH", ""}, {"", "ABCDEFGH"}, {"abcdefgh", "ijkl"}, {"12345678", "9"}, {"@@@@@@@@", "@"}, {"*>*>*>*>*", ""}}
	chk.Range(fmt.Sprintf("every character value 0..255 (as the rune of that value) alone, doubled and in %d contexts (front / middle / end of digit, upper-case, lower-case, X12, EDIFACT and extended runs), matrix and image level", len(ctx)), 256,
		func(i int) string { return fmt.Sprintf("U+%04X", i) },
		func(l *mc.Local, i int) {
			c := string(rune(i))
			for _, x := range ctx {
				evalCase(l, "byte", x[0]+c+x[1], hints{}, lvMatrix)
			}
			evalCase(l, "byte", c+c, hints{}, lvMatrix)
			evalCase(l, "byte", c+"A"+c, hints{}, lvMatrix)
			evalCase(l, "byte", "a"+c+c+"a", hints{}, lvMatrix)
		})
}

// runTriplets: C40, Text and X12 pack three values 0..39 into 1600*a + 40*b + c + 1; the extremes of
// that range (0x0001 .. 0xFA00) come from triples of the first and last characters of each set,
// which the alphabets of the other families (one representative per class) never form. Every
// character of the three basic sets repeated six and seven times (aligned and misaligned triples),
// and every triple over {first, middle, last} character of each set, twice in a row, bare and
// behind one and two characters of the same set.
func runTriplets() {
	sets := []struct{ name, chars string }{
		{"C40", " 0123456789ABCDEFGHIJKLMNOPQRSTUVWXYZ"},
		{"Text", " 0123456789abcdefghijklmnopqrstuvwxyz"},
		{"X12", "\r*> 0123456789ABCDEFGHIJKLMNOPQRSTUVWXYZ"},
	}
	var texts []string
	for _, st := range sets {
		for _, c := range st.chars {
			texts = append(texts, strings.Repeat(string(c), 6), strings.Repeat(string(c), 7), strings.Repeat(string(c), 12))
		}
		ext := []byte{st.chars[0], st.chars[len(st.chars)/2], st.chars[len(st.chars)-1], st.chars[len(st.chars)-2]}
		for _, a := range ext {
			for _, b := range ext {
				for _, c := range ext {
					t := string([]byte{a, b, c})
					texts = append(texts, t+t, string(ext[2])+t+t, string(ext[2])+string(ext[0])+t+t, t+t+t+t)
				}
			}
		}
	}
	// every digit pair (ASCII encodation packs two digits into one codeword, 130 + value) alone,
	// inside text and inside a longer digit run, and every EDIFACT character quadrupled (four
	// six-bit values in three codewords)
	for v := 0; v < 100; v++ {
		p := fmt.Sprintf("%02d", v)
		texts = append(texts, p, "A"+p+"B", "12"+p+"34", p+p+p)
	}
	for c := 32; c <= 94; c++ {
		ch := string(rune(c))
		texts = append(texts, strings.Repeat(ch, 4), strings.Repeat(ch, 8), "@@@@"+strings.Repeat(ch, 4)+"@@@@")
	}
	texts = uniq(texts)
	chk.Range(fmt.Sprintf("packed triples at the ends of the value range (and every digit pair 00..99 and every EDIFACT character x 4, x 8): every character of the C40, Text and X12 basic sets x 6, 7 and 12 repetitions, and every triple over {first, middle, last, last-but-one} character of each set, doubled and quadrupled, bare and behind one or two characters [%d texts]", len(texts)), len(texts),
		func(i int) string { return q(texts[i]) },
		func(l *mc.Local, i int) { evalCase(l, "triplets", texts[i], hints{}, lvMatrix) })
}

// runExtendedInsideRuns: ONE extended character (0x80..0xFF, reached through upper shift inside
// C40/Text) near the start of a long run of one encodation, for EVERY total length up to the
// largest symbol: the text decoded so far passes every length at which a growing result buffer
// is exactly full, with an extended character still to be re-encoded behind it.
func runExtendedInsideRuns() {
	var texts []string
	for _, fill := range []string{"a", "A"} {
		for n := 8; n <= 1556; n++ {
			if chk.Quick() && n > 450 && n%3 != 0 {
				continue
			}
			texts = append(texts, strings.Repeat(fill, 6)+"é"+strings.Repeat(fill, n-7))
			if n%4 == 0 {
				texts = append(texts, strings.Repeat(fill, n/2)+"\u00ff"+strings.Repeat(fill, n-n/2-1))
			}
		}
	}
	chk.Range(fmt.Sprintf("one extended character inside a long C40 / Text run: fill in {a, A} x every total length 8..1556 (quick: every third beyond 450) with e-acute as 7th character, and U+00FF in the middle for every fourth length [%d texts]", len(texts)), len(texts),
		func(i int) string { return clip(texts[i]) },
		func(l *mc.Local, i int) { evalCase(l, "extended-inside-run", texts[i], hints{}, lvStream) })
}

func runShort() {
	maxL := chk.Pick(5, 6)
	lv := func(L int) int {
		if L <= 4 {
			return lvMatrix
		}
		return lvStream
	}
	jobs := jobsFor(sigmaDM, 1, maxL, "", "", lv, "short", 5000)
	runJobs(fmt.Sprintf("(a) all strings of length 1..%d over the 17-symbol alphabet Sigma_DM (one per encoder branch); matrix and image level for length <= 4", maxL), jobs)
}

var subAlphabets = []struct {
	name  string
	alpha []string
}{
	{"C40/X12 {1,A,space,*}", []string{"1", "A", " ", "*"}},
	{"Text/C40 {a,1,{,A}", []string{"a", "1", "{", "A"}},
	{"X12 {*,>,CR,A}", []string{"*", ">", "\r", "A"}},
	{"EDIFACT {@,^,A,1}", []string{"@", "^", "A", "1"}},
	{"Base256/upper-shift {é,U+0080,A,1}", []string{"é", "\u0080", "A", "1"}},
}

func runSubAlphabets() {
	maxL := chk.Pick(9, 11)
	for _, sa := range subAlphabets {
		jobs := jobsFor(sa.alpha, 5, maxL, "", "", constLevel(lvStream), "sub4", 20000)
		runJobs(fmt.Sprintf("(a') all strings of length 5..%d over the four-symbol alphabet %s", maxL, sa.name), jobs)
	}
}

// ------------------------------------------------------------------ (f) mode-resident families

// The look-ahead needs about eight characters to enter EDIFACT and ten more to be talked into
// staying there; such inputs are out of reach of the plain short-string families. These families
// put the encoder into one mode with a fixed prefix and enumerate every continuation.
var resident = []struct {
	mode, prefix string
	alphas       [][]string
}{
	{"EDIFACT", "@@@@@@@@", [][]string{{"@", "1", "a", " "}, {"@", "A", "\r", "é"}, {"@", "*", "1", "{"}}},
	{"X12", "*\r>*\r>", [][]string{{"\r", "A", "@", "1"}, {"\r", ">", "a", " "}, {"*", "A", "é", "1"}}},
	{"C40", "AAAAAA", [][]string{{"A", "a", "1", "é"}, {"A", "*", "@", "\r"}, {"A", " ", "{", "\x01"}}},
	{"Text", "aaaaaa", [][]string{{"a", "A", "1", "é"}, {"a", "*", "@", "\r"}}},
	{"Base256", "éééé", [][]string{{"é", "A", "1", "\u0080"}, {"é", "a", "@", "*"}}},
}

func runResident() {
	for _, r := range resident {
		if !haveStepper && r.mode == "EDIFACT" && knownKeys[hangKey] {
			// thousands of these inputs never return; without the stepper they cannot be told apart beforehand
			chk.Incomplete("(f) encoder resident in EDIFACT", "not executable in a build without the white-box stepper while "+hangKey+" is an open known finding")
			continue
		}
		for ai, a := range r.alphas {
			maxL := chk.Pick(9, 10)
			if ai == 0 && (r.mode == "EDIFACT" || r.mode == "X12") {
				maxL = chk.Pick(10, 11) // the shortest livelock / lost-triplet inputs need ten more characters
			}
			jobs := jobsFor(a, 0, maxL, r.prefix, "", constLevel(lvStream), "resident-"+r.mode, 20000)
			runJobs(fmt.Sprintf("(f) encoder resident in %s (prefix %s) followed by every continuation of length 0..%d over {%s}", r.mode, q(r.prefix), maxL, q(strings.Join(a, ""))), jobs)
		}
	}
}

// ------------------------------------------------------------------ (d) macro 05/06

func runMacro() {
	var jobs []job
	for _, m := range []string{"05", "06"} {
		hdr := "[)>\x1e" + m + "\x1d"
		jobs = append(jobs, jobsFor(sigmaDM, 0, 3, hdr, "\x1e\x04", constLevel(lvMatrix), "macro"+m, 5000)...)
		// near misses are ordinary text
		jobs = append(jobs, jobsFor(sigmaDM, 0, 2, hdr, "", constLevel(lvStream), "macro"+m+"-no-trailer", 5000)...)
		jobs = append(jobs, jobsFor(sigmaDM, 0, 2, hdr, "\x1e", constLevel(lvStream), "macro"+m+"-half-trailer", 5000)...)
	}
	jobs = append(jobs, jobsFor(sigmaDM, 0, 2, "", "\x1e\x04", constLevel(lvStream), "trailer-only", 5000)...)
	// bodies made of the envelope's OWN characters (RS, EOT, GS) and two ordinary ones: a body that
	// ends in RS or EOT, contains the trailer, or repeats the header's separators
	for _, m := range []string{"05", "06"} {
		jobs = append(jobs, jobsFor([]string{"A", "1", "\x1e", "\x04", "\x1d"}, 0, 4, "[)>\x1e"+m+"\x1d", "\x1e\x04", constLevel(lvMatrix), "macro"+m+"-separator-body", 5000)...)
	}
	// the trailer characters RS EOT at the end of a text that is NOT a macro (no header), behind runs
	// that leave the encoder in X12, C40, Text or EDIFACT with zero, one or two codewords of the
	// symbol free: every run length 3..45 of four run characters x every string of length 0..3 over
	// {1,2,*,A} x {RS EOT, RS, EOT}; and the same bodies inside a real 05 envelope
	for _, ch := range []string{"*", "A", "a", "@"} {
		for n := 3; n <= 45; n++ {
			if chk.Quick() && ch != "*" && n%3 != 0 {
				continue
			}
			for _, suf := range []string{"\x1e\x04", "\x1e", "\x04"} {
				jobs = append(jobs, jobsFor([]string{"1", "2", "*", "A"}, 0, 3, strings.Repeat(ch, n), suf, constLevel(lvStream), "trailer-without-header", 5000)...)
			}
			if n%3 == 0 {
				jobs = append(jobs, jobsFor([]string{"1", "2", "*", "A"}, 0, 2, "[)>\x1e05\x1d"+strings.Repeat(ch, n), "\x1e\x04", constLevel(lvStream), "macro05-run-body", 5000)...)
			}
		}
	}
	// long macro bodies: the nine envelope characters cost ONE codeword, so a digit body of 2k digits
	// needs 1+k codewords - more characters per codeword than any plain text. Bodies that fill the
	// largest symbols exactly, one pair less / more, each followed by every string of length 0..1
	for _, m := range []string{"05", "06"} {
		hdr := "[)>\x1e" + m + "\x1d"
		for _, k := range []int{1047, 1048, 1303, 1304, 1555, 1556, 1557, 1558} {
			jobs = append(jobs, jobsFor(sigmaDM, 0, 1, hdr+strings.Repeat("42", k), "\x1e\x04", constLevel(lvStream), fmt.Sprintf("macro%s-digits-%d", m, 2*k), 5000)...)
		}
	}
	runJobs("(d) macro 05/06 envelope around every string of length 0..3 over Sigma_DM (all levels) and of length 0..4 over {A, 1, RS, EOT, GS}, the near-miss envelopes around length 0..2, the trailer characters without header behind X12 / C40 / Text / EDIFACT runs of every length 3..45 + every string of length 0..3 over {1,2,*,A}, and long digit bodies (2k digits, k in {1047,1048,1303,1304,1555..1558}: filling 120x120, 132x132 and 144x144 exactly, one pair less and more) followed by every string of length 0..1", jobs)
}

// ------------------------------------------------------------------ (e) not ISO-8859-1

func runNonLatin1() {
	alpha := []string{"1", "A", "a", "é", "*", "@"}
	foreign := []string{"Ā", "Œ", "€", "�", "\U0001F600"}
	var words []string
	for _, j := range jobsFor(alpha, 0, 3, "", "", constLevel(0), "", 1<<30) {
		j.each(func(t string) { words = append(words, t) })
	}
	n := 0
	for _, w := range words {
		n += (len([]rune(w)) + 1) * len(foreign)
	}
	chk.Range(fmt.Sprintf("(e) every string of length 0..3 over {1,A,a,é,*,@} with one of 5 runes > U+00FF inserted at every position: must be refused by EncodeHighLevel and by the writer [%d inputs]", n), len(words),
		func(i int) string { return q(words[i]) },
		func(l *mc.Local, i int) {
			rs := []rune(words[i])
			for pos := 0; pos <= len(rs); pos++ {
				for _, f := range foreign {
					t := string(rs[:pos]) + f + string(rs[pos:])
					r := evalCase(l, "non-latin1", t, hints{}, lvStream)
					if r.bad {
						continue
					}
					var m *gozxing.BitMatrix
					var err error
					l.Beat("DataMatrixWriter.Encode " + q(t))
					msg, site := mc.Guard(func() {
						m, err = datamatrix.NewDataMatrixWriter().Encode(t, gozxing.BarcodeFormat_DATA_MATRIX, 0, 0, nil)
					})
					l.Count("evaluations", 1)
					l.Count("transitions", 1)
					rc := rcase{"non-latin1", t, q(t), hints{}, lvMatrix}
					if msg != "" {
						chk.Violation("C02/panic/"+site, "DataMatrixWriter.Encode("+q(t)+") panicked: "+msg, rc)
					} else if err == nil || m != nil {
						chk.Violation("C02/refuse/non-latin1", "DataMatrixWriter.Encode("+q(t)+") returned a symbol for a text that is not representable in ISO-8859-1", rc)
					}
				}
			}
		})
}

// ------------------------------------------------------------------ (c) hint family

type minmax struct{ min, max int } // indices into dm.Symbols, -1 = absent

func hintOf(shape int, mm minmax) hints {
	h := hints{Shape: shape}
	if mm.min >= 0 {
		h.MinR, h.MinC = dm.Symbols[mm.min].Rows, dm.Symbols[mm.min].Cols
	}
	if mm.max >= 0 {
		h.MaxR, h.MaxC = dm.Symbols[mm.max].Rows, dm.Symbols[mm.max].Cols
	}
	return h
}

// fitsCheck applies "fits => symbol": base is the result of a call whose hints are weaker
// (no MIN/MAX_SIZE, or no hints at all); if it produced a symbol that the stronger hints admit,
// the constrained call must produce a symbol as well.
func fitsCheck(l *mc.Local, sub, t string, h hints, base, res result, baseDesc string) {
	if !res.refused || res.hang || base.refused || base.hang || base.bad || base.ncw == 0 {
		return
	}
	if ok, _ := h.admits(base.sym); !ok {
		return
	}
	l.Count("fits_obligations", 1)
	chk.Violation("C02/fits-but-refused/"+errClassText(res.errText), fmt.Sprintf("text %s: the call %s returns a %s symbol, which the hints%s admit, but the call with these hints fails: %s", show(t), baseDesc, base.sym, h, clip(res.errText)),
		rcase{sub, t, show(t), h, lvMatrix})
}

func runHints() {
	n := len(dm.Symbols)
	var pairs []minmax
	if chk.Quick() {
		for i := 0; i < n; i++ {
			pairs = append(pairs, minmax{i, i})
		}
		for i := 0; i < n; i += 3 {
			pairs = append(pairs, minmax{-1, i}, minmax{i, -1})
		}
		for i := 1; i < n; i += 3 {
			pairs = append(pairs, minmax{i, i - 1}) // inverted
		}
		pairs = append(pairs, minmax{0, n - 1}, minmax{n - 1, 0}, minmax{2, 11}, minmax{5, 14}, minmax{1, 2}, minmax{2, 1}, minmax{7, 9}, minmax{9, 8}, minmax{-1, -1})
	} else {
		for i := -1; i < n; i++ {
			for j := -1; j < n; j++ {
				pairs = append(pairs, minmax{i, j})
			}
		}
	}
	alpha := []string{"1", "A", "a", "*", "@", "é"}
	var words []string
	for _, j := range jobsFor(alpha, 1, 3, "", "", constLevel(0), "", 1<<30) {
		j.each(func(t string) { words = append(words, t) })
	}
	type hj struct {
		w     int
		shape int
	}
	var jobs []hj
	for w := range words {
		for s := 0; s < 3; s++ {
			jobs = append(jobs, hj{w, s})
		}
	}
	chk.Range(fmt.Sprintf("(c) hints: shape {none,square,rectangle} x %d (MIN_SIZE,MAX_SIZE) pairs over the 30 sizes and 'absent' (incl. min=max, inverted) x all strings of length 1..3 over {1,A,a,*,@,é}; all levels [%d inputs]", len(pairs), len(pairs)*len(jobs)), len(jobs),
		func(i int) string { return fmt.Sprintf("%s shape=%d", q(words[jobs[i].w]), jobs[i].shape) },
		func(l *mc.Local, i int) {
			t, shape := words[jobs[i].w], jobs[i].shape
			none := evalCase(l, "hints", t, hints{}, lvStream)
			base := none
			if shape != 0 {
				base = evalCase(l, "hints", t, hints{Shape: shape}, lvStream)
			}
			for _, mm := range pairs {
				h := hintOf(shape, mm)
				res := evalCase(l, "hints", t, h, lvMatrix)
				fitsCheck(l, "hints", t, h, none, res, "without hints")
				if shape != 0 {
					fitsCheck(l, "hints", t, h, base, res, "with the shape hint only")
				}
			}
		})
}

// ------------------------------------------------------------------ (b) capacity family

var runTypes = []struct{ name, ch string }{
	{"digits", "1"}, {"upper", "A"}, {"lower", "a"}, {"X12", "\r"}, {"EDIFACT", "@"}, {"extended", "é"},
}

// encodeSize is the light call used only to LOCATE the capacity boundaries (which inputs to
// enumerate); it is not an oracle.
func encodeSize(l *mc.Local, t string, h hints) int {
	if isLivelock(l, t, h, prescreen(t, h)) {
		return -2
	}
	shape, min, max := h.args()
	var cw []byte
	var err error
	l.Beat("EncodeHighLevel (boundary search) " + clip(q(t)) + h.String())
	mc.Guard(func() { cw, err = dmenc.EncodeHighLevel(t, shape, min, max) })
	if err != nil || cw == nil {
		return 1 << 30
	}
	if txt, e := dm.DecodeStream(cw); e != nil || txt != t {
		return 1 << 30 // a symbol that does not carry the run does not count as "fits"
	}
	return len(cw)
}

type capCase struct{ rt, n, shape int }

func runCapacity() {
	// 1. locate, for every run type, shape class and symbol of that class, the longest run that fits
	type sj struct{ rt, shape int }
	var sjs []sj
	for rt := range runTypes {
		for s := 0; s < 3; s++ {
			sjs = append(sjs, sj{rt, s})
		}
	}
	found := make([][]capCase, len(sjs))
	chk.Range("(b0) capacity boundaries: for 6 homogeneous run types x 3 shape classes x every symbol of the class, binary search of the longest run that still fits", len(sjs),
		func(i int) string { return fmt.Sprintf("%s shape=%d", runTypes[sjs[i].rt].name, sjs[i].shape) },
		func(l *mc.Local, i int) {
			rt, shape := sjs[i].rt, sjs[i].shape
			h := hints{Shape: shape}
			var class []dm.Symbol
			for _, s := range dm.Symbols {
				if ok, _ := h.admits(s); ok {
					class = append(class, s)
				}
			}
			for _, s := range class {
				lo, hi := 0, 3400 // size(lo) <= cap, size(hi) > cap
				for hi-lo > 1 {
					mid := (lo + hi) / 2
					sz := encodeSize(l, strings.Repeat(runTypes[rt].ch, mid), h)
					if sz >= 0 && sz <= s.DataCW {
						lo = mid
					} else {
						hi = mid
					}
				}
				if lo == 0 {
					continue
				}
				found[i] = append(found[i], capCase{rt, lo, shape})
			}
		})
	// 2. the cases: n-2..n+2, each followed by every tail
	type base = capCase
	seen := map[[3]int]bool{}
	var bases []base
	for _, f := range found {
		for _, cc := range f {
			for d := -2; d <= 2; d++ {
				n := cc.n + d
				k := [3]int{cc.rt, n, cc.shape}
				if n < 1 || seen[k] {
					continue
				}
				seen[k] = true
				bases = append(bases, base{cc.rt, n, cc.shape})
			}
		}
	}
	// the Base 256 length field changes from one to two bytes between 249 and 250 data bytes
	for n := 247; n <= 252; n++ {
		k := [3]int{5, n, 0}
		if !seen[k] {
			seen[k] = true
			bases = append(bases, base{5, n, 0})
		}
	}
	sort.Slice(bases, func(a, b int) bool { // short runs first: the first report of a key is a small case
		if bases[a].n != bases[b].n {
			return bases[a].n < bases[b].n
		}
		if bases[a].rt != bases[b].rt {
			return bases[a].rt < bases[b].rt
		}
		return bases[a].shape < bases[b].shape
	})
	tailMax := chk.Pick(1, 2)
	var tails []string
	for _, j := range jobsFor(sigmaDM, 0, tailMax, "", "", constLevel(0), "", 1<<30) {
		j.each(func(t string) { tails = append(tails, t) })
	}
	chk.Range(fmt.Sprintf("(b) capacity family: %d runs (6 run types x 3 shape classes x all symbols of the class x lengths fill-2..fill+2, and extended runs of 247..252) x every tail of length 0..%d over Sigma_DM; all levels for tails <= 1, stream level for longer tails; plus MAX_SIZE = own size / next smaller size for tails <= 1 [%d inputs]", len(bases), tailMax, len(bases)*len(tails)), len(bases),
		func(i int) string {
			return fmt.Sprintf("%s x %d shape=%d", runTypes[bases[i].rt].name, bases[i].n, bases[i].shape)
		},
		func(l *mc.Local, i int) {
			b := bases[i]
			run := strings.Repeat(runTypes[b.rt].ch, b.n)
			for _, tail := range tails {
				t := run + tail
				h := hints{Shape: b.shape}
				lv := lvMatrix
				if len([]rune(tail)) > 1 {
					lv = lvStream
				}
				res := evalCase(l, "capacity", t, h, lv)
				if res.ncw != 0 {
					l.Distinct("capacity_sizes_reached", res.sym.String())
				}
				if lv != lvMatrix || res.refused || res.hang || res.ncw == 0 {
					continue
				}
				// MAX_SIZE = the size just obtained: fits => symbol
				own := h
				own.MaxR, own.MaxC = res.sym.Rows, res.sym.Cols
				r2 := evalCase(l, "capacity-max-own", t, own, lvStream)
				fitsCheck(l, "capacity-max-own", t, own, res, r2, "with the shape hint only")
				// MAX_SIZE = next smaller size of the class: an error, or a symbol that reads back (checked inside)
				var smaller *dm.Symbol
				for k := range dm.Symbols {
					s := dm.Symbols[k]
					if ok, _ := h.admits(s); ok && s.DataCW < res.sym.DataCW {
						smaller = &dm.Symbols[k]
					}
				}
				if smaller != nil {
					sm := h
					sm.MaxR, sm.MaxC = smaller.Rows, smaller.Cols
					evalCase(l, "capacity-max-smaller", t, sm, lvStream)
				}
			}
		})
}

// ------------------------------------------------------------------ replay

func replay() {
	var rc rcase
	if err := mc.LoadReplay(chk.ReplayFile(), &rc); err != nil {
		// a watchdog replay has {"subspace","case"} only
		fmt.Println("cannot load replay as a C02 case:", err)
		return
	}
	verbose = true
	l := chk.NewLocal()
	fmt.Printf("replay sub=%s text=%s hints=%s level=%d\n", rc.Sub, show(rc.Text), rc.Hints, rc.Level)
	res := evalCase(l, rc.Sub, rc.Text, rc.Hints, rc.Level)
	if rc.Hints != (hints{}) {
		none := evalCase(l, rc.Sub, rc.Text, hints{}, lvStream)
		fitsCheck(l, rc.Sub, rc.Text, rc.Hints, none, res, "without hints")
		if rc.Hints.Shape != 0 {
			base := evalCase(l, rc.Sub, rc.Text, hints{Shape: rc.Hints.Shape}, lvStream)
			fitsCheck(l, rc.Sub, rc.Text, rc.Hints, base, res, "with the shape hint only")
		}
	}
	l.Merge()
}

func uniq(in []string) []string {
	seen := map[string]bool{}
	var out []string
	for _, s := range in {
		if !seen[s] {
			seen[s] = true
			out = append(out, s)
		}
	}
	return out
}
