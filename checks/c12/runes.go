package main

// Every Unicode code point as content. The byte family covers every single byte; text handed to a
// writer is UTF-8, and writers look at runes (upper-casing, charset conversion, alphabet tests),
// so a code point whose case mapping, encoded length or charset image is unusual is an input class
// of its own. Quick: every code point of the Basic Multilingual Plane and every code point beyond
// it that has a case mapping; thorough: every code point U+0000..U+10FFFF (surrogates as the
// replacement encoding Go produces). Each in four contexts for every writer.

import (
	"fmt"
	"strings"
	"unicode"

	"verif/mc"

	"github.com/makiuchi-d/gozxing"
)

func runEveryRune() {
	type span struct{ lo, hi rune }
	var spans []span
	for lo := rune(0); lo <= 0x10FFFF; lo += 0x400 {
		spans = append(spans, span{lo, lo + 0x3FF})
	}
	ctx := []string{"%s", "A12%s", "%sA", "a%sB"}
	desc := "every code point U+0000..U+10FFFF"
	if chk.Quick() {
		desc = "every code point of the Basic Multilingual Plane and every code point beyond it that has a case mapping"
	}
	chk.Range(fmt.Sprintf("every writer x %s as content in %d contexts (alone, after letter+digits, before a letter, between letters)", desc, len(ctx)), len(spans),
		func(i int) string { return fmt.Sprintf("U+%04X..U+%04X", spans[i].lo, spans[i].hi) },
		func(l *mc.Local, i int) {
			for r := spans[i].lo; r <= spans[i].hi; r++ {
				if chk.Quick() && r > 0xFFFF && unicode.ToUpper(r) == r && unicode.ToLower(r) == r && unicode.ToTitle(r) == r {
					continue
				}
				f := string(r)
				for _, wd := range writers {
					for _, c := range ctx {
						content := strings.ReplaceAll(c, "%s", f)
						cc := concrete{wd: wd, format: wd.format, content: content, w: 0, h: 0, hints: map[gozxing.EncodeHintType]interface{}{}, labels: map[string]string{"content": fmt.Sprintf("%+q", content)}}
						run(l, cc, "rune")
					}
				}
			}
		})
}

var _ = mc.Guard
