// C12 — encoding is total: any content, format, size and hints give a matrix or an error.
// Deviation-bounded product over (writer, format, content, width, height, ten hint keys):
// every assignment that differs from the writer's default call in at most K axes (K=2 quick,
// 3 thorough) is executed; in addition the full products of the axes whose arithmetic
// interacts (margin x width x content; forced code set x all short strings).
package main

import (
	"fmt"
	"strings"

	"verif/mc"

	"github.com/makiuchi-d/gozxing"
	"github.com/makiuchi-d/gozxing/datamatrix"
	dmenc "github.com/makiuchi-d/gozxing/datamatrix/encoder"
	"github.com/makiuchi-d/gozxing/oned"
	"github.com/makiuchi-d/gozxing/qrcode"
	qrdec "github.com/makiuchi-d/gozxing/qrcode/decoder"
)

var chk *mc.Check

type writerDef struct {
	name    string
	mk      func() gozxing.Writer
	format  gozxing.BarcodeFormat
	content string // default (valid) content
	kind    string // "qr" | "dm" | "1d"
}

var writers = []writerDef{
	{"QR", func() gozxing.Writer { return qrcode.NewQRCodeWriter() }, gozxing.BarcodeFormat_QR_CODE, "HELLO", "qr"},
	{"DataMatrix", func() gozxing.Writer { return datamatrix.NewDataMatrixWriter() }, gozxing.BarcodeFormat_DATA_MATRIX, "HELLO", "dm"},
	{"EAN13", func() gozxing.Writer { return oned.NewEAN13Writer() }, gozxing.BarcodeFormat_EAN_13, "590123412345", "1d"},
	{"EAN8", func() gozxing.Writer { return oned.NewEAN8Writer() }, gozxing.BarcodeFormat_EAN_8, "9638507", "1d"},
	{"UPCA", func() gozxing.Writer { return oned.NewUPCAWriter() }, gozxing.BarcodeFormat_UPC_A, "03600029145", "1d"},
	{"UPCE", func() gozxing.Writer { return oned.NewUPCEWriter() }, gozxing.BarcodeFormat_UPC_E, "01234565", "1d"},
	{"Code39", func() gozxing.Writer { return oned.NewCode39Writer() }, gozxing.BarcodeFormat_CODE_39, "CODE39", "1d"},
	{"Code93", func() gozxing.Writer { return oned.NewCode93Writer() }, gozxing.BarcodeFormat_CODE_93, "CODE93", "1d"},
	{"Code128", func() gozxing.Writer { return oned.NewCode128Writer() }, gozxing.BarcodeFormat_CODE_128, "Code128", "1d"},
	{"ITF", func() gozxing.Writer { return oned.NewITFWriter() }, gozxing.BarcodeFormat_ITF, "123456", "1d"},
	{"Codabar", func() gozxing.Writer { return oned.NewCodaBarWriter() }, gozxing.BarcodeFormat_CODABAR, "A1234B", "1d"},
}

// value of an axis: a label (for replay) and the Go value
type val struct {
	label string
	v     interface{}
}

type axis struct {
	name string
	hint gozxing.EncodeHintType // for hint axes
	kind string                 // "format" "content" "width" "height" "hint"
	vals []val                  // non-default values
}

func rep(s string, n int) string { return strings.Repeat(s, n) }

func dim(w, h int) *gozxing.Dimension { d, _ := gozxing.NewDimension(w, h); return d }

func buildAxes() []axis {
	var ax []axis
	var fv []val
	for f := -1; f <= 17; f++ {
		fv = append(fv, val{fmt.Sprint(f), gozxing.BarcodeFormat(f)})
	}
	fv = append(fv, val{"99", gozxing.BarcodeFormat(99)})
	ax = append(ax, axis{name: "format", kind: "format", vals: fv})
	contents := []string{"", "0", "A", "a", " ", "$", "*", "\x00", "\x7f", "\x01", "é", "\xe9", "ñ", "ò", "ó", "ô", "日本", "\U0001F600", "漢字ｱ"}
	for n := 1; n <= 14; n++ {
		contents = append(contents, "12345678901234"[:n])
	}
	contents = append(contents, "5901234123457", "5901234123450", "96385074", "96385070", "036000291452", "036000291450", "01234565", "01234560", "11234565", "21234565",
		rep("A", 79), rep("A", 80), rep("A", 81), rep("1", 80), rep("1", 81), rep("1", 82),
		rep("7", 4000), rep("A", 4000), rep("é", 4000), rep("a", 4000), rep("7", 7089), rep("7", 7090), rep("a", 2953), rep("a", 2954), rep("\x80", 1600),
		"A12B", "T12N", "a12b", "A+B", "AB", "A", "C$:/.+D", "A1234", "1234B", "E12E",
		"1ñ2", "ñ1234", "12ñ", "ABC\x01", "abc\x01ABC", "CODE 39-.$/+%", "code39", "*A*", "+", "%",
		"[)>\x1e05\x1dABC\x1e\x04", "[)>\x1e06\x1dABC\x1e\x04",
		// macro envelopes whose body is longer in UTF-8 than in ISO-8859-1 (and bodies of other scripts)
		"[)>\x1e05\x1d\u00e9\u00e9\u00e9\u00e9\x1e\x04", "[)>\x1e06\x1d\u00e9\u00e8\u00ea\x1e\x04", "[)>\x1e05\x1d"+rep("\u00fc", 40)+"\x1e\x04", "[)>\x1e06\x1d\u65e5\u672c\x1e\x04", "[)>\x1e05\x1d\x1e\x04", "[)>\x1e05\x1dA\u00e9\x1e\x04", "[)>\x1e05\x1d\u00e9",
		rep("*", 30), rep("1A", 40), rep("\x1d", 20), "12345A", "A12345678901234567890",
	)
	var cv []val
	for i, c := range contents {
		_ = i
		cv = append(cv, val{fmt.Sprintf("%q", abbreviate(c)), c})
	}
	ax = append(ax, axis{name: "content", kind: "content", vals: cv})
	sizes := []val{{"-1", -1}, {"-100", -100}, {"1", 1}, {"2", 2}, {"bare-1", "bare-1"}, {"bare", "bare"}, {"bare+1", "bare+1"}, {"2bare+1", "2bare+1"}, {"nat-1", "nat-1"}, {"nat", "nat"}, {"nat+1", "nat+1"}, {"1000", 1000}}
	ax = append(ax, axis{name: "width", kind: "width", vals: sizes})
	ax = append(ax, axis{name: "height", kind: "height", vals: []val{{"-1", -1}, {"1", 1}, {"2", 2}, {"bare-1", "bare-1"}, {"bare+1", "bare+1"}, {"nat+1", "nat+1"}, {"1000", 1000}}})
	h := func(name string, t gozxing.EncodeHintType, vals ...val) {
		ax = append(ax, axis{name: name, hint: t, kind: "hint", vals: vals})
	}
	h("ERROR_CORRECTION", gozxing.EncodeHintType_ERROR_CORRECTION,
		val{"L", qrdec.ErrorCorrectionLevel_L}, val{"M", qrdec.ErrorCorrectionLevel_M}, val{"Q", qrdec.ErrorCorrectionLevel_Q}, val{"H", qrdec.ErrorCorrectionLevel_H},
		val{`"L"`, "L"}, val{`"H"`, "H"}, val{`"X"`, "X"}, val{`""`, ""})
	h("MARGIN", gozxing.EncodeHintType_MARGIN,
		val{"-100", -100}, val{"-bare", "-bare"}, val{"-bare/2", "-bare/2"}, val{"-1", -1}, val{"0", 0}, val{"1", 1}, val{"4", 4}, val{"20", 20}, val{`"7"`, "7"}, val{`"x"`, "x"}, val{`"-3"`, "-3"})
	h("QR_VERSION", gozxing.EncodeHintType_QR_VERSION, val{"0", 0}, val{"1", 1}, val{"40", 40}, val{"41", 41}, val{"-1", -1}, val{`"7"`, "7"}, val{`"x"`, "x"})
	h("QR_MASK_PATTERN", gozxing.EncodeHintType_QR_MASK_PATTERN, val{"-1", -1}, val{"0", 0}, val{"7", 7}, val{"8", 8}, val{`"3"`, "3"}, val{`"x"`, "x"})
	h("CHARACTER_SET", gozxing.EncodeHintType_CHARACTER_SET, val{"UTF-8", "UTF-8"}, val{"ISO-8859-1", "ISO-8859-1"}, val{"Shift_JIS", "Shift_JIS"}, val{"SJIS", "SJIS"}, val{"GB18030", "GB18030"}, val{"UTF-16BE", "UTF-16BE"}, val{"NoSuchCharset", "NoSuchCharset"}, val{`""`, ""})
	h("GS1_FORMAT", gozxing.EncodeHintType_GS1_FORMAT, val{"true", true}, val{"false", false}, val{`"true"`, "true"}, val{`"x"`, "x"})
	h("DATA_MATRIX_SHAPE", gozxing.EncodeHintType_DATA_MATRIX_SHAPE, val{"NONE", dmenc.SymbolShapeHint_FORCE_NONE}, val{"SQUARE", dmenc.SymbolShapeHint_FORCE_SQUARE}, val{"RECTANGLE", dmenc.SymbolShapeHint_FORCE_RECTANGLE}, val{"3", dmenc.SymbolShapeHint(3)})
	h("MIN_SIZE", gozxing.EncodeHintType_MIN_SIZE, val{"10x10", dim(10, 10)}, val{"18x8", dim(18, 8)}, val{"8x18", dim(8, 18)}, val{"32x32", dim(32, 32)}, val{"144x144", dim(144, 144)}, val{"200x200", dim(200, 200)}, val{"0x0", dim(0, 0)}, val{"nil", (*gozxing.Dimension)(nil)})
	h("MAX_SIZE", gozxing.EncodeHintType_MAX_SIZE, val{"10x10", dim(10, 10)}, val{"8x8", dim(8, 8)}, val{"12x12", dim(12, 12)}, val{"26x12", dim(26, 12)}, val{"144x144", dim(144, 144)}, val{"0x0", dim(0, 0)}, val{"nil", (*gozxing.Dimension)(nil)})
	h("FORCE_CODE_SET", gozxing.EncodeHintType_FORCE_CODE_SET, val{"A", "A"}, val{"B", "B"}, val{"C", "C"}, val{"D", "D"}, val{`""`, ""})
	return ax
}

func abbreviate(s string) string {
	if len(s) > 24 {
		return fmt.Sprintf("%s…(len %d)", s[:12], len(s))
	}
	return s
}

// ------------------------------------------------------------------ one call + oracle

type call struct {
	Writer  string
	Format  int
	Content string `json:"-"`
	CLabel  string
	CHex    string
	W, H    string
	Hints   map[string]string
}

type concrete struct {
	wd      writerDef
	format  gozxing.BarcodeFormat
	content string
	w, h    interface{}
	hints   map[gozxing.EncodeHintType]interface{}
	labels  map[string]string
}

func intOf(v interface{}, bareW, bareH, natW, natH int, isHeight bool) int {
	if i, ok := v.(int); ok {
		return i
	}
	b, n := bareW, natW
	if isHeight {
		b, n = bareH, natH
	}
	switch v.(string) {
	case "bare-1":
		return b - 1
	case "bare":
		return b
	case "bare+1":
		return b + 1
	case "2bare+1":
		return 2*b + 1
	case "nat-1":
		return n - 1
	case "nat":
		return n
	case "nat+1":
		return n + 1
	case "-bare":
		return -b
	case "-bare/2":
		return -b / 2
	}
	return 0
}

func run(l *mc.Local, c concrete, sub string) {
	// bare symbol: same content and hints, size 0x0, margin 0 — and the default-margin natural size
	bareW, bareH, natW, natH := 0, 0, 0, 0
	hb := map[gozxing.EncodeHintType]interface{}{}
	for k, v := range c.hints {
		if k != gozxing.EncodeHintType_MARGIN {
			hb[k] = v
		}
	}
	hn := map[gozxing.EncodeHintType]interface{}{}
	for k, v := range hb {
		hn[k] = v
	}
	hb[gozxing.EncodeHintType_MARGIN] = 0
	var bare *gozxing.BitMatrix
	mc.Guard(func() {
		bare, _ = c.wd.mk().Encode(c.content, c.format, 0, 0, hb)
		if bare != nil {
			bareW, bareH = bare.GetWidth(), bare.GetHeight()
		}
		if nat, _ := c.wd.mk().Encode(c.content, c.format, 0, 0, hn); nat != nil {
			natW, natH = nat.GetWidth(), nat.GetHeight()
		}
	})
	w := intOf(c.w, bareW, bareH, natW, natH, false)
	h := intOf(c.h, bareW, bareH, natW, natH, true)
	hints := map[gozxing.EncodeHintType]interface{}{}
	for k, v := range c.hints {
		hints[k] = v
		if k == gozxing.EncodeHintType_MARGIN {
			if s, ok := v.(string); ok && strings.HasPrefix(s, "-bare") {
				hints[k] = intOf(s, bareW, bareH, natW, natH, false)
			}
		}
	}
	var hm map[gozxing.EncodeHintType]interface{}
	if len(hints) > 0 {
		hm = hints
	}
	cs := call{c.wd.name, int(c.format), c.content, fmt.Sprintf("%q", abbreviate(c.content)), fmt.Sprintf("%x", abbrevBytes(c.content)), fmt.Sprint(w), fmt.Sprint(h), c.labels}
	var m *gozxing.BitMatrix
	var err error
	l.Beat(fmt.Sprintf("%+v", cs))
	pm, site := mc.Guard(func() { m, err = c.wd.mk().Encode(c.content, c.format, w, h, hm) })
	l.Count("evaluations", 1)
	// class of the call for the violation key: writer family, plus the deviation that matters
	cls := c.wd.kind
	if mv, ok := hints[gozxing.EncodeHintType_MARGIN]; ok {
		if mi, ok := mv.(int); ok && mi < 0 {
			cls += "/negative-margin"
		} else if ms, ok := mv.(string); ok && strings.HasPrefix(ms, "-") {
			cls += "/negative-margin"
		}
	}
	if pm != "" {
		chk.Violation("C12/panic/"+site+"/"+cls, fmt.Sprintf("panic %q in %+v", pm, cs), replayOf(c, w, h))
		l.Distinct("outcomes", "panic/"+site)
		return
	}
	if (m == nil) == (err == nil) {
		chk.Violation("C12/neither-or-both/"+cls, fmt.Sprintf("matrix nil=%v, err=%v in %+v", m == nil, err, cs), replayOf(c, w, h))
		return
	}
	if m == nil {
		l.Distinct("outcomes", c.wd.name+"/error")
		l.Distinct("nontrivial", fmt.Sprint(c.wd.name, "/err/", c.labels))
		return
	}
	l.Distinct("outcomes", fmt.Sprint(c.wd.name, "/matrix/", m.GetWidth() > natW, m.GetHeight() > natH))
	l.Distinct("nontrivial", fmt.Sprint(c.wd.name, "/ok/", c.labels))
	if bare != nil && (m.GetWidth() < bareW || m.GetHeight() < bareH) {
		chk.Violation("C12/smaller-than-symbol/"+cls, fmt.Sprintf("matrix %dx%d is smaller than the %dx%d symbol it depicts in %+v", m.GetWidth(), m.GetHeight(), bareW, bareH, cs), replayOf(c, w, h))
		return
	}
	if c.wd.kind != "dm" {
		rw, rh := w, h
		if rw < 1 {
			rw = 1
		}
		if rh < 1 {
			rh = 1
		}
		if m.GetWidth() < rw || m.GetHeight() < rh {
			chk.Violation("C12/smaller-than-requested/"+cls, fmt.Sprintf("matrix %dx%d for request %dx%d in %+v", m.GetWidth(), m.GetHeight(), w, h, cs), replayOf(c, w, h))
			return
		}
	}
	// the symbol must actually be depicted: as many dark/light transitions in the widest row as the bare symbol has
	if bare != nil && c.wd.kind == "1d" {
		if tr, tb := transitions(m, 0), transitions(bare, 0); tr != tb {
			chk.Violation("C12/symbol-not-depicted/"+cls, fmt.Sprintf("rendered row has %d colour changes, the bare symbol %d, in %+v", tr, tb, cs), replayOf(c, w, h))
		}
	}
}

func transitions(m *gozxing.BitMatrix, y int) int {
	n := 0
	prev := false
	for x := 0; x < m.GetWidth(); x++ {
		v := m.Get(x, y)
		if v != prev {
			n++
		}
		prev = v
	}
	if prev {
		n++
	}
	return n
}

func abbrevBytes(s string) []byte {
	if len(s) > 40 {
		return []byte(s[:40])
	}
	return []byte(s)
}

type replayCase struct {
	Writer  string
	Format  int
	Content []byte
	W, H    int
	Hints   map[string]string
}

func replayOf(c concrete, w, h int) replayCase {
	return replayCase{c.wd.name, int(c.format), []byte(c.content), w, h, c.labels}
}

// ------------------------------------------------------------------ deviation-bounded product

func subsets(n, k int) [][]int {
	var out [][]int
	var rec func(start int, cur []int)
	rec = func(start int, cur []int) {
		out = append(out, append([]int{}, cur...))
		if len(cur) == k {
			return
		}
		for i := start; i < n; i++ {
			rec(i+1, append(cur, i))
		}
	}
	rec(0, nil)
	return out
}

func runDeviations(axes []axis) {
	K := chk.Pick(2, 3)
	subs := subsets(len(axes), K)
	type job struct {
		w   int
		sub []int
	}
	var jobs []job
	for wi := range writers {
		for _, s := range subs {
			jobs = append(jobs, job{wi, s})
		}
	}
	chk.Range(fmt.Sprintf("all assignments with <=%d deviations from the default call over %d axes (format, content, width, height, 10 hint keys) x 11 writers", K, len(axes)), len(jobs),
		func(i int) string { return fmt.Sprint(writers[jobs[i].w].name, jobs[i].sub) },
		func(l *mc.Local, i int) {
			j := jobs[i]
			wd := writers[j.w]
			idx := make([]int, len(j.sub))
			for {
				c := concrete{wd: wd, format: wd.format, content: wd.content, w: 0, h: 0, hints: map[gozxing.EncodeHintType]interface{}{}, labels: map[string]string{}}
				big := false
				for k, a := range j.sub {
					v := axes[a].vals[idx[k]]
					c.labels[axes[a].name] = v.label
					switch axes[a].kind {
					case "format":
						c.format = v.v.(gozxing.BarcodeFormat)
					case "content":
						c.content = v.v.(string)
						big = len(c.content) > 1000
					case "width":
						c.w = v.v
					case "height":
						c.h = v.v
					case "hint":
						c.hints[axes[a].hint] = v.v
					}
				}
				// very long contents are crossed with at most one other deviation (cost), all others fully
				if !(big && len(j.sub) > 2) {
					run(l, c, "dev")
				}
				k := 0
				for k < len(idx) {
					idx[k]++
					if idx[k] < len(axes[j.sub[k]].vals) {
						break
					}
					idx[k] = 0
					k++
				}
				if k == len(idx) {
					break
				}
				if chk.Expired() {
					return
				}
			}
		})
}

// ------------------------------------------------------------------ full products

func runMarginProduct() {
	type job struct {
		w      int
		margin int
	}
	var jobs []job
	lo, hi := chk.Pick(-130, -260), chk.Pick(30, 40)
	for wi := range writers {
		if writers[wi].kind == "dm" {
			continue
		}
		for m := lo; m <= hi; m++ {
			jobs = append(jobs, job{wi, m})
		}
	}
	chk.Range(fmt.Sprintf("full product: margin %d..%d x width 0..160 x height {0,1,30} x 2 contents, QR and nine 1-D writers", lo, hi), len(jobs),
		func(i int) string { return fmt.Sprint(writers[jobs[i].w].name, " margin ", jobs[i].margin) },
		func(l *mc.Local, i int) {
			j := jobs[i]
			wd := writers[j.w]
			for _, content := range []string{wd.content, altContent(wd)} {
				for w := 0; w <= 160; w++ {
					for _, h := range []int{0, 1, 30} {
						if w%8 != 0 && h == 30 {
							continue
						}
						c := concrete{wd: wd, format: wd.format, content: content, w: w, h: h,
							hints:  map[gozxing.EncodeHintType]interface{}{gozxing.EncodeHintType_MARGIN: j.margin},
							labels: map[string]string{"MARGIN": fmt.Sprint(j.margin), "width": fmt.Sprint(w), "height": fmt.Sprint(h)}}
						run(l, c, "margin")
					}
				}
			}
		})
}

// runSizeProduct: the full (width, height) square for each writer on symbols of every aspect
// (square, landscape rectangle) — a request may be smaller than the symbol on one axis and larger
// on the other in either orientation.
func runSizeProduct() {
	type job struct {
		w       int
		content string
		hints   map[gozxing.EncodeHintType]interface{}
		label   string
	}
	var jobs []job
	for wi, wd := range writers {
		jobs = append(jobs, job{wi, wd.content, nil, "default"})
		jobs = append(jobs, job{wi, altContent(wd), nil, "alt"})
	}
	rect := map[gozxing.EncodeHintType]interface{}{gozxing.EncodeHintType_DATA_MATRIX_SHAPE: dmenc.SymbolShapeHint_FORCE_RECTANGLE}
	for _, c := range []string{"A", "ABCDE", "hello, you", "0123456789012345678901234567890", rep("x", 40)} {
		jobs = append(jobs, job{1, c, rect, "rect"}, job{1, c, nil, "auto"})
	}
	chk.Range("full product: requested width 0..2*max(symbol width,height)+3 x height likewise (1-D: height 0..12), every writer x 2 contents, Data Matrix also x 5 contents x {automatic, forced rectangle}", len(jobs),
		func(i int) string {
			return fmt.Sprint(writers[jobs[i].w].name, " ", jobs[i].label, " ", abbreviate(jobs[i].content))
		},
		func(l *mc.Local, i int) {
			j := jobs[i]
			wd := writers[j.w]
			hb := map[gozxing.EncodeHintType]interface{}{gozxing.EncodeHintType_MARGIN: 0}
			for k, v := range j.hints {
				hb[k] = v
			}
			bare, err := wd.mk().Encode(j.content, wd.format, 0, 0, hb)
			if err != nil || bare == nil {
				return
			}
			mx := bare.GetWidth()
			if bare.GetHeight() > mx {
				mx = bare.GetHeight()
			}
			maxW, maxH := 2*mx+3, 2*mx+3
			if wd.kind == "1d" {
				maxH = 12
				maxW = bare.GetWidth() + 40
			}
			if wd.kind == "qr" {
				maxW, maxH = mx+20, mx+20
			}
			for w := 0; w <= maxW; w++ {
				for h := 0; h <= maxH; h++ {
					c := concrete{wd: wd, format: wd.format, content: j.content, w: w, h: h, hints: map[gozxing.EncodeHintType]interface{}{},
						labels: map[string]string{"width": fmt.Sprint(w), "height": fmt.Sprint(h), "shape": j.label}}
					for k, v := range j.hints {
						c.hints[k] = v
					}
					run(l, c, "size")
				}
			}
		})
}

func altContent(wd writerDef) string {
	switch wd.name {
	case "QR":
		return "0123456789"
	case "EAN13":
		return "000000000000"
	case "EAN8":
		return "0000000"
	case "UPCA":
		return "99999999999"
	case "UPCE":
		return "1999999"
	case "Code39":
		return "A"
	case "Code93":
		return "a"
	case "Code128":
		return "12"
	case "ITF":
		return "00"
	case "Codabar":
		return "A0B"
	}
	return wd.content
}

func runCode128Product() {
	alpha := []string{"1", "2", "A", "a", "\x01", "ñ", "ò", "ó", "ô", "é", "\x7f", " "}
	maxLen := chk.Pick(3, 4)
	var strs []string
	var gen func(cur string, n int)
	gen = func(cur string, n int) {
		if n > 0 {
			strs = append(strs, cur)
		}
		if n == maxLen {
			return
		}
		for _, a := range alpha {
			gen(cur+a, n+1)
		}
	}
	gen("", 0)
	sets := []interface{}{nil, "A", "B", "C"}
	wd := writers[8]
	chk.Range(fmt.Sprintf("full product: Code 128 forced code set {none,A,B,C} x all strings of length 1..%d over {digits, letters, control, FNC1-4 escapes, non-ASCII, DEL, space}", maxLen), len(strs),
		func(i int) string { return fmt.Sprintf("%q", strs[i]) },
		func(l *mc.Local, i int) {
			for _, s := range sets {
				c := concrete{wd: wd, format: wd.format, content: strs[i], w: 0, h: 0, hints: map[gozxing.EncodeHintType]interface{}{}, labels: map[string]string{"content": fmt.Sprintf("%q", strs[i])}}
				if s != nil {
					c.hints[gozxing.EncodeHintType_FORCE_CODE_SET] = s
					c.labels["FORCE_CODE_SET"] = s.(string)
				}
				run(l, c, "c128")
			}
		})
}

// runEveryByte: every byte value alone and in five contexts, and byte pairs, through every writer
// (table lookups indexed by a character are where a single value can misbehave).
func runEveryByte() {
	ctx := []string{"%s", "A%s", "%sA", "1%s1", "a%s", "%s%s", "A1%s"}
	firsts := []int{'0', '9', 'A', 'Z', 'a', 'z', ' ', '$', '*', '`', '_', '~', 0x00, 0x1f, 0x7f, 0x80, 0xe9, 0xf1, 0xff}
	n := 256
	chk.Range(fmt.Sprintf("every writer x every byte value 0..255 in %d contexts (alone, after/before a letter, between digits, after a lower-case letter, doubled, after letter+digit) x {as a raw byte, as the rune of that value}; byte pairs: first byte from %d class representatives (thorough: all 256) x every second byte", len(ctx), len(firsts)), n,
		func(i int) string { return fmt.Sprintf("byte %#02x", i) },
		func(l *mc.Local, i int) {
			forms := []string{string([]byte{byte(i)}), string(rune(i))}
			for _, wd := range writers {
				for _, f := range forms {
					for _, c := range ctx {
						content := strings.ReplaceAll(c, "%s", f)
						cc := concrete{wd: wd, format: wd.format, content: content, w: 0, h: 0, hints: map[gozxing.EncodeHintType]interface{}{}, labels: map[string]string{"content": fmt.Sprintf("%q", content)}}
						run(l, cc, "byte")
					}
				}
				var fs []int
				if chk.Quick() {
					fs = firsts
				} else {
					for a := 0; a < 256; a++ {
						fs = append(fs, a)
					}
				}
				for _, a := range fs {
					content := string([]byte{byte(a), byte(i)})
					cc := concrete{wd: wd, format: wd.format, content: content, w: 0, h: 0, hints: map[gozxing.EncodeHintType]interface{}{}, labels: map[string]string{"content": fmt.Sprintf("%q", content)}}
					run(l, cc, "pair")
				}
			}
		})
}

// runLongRuns: every writer x every byte value 0..127 (and 0xE9, 0xF1, 0xFF as runes) repeated 20, 40, 41,
// 60, 79, 80, 81 times, alone and behind / in front of one letter: weighted check-character sums,
// run counters and width computations reach their largest values with long runs of ONE
// high-valued character, which no short string and no mixed long text contains.
func runLongRuns() {
	var chars []string
	for b := 0; b < 128; b++ {
		chars = append(chars, string(rune(b)))
	}
	chars = append(chars, "\u00e9", "\u00f1", "\u00ff")
	lens := []int{20, 40, 41, 60, 79, 80, 81}
	chk.Range(fmt.Sprintf("every writer x %d characters (every ASCII value, three Latin-1 runes) repeated %v times, alone, behind 'A' and in front of 'A'", len(chars), lens), len(chars),
		func(i int) string { return fmt.Sprintf("%q", chars[i]) },
		func(l *mc.Local, i int) {
			for _, wd := range writers {
				for _, n := range lens {
					for _, wrap := range []string{"%s", "A%s", "%sA"} {
						content := strings.Replace(wrap, "%s", strings.Repeat(chars[i], n), 1)
						c := concrete{wd: wd, format: wd.format, content: content, w: 0, h: 0, hints: map[gozxing.EncodeHintType]interface{}{}, labels: map[string]string{"content": fmt.Sprintf("%q x %d in %q", chars[i], n, wrap)}}
						run(l, c, "longrun")
					}
				}
			}
		})
}

func runShortStrings() {
	// every writer x all strings of length <= 2 (quick) / 3 over a class alphabet, default call otherwise
	alpha := []string{"0", "7", "A", "D", "a", "*", "$", "+", "%", "/", "-", ".", " ", ":", "\x00", "\x1d", "\x7f", "ñ", "é", "\xff", "日"}
	maxLen := chk.Pick(2, 3)
	var strs []string
	var gen func(cur string, n int)
	gen = func(cur string, n int) {
		strs = append(strs, cur)
		if n == maxLen {
			return
		}
		for _, a := range alpha {
			gen(cur+a, n+1)
		}
	}
	gen("", 0)
	chk.Range(fmt.Sprintf("every writer x all strings of length 0..%d over a %d-class alphabet, with and without Code 39/Codabar guard embedding", maxLen, len(alpha)), len(strs),
		func(i int) string { return fmt.Sprintf("%q", strs[i]) },
		func(l *mc.Local, i int) {
			for _, wd := range writers {
				for _, wrap := range []string{"", "A%sB", "12%s34"} {
					content := strs[i]
					if wrap != "" {
						content = fmt.Sprintf(wrap, strs[i])
					}
					c := concrete{wd: wd, format: wd.format, content: content, w: 0, h: 0, hints: map[gozxing.EncodeHintType]interface{}{}, labels: map[string]string{"content": fmt.Sprintf("%q", content)}}
					run(l, c, "short")
				}
			}
		})
}

func main() {
	chk = mc.New("C12", "exploration")
	chk.Rule = "deviation-bounded product (all assignments with <=K deviations from each writer's default call) plus full products of interacting axes; non-trivial = distinct (writer, outcome, deviation labels)"
	chk.Assume("hint values are of the Go types each hint documents (typed level / int or numeric string / bool or string / *Dimension / SymbolShapeHint / string); other Go types are outside 'accepted types'")
	chk.Assume("'never smaller than the symbol it depicts' is judged against the same call rendered at size 0x0 with margin 0")
	chk.Assume("'any width and height' is read as any size whose image the process can allocate: requests up to 2^32 pixels are enumerated; beyond the memory of the machine the Go runtime ends the process (an unrecoverable out-of-memory fault no library code can turn into an error), and sizes beyond the address space (e.g. MaxInt x 1, where the 2-D and 1-D writers panic in makeslice) are treated as the same, unclaimed, region")
	axes := buildAxes()
	if chk.ReplayFile() != "" {
		replay(axes)
		chk.Finish()
	}
	runEveryByte()
	runEveryRune()
	runDigitPositions()
	runDMHintRuns()
	runDMLongRuns()
	runHugeCanvases()
	runShortStrings()
	runLongRuns()
	runCode128Product()
	runMarginProduct()
	runSizeProduct()
	runEntryPoints()
	runDeviations(axes)
	chk.Sample("call", call{Writer: "QR", Format: int(gozxing.BarcodeFormat_QR_CODE), CLabel: `"HELLO"`, W: "0", H: "0", Hints: map[string]string{"MARGIN": "-5"}})
	chk.Sample("call", call{Writer: "Code128", Format: int(gozxing.BarcodeFormat_CODE_128), CLabel: `"1ñ2"`, W: "0", H: "0", Hints: map[string]string{"FORCE_CODE_SET": "C"}})
	chk.Finish()
}

func replay(axes []axis) {
	var ep epCase
	if mc.LoadReplay(chk.ReplayFile(), &ep) == nil && ep.Kind == "entry-points" {
		l := chk.NewLocal()
		defer l.Merge()
		for _, wd := range writers {
			if wd.name == ep.Writer {
				fmt.Printf("replay %+v\n", ep)
				epOne(l, wd, gozxing.BarcodeFormat(ep.FormatN), ep.Content, ep.W, ep.H)
			}
		}
		return
	}
	var rc replayCase
	if err := mc.LoadReplay(chk.ReplayFile(), &rc); err != nil {
		fmt.Println("cannot load replay:", err)
		return
	}
	for _, wd := range writers {
		if wd.name != rc.Writer {
			continue
		}
		c := concrete{wd: wd, format: gozxing.BarcodeFormat(rc.Format), content: string(rc.Content), w: rc.W, h: rc.H, hints: map[gozxing.EncodeHintType]interface{}{}, labels: rc.Hints}
		for _, a := range axes {
			if a.kind != "hint" {
				continue
			}
			if lab, ok := rc.Hints[a.name]; ok {
				found := false
				for _, v := range a.vals {
					if v.label == lab {
						c.hints[a.hint] = v.v
						found = true
					}
				}
				if !found {
					var n, m int
					if k, _ := fmt.Sscanf(lab, "%dx%d", &n, &m); k == 2 { // MIN_SIZE / MAX_SIZE of the dm-hint-run family
						d, _ := gozxing.NewDimension(n, m)
						c.hints[a.hint] = d
					} else if a.hint == gozxing.EncodeHintType_DATA_MATRIX_SHAPE && len(lab) == 1 {
						c.hints[a.hint] = []dmenc.SymbolShapeHint{dmenc.SymbolShapeHint_FORCE_NONE, dmenc.SymbolShapeHint_FORCE_SQUARE, dmenc.SymbolShapeHint_FORCE_RECTANGLE}[lab[0]-'0']
					} else if _, e := fmt.Sscanf(lab, "%d", &n); e == nil {
						c.hints[a.hint] = n
					}
				}
			}
		}
		l := chk.NewLocal()
		fmt.Printf("replay %s content=%q %dx%d hints=%v\n", rc.Writer, rc.Content, rc.W, rc.H, rc.Hints)
		run(l, c, "replay")
		l.Merge()
	}
}
