package main

// Data Matrix with size and shape hints on run-structured content. With a MAX_SIZE or shape hint
// the largest permitted symbol is small, so its capacity boundary - where the encoders' end-of-data
// and look-ahead code takes its rare paths, including the ones that fail - is reached by short
// contents. Every run length 1..70 of one character of each encodation class, followed by every
// one-character tail of another class (and none), under every MAX_SIZE from the symbol list and
// every shape: the writer must return a matrix or an error.

import (
	"fmt"
	"strings"

	"verif/mc"

	"github.com/makiuchi-d/gozxing"
	dmenc "github.com/makiuchi-d/gozxing/datamatrix/encoder"
)

func runDMHintRuns() {
	var dm writerDef
	for _, w := range writers {
		if w.name == "DataMatrix" {
			dm = w
		}
	}
	classes := []string{"1", "A", "a", "!", "@", "\r", "é", " "}
	tails := []string{"", "a", "A", "1", "é", "*"}
	sizes := [][2]int{{10, 10}, {12, 12}, {14, 14}, {16, 16}, {18, 18}, {20, 20}, {22, 22}, {24, 24}, {26, 26}, {32, 32}, {18, 8}, {32, 8}, {26, 12}, {36, 12}, {36, 16}, {48, 16}, {5, 5}, {200, 7}}
	shapes := []dmenc.SymbolShapeHint{dmenc.SymbolShapeHint_FORCE_NONE, dmenc.SymbolShapeHint_FORCE_SQUARE, dmenc.SymbolShapeHint_FORCE_RECTANGLE}
	type job struct {
		cls    string
		prefix string
	}
	var jobs []job
	for _, c := range classes {
		for _, p := range []string{"", "12", "aA"} {
			jobs = append(jobs, job{c, p})
		}
	}
	chk.Range(fmt.Sprintf("Data Matrix writer under size and shape hints: %d run characters x prefixes {none, \"12\", \"aA\"} x EVERY run length 1..70 x %d tails x MAX_SIZE from %d sizes (and MIN_SIZE = the same size for the first six) x 3 shapes", len(classes), len(tails), len(sizes)), len(jobs),
		func(i int) string { return fmt.Sprintf("%q+%q", jobs[i].prefix, jobs[i].cls) },
		func(l *mc.Local, i int) {
			j := jobs[i]
			for n := 1; n <= 70; n++ {
				for _, t := range tails {
					content := j.prefix + strings.Repeat(j.cls, n) + t
					for si, sz := range sizes {
						for shi, sh := range shapes {
							d, _ := gozxing.NewDimension(sz[0], sz[1])
							h := map[gozxing.EncodeHintType]interface{}{gozxing.EncodeHintType_MAX_SIZE: d, gozxing.EncodeHintType_DATA_MATRIX_SHAPE: sh}
							labels := map[string]string{"content": fmt.Sprintf("%+q", content), "MAX_SIZE": fmt.Sprintf("%dx%d", sz[0], sz[1]), "DATA_MATRIX_SHAPE": fmt.Sprint(shi)}
							if si < 6 && shi == 0 && t == "" {
								h[gozxing.EncodeHintType_MIN_SIZE] = d
								labels["MIN_SIZE"] = labels["MAX_SIZE"]
							}
							run(l, concrete{wd: dm, format: dm.format, content: content, w: 0, h: 0, hints: h, labels: labels}, "dm-hint-run")
						}
					}
				}
			}
		})
}

var _ = mc.Guard

// runDMLongRuns: EVERY length of a long homogeneous run (no hints: the symbols are large), followed
// by a shift / upper-shift / foreign-class character and one more character - the place where an
// encoder that buffers, flushes or backtracks in blocks meets the end of the data in the middle
// of a block. The 2-D writers only; the writer must return a matrix or an error.
func runDMLongRuns() {
	var dm writerDef
	for _, w := range writers {
		if w.name == "DataMatrix" {
			dm = w
		}
	}
	maxN := chk.Pick(800, 2340)
	runs := []string{"A", "a", "*", "@", "1", "é"}
	tails := []string{"", "aA", "Aa", "!A", "éa", "éA", "a", "1", "é", "{}", "\x01b"}
	type job struct {
		run  string
		from int
	}
	var jobs []job
	for _, r := range runs {
		for f := 1; f <= maxN; f += 50 {
			jobs = append(jobs, job{r, f})
		}
	}
	chk.Range(fmt.Sprintf("Data Matrix writer, long runs: run characters {A, a, *, @, 1, é} x EVERY run length 1..%d x %d tails (shift, upper-shift and foreign-class characters followed by one more character), no hints", maxN, len(tails)), len(jobs),
		func(i int) string { return fmt.Sprintf("%q x %d..", jobs[i].run, jobs[i].from) },
		func(l *mc.Local, i int) {
			j := jobs[i]
			for n := j.from; n < j.from+50 && n <= maxN; n++ {
				for _, t := range tails {
					content := strings.Repeat(j.run, n) + t
					labels := map[string]string{"content": fmt.Sprintf("%d x %q + %+q", n, j.run, t)}
					run(l, concrete{wd: dm, format: dm.format, content: content, w: 0, h: 0, hints: map[gozxing.EncodeHintType]interface{}{}, labels: labels}, "dm-long-run")
				}
			}
		})
}

// runHugeCanvases: requested sizes whose pixel count crosses 2^31 (and, thorough, 2^32): index
// arithmetic in int32 terms, "too large" guards and allocation failures live there. One job runs
// the writers one after the other (a 2^31-bit matrix is 256 MiB).
func runHugeCanvases() {
	type hc struct{ w, h int }
	sizes := []hc{{214748364, 10}, {214748365, 10}, {10, 214748365}, {46341, 46341}, {65536, 32768}}
	if !chk.Quick() {
		sizes = append(sizes, hc{429496730, 10}, hc{65536, 65537})
	}
	chk.Range(fmt.Sprintf("huge canvases: requested sizes %v (pixel counts on both sides of 2^31%s) for the 2-D writers (thorough: every writer), one after the other", sizes, map[bool]string{true: "", false: " and 2^32"}[chk.Quick()]), 1,
		func(i int) string { return "huge canvases" },
		func(l *mc.Local, i int) {
			for _, wd := range writers {
				if chk.Quick() && wd.kind == "1d" {
					continue
				}
				for _, sz := range sizes {
					if wd.kind == "1d" && sz.h > 1000 {
						continue // a bar of 2*10^8 rows is drawn bit by bit: minutes per writer, nothing new
					}
					l.Beat(fmt.Sprint("huge ", wd.name, sz))
					run(l, concrete{wd: wd, format: wd.format, content: wd.content, w: sz.w, h: sz.h, hints: map[gozxing.EncodeHintType]interface{}{}, labels: map[string]string{"huge": fmt.Sprint(sz.w, "x", sz.h)}}, "huge")
				}
			}
		})
}
