package main

// Fixed-length digit symbologies: every byte value at EVERY position of a number of an accepted
// length. The other content families put a foreign character into short strings, which the writers
// refuse for their length before looking at any character; here the length is right, so the request
// reaches the check-digit and pattern-table code. For each of EAN-13 (12 and 13 characters), EAN-8
// (7, 8), UPC-A (11, 12), UPC-E (7, 8) and ITF (6, 14): ten bodies, one per value of the computed
// check digit 0..9 (a character whose code happens to agree with the expected check digit modulo
// something is the interesting case), x every position x every byte value 0..255.

import (
	"fmt"

	"verif/mc"

	"github.com/makiuchi-d/gozxing"
)

func mod10Check(body string) byte {
	s := 0
	for i := len(body) - 1; i >= 0; i -= 2 {
		s += int(body[i] - '0')
	}
	s *= 3
	for i := len(body) - 2; i >= 0; i -= 2 {
		s += int(body[i] - '0')
	}
	return byte('0' + (1000-s)%10)
}

func runDigitPositions() {
	type fam struct {
		writer string
		body   int  // digits without the check digit
		check  bool // the writer knows a check digit
	}
	fams := []fam{{"EAN13", 12, true}, {"EAN8", 7, true}, {"UPCA", 11, true}, {"UPCE", 7, true}, {"ITF", 6, false}, {"ITF", 14, false}}
	type job struct {
		f, k int
	}
	var jobs []job
	for f := range fams {
		for k := 0; k < 10; k++ {
			jobs = append(jobs, job{f, k})
		}
	}
	chk.Range("fixed-length digit writers (EAN-13, EAN-8, UPC-A, UPC-E, ITF): numbers of an accepted length - ten bodies per writer, one for every value of the computed check digit, without and with the check digit - x every position x every byte value 0..255", len(jobs),
		func(i int) string { return fmt.Sprint(fams[jobs[i].f], " check digit ", jobs[i].k) },
		func(l *mc.Local, i int) {
			fm := fams[jobs[i].f]
			var wd writerDef
			for _, w := range writers {
				if w.name == fm.writer {
					wd = w
				}
			}
			// a body whose standard check digit is k (UPC-E: number system 0, the check digit of the
			// expansion differs, which does not matter here: all ten bodies are tried)
			body := ""
			for v := 0; v < 100000 && body == ""; v++ {
				b := fmt.Sprintf("%0*d", fm.body, 1234567+v*7919)
				b = b[len(b)-fm.body:]
				if fm.writer == "UPCE" {
					b = "0" + b[1:]
				}
				if int(mod10Check(b)-'0') == jobs[i].k {
					body = b
				}
			}
			contents := []string{body}
			if fm.check {
				contents = append(contents, body+string(mod10Check(body)))
			}
			for _, base := range contents {
				for p := 0; p < len(base); p++ {
					for v := 0; v < 256; v++ {
						content := base[:p] + string([]byte{byte(v)}) + base[p+1:]
						cc := concrete{wd: wd, format: wd.format, content: content, w: 0, h: 0, hints: map[gozxing.EncodeHintType]interface{}{}, labels: map[string]string{"content": fmt.Sprintf("%q", content)}}
						run(l, cc, "digitpos")
					}
				}
			}
		})
}
