package main

// The second entry point. Every writer has Encode(contents, format, width, height, hints) and
// EncodeWithoutHint(contents, format, width, height); the families above go through Encode. Here
// every writer x contents {valid, empty, not encodable, long} x every format value x a product of
// widths and heights (negative, zero, small, non-square both ways, large) is sent through BOTH: the
// answers must be the same (same image, or both an error), and EncodeWithoutHint must be total.

import (
	"fmt"

	"verif/mc"

	"github.com/makiuchi-d/gozxing"
)

type epCase struct {
	Kind    string // "entry-points"
	Writer  string
	Format  string
	FormatN int
	Content string
	W, H    int
}

func epOne(l *mc.Local, wd writerDef, f gozxing.BarcodeFormat, content string, w, h int) {
	c := epCase{"entry-points", wd.name, f.String(), int(f), content, w, h}
	var m1, m2 *gozxing.BitMatrix
	var e1, e2 error
	pm1, _ := mc.Guard(func() { m1, e1 = wd.mk().Encode(content, f, w, h, nil) })
	pm2, site2 := mc.Guard(func() { m2, e2 = wd.mk().EncodeWithoutHint(content, f, w, h) })
	l.Count("evaluations", 2)
	l.Count("entry_point_pairs", 1)
	if pm2 != "" {
		chk.Violation("C12/panic/"+site2+"/without-hint", fmt.Sprintf("%s.EncodeWithoutHint(%q, %v, %d, %d) panics: %s", wd.name, clipS(content), f, w, h, pm2), c)
		return
	}
	if pm1 != "" {
		return // reported by the Encode families
	}
	if (m2 == nil) == (e2 == nil) {
		chk.Violation("C12/neither-nor/"+wd.kind+"/without-hint", fmt.Sprintf("%s.EncodeWithoutHint(%q, %v, %d, %d) returns matrix nil=%v and error %v", wd.name, clipS(content), f, w, h, m2 == nil, e2), c)
		return
	}
	if m2 != nil {
		// the statement's size clauses, for this entry point: never smaller than the symbol (the
		// same content at 0x0 with margin 0), and for QR and 1-D never smaller than the request
		var bare *gozxing.BitMatrix
		mc.Guard(func() {
			bare, _ = wd.mk().Encode(content, f, 0, 0, map[gozxing.EncodeHintType]interface{}{gozxing.EncodeHintType_MARGIN: 0})
		})
		if bare != nil && (m2.GetWidth() < bare.GetWidth() || m2.GetHeight() < bare.GetHeight()) {
			chk.Violation("C12/smaller-than-symbol/"+wd.kind+"/without-hint", fmt.Sprintf("%s.EncodeWithoutHint(%q, %v, %d, %d) returns %dx%d, the bare symbol is %dx%d", wd.name, clipS(content), f, w, h, m2.GetWidth(), m2.GetHeight(), bare.GetWidth(), bare.GetHeight()), c)
			return
		}
		if wd.kind != "dm" && (m2.GetWidth() < w || m2.GetHeight() < h) {
			chk.Violation("C12/smaller-than-requested/"+wd.kind+"/without-hint", fmt.Sprintf("%s.EncodeWithoutHint(%q, %v, %d, %d) returns %dx%d", wd.name, clipS(content), f, w, h, m2.GetWidth(), m2.GetHeight()), c)
			return
		}
	}
	_ = e1
	if m1 != nil {
		l.Distinct("nontrivial", fmt.Sprint("ep/", wd.name, f, len(content), w, h))
	}
}

func clipS(s string) string {
	if len(s) > 24 {
		return fmt.Sprintf("%s...(%d bytes)", s[:24], len(s))
	}
	return s
}

func runEntryPoints() {
	sizes := []int{-7, 0, 1, 30, 61, 120, 333}
	formats := []gozxing.BarcodeFormat{}
	for f := gozxing.BarcodeFormat(-1); f <= gozxing.BarcodeFormat(20); f++ {
		formats = append(formats, f)
	}
	chk.Range(fmt.Sprintf("second entry point: every writer (%d) x contents {valid, empty, 'not encodable \\x00é', 300 characters} x every format value -1..20 x widths x heights from %v: EncodeWithoutHint is total, its matrix never smaller than the symbol and (QR, 1-D) than the request", len(writers), sizes), len(writers),
		func(i int) string { return writers[i].name },
		func(l *mc.Local, i int) {
			wd := writers[i]
			long := ""
			for len(long) < 300 {
				long += wd.content
			}
			for _, content := range []string{wd.content, "", "not encodable \x00é", long} {
				for _, f := range formats {
					if f != wd.format && content != wd.content {
						continue // a foreign format is refused before the content is looked at
					}
					for _, w := range sizes {
						for _, h := range sizes {
							epOne(l, wd, f, content, w, h)
						}
					}
				}
			}
		})
	chk.Sample("entry-points", epCase{"entry-points", "QR", gozxing.BarcodeFormat_QR_CODE.String(), int(gozxing.BarcodeFormat_QR_CODE), "HELLO", 120, 61})
}
