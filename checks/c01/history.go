package main

// Object histories.
//
// (d) one QRCodeWriter, one QRCodeReader and one decoder.Decoder object are used for ALL
// sequences of up to three (write, read) steps from a menu of symbols that differ in version,
// level, mode, mask and rendered size; after every step the text read back must be the text
// written in THAT step (so nothing of an earlier symbol survives in the objects), the image must
// equal the image a fresh writer returns, and the images returned by earlier steps must be
// unchanged (results retained by the caller are not scratch space of the writer).
//

import (
	"fmt"
	"sync"

	"verif/mc"
	qr "verif/ref/qr"

	"github.com/makiuchi-d/gozxing"
	"github.com/makiuchi-d/gozxing/qrcode"
	"github.com/makiuchi-d/gozxing/qrcode/decoder"
)

type hsym struct {
	Name    string
	Family  string
	Len     int
	Start   int
	Level   int
	Mask    int
	Version int
	W, H    int
}

func (s hsym) text() string {
	return rcase{Family: s.Family, Len: s.Len, Start: s.Start}.text()
}

func (s hsym) hints() map[gozxing.EncodeHintType]interface{} {
	o := opt{Level: s.Level, Mask: s.Mask, Version: s.Version}
	for m := pmode(0); m < numPmodes; m++ {
		if m.String() == s.Family {
			o.Charset = m.charset()
		}
	}
	h := o.hints()
	h[gozxing.EncodeHintType_ERROR_CORRECTION] = libLevels[s.Level]
	return h
}

func historyMenu() []hsym {
	var menu []hsym
	add := func(name string, m pmode, v, lv, mask, frac, w, h int) {
		c := capacityOf(m, v, lv)
		n := c * frac / 4
		if n < 1 {
			n = 1
		}
		menu = append(menu, hsym{Name: name, Family: m.String(), Len: n, Start: len(menu) * 7, Level: lv, Mask: mask, Version: v, W: w, H: h})
	}
	add("v1-numeric-full", pNumeric, 1, 0, -1, 4, 0, 0)
	add("v1-byte-short", pByteLatin1, 1, 3, 3, 1, 29, 29)
	add("v2-alnum", pAlnum, 2, 1, 5, 4, 90, 60)
	add("v7-kanji", pKanji, 7, 2, -1, 3, 0, 0)
	add("v7-byte-full", pByteUTF8, 7, 0, 0, 4, 53, 53)
	add("v10-numeric", pNumeric, 10, 3, 7, 2, 0, 0)
	// a FOREIGN symbol (not written by the library): an undesignated byte segment holding Shift_JIS
	// bytes, which the decoder has to guess. Its own outcome is not judged; it is a step of the
	// histories because whatever a reader concludes about it must not reach the next symbol.
	menu = append(menu, hsym{Name: "foreign-shiftjis-undesignated", Family: "foreign"})
	if !chk.Quick() {
		add("v27-alnum-full", pAlnum, 27, 1, -1, 4, 0, 0)
		add("v40-byte-full", pByteLatin1, 40, 0, 2, 4, 0, 0)
		add("v40-numeric-short", pNumeric, 40, 3, -1, 1, 0, 0)
	}
	return menu
}

type hrec struct {
	Sub  string
	Menu []hsym
	Seq  []int
}

func cloneMatrix(m *gozxing.BitMatrix) *gozxing.BitMatrix {
	if m == nil {
		return nil
	}
	out, _ := gozxing.NewBitMatrix(m.GetWidth(), m.GetHeight())
	for y := 0; y < m.GetHeight(); y++ {
		for x := 0; x < m.GetWidth(); x++ {
			if m.Get(x, y) {
				out.Set(x, y)
			}
		}
	}
	return out
}

func equalMatrix(a, b *gozxing.BitMatrix) bool {
	if a == nil || b == nil {
		return a == b
	}
	if a.GetWidth() != b.GetWidth() || a.GetHeight() != b.GetHeight() {
		return false
	}
	for y := 0; y < a.GetHeight(); y++ {
		for x := 0; x < a.GetWidth(); x++ {
			if a.Get(x, y) != b.Get(x, y) {
				return false
			}
		}
	}
	return true
}

func historySeq(l *mc.Local, menu []hsym, fresh []*gozxing.BitMatrix, seq []int) {
	rec := hrec{Sub: "history", Menu: menu, Seq: seq}
	names := ""
	for _, k := range seq {
		names += menu[k].Name + " "
	}
	l.Beat("history " + names)
	fail := func(kind, what string) {
		last := menu[seq[len(seq)-1]]
		chk.Violation("C01/history/"+kind+"/last="+last.Name, fmt.Sprintf("%s; one writer, one reader and one decoder object used for the sequence [ %s]", what, names), rec)
	}
	w := qrcode.NewQRCodeWriter()
	rd := qrcode.NewQRCodeReader()
	dec := decoder.NewDecoder()
	// the caller's decode hints are ONE map object for the whole history, as an application that
	// configures its reader once would have it
	rdHints := map[gozxing.DecodeHintType]interface{}{gozxing.DecodeHintType_PURE_BARCODE: true}
	decHints := map[gozxing.DecodeHintType]interface{}{}
	var kept, keptCopy []*gozxing.BitMatrix
	for step, k := range seq {
		s := menu[k]
		if step%2 == 1 {
			mc.Guard(func() { rd.Reset() }) // the documented call between uses of one reader object
		}
		if s.Family == "foreign" {
			padded, bare := foreignSymbol()
			var ftext string
			pm, site := mc.Guard(func() {
				if bmp, e := gozxing.NewBinaryBitmapFromImage(padded); e == nil {
					if res, e := rd.Decode(bmp, rdHints); e == nil {
						ftext = res.GetText()
					}
				}
				dec.Decode(bare, decHints)
			})
			if ftext != "" {
				l.Count("foreign symbols read (outcome not judged)", 1)
			}
			l.Count("evaluations", 1)
			if pm != "" {
				fail("panic/"+site, "reading the foreign symbol panicked at step "+fmt.Sprint(step)+": "+pm)
				return
			}
			continue
		}
		text := s.text()
		var img *gozxing.BitMatrix
		var err error
		pm, site := mc.Guard(func() { img, err = w.Encode(text, gozxing.BarcodeFormat_QR_CODE, s.W, s.H, s.hints()) })
		l.Count("evaluations", 1)
		if pm != "" {
			fail("panic/"+site, "reused QRCodeWriter panicked at step "+fmt.Sprint(step)+": "+pm)
			return
		}
		if err != nil {
			fail("encode-refused", fmt.Sprintf("step %d (%s): reused writer refuses a text a fresh writer accepts: %v", step, s.Name, err))
			return
		}
		if !equalMatrix(img, fresh[k]) {
			fail("image-differs", fmt.Sprintf("step %d (%s): the reused writer's image differs from a fresh writer's image for the same arguments", step, s.Name))
			return
		}
		for i := range kept {
			if !equalMatrix(kept[i], keptCopy[i]) {
				fail("retained-image-changed", fmt.Sprintf("the image returned at step %d changed while step %d (%s) was written", i, step, s.Name))
				return
			}
		}
		kept = append(kept, img)
		keptCopy = append(keptCopy, cloneMatrix(img))
		// read through the reused reader object (pure barcode) ...
		var r read
		r.panicked, r.site = mc.Guard(func() {
			bmp, e := gozxing.NewBinaryBitmapFromImage(img)
			if e != nil {
				r.err = e
				return
			}
			res, e := rd.Decode(bmp, rdHints)
			if e != nil {
				r.err = e
				return
			}
			r.text, r.format, r.hasFormat = res.GetText(), res.GetBarcodeFormat(), true
			if v, ok := res.GetResultMetadata()[gozxing.ResultMetadataType_ERROR_CORRECTION_LEVEL]; ok {
				r.ec = fmt.Sprint(v)
			}
		})
		if kind, what := checkRead(text, s.Level, r, true); kind != "" {
			fail("reader/"+kind, fmt.Sprintf("step %d (%s), reused QRCodeReader: %s", step, s.Name, what))
			return
		}
		// ... and the module matrix through the reused decoder object
		wr := encodeMatrix(text, opt{Level: s.Level, Mask: s.Mask, Version: s.Version, Charset: hintCharset(s)})
		if wr.err != nil || wr.panicked != "" {
			continue // the boundary family reports encoder failures
		}
		bits := toBitMatrix(wr.code.GetMatrix())
		var d read
		d.panicked, d.site = mc.Guard(func() {
			res, e := dec.Decode(bits, decHints)
			if e != nil {
				d.err = e
				return
			}
			d.text, d.ec = res.GetText(), res.GetECLevel()
		})
		if kind, what := checkRead(text, s.Level, d, false); kind != "" {
			fail("decoder/"+kind, fmt.Sprintf("step %d (%s), reused decoder.Decoder: %s", step, s.Name, what))
			return
		}
	}
	l.Distinct("nontrivial", "history "+names)
}

var foreignOnce sync.Once
var foreignModules [][]bool

// foreignSymbol: version 2-L, one byte segment without ECI holding the Shift_JIS bytes of
// "日本語のテキストです" (built by the reference constructor), with a 4-module quiet zone.
func foreignSymbol() (padded, bare *gozxing.BitMatrix) {
	foreignOnce.Do(func() {
		sj := []byte{0x93, 0xfa, 0x96, 0x7b, 0x8c, 0xea, 0x82, 0xcc, 0x83, 0x65, 0x83, 0x4c, 0x83, 0x58, 0x83, 0x67, 0x82, 0xc5, 0x82, 0xb7}
		data, err := qr.DataCodewordsFor([]qr.Segment{{Mode: qr.Byte, Data: sj, ECI: -1}}, 2, qr.L)
		if err != nil {
			panic(err)
		}
		foreignModules = qr.Build(data, 2, qr.L, 3)
	})
	// fresh matrices for every use: the decoder works on the matrix it is given in place
	m := foreignModules
	padded, _ = gozxing.NewBitMatrix(len(m)+8, len(m)+8)
	bare, _ = gozxing.NewBitMatrix(len(m), len(m))
	for y := range m {
		for x := range m[y] {
			if m[y][x] {
				padded.Set(x+4, y+4)
				bare.Set(x, y)
			}
		}
	}
	return padded, bare
}

func hintCharset(s hsym) string {
	for m := pmode(0); m < numPmodes; m++ {
		if m.String() == s.Family {
			return m.charset()
		}
	}
	return ""
}

func runHistory() {
	menu := historyMenu()
	fresh := make([]*gozxing.BitMatrix, len(menu))
	for k, s := range menu {
		if s.Family == "foreign" {
			continue
		}
		img, err := qrcode.NewQRCodeWriter().Encode(s.text(), gozxing.BarcodeFormat_QR_CODE, s.W, s.H, s.hints())
		if err != nil {
			chk.Violation("C01/history/fresh-encode-refused/"+s.Name, "a fresh writer refuses a text that fits the forced version: "+err.Error(), hrec{Sub: "history", Menu: menu, Seq: []int{k}})
			return
		}
		fresh[k] = img
	}
	var seqs [][]int
	n := len(menu)
	for a := 0; a < n; a++ {
		seqs = append(seqs, []int{a})
		for b := 0; b < n; b++ {
			seqs = append(seqs, []int{a, b})
			for c := 0; c < n; c++ {
				seqs = append(seqs, []int{a, b, c})
			}
		}
	}
	chk.Range(fmt.Sprintf("(d) object histories: ALL sequences of 1..3 (write, pure-barcode read, matrix decode) steps over a menu of %d symbols (versions 1,2,7,10%s; all modes, levels, several masks and requested sizes) on ONE QRCodeWriter, ONE QRCodeReader (Reset() before every second step) and ONE decoder.Decoder; every step must read back its own text, give the fresh writer's image, and leave earlier images unchanged", n, map[bool]string{true: "", false: ",27,40"}[chk.Quick()]),
		len(seqs),
		func(i int) string { return fmt.Sprint(seqs[i]) },
		func(l *mc.Local, i int) { historySeq(l, menu, fresh, seqs[i]) })
}

// ---------------------------------------------------------------------------------------------
// (e) hint spellings: the writer documents every numeric / enumerated hint both as a typed value
// and as its string spelling. For every level x version hint x mask hint x margin the symbol
// written with ALL hints spelled as strings must read back (text, level) and be pixel-identical
// to the symbol written with typed values.

type spellCase struct {
	Sub     string // "spelling"
	Text    string
	Level   int
	Version int // 0 = none
	Mask    int // -1 = none
	Margin  int // -1 = none
	GS1     bool
}

func (c spellCase) hints(asStrings bool) map[gozxing.EncodeHintType]interface{} {
	h := map[gozxing.EncodeHintType]interface{}{}
	if asStrings {
		h[gozxing.EncodeHintType_ERROR_CORRECTION] = string(levelNames[c.Level])
	} else {
		h[gozxing.EncodeHintType_ERROR_CORRECTION] = libLevels[c.Level]
	}
	put := func(k gozxing.EncodeHintType, v int, on bool) {
		if !on {
			return
		}
		if asStrings {
			// every form strconv.Atoi reads as that number
			h[k] = fmt.Sprintf([]string{"%d", "%02d", "+%d", "%03d"}[(v+c.Level+int(k))%4], v)
		} else {
			h[k] = v
		}
	}
	put(gozxing.EncodeHintType_QR_VERSION, c.Version, c.Version > 0)
	put(gozxing.EncodeHintType_QR_MASK_PATTERN, c.Mask, c.Mask >= 0)
	put(gozxing.EncodeHintType_MARGIN, c.Margin, c.Margin >= 0)
	if c.GS1 {
		if asStrings {
			h[gozxing.EncodeHintType_GS1_FORMAT] = "true"
		} else {
			h[gozxing.EncodeHintType_GS1_FORMAT] = true
		}
	}
	return h
}

func spellOne(l *mc.Local, c spellCase) {
	l.Beat(fmt.Sprintf("spelling %+v", c))
	var typed, spelled *gozxing.BitMatrix
	var e1, e2 error
	pm, site := mc.Guard(func() {
		typed, e1 = qrcode.NewQRCodeWriter().Encode(c.Text, gozxing.BarcodeFormat_QR_CODE, 0, 0, c.hints(false))
		spelled, e2 = qrcode.NewQRCodeWriter().Encode(c.Text, gozxing.BarcodeFormat_QR_CODE, 0, 0, c.hints(true))
	})
	l.Count("evaluations", 2)
	key := fmt.Sprintf("C01/spelling/level=%c", levelNames[c.Level])
	if pm != "" {
		chk.Violation("C01/panic/"+site, "QRCodeWriter panicked with string-spelled hints: "+pm, c)
		return
	}
	if e1 != nil {
		return // the typed-value case is judged by the other families
	}
	if e2 != nil {
		chk.Violation(key+"/refused", fmt.Sprintf("hints spelled as strings are refused (%v) where the typed values are accepted: %+v", e2, c), c)
		return
	}
	if !equalMatrix(typed, spelled) {
		chk.Violation(key+"/differs", fmt.Sprintf("the symbol written with string-spelled hints differs from the one written with typed values: %+v", c), c)
		return
	}
	r := decodeImage(spelled)
	want := c.Text
	if kind, what := checkRead(want, c.Level, r, true); kind != "" && !c.GS1 {
		chk.Violation(key+"/"+kind, fmt.Sprintf("symbol written with string-spelled hints %+v: %s", c, what), c)
		return
	}
	l.Distinct("nontrivial", fmt.Sprintf("spelling %+v", c))
}

func runSpellings() {
	var cases []spellCase
	for lv := 0; lv < 4; lv++ {
		for _, v := range []int{0, 1, 2, 7, 10, 27, 40} {
			for mask := -1; mask < 8; mask++ {
				for _, mg := range []int{-1, 4, 7} {
					cases = append(cases, spellCase{"spelling", "SPELLED 42", lv, v, mask, mg, false})
				}
			}
			cases = append(cases, spellCase{"spelling", "0112345678901231", lv, v, 2, -1, true})
		}
	}
	chk.Range("(e) hint spellings: level{L,M,Q,H} x version hint{none,1,2,7,10,27,40} x mask hint{none,0..7} x margin{none,4,7} (and GS1) with ALL hints spelled as strings: accepted like the typed values, pixel-identical symbol, reads back with the same level", len(cases),
		func(i int) string { return fmt.Sprintf("%+v", cases[i]) },
		func(l *mc.Local, i int) { spellOne(l, cases[i]) })
	chk.Sample("spelling", cases[len(cases)/2])
}
