package main

import (
	"unicode/utf8"

	"golang.org/x/text/encoding/charmap"
	"golang.org/x/text/encoding/japanese"

	"verif/ref/qr"
)

// Payload families of the boundary sub-spaces. Each family is meant to make the library pick one
// mode; which mode the library really picked is observed afterwards (reference reader), never assumed.
type pmode int

const (
	pNumeric pmode = iota
	pAlnum
	pByteLatin1 // CHARACTER_SET=ISO-8859-1: every byte value 0x00..0xFF as U+0000..U+00FF (ECI header present)
	pByteUTF8   // no charset hint: UTF-8 bytes (the library's default), ASCII 0x00..0x7F and 2/3/4-byte runes
	pKanji      // CHARACTER_SET=Shift_JIS, double-byte JIS X 0208 characters from both Kanji-mode ranges
	numPmodes
)

var pmodeNames = [...]string{"numeric", "alphanumeric", "byte-iso8859-1", "byte-utf8-default", "kanji"}

func (m pmode) String() string { return pmodeNames[m] }

func (m pmode) charset() string {
	switch m {
	case pByteLatin1:
		return "ISO-8859-1"
	case pKanji:
		return "Shift_JIS"
	}
	return ""
}

func (m pmode) refMode() qr.Mode {
	switch m {
	case pNumeric:
		return qr.Numeric
	case pAlnum:
		return qr.Alphanumeric
	case pKanji:
		return qr.Kanji
	}
	return qr.Byte
}

// capacityOf is the number of payload units (characters; bytes for the byte families) that fit
// version v at level lv in a single segment of the family's mode. Source: ref/qr only.
func capacityOf(m pmode, v, lv int) int {
	if m == pByteLatin1 {
		// the charset hint makes the writer emit an ECI header (4-bit mode + 8-bit designator)
		bits := 8*qr.DataCodewords(v, qr.Level(lv)) - 12 - 4 - qr.CharCountBits(qr.Byte, v)
		return bits / 8
	}
	return qr.Capacity(v, qr.Level(lv), m.refMode())
}

const alnumChars = "0123456789ABCDEFGHIJKLMNOPQRSTUVWXYZ $%*+-./:"

var (
	kanjiList []rune // every double-byte character of both Kanji ranges that Shift_JIS maps one-to-one
	utf8Cycle []rune // the rune cycle of the byte-utf8-default family
)

func initPayloads() {
	dec := japanese.ShiftJIS.NewDecoder()
	enc := japanese.ShiftJIS.NewEncoder()
	for _, rg := range [][2]int{{0x8140, 0x9FFC}, {0xE040, 0xEBBF}} {
		for code := rg[0]; code <= rg[1]; code++ {
			lo := code & 0xFF
			if lo < 0x40 || lo == 0x7F || lo > 0xFC {
				continue
			}
			src := []byte{byte(code >> 8), byte(lo)}
			out, err := dec.Bytes(src)
			if err != nil || utf8.RuneCount(out) != 1 {
				continue
			}
			r, _ := utf8.DecodeRune(out)
			if r == utf8.RuneError || r < 0x80 {
				continue
			}
			back, err := enc.Bytes(out)
			if err != nil || len(back) != 2 || back[0] != src[0] || back[1] != src[1] {
				continue // not the canonical code of this character (NEC/IBM duplicates)
			}
			kanjiList = append(kanjiList, r)
		}
	}
	three := []rune{0x0800, 'あ', '漢', '€', 'ｱ', 0xD7FF, 0xE000, 0xFFFC}
	four := []rune{0x1F600, 0x10000, 0x10FFFF, 0x2000B}
	for i := 0; i < 128; i++ {
		utf8Cycle = append(utf8Cycle, rune(i), rune(0x80+i*15))
		if i%4 == 1 {
			utf8Cycle = append(utf8Cycle, three[(i/4)%len(three)])
		}
		if i%8 == 6 {
			utf8Cycle = append(utf8Cycle, four[(i/8)%len(four)])
		}
	}
}

func alphabetSize(m pmode) int {
	switch m {
	case pNumeric:
		return 10
	case pAlnum:
		return 45
	case pByteLatin1:
		return 256
	case pByteUTF8:
		return len(utf8Cycle)
	}
	return len(kanjiList)
}

// rawPayload builds n units of family m, walking the family's alphabet cyclically from index start.
// cover (may be nil) is marked with the alphabet indexes used. next is the index after the last one used.
func rawPayload(m pmode, n, start int, cover []bool) (text string, next int) {
	size := alphabetSize(m)
	buf := make([]byte, 0, n*3)
	mark := func(i int) {
		if cover != nil {
			cover[i] = true
		}
	}
	pos := start % size
	if m == pByteUTF8 {
		left := n
		for left > 0 {
			r := utf8Cycle[pos]
			if utf8.RuneLen(r) <= left {
				buf = utf8.AppendRune(buf, r)
				left -= utf8.RuneLen(r)
				mark(pos)
			}
			pos = (pos + 1) % size
		}
		return string(buf), pos
	}
	for i := 0; i < n; i++ {
		switch m {
		case pNumeric:
			buf = append(buf, byte('0'+pos))
		case pAlnum:
			buf = append(buf, alnumChars[pos])
		case pByteLatin1:
			buf = utf8.AppendRune(buf, rune(pos))
		case pKanji:
			buf = utf8.AppendRune(buf, kanjiList[pos])
		}
		mark(pos)
		pos = (pos + 1) % size
	}
	return string(buf), pos
}

// contentClass is the documented automatic mode selection of the writer, from the content alone:
// all digits -> numeric; all in the 45-character set -> alphanumeric; otherwise byte (Kanji needs the
// Shift_JIS hint and is decided in model()).
func contentClass(s string) qr.Mode {
	if s == "" {
		return qr.Byte
	}
	digits := true
	for i := 0; i < len(s); i++ {
		c := s[i]
		if c >= '0' && c <= '9' {
			continue
		}
		digits = false
		if qr.AlnumIndex(c) < 0 {
			return qr.Byte
		}
	}
	if digits {
		return qr.Numeric
	}
	return qr.Alphanumeric
}

// payload returns the family-m text of n units starting at alphabet index start, moving start
// forward until the content alone selects the intended mode (a short byte payload that happens to be
// all digits would otherwise be written in numeric mode). It returns the start really used.
func payload(m pmode, n, start int, cover []bool) (text string, used, next int) {
	for k := 0; ; k++ {
		t, nx := rawPayload(m, n, start+k, nil)
		ok := true
		switch m {
		case pAlnum:
			ok = contentClass(t) == qr.Alphanumeric
		case pByteLatin1, pByteUTF8:
			ok = contentClass(t) == qr.Byte
		}
		if ok {
			if cover != nil {
				rawPayload(m, n, start+k, cover)
			}
			return t, (start + k) % alphabetSize(m), nx
		}
	}
}

// unitLen is the payload length in the units capacityOf counts.
func unitLen(m pmode, s string) int {
	if m == pByteUTF8 {
		return len(s)
	}
	return utf8.RuneCountInString(s)
}

// encodeIn returns the bytes of s in the named charset ("" = UTF-8), ok=false if s is not representable.
// golang.org/x/text is the trusted charset oracle.
func encodeIn(charset, s string) ([]byte, bool) {
	switch charset {
	case "", "UTF-8":
		return []byte(s), utf8.ValidString(s)
	case "ISO-8859-1":
		b, err := charmap.ISO8859_1.NewEncoder().Bytes([]byte(s))
		return b, err == nil
	case "Shift_JIS":
		b, err := japanese.ShiftJIS.NewEncoder().Bytes([]byte(s))
		return b, err == nil
	}
	return nil, false
}

func decodeIn(charset string, b []byte) string {
	switch charset {
	case "ISO-8859-1":
		o, _ := charmap.ISO8859_1.NewDecoder().Bytes(b)
		return string(o)
	case "Shift_JIS":
		o, _ := japanese.ShiftJIS.NewDecoder().Bytes(b)
		return string(o)
	}
	return string(b)
}

var eciNumber = map[string]int{"UTF-8": 26, "ISO-8859-1": 3, "Shift_JIS": 20}

// expectation is what the property demands for (text, options), derived without the library.
type expectation struct {
	representable bool
	mode          qr.Mode
	segs          []qr.Segment
	fits          bool
	fitVersion    int // smallest admissible version the single segment fits (0 if none)
}

// model: single segment in the mode the content selects; ECI header iff byte mode and a charset hint.
func model(text string, o opt) expectation {
	var e expectation
	e.mode = contentClass(text)
	e.representable = true
	var data []byte
	eci := -1
	if o.Charset == "Shift_JIS" {
		if b, ok := encodeIn("Shift_JIS", text); ok && len(b)%2 == 0 {
			kanji := true
			for i := 0; i < len(b); i += 2 {
				code := int(b[i])<<8 | int(b[i+1])
				if !(code >= 0x8140 && code <= 0x9FFC) && !(code >= 0xE040 && code <= 0xEBBF) {
					kanji = false
				}
			}
			if kanji {
				e.mode = qr.Kanji
				data = b
			}
		}
	}
	switch e.mode {
	case qr.Numeric, qr.Alphanumeric:
		data = []byte(text)
	case qr.Byte:
		b, ok := encodeIn(o.Charset, text)
		if !ok {
			e.representable = false
			return e
		}
		data = b
		if o.Charset != "" {
			eci = eciNumber[o.Charset]
		}
	}
	e.segs = []qr.Segment{{Mode: e.mode, Data: data, ECI: eci}}
	lo, hi := 1, 40
	if o.Version != 0 {
		lo, hi = o.Version, o.Version
	}
	for v := lo; v <= hi; v++ {
		if _, err := qr.DataCodewordsFor(e.segs, v, qr.Level(o.Level)); err == nil {
			e.fits = true
			e.fitVersion = v
			break
		}
	}
	return e
}
