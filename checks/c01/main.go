// C01 — QR Code: what is written is what is read (all versions, levels, masks, modes).
//
// Round-trip property, so the oracle is read(write(t)) == t on the real code. The reference model
// verif/ref/qr supplies only (1) the capacities, so that "encoding succeeds at exactly capacity" and
// "capacity+1 is refused, never truncated" are part of the oracle, and (2) an independent reading of
// each produced symbol (version, level, mask, mode, count) used to MEASURE which cases were exercised.
//
// Sub-spaces (each enumerated completely, see the Range names):
//
//	(a) boundary family: forced version x level x payload family x length in {cap, cap-1, cap-2, cap+1} x mask
//	(a') the same lengths without a version hint (the writer's two-pass version recommendation)
//	(b) small-scope texts over a 16-symbol alphabet x level x mask x version hint x charset hint
//	(c) image level: QRCodeWriter at requested sizes/margins -> QRCodeReader in pure-barcode mode
package main

import (
	"fmt"
	"sort"
	"strings"
	"sync"

	"verif/mc"

	"github.com/makiuchi-d/gozxing"
	"github.com/makiuchi-d/gozxing/qrcode"
)

var chk *mc.Check

// ---------------------------------------------------------------------------------------------
// failure statistics (printed once at the end: violation keys are fixed classes, the summary
// shows which attribute the failures have in common, e.g. "mask: 3=412")

var (
	statMu sync.Mutex
	stats  = map[string]map[string]int{}
)

var outcomeTally = map[string]int{}

// tally counts observed outcome classes; the table goes into the evidence file so that a reader can
// see that refusals, every mode and every hint combination really occurred.
func tally(l *mc.Local, class string) {
	l.Distinct("outcomes", class)
	statMu.Lock()
	outcomeTally[class]++
	statMu.Unlock()
}

func noteFailure(attrs ...string) {
	statMu.Lock()
	defer statMu.Unlock()
	for i := 0; i+1 < len(attrs); i += 2 {
		m := stats[attrs[i]]
		if m == nil {
			m = map[string]int{}
			stats[attrs[i]] = m
		}
		m[attrs[i+1]]++
	}
}

func printFailureSummary() {
	statMu.Lock()
	defer statMu.Unlock()
	if len(stats) == 0 {
		return
	}
	var names []string
	for n := range stats {
		names = append(names, n)
	}
	sort.Strings(names)
	for _, n := range names {
		var parts []string
		for k, v := range stats[n] {
			parts = append(parts, fmt.Sprintf("%s=%d", k, v))
		}
		sort.Strings(parts)
		fmt.Printf("C01 failures by %s: %s\n", n, strings.Join(parts, " "))
	}
}

func vclass(v int) string {
	switch {
	case v == 0:
		return "auto"
	case v <= 9:
		return "1-9"
	case v <= 26:
		return "10-26"
	}
	return "27-40"
}

// ---------------------------------------------------------------------------------------------
// the oracle for one matrix-level case

const (
	expFit     = iota // the text fits: writing must succeed and reading must return exactly the text and level
	expUnrep          // the text is not representable in the hinted charset: an error is admissible
	expTooLong        // the text does not fit the forced version / any version: an error is admissible
)

type mcase struct {
	rc        rcase
	text      string
	o         opt
	expect    int
	keyFit    string // key prefix for a fitting text that fails
	keyRefuse string // key prefix for an inadmissible text that is accepted and comes back wrong
	family    string // payload family / content class for the failure summary
	lenClass  string
}

// evaluate runs write -> read on the real code and applies the oracle. It returns the outcome class
// and what the writer produced (nil code if refused).
func evaluate(l *mc.Local, c mcase) (string, written) {
	l.Beat(c.rc.Sub + " " + short(c.text) + " " + c.o.String())
	w := encodeMatrix(c.text, c.o)
	l.Count("evaluations", 1)
	fail := func(key, kind, what string) {
		chk.Violation(key+"/"+kind, fmt.Sprintf("%s; text %s (%d bytes), %s", what, short(c.text), len(c.text), c.o), c.rc)
		mask := "none"
		if c.o.Mask >= 0 {
			mask = fmt.Sprint(c.o.Mask)
		}
		cs := c.o.Charset
		if cs == "" {
			cs = "none"
		}
		noteFailure("sub", c.rc.Sub, "kind", kind, "family", c.family, "len", c.lenClass, "mask-hint", mask,
			"level", string(levelNames[c.o.Level]), "version-hint", vclass(c.o.Version), "charset-hint", cs)
	}
	if w.panicked != "" {
		fail("C01/panic/"+w.site, "writer", "writer panicked: "+w.panicked)
		return "writer-panic", w
	}
	if w.err != nil {
		switch c.expect {
		case expFit:
			fail(c.keyFit, "encode-refused", "text fits but the writer refuses it: "+w.err.Error())
			return "fit-refused", w
		case expUnrep:
			return "refused-unrepresentable", w
		}
		return "refused-too-long", w
	}
	r := decodeMatrix(w.code.GetMatrix(), nil)
	kind, what := checkRead(c.text, c.o.Level, r, false)
	if kind == "" {
		switch c.expect {
		case expUnrep:
			return "unrepresentable-but-exact", w // e.g. a writer that falls back to another charset: the property still holds
		case expTooLong:
			return "beyond-single-segment-capacity-but-exact", w
		}
		return "ok", w
	}
	if strings.HasPrefix(kind, "panic/") {
		fail("C01/"+kind, "reader", what)
		return "reader-panic", w
	}
	switch c.expect {
	case expUnrep:
		fail(c.keyRefuse, "unrepresentable-accepted/"+kind, "text is not representable in the hinted charset, yet the writer produced a symbol and "+what)
		return "unrepresentable-accepted", w
	case expTooLong:
		fail(c.keyRefuse, "accepted/"+kind, "text exceeds the capacity, yet the writer produced a symbol (silent damage instead of an error) and "+what)
		return "toolong-accepted", w
	}
	// a fitting text came back wrong
	if kind == "wrong-text" && c.o.Charset == "" && w.code.GetMode().String() == "BYTE" {
		// no charset hint: the writer stores UTF-8 bytes without designator and the reader guesses.
		r2 := decodeMatrix(w.code.GetMatrix(), map[gozxing.DecodeHintType]interface{}{gozxing.DecodeHintType_CHARACTER_SET: "UTF-8"})
		k2, _ := checkRead(c.text, c.o.Level, r2, false)
		class := "other"
		for _, cs := range []string{"ISO-8859-1", "Shift_JIS"} {
			if decodeIn(cs, []byte(c.text)) == r.text {
				class = "read-as-" + cs
			}
		}
		hinted := "with DecodeHintType_CHARACTER_SET=UTF-8 the same symbol reads back exactly"
		if k2 != "" {
			hinted = "with DecodeHintType_CHARACTER_SET=UTF-8 the same symbol still fails (" + k2 + ")"
			class += "/also-with-utf8-hint"
		}
		fail("C01/nohint/guess", class, "UTF-8 text written without charset hint is read with a wrongly guessed charset: "+what+"; "+hinted)
		return "nohint-misguess", w
	}
	fail(c.keyFit, kind, what)
	return kind, w
}

// ---------------------------------------------------------------------------------------------
// (a) boundary family

type bjob struct {
	m        pmode
	v, lv    int
	delta    int // length = capacity + delta
	mask     int
	auto     bool // no version hint
	n, start int
}

func deltaName(d int) string {
	switch {
	case d == 0:
		return "cap"
	case d > 0:
		return fmt.Sprintf("cap+%d", d)
	}
	return fmt.Sprintf("cap%d", d)
}

var coverage [numPmodes][]bool

func runBoundary(name string, jobs []bjob) {
	// assign alphabet start offsets sequentially: consecutive cases of a family continue the cycle
	var next [numPmodes]int
	for i := range jobs {
		j := &jobs[i]
		j.n = capacityOf(j.m, j.v, j.lv) + j.delta
		_, j.start, next[j.m] = payload(j.m, j.n, next[j.m], coverage[j.m])
	}
	chk.Range(name, len(jobs),
		func(i int) string { return fmt.Sprintf("%+v", jobs[i]) },
		func(l *mc.Local, i int) { boundaryCase(l, jobs[i]) })
}

func (j bjob) rcase() rcase {
	rc := rcase{Sub: "boundary", Family: j.m.String(), Len: j.n, Start: j.start, Level: j.lv, Mask: j.mask, Version: j.v, Charset: j.m.charset()}
	if j.auto {
		rc.Sub = "autoversion"
		rc.Version = 0
	}
	return rc
}

func boundaryCase(l *mc.Local, j bjob) {
	text, _ := rawPayload(j.m, j.n, j.start, nil)
	if unitLen(j.m, text) != j.n {
		panic(fmt.Sprintf("harness: payload of %d units, wanted %d", unitLen(j.m, text), j.n))
	}
	rc := j.rcase()
	c := mcase{rc: rc, text: text, o: rc.opt(), family: j.m.String(), lenClass: deltaName(j.delta)}
	sub := "boundary"
	if j.auto {
		sub = "autoversion"
	}
	c.keyFit = fmt.Sprintf("C01/%s/mode=%s/len=%s", sub, j.m, deltaName(j.delta))
	c.keyRefuse = fmt.Sprintf("C01/refuse/%s/mode=%s", deltaName(j.delta), j.m)
	c.expect = expFit
	if j.delta > 0 && (!j.auto || j.v == 40) {
		c.expect = expTooLong
	}
	outcome, w := evaluate(l, c)
	tally(l, fmt.Sprintf("%s/%s/%s/%s", sub, j.m, deltaName(j.delta), outcome))
	switch outcome {
	case "refused-too-long":
		l.Distinct("nontrivial", fmt.Sprintf("%s refused v%d %c %s %s", sub, j.v, levelNames[j.lv], j.m, deltaName(j.delta)))
		return
	case "ok":
	default:
		return
	}
	// measure, with the independent reference reader, what was really exercised
	ob := observe(w.code.GetMatrix())
	if !ob.ok {
		l.Distinct("anomalies", "reference reader could not read the symbol "+sub)
		return
	}
	wantV := j.v
	if j.auto && j.delta > 0 {
		wantV = -1 // some larger version
	}
	honoured := ob.level == j.lv && (j.mask < 0 || ob.mask == j.mask) && (wantV < 0 || ob.version == wantV)
	wantModes := j.m.refMode().String() + ";"
	if j.m == pByteLatin1 && (strings.HasPrefix(ob.modes, "eci1+") || strings.HasPrefix(ob.modes, "eci3+")) {
		wantModes = ob.modes[:5] + wantModes // ECI 000001 and 000003 both designate ISO-8859-1
	}
	if ob.modes != wantModes || ob.count != j.n {
		// not a C01 matter (the text came back exactly) but the case did not exercise what it names
		l.Distinct("anomalies", fmt.Sprintf("%s family %s written as %s", sub, j.m, ob.modes))
		chk.Sample("anomaly-mode", map[string]interface{}{"case": rc, "observed": ob.modes, "count": ob.count})
		return
	}
	if !honoured {
		l.Distinct("anomalies", fmt.Sprintf("%s hint not honoured (observed v%d level %d mask %d for %+v)", sub, ob.version, ob.level, ob.mask, rc))
		chk.Sample("anomaly-hint", map[string]interface{}{"case": rc, "observed": fmt.Sprintf("%+v", ob)})
		return
	}
	l.Distinct("nontrivial", fmt.Sprintf("%s v%d %d m%d(%d) %s n%d", sub, ob.version, ob.level, ob.mask, j.mask, ob.modes, ob.count))
	l.Distinct("symbols(version,level,mask,mode)", fmt.Sprintf("%d %d %d %s", ob.version, ob.level, ob.mask, ob.modes))
}

func boundaryJobs(full bool) (forced, auto []bjob) {
	rot := 0
	maskVersions := map[int]bool{1: true, 7: true, 10: true, 27: true, 40: true}
	for v := 1; v <= 40; v++ {
		for lv := 0; lv < 4; lv++ {
			for m := pmode(0); m < numPmodes; m++ {
				if full {
					for _, d := range []int{0, -1, -2} {
						for mask := -1; mask < 8; mask++ {
							forced = append(forced, bjob{m: m, v: v, lv: lv, delta: d, mask: mask})
						}
					}
				} else {
					// quick: capacity and capacity-1 with one rotating mask everywhere; all eight
					// masks and automatic masking on the versions {1,7,10,27,40}
					for _, d := range []int{0, -1} {
						if maskVersions[v] {
							for mask := -1; mask < 8; mask++ {
								forced = append(forced, bjob{m: m, v: v, lv: lv, delta: d, mask: mask})
							}
						} else {
							forced = append(forced, bjob{m: m, v: v, lv: lv, delta: d, mask: rot % 8})
							rot++
						}
					}
				}
				forced = append(forced, bjob{m: m, v: v, lv: lv, delta: 1, mask: rot % 8})
				rot++
				for _, d := range []int{0, 1} {
					auto = append(auto, bjob{m: m, v: v, lv: lv, delta: d, mask: rot % 8, auto: true})
					rot++
				}
			}
		}
	}
	return
}

// ---------------------------------------------------------------------------------------------
// (b) small-scope texts

var sigma = []string{"0", "9", "A", "Z", " ", "$", ":", "a", "~", "\x00", "é", "ｱ", "あ", "漢", "€", "\U0001F600"}

var (
	axLevels   = []int{1, 0, 2, 3} // index 0 = default (M)
	axVersions = []int{0, 1, 2, 10, 27}
	axCharsets = []string{"", "UTF-8", "ISO-8859-1", "Shift_JIS"}
)

// assignments returns every option assignment that differs from the default (level M, no mask,
// no version, no charset) in at most maxDev axes (maxDev < 0: the full product).
func assignments(masks []int, maxDev int) []opt {
	var out []opt
	for li, lv := range axLevels {
		for mi, mk := range masks {
			for vi, v := range axVersions {
				for ci, cs := range axCharsets {
					dev := 0
					for _, x := range []int{li, mi, vi, ci} {
						if x != 0 {
							dev++
						}
					}
					if maxDev >= 0 && dev > maxDev {
						continue
					}
					out = append(out, opt{lv, mk, v, cs})
				}
			}
		}
	}
	return out
}

func smallText(k, idx int) string {
	var sb strings.Builder
	for i := 0; i < k; i++ {
		sb.WriteString(sigma[idx%len(sigma)])
		idx /= len(sigma)
	}
	return sb.String()
}

func pow(b, e int) int {
	r := 1
	for ; e > 0; e-- {
		r *= b
	}
	return r
}

type sjob struct {
	k, lo, hi int
	opts      []opt
}

func smallCase(l *mc.Local, text string, o opt) {
	e := model(text, o)
	cs := o.Charset
	if cs == "" {
		cs = "none"
	}
	rc := rcase{Sub: "small", Text: text, Level: o.Level, Mask: o.Mask, Version: o.Version, Charset: o.Charset}
	c := mcase{rc: rc, text: text, o: o, family: "content:" + e.mode.String(), lenClass: fmt.Sprintf("%d-symbols", len([]rune(text)))}
	c.keyFit = fmt.Sprintf("C01/small/charset=%s/mode=%s", cs, e.mode)
	c.keyRefuse = fmt.Sprintf("C01/refuse/small/charset=%s", cs)
	switch {
	case !e.representable:
		c.expect = expUnrep
	case !e.fits:
		c.expect = expTooLong
	default:
		c.expect = expFit
	}
	outcome, w := evaluate(l, c)
	mode := "-"
	if w.code != nil {
		mode = w.code.GetMode().String()
	}
	tally(l, fmt.Sprintf("small/%s/cs=%s/vh=%d/lib-mode=%s/model-mode=%s", outcome, cs, o.Version, mode, e.mode))
	switch outcome {
	case "ok", "refused-unrepresentable", "refused-too-long":
		l.Distinct("nontrivial", fmt.Sprintf("small %q %v", text, o))
	}
}

func runSmall() {
	allMasks := []int{-1, 0, 1, 2, 3, 4, 5, 6, 7}
	var jobs []sjob
	var name string
	if chk.Quick() {
		as := assignments([]int{-1, 2, 5}, 2)
		name = fmt.Sprintf("(b) small texts: ALL strings of length 0..2 over the 16-symbol alphabet x all assignments of level{L,M,Q,H} x mask{none,2,5} x version{none,1,2,10,27} x charset{none,UTF-8,ISO-8859-1,Shift_JIS} that differ from the default (M, none, none, none) in at most 2 axes (%d assignments per string)", len(as))
		for k := 0; k <= 2; k++ {
			for s := 0; s < pow(16, k); s++ {
				jobs = append(jobs, sjob{k, s, s + 1, as})
			}
		}
	} else {
		full := assignments(allMasks, -1)
		dev2 := assignments(allMasks, 2)
		def := assignments(allMasks, 0)
		name = fmt.Sprintf("(b) small texts over the 16-symbol alphabet: length 0..2 x FULL product level x mask{none,0..7} x version{none,1,2,10,27} x charset{none,UTF-8,ISO-8859-1,Shift_JIS} (%d assignments); length 3 x all assignments within 2 deviations of the default (%d); length 4 x default options", len(full), len(dev2))
		for k := 0; k <= 2; k++ {
			for s := 0; s < pow(16, k); s++ {
				for a := 0; a < len(full); a += 180 {
					jobs = append(jobs, sjob{k, s, s + 1, full[a : a+180]})
				}
			}
		}
		for s := 0; s < pow(16, 3); s++ {
			jobs = append(jobs, sjob{3, s, s + 1, dev2})
		}
		for s := 0; s < pow(16, 4); s += 128 {
			jobs = append(jobs, sjob{4, s, s + 128, def})
		}
	}
	chk.Range(name, len(jobs),
		func(i int) string { return fmt.Sprintf("len %d strings %d..%d", jobs[i].k, jobs[i].lo, jobs[i].hi) },
		func(l *mc.Local, i int) {
			j := jobs[i]
			for s := j.lo; s < j.hi; s++ {
				t := smallText(j.k, s)
				for _, o := range j.opts {
					smallCase(l, t, o)
				}
			}
		})
}

// (b') texts that LOOK like numbers in some syntax but are not plain digit strings: the mode is
// chosen from the content, and a classification that leans on a number parser (base prefixes, digit
// separators, signs, exponents, other scripts' digits) would put them into numeric mode. Every
// length 2..24 of every pattern, default options and two others.
func runLookalikes() {
	type pat struct {
		name string
		gen  func(n int) string
	}
	rep := func(unit string, n int) string {
		if n < 0 {
			n = 0
		}
		b := make([]byte, 0, n)
		for len(b) < n {
			b = append(b, unit[len(b)%len(unit)])
		}
		return string(b)
	}
	pats := []pat{
		{"0x + hex digits", func(n int) string { return "0x" + rep("DEADBEEF0129", n-2) }},
		{"0X + hex digits", func(n int) string { return "0X" + rep("ab12cd34", n-2) }},
		{"0b + binary digits", func(n int) string { return "0b" + rep("10101100", n-2) }},
		{"0o + octal digits", func(n int) string { return "0o" + rep("1234567", n-2) }},
		{"digits with _ separators", func(n int) string { return rep("1_000_", n-1) + "7" }},
		{"leading +", func(n int) string { return "+" + rep("1234567890", n-1) }},
		{"leading -", func(n int) string { return "-" + rep("9876543210", n-1) }},
		{"decimal point", func(n int) string { return rep("12345", n/2) + "." + rep("67890", n-n/2-1) }},
		{"exponent", func(n int) string { return rep("12345", n-3) + "e10" }},
		{"E exponent", func(n int) string { return rep("98765", n-3) + "E+5"[:3] }},
		{"leading space", func(n int) string { return " " + rep("1234567890", n-1) }},
		{"trailing space", func(n int) string { return rep("1234567890", n-1) + " " }},
		{"leading zero octal", func(n int) string { return "0" + rep("89", n-1) }},
		{"fullwidth digits", func(n int) string { return strings.Repeat("１２３", n/3+1) }},
		{"arabic-indic digits", func(n int) string { return strings.Repeat("١٢٣", n/3+1) }},
		{"inf / nan", func(n int) string { return rep("Infinity NaN ", n) }},
	}
	opts := []opt{{Level: 1, Mask: -1}, {Level: 3, Mask: 2}, {Level: 0, Mask: -1, Version: 10}}
	type lj struct{ p, n int }
	var jobs []lj
	for p := range pats {
		for n := 2; n <= 24; n++ {
			jobs = append(jobs, lj{p, n})
		}
	}
	chk.Range(fmt.Sprintf("(b') number look-alikes: %d patterns (base prefixes 0x 0X 0b 0o, _ separators, signs, decimal point, exponents, spaces, leading-zero, fullwidth and Arabic-Indic digits, Infinity/NaN) x EVERY length 2..24 x 3 option sets: write -> read == text", len(pats)), len(jobs),
		func(i int) string { return fmt.Sprint(pats[jobs[i].p].name, " len ", jobs[i].n) },
		func(l *mc.Local, i int) {
			t := pats[jobs[i].p].gen(jobs[i].n)
			for _, o := range opts {
				smallCase(l, t, o)
			}
		})
}

// (b”) repeated and escape-like characters. A reader or writer that "understands" an escape
// convention (the AIM ECI protocol doubles a backslash and writes \000026 for a designator, URL and
// C escapes, entities, symbology identifiers) changes exactly the texts that contain such
// sequences - which class-representative alphabets never do. Every printable ASCII character c in
// the texts cc, ccc, cccc, a+cc+b, c+x+c, cc+1+cc, and a list of escape-like sequences, without a
// charset hint and under UTF-8, ISO-8859-1 and Shift_JIS.
func runRepeatedSpecials() {
	var texts []string
	for c := 32; c <= 126; c++ {
		ch := string(rune(c))
		texts = append(texts, ch+ch, ch+ch+ch, ch+ch+ch+ch, "a"+ch+ch+"b", ch+"x"+ch, ch+ch+"1"+ch+ch)
	}
	texts = append(texts, `\\fileserver\share\report.txt`, `a\\b`, `\n`, `\\n`, `\000026`, `\\000026`, `\000003abc`, `]Q1`, `]Q2\000026x`, `]Q3`, `%25`, `%%`, `%5C%5C`, `%41`, `\u0041`, `\x41`, `&amp;`, `&#65;`, `&&`, `\r\n`, `""`, `\"`, `\'`, `$$`, `{{x}}`, `${x}`, `<<>>`, `\\\\`, `\\\`, `a\`, `\`, `~~`, `~d029`, `^^`, `^FNC1`, "\x1d\x1d", "\x1d", "\x00\x00", "\t\t", "\r\n\r\n",
		// sequences by which OTHER encodings announce themselves inside 7-bit text (ISO-2022 designators
		// and shifts, HZ, UTF-7) and byte-order marks: in an ASCII text they are just characters
		"log: \x1b$B1234 done", "\x1b$B", "\x1b$@AB", "a\x1b(Bb", "\x1b(J~", "\x1b$A12", "\x1b$)C\x0eAB\x0f", "\x1b$(D", "\x1bN\x1bO", "\x0e\x0f", "x\x1b$B\x1b(B",
		"~{<:Ky~}", "~~", "+AGE-", "+ZeVnLIqe-", "a+-b", "\ufeffBOM first", "mid\ufeffBOM", "\ufffe", "\ufffd",
		// Latin-1 texts whose single-byte form is well-formed UTF-8 (mojibake look-alikes)
		"\u00c3\u00a9", "n\u00c2\u00b01", "\u00e2\u0082\u00ac5", "caf\u00c3\u00a9", "\u00c3\u00a9\u00c3\u00a9\u00c3\u00a9", "\u00c3\u00a9\u00e9", "\u00d0\u009f\u00d1\u0080")
	// character COUNTS that are multiples of 256 (and their neighbours): tallies of the charset guess
	for _, n := range []int{127, 128, 255, 256, 257, 511, 512, 513, 768, 1024} {
		texts = append(texts, strings.Repeat("\u00e9", n))
		if n <= 768 {
			texts = append(texts, strings.Repeat("\u20ac", n), "text "+strings.Repeat("\u00e9", n/2)+" and "+strings.Repeat("\u20ac", n-n/2))
		}
		if n <= 512 {
			texts = append(texts, strings.Repeat("\U0001F600", n))
		}
	}
	css := []string{"", "UTF-8", "ISO-8859-1", "Shift_JIS"}
	chk.Range(fmt.Sprintf("(b'') repeated and escape-like characters: every printable ASCII character doubled, tripled, quadrupled and in three mixed texts, and %d escape-like sequences (backslashes, \\000026, symbology identifiers, %%-escapes, entities, control characters, ISO-2022 / HZ / UTF-7 designators, byte-order marks) x charset hint {none, UTF-8, ISO-8859-1, Shift_JIS}: write -> read == text [%d texts]", len(texts)-95*6, len(texts)), len(texts),
		func(i int) string { return fmt.Sprintf("%q", texts[i]) },
		func(l *mc.Local, i int) {
			for _, cs := range css {
				smallCase(l, texts[i], opt{Level: 1, Mask: -1, Charset: cs})
			}
		})
}

// (b3) every value of every packed group: numeric mode packs three digits into 10 bits, a final
// pair into 7 and a final single digit into 4; alphanumeric mode packs two characters into 11 bits
// and a final one into 6. Every digit string of length 1..3, every two-digit and one-digit tail
// behind 3 and 6 digits, every alphanumeric pair and every single alphanumeric tail behind a pair.
func runPackedGroups() {
	var texts []string
	for n := 1; n <= 3; n++ {
		for v := 0; v < pow10i(n); v++ {
			texts = append(texts, fmt.Sprintf("%0*d", n, v))
		}
	}
	for v := 0; v < 100; v++ {
		texts = append(texts, fmt.Sprintf("123%02d", v), fmt.Sprintf("987654%02d", v))
	}
	for v := 0; v < 10; v++ {
		texts = append(texts, fmt.Sprintf("123%d", v), fmt.Sprintf("987654%d", v))
	}
	const alnum = "0123456789ABCDEFGHIJKLMNOPQRSTUVWXYZ $%*+-./:"
	for _, a := range alnum {
		for _, b := range alnum {
			texts = append(texts, "A"+string(a)+string(b)+"Z") // A? ?Z: both positions of a pair
		}
		texts = append(texts, "AB"+string(a), "A"+string(a))
	}
	const chunk = 64
	chk.Range(fmt.Sprintf("(b3) every value of every packed group: all digit strings of length 1..3, every two- and one-digit tail behind 3 and 6 digits, every alphanumeric pair inside a text and every alphanumeric tail: write -> read == text [%d texts]", len(texts)), (len(texts)+chunk-1)/chunk,
		func(i int) string { return fmt.Sprintf("%q", texts[i*chunk]) },
		func(l *mc.Local, i int) {
			for k := i * chunk; k < (i+1)*chunk && k < len(texts); k++ {
				smallCase(l, texts[k], opt{Level: 1, Mask: -1})
			}
		})
}

func pow10i(n int) int {
	p := 1
	for ; n > 0; n-- {
		p *= 10
	}
	return p
}

// (a”) numeric and alphanumeric texts AT CAPACITY together with a character-set hint. The hint
// names the encoding of byte segments; digits and the 45 alphanumeric characters select their own
// modes, which carry no ECI designator, so the capacity is the mode's own (7089 digits in 40-L)
// whatever hint accompanies the text. Every version x level x {numeric, alphanumeric} x hint
// {UTF-8, ISO-8859-1, Shift_JIS} x length {capacity, capacity-1, capacity-3}, forced version.
func runHintedCapacity() {
	type hj struct{ v, lv int }
	var jobs []hj
	for v := 1; v <= 40; v++ {
		for lv := 0; lv < 4; lv++ {
			jobs = append(jobs, hj{v, lv})
		}
	}
	chk.Range("(a'') numeric / alphanumeric texts at capacity WITH a charset hint: version 1..40 x level x {numeric, alphanumeric} x hint {UTF-8, ISO-8859-1, Shift_JIS} x length {capacity, capacity-1, capacity-3}, forced version (and automatic version for version 40): encoded, read back", len(jobs),
		func(i int) string { return fmt.Sprint(jobs[i]) },
		func(l *mc.Local, i int) {
			j := jobs[i]
			for _, m := range []pmode{pNumeric, pAlnum} {
				c := capacityOf(m, j.v, j.lv)
				for _, d := range []int{0, 1, 3} {
					if c-d < 1 {
						continue
					}
					t, _ := rawPayload(m, c-d, j.v*7+j.lv, nil)
					for _, cs := range []string{"UTF-8", "ISO-8859-1", "Shift_JIS"} {
						smallCase(l, t, opt{Level: j.lv, Mask: (j.v + d) % 8, Version: j.v, Charset: cs})
						if j.v == 40 && d == 0 {
							smallCase(l, t, opt{Level: j.lv, Mask: -1, Version: 0, Charset: cs})
						}
					}
				}
			}
		})
}

// ---------------------------------------------------------------------------------------------
// (c) image level

type ijob struct {
	m        pmode
	v, lv    int
	sizeKind int
	margin   int
	n, start int
}

var sizeKinds = []string{"0", "natural", "natural+1", "2natural+3", "3natural", "w=2natural+3,h=natural", "w=natural,h=3natural"}

func requested(kind, natural int) (int, int) {
	switch kind {
	case 0:
		return 0, 0
	case 1:
		return natural, natural
	case 2:
		return natural + 1, natural + 1
	case 3:
		return 2*natural + 3, 2*natural + 3
	case 4:
		return 3 * natural, 3 * natural
	case 5:
		return 2*natural + 3, natural
	}
	return natural, 3 * natural
}

// marginName: margin -1 stands for "no MARGIN hint" (the default quiet zone of 4 modules).
func marginName(m int) string {
	if m < 0 {
		return "margin=default"
	}
	return fmt.Sprintf("margin=%d", m)
}

func effMargin(m int) int {
	if m < 0 {
		return 4
	}
	return m
}

func (j ijob) rcase() rcase {
	w, h := requested(j.sizeKind, 17+4*j.v+2*effMargin(j.margin))
	return rcase{Sub: "image", Family: j.m.String(), Len: j.n, Start: j.start, Level: j.lv, Mask: -1, Version: j.v, Charset: j.m.charset(), W: w, H: h, Margin: j.margin}
}

func imageCase(l *mc.Local, rc rcase, sizeKind string) {
	text := rc.text()
	o := rc.opt()
	h := o.hints()
	h[gozxing.EncodeHintType_ERROR_CORRECTION] = libLevels[o.Level]
	if rc.Margin >= 0 {
		h[gozxing.EncodeHintType_MARGIN] = rc.Margin
	}
	l.Beat(fmt.Sprintf("image %+v", rc))
	var img *gozxing.BitMatrix
	var err error
	pm, site := mc.Guard(func() {
		img, err = qrcode.NewQRCodeWriter().Encode(text, gozxing.BarcodeFormat_QR_CODE, rc.W, rc.H, h)
	})
	l.Count("evaluations", 1)
	key := fmt.Sprintf("C01/image/size=%s/%s", sizeKind, marginName(rc.Margin))
	fail := func(key, kind, what string) {
		chk.Violation(key+"/"+kind, fmt.Sprintf("%s; version %d level %c, requested %dx%d %s, text %s (%s, %d units)", what, rc.Version, levelNames[rc.Level], rc.W, rc.H, marginName(rc.Margin), short(text), rc.Family, rc.Len), rc)
		noteFailure("sub", "image", "kind", kind, "family", rc.Family, "size", sizeKind, "margin", marginName(rc.Margin), "level", string(levelNames[rc.Level]), "version-hint", vclass(rc.Version))
	}
	if pm != "" {
		fail("C01/panic/"+site, "writer", "QRCodeWriter panicked: "+pm)
		return
	}
	if err != nil {
		fail(key, "encode-refused", "text fits the forced version but QRCodeWriter refuses it: "+err.Error())
		return
	}
	r := decodeImage(img)
	kind, what := checkRead(text, rc.Level, r, true)
	oc := kind
	if oc == "" {
		oc = "ok"
	}
	tally(l, fmt.Sprintf("image/size=%s/%s/%s", sizeKind, marginName(rc.Margin), oc))
	if kind != "" {
		if strings.HasPrefix(kind, "panic/") {
			fail("C01/"+kind, "reader", what)
		} else {
			fail(key, kind, "rendered image read in pure-barcode mode: "+what)
		}
		return
	}
	l.Distinct("nontrivial", fmt.Sprintf("image v%d %d %s %d %dx%d", rc.Version, rc.Level, sizeKind, rc.Margin, img.GetWidth(), img.GetHeight()))
	l.Distinct("image-sizes", fmt.Sprintf("%dx%d", img.GetWidth(), img.GetHeight()))
}

func runImage() {
	versions := []int{}
	for v := 1; v <= 40; v++ {
		versions = append(versions, v)
	}
	name := "(c) image level: version 1..40 (forced) x level{L,M,Q,H} x requested size{0, natural, natural+1, 2natural+3, 3natural, 2 non-square} x margin{no hint,4,5,9}; automatic mask; payload family rotates with (version+level), length = 2/3 capacity; QRCodeWriter -> NewBinaryBitmapFromImage -> QRCodeReader PURE_BARCODE"
	if chk.Quick() {
		versions = []int{1, 2, 6, 7, 9, 10, 26, 27, 33, 40}
		name = "(c) image level: version {1,2,6,7,9,10,26,27,33,40} (forced) x level{L,M,Q,H} x requested size{0, natural, natural+1, 2natural+3, 3natural, 2 non-square} x margin{no hint,4,5,9}; automatic mask; payload family rotates with (version+level), length = 2/3 capacity; QRCodeWriter -> NewBinaryBitmapFromImage -> QRCodeReader PURE_BARCODE"
	}
	var jobs []ijob
	var next [numPmodes]int
	for _, v := range versions {
		for lv := 0; lv < 4; lv++ {
			for sk := range sizeKinds {
				for _, mg := range []int{-1, 4, 5, 9} {
					m := pmode((v + lv) % int(numPmodes))
					c := capacityOf(m, v, lv)
					j := ijob{m: m, v: v, lv: lv, sizeKind: sk, margin: mg, n: c - c/3}
					_, j.start, next[m] = payload(m, j.n, next[m], nil)
					jobs = append(jobs, j)
				}
			}
		}
	}
	chk.Range(name, len(jobs),
		func(i int) string { return fmt.Sprintf("%+v", jobs[i]) },
		func(l *mc.Local, i int) { imageCase(l, jobs[i].rcase(), sizeKinds[jobs[i].sizeKind]) })
}

// ---------------------------------------------------------------------------------------------

func replay() {
	var rc rcase
	if err := mc.LoadReplay(chk.ReplayFile(), &rc); err != nil {
		fmt.Println("cannot load replay:", err)
		return
	}
	l := chk.NewLocal()
	defer l.Merge()
	text := rc.text()
	fmt.Printf("replay %s: text %s (%d bytes) %s\n", rc.Sub, short(text), len(text), rc.opt())
	switch rc.Sub {
	case "history":
		var h hrec
		if err := mc.LoadReplay(chk.ReplayFile(), &h); err == nil && len(h.Seq) > 0 {
			fresh := make([]*gozxing.BitMatrix, len(h.Menu))
			for k, s := range h.Menu {
				fresh[k], _ = qrcode.NewQRCodeWriter().Encode(s.text(), gozxing.BarcodeFormat_QR_CODE, s.W, s.H, s.hints())
			}
			historySeq(l, h.Menu, fresh, h.Seq)
		}
	case "spelling":
		var sc spellCase
		if err := mc.LoadReplay(chk.ReplayFile(), &sc); err == nil {
			spellOne(l, sc)
		}
	case "image":
		kind := "replay"
		nat := 17 + 4*rc.Version + 2*effMargin(rc.Margin)
		for k := range sizeKinds {
			if w, h := requested(k, nat); w == rc.W && h == rc.H {
				kind = sizeKinds[k]
			}
		}
		imageCase(l, rc, kind)
	case "charset-name":
		var nc nameCase
		if mc.LoadReplay(chk.ReplayFile(), &nc) == nil {
			nameOne(l, nc)
		}
	case "small":
		smallCase(l, text, rc.opt())
	default:
		for m := pmode(0); m < numPmodes; m++ {
			if m.String() != rc.Family {
				continue
			}
			for v := 1; v <= 40; v++ {
				// recover the job from the recorded length (auto-version cases carry Version 0)
				if rc.Version != 0 && v != rc.Version {
					continue
				}
				d := rc.Len - capacityOf(m, v, rc.Level)
				if d < -2 || d > 1 || (rc.Sub == "autoversion" && d < 0) {
					continue
				}
				boundaryCase(l, bjob{m: m, v: v, lv: rc.Level, delta: d, mask: rc.Mask, auto: rc.Sub == "autoversion", n: rc.Len, start: rc.Start})
				return
			}
		}
	}
}

func main() {
	chk = mc.New("C01", "exploration")
	chk.Rule = "every case is one (text, level, mask hint, version hint, charset hint[, requested size, margin]) written and read back on the real code; " +
		"boundary cases are non-trivial when the INDEPENDENT reference reader finds the requested version, level and mask and a single segment of the intended mode with the intended character count in the symbol (key = observed version/level/mask/mode/count), or when an over-capacity text is refused; " +
		"small-scope cases are non-trivial when they round-trip or are refused for the reason the model predicts (key = text + options); image cases when the pure-barcode read returns text, format and level (key = version/level/size/margin)"
	chk.Assume("texts are valid UTF-8; the empty text is exercised at matrix level only (QRCodeWriter documents that it refuses empty contents)")
	chk.Assume("'fits' is read as: fits as ONE segment in the mode the content selects (all digits: numeric; all in the 45-character set: alphanumeric; Shift_JIS hint and only double-byte Kanji-range characters: kanji; otherwise byte in the hinted charset, UTF-8 without hint), plus a 12-bit ECI header when a charset hint is given in byte mode; capacities and bit counts come from verif/ref/qr, not from the library")
	chk.Assume("weaker reading for inadmissible inputs (text longer than the forced version/version 40 holds, or not representable in the hinted charset): an error is admissible, and so is a symbol that reads back exactly; only a symbol that reads back as something else (silent truncation/substitution) is a violation")
	chk.Assume("without charset hint the statement promises 'byte (UTF-8 by default)': a wrong charset guess by the reader on such a symbol is reported (C01/nohint/guess/...), together with whether DecodeHintType_CHARACTER_SET=UTF-8 repairs it")
	chk.Assume("golang.org/x/text decides representability (charmap.ISO8859_1, japanese.ShiftJIS encoders) and supplies the list of JIS X 0208 characters; hints are passed with their documented Go types")
	chk.Assume("whether version/mask hints are honoured and the smallest version is chosen belongs to C07/C13; here the reference reader's observation only decides whether a case counts as exercised (set 'anomalies' otherwise)")
	initPayloads()
	for m := range coverage {
		coverage[m] = make([]bool, alphabetSize(pmode(m)))
	}
	if chk.ReplayFile() != "" {
		replay()
		chk.Finish()
	}

	forced, auto := boundaryJobs(!chk.Quick())
	if chk.Quick() {
		runBoundary("(a) boundary family, forced version: version 1..40 x level{L,M,Q,H} x family{numeric, alphanumeric, byte/ISO-8859-1 all 256 values, byte/UTF-8 default, kanji/Shift_JIS} x length{capacity, capacity-1} x one rotating forced mask, and x mask{none,0..7} on versions {1,7,10,27,40}; plus capacity+1 (must not be silently damaged) for every (version, level, family)", forced)
	} else {
		runBoundary("(a) boundary family, forced version: version 1..40 x level{L,M,Q,H} x family{numeric, alphanumeric, byte/ISO-8859-1 all 256 values, byte/UTF-8 default, kanji/Shift_JIS} x length{capacity, capacity-1, capacity-2} x mask{none,0..7}; plus capacity+1 (must not be silently damaged) for every (version, level, family)", forced)
	}
	runBoundary("(a') boundary lengths WITHOUT version hint: for every (version 1..40, level, family) the texts of length capacity(version) and capacity(version)+1 (the latter needs the next version; refused at version 40), rotating forced mask", auto)
	cov := map[string]string{}
	for m := pmode(0); m < numPmodes; m++ {
		used := 0
		for _, b := range coverage[m] {
			if b {
				used++
			}
		}
		cov[m.String()] = fmt.Sprintf("%d of %d alphabet symbols used in payloads", used, len(coverage[m]))
		if used != len(coverage[m]) {
			chk.Note(fmt.Sprintf("family %s: only %d of %d alphabet symbols occur in this tier's boundary payloads", m, used, len(coverage[m])))
		}
	}
	chk.Subspace("(a) alphabet coverage of the boundary payloads", cov)
	chk.Sample("boundary", forced[len(forced)/2].rcase())
	chk.Sample("boundary", forced[len(forced)-1].rcase())
	chk.Sample("autoversion", auto[len(auto)/3].rcase())

	runSmall()
	runLookalikes()
	runRepeatedSpecials()
	runCharsetNames()
	runPackedGroups()
	runHintedCapacity()
	chk.Sample("small", rcase{Sub: "small", Text: "漢\x00", Level: 3, Mask: 5, Version: 1, Charset: "Shift_JIS"})

	runImage()
	chk.Sample("image", ijob{m: pKanji, v: 7, lv: 2, sizeKind: 3, margin: 5, n: 40}.rcase())

	runHistory()
	runSpellings()

	printFailureSummary()
	chk.Subspace("observed outcome classes (cases)", outcomeTally)
	chk.Finish()
}
