package main

// (b4) character-set NAMES beyond the three the other families use. The property quantifies over
// "every registered ECI charset able to represent t"; which names are registered is the library's
// business, so candidate names are offered: every name of the IANA index that golang.org/x/text
// implements, plus common spellings. A name the writer refuses is not judged here (the registry is
// C15's subject). A name the writer ACCEPTS for a text must give a symbol that reads back as that
// text. The texts: ASCII, and for single-byte sets the characters of bytes 0xA0..0xFF in four
// slices (what the name means is taken from x/text, independent of the library's own table).

import (
	"fmt"
	"unicode/utf8"

	"verif/mc"

	"golang.org/x/text/encoding"
	"golang.org/x/text/encoding/ianaindex"
)

var candidateNames = []string{
	"ISO-8859-1", "ISO-8859-2", "ISO-8859-3", "ISO-8859-4", "ISO-8859-5", "ISO-8859-6", "ISO-8859-7", "ISO-8859-8", "ISO-8859-9", "ISO-8859-10",
	"ISO-8859-11", "ISO-8859-13", "ISO-8859-14", "ISO-8859-15", "ISO-8859-16",
	"ISO8859_1", "ISO8859_2", "ISO8859_5", "ISO8859_7", "ISO8859_9", "ISO8859_13", "ISO8859_14", "ISO8859_15", "ISO8859_16",
	"windows-1250", "windows-1251", "windows-1252", "windows-1253", "windows-1254", "windows-1255", "windows-1256", "windows-1257", "windows-1258", "windows-874",
	"Cp1250", "Cp1251", "Cp1252", "Cp1256", "Cp437", "IBM437", "IBM850", "IBM852", "IBM855", "IBM866", "KOI8-R", "KOI8-U", "macintosh", "TIS-620",
	"Shift_JIS", "SJIS", "EUC-JP", "ISO-2022-JP", "GB2312", "GBK", "GB18030", "EUC_CN", "Big5", "EUC-KR", "EUC_KR",
	"UTF-8", "UTF8", "UTF-16BE", "UTF-16LE", "UTF-16", "UnicodeBig", "UnicodeBigUnmarked", "US-ASCII", "ASCII",
}

type nameCase struct {
	Sub     string // "charset-name"
	Name    string
	TextHex string
	Text    string
}

func nameTexts(name string) []string {
	texts := []string{"plain ascii text", "a", "Zz~ {|} 0-9"}
	enc, err := ianaindex.IANA.Encoding(name)
	if err != nil || enc == nil {
		return texts
	}
	one := func(b byte) (rune, bool) {
		s, e := enc.NewDecoder().Bytes([]byte{b})
		if e != nil || !utf8.Valid(s) {
			return 0, false
		}
		r, n := utf8.DecodeRune(s)
		if n != len(s) || r == utf8.RuneError {
			return 0, false
		}
		back, e := enc.NewEncoder().Bytes(s)
		if e != nil || len(back) != 1 || back[0] != b {
			return 0, false
		}
		return r, true
	}
	for lo := 0xA0; lo < 0x100; lo += 24 {
		var t []rune
		for b := lo; b < lo+24 && b < 0x100; b++ {
			if r, ok := one(byte(b)); ok {
				t = append(t, r)
			}
		}
		if len(t) > 0 {
			texts = append(texts, "x"+string(t))
		}
	}
	return texts
}

func nameOne(l *mc.Local, c nameCase) {
	o := opt{Level: 1, Mask: -1, Charset: c.Name}
	w := encodeMatrix(c.Text, o)
	l.Count("evaluations", 1)
	if w.panicked != "" {
		chk.Violation("C01/panic/"+w.site, fmt.Sprintf("writer panics with CHARACTER_SET %q on %q: %s", c.Name, c.Text, w.panicked), c)
		return
	}
	if w.err != nil {
		l.Count("charset names the writer refuses for a text (not judged here)", 1)
		l.Distinct("outcomes", "name/refused/"+c.Name)
		return
	}
	r := decodeMatrix(w.code.GetMatrix(), nil)
	if kind, what := checkRead(c.Text, o.Level, r, false); kind != "" {
		chk.Violation("C01/charset-name/"+c.Name+"/"+kind, fmt.Sprintf("text %+q written with CHARACTER_SET %q (accepted by the writer): %s", c.Text, c.Name, what), c)
		return
	}
	l.Distinct("outcomes", "name/ok/"+c.Name)
	l.Distinct("nontrivial", fmt.Sprint("name|", c.Name, "|", c.Text))
}

func runCharsetNames() {
	var cases []nameCase
	for _, n := range candidateNames {
		for _, t := range nameTexts(n) {
			cases = append(cases, nameCase{"charset-name", n, fmt.Sprintf("%x", t), t})
		}
	}
	chk.Range(fmt.Sprintf("(b4) candidate character-set names (%d IANA names and spellings) x {3 ASCII texts, the characters of bytes 0xA0..0xFF of single-byte sets in 24-character slices}: a name the writer accepts must read back as the text [%d cases]", len(candidateNames), len(cases)), len(cases),
		func(i int) string { return cases[i].Name + " " + cases[i].TextHex },
		func(l *mc.Local, i int) { nameOne(l, cases[i]) })
}

var _ encoding.Encoding
