package main

import (
	"fmt"
	"unicode/utf8"

	"verif/mc"
	"verif/ref/qr"

	"github.com/makiuchi-d/gozxing"
	"github.com/makiuchi-d/gozxing/qrcode"
	"github.com/makiuchi-d/gozxing/qrcode/decoder"
	"github.com/makiuchi-d/gozxing/qrcode/encoder"
)

var libLevels = [4]decoder.ErrorCorrectionLevel{
	decoder.ErrorCorrectionLevel_L, decoder.ErrorCorrectionLevel_M,
	decoder.ErrorCorrectionLevel_Q, decoder.ErrorCorrectionLevel_H,
}

const levelNames = "LMQH"

// opt is one assignment of the writer options the property quantifies over.
type opt struct {
	Level   int    // 0..3 = L M Q H
	Mask    int    // -1 = no hint
	Version int    // 0 = no hint
	Charset string // "" = no hint
}

func (o opt) String() string {
	return fmt.Sprintf("level=%c mask=%d version=%d charset=%q", levelNames[o.Level], o.Mask, o.Version, o.Charset)
}

func (o opt) hints() map[gozxing.EncodeHintType]interface{} {
	h := map[gozxing.EncodeHintType]interface{}{}
	if o.Mask >= 0 {
		h[gozxing.EncodeHintType_QR_MASK_PATTERN] = o.Mask
	}
	if o.Version > 0 {
		h[gozxing.EncodeHintType_QR_VERSION] = o.Version
	}
	if o.Charset != "" {
		h[gozxing.EncodeHintType_CHARACTER_SET] = o.Charset
	}
	return h
}

// rcase is the replay record of every sub-space.
type rcase struct {
	Sub     string // boundary | autoversion | small | image
	Text    string `json:",omitempty"` // small family: the literal text (valid UTF-8)
	Family  string `json:",omitempty"` // generated payloads: family, length in units, alphabet start index
	Len     int    `json:",omitempty"`
	Start   int    `json:",omitempty"`
	Level   int
	Mask    int
	Version int
	Charset string
	W, H    int `json:",omitempty"`
	Margin  int `json:",omitempty"`
}

func (c rcase) opt() opt { return opt{c.Level, c.Mask, c.Version, c.Charset} }

func (c rcase) text() string {
	if c.Family == "" {
		return c.Text
	}
	for m := pmode(0); m < numPmodes; m++ {
		if m.String() == c.Family {
			t, _ := rawPayload(m, c.Len, c.Start, nil)
			return t
		}
	}
	return c.Text
}

// written is what the writer produced for one case.
type written struct {
	err            error
	panicked, site string
	code           *encoder.QRCode
	version        int
	mask           int
}

func encodeMatrix(text string, o opt) (w written) {
	w.panicked, w.site = mc.Guard(func() {
		c, e := encoder.Encoder_encode(text, libLevels[o.Level], o.hints())
		if e != nil {
			w.err = e
			return
		}
		w.code = c
		w.version = c.GetVersion().GetVersionNumber()
		w.mask = c.GetMaskPattern()
	})
	return
}

func toBitMatrix(bm *encoder.ByteMatrix) *gozxing.BitMatrix {
	out, _ := gozxing.NewBitMatrix(bm.GetWidth(), bm.GetHeight())
	for y := 0; y < bm.GetHeight(); y++ {
		for x := 0; x < bm.GetWidth(); x++ {
			if bm.Get(x, y) == 1 {
				out.Set(x, y)
			}
		}
	}
	return out
}

func toBools(bm *encoder.ByteMatrix) [][]bool {
	out := make([][]bool, bm.GetHeight())
	for y := range out {
		out[y] = make([]bool, bm.GetWidth())
		for x := range out[y] {
			out[y][x] = bm.Get(x, y) == 1
		}
	}
	return out
}

// read is what the reader returned.
type read struct {
	err            error
	panicked, site string
	text, ec       string
	format         gozxing.BarcodeFormat
	hasFormat      bool
}

func decodeMatrix(bm *encoder.ByteMatrix, hints map[gozxing.DecodeHintType]interface{}) (r read) {
	bits := toBitMatrix(bm) // fresh: the decoder unmasks in place
	r.panicked, r.site = mc.Guard(func() {
		res, e := decoder.NewDecoder().Decode(bits, hints)
		if e != nil {
			r.err = e
			return
		}
		r.text = res.GetText()
		r.ec = res.GetECLevel()
	})
	return
}

func decodeImage(img *gozxing.BitMatrix) (r read) {
	r.panicked, r.site = mc.Guard(func() {
		bmp, e := gozxing.NewBinaryBitmapFromImage(img)
		if e != nil {
			r.err = e
			return
		}
		res, e := qrcode.NewQRCodeReader().Decode(bmp, map[gozxing.DecodeHintType]interface{}{gozxing.DecodeHintType_PURE_BARCODE: true})
		if e != nil {
			r.err = e
			return
		}
		r.text = res.GetText()
		r.format = res.GetBarcodeFormat()
		r.hasFormat = true
		if v, ok := res.GetResultMetadata()[gozxing.ResultMetadataType_ERROR_CORRECTION_LEVEL]; ok {
			r.ec = fmt.Sprint(v)
		}
	})
	return
}

func short(s string) string {
	if len(s) > 48 {
		cut := 40
		for cut > 0 && !utf8.RuneStart(s[cut]) {
			cut--
		}
		return fmt.Sprintf("%+q...", s[:cut])
	}
	return fmt.Sprintf("%+q", s)
}

// firstDiff describes where two texts part.
func firstDiff(want, got string) string {
	n := len(want)
	if len(got) < n {
		n = len(got)
	}
	i := 0
	for i < n && want[i] == got[i] {
		i++
	}
	lo := i - 4
	if lo < 0 {
		lo = 0
	}
	hw, hg := i+8, i+8
	if hw > len(want) {
		hw = len(want)
	}
	if hg > len(got) {
		hg = len(got)
	}
	return fmt.Sprintf("lengths %d/%d bytes, first difference at byte %d: wrote %+q read %+q", len(want), len(got), i, want[lo:hw], got[lo:hg])
}

// checkRead applies the oracle to what the reader returned: exactly the text and the level.
// It returns "" or the failure kind with a description.
func checkRead(text string, level int, r read, image bool) (kind, what string) {
	switch {
	case r.panicked != "":
		return "panic/" + r.site, "reader panicked: " + r.panicked
	case r.err != nil:
		return "decode-error", "the symbol the writer produced is rejected by the reader: " + r.err.Error()
	case r.text != text:
		return "wrong-text", "the reader returns a different text: " + firstDiff(text, r.text)
	case r.ec != string(levelNames[level]):
		return "wrong-eclevel", fmt.Sprintf("reader reports error-correction level %q, written with %c", r.ec, levelNames[level])
	case image && (!r.hasFormat || r.format != gozxing.BarcodeFormat_QR_CODE):
		return "wrong-format", fmt.Sprintf("result format %v", r.format)
	}
	return "", ""
}

// observed is what the independent reference reader finds in the produced symbol; it is used
// only to measure which (version, level, mask, mode) cases were really exercised.
type observed struct {
	ok      bool
	version int
	level   int
	mask    int
	modes   string
	count   int
}

func observe(bm *encoder.ByteMatrix) (o observed) {
	mc.Guard(func() {
		v, lv, mask, data, err := qr.Read(toBools(bm))
		if err != nil {
			return
		}
		segs, err := qr.ParseSegments(data, v)
		if err != nil {
			return
		}
		o.version, o.level, o.mask = v, int(lv), mask
		for _, s := range segs {
			if s.ECI >= 0 {
				o.modes += fmt.Sprintf("eci%d+", s.ECI)
			}
			o.modes += s.Mode.String() + ";"
			switch s.Mode {
			case qr.Kanji:
				o.count += len(s.Data) / 2
			default:
				o.count += len(s.Data)
			}
		}
		o.ok = true
	})
	return
}
