package main

// Writer-object histories: the geometry of an image must depend only on the arguments of the
// call that produced it, not on earlier calls made on the same writer object. For every writer,
// ALL sequences of up to three calls from a menu (margin hint absent / 0 / 3 / 20, several
// requested sizes, a second content, other hints) are made on ONE writer object; the last image
// of every sequence must equal, pixel for pixel, the image a fresh writer object returns for the
// same arguments (whose geometry the other sub-spaces compare with the formula).

import (
	"fmt"

	"verif/mc"

	"github.com/makiuchi-d/gozxing"
	"github.com/makiuchi-d/gozxing/datamatrix"
	dmenc "github.com/makiuchi-d/gozxing/datamatrix/encoder"
	"github.com/makiuchi-d/gozxing/oned"
	"github.com/makiuchi-d/gozxing/qrcode"
	qrdec "github.com/makiuchi-d/gozxing/qrcode/decoder"
)

type hwriter struct {
	name     string
	mk       func() gozxing.Writer
	format   gozxing.BarcodeFormat
	contents []string
}

var hwriters = []hwriter{
	{"qr", func() gozxing.Writer { return qrcode.NewQRCodeWriter() }, gozxing.BarcodeFormat_QR_CODE, []string{"HELLO", "hello world, a longer text 0123456789"}},
	{"dm", func() gozxing.Writer { return datamatrix.NewDataMatrixWriter() }, gozxing.BarcodeFormat_DATA_MATRIX, []string{"HELLO", "hello, you"}},
	{"1d:EAN-13", oned.NewEAN13Writer, gozxing.BarcodeFormat_EAN_13, []string{"590123412345", "000000000000"}},
	{"1d:EAN-8", oned.NewEAN8Writer, gozxing.BarcodeFormat_EAN_8, []string{"9638507", "1234567"}},
	{"1d:UPC-A", oned.NewUPCAWriter, gozxing.BarcodeFormat_UPC_A, []string{"03600029145", "12345678901"}},
	{"1d:UPC-E", oned.NewUPCEWriter, gozxing.BarcodeFormat_UPC_E, []string{"01234565", "0425261"}},
	{"1d:Code39", oned.NewCode39Writer, gozxing.BarcodeFormat_CODE_39, []string{"CODE39", "a+b"}},
	{"1d:Code93", oned.NewCode93Writer, gozxing.BarcodeFormat_CODE_93, []string{"CODE93", "a"}},
	{"1d:Code128", oned.NewCode128Writer, gozxing.BarcodeFormat_CODE_128, []string{"AB12", "123456"}},
	{"1d:ITF", oned.NewITFWriter, gozxing.BarcodeFormat_ITF, []string{"123456", "00"}},
	{"1d:Codabar", oned.NewCodaBarWriter, gozxing.BarcodeFormat_CODABAR, []string{"A1234B", "T12N"}},
}

type hcall struct {
	Content int
	W, H    int
	Hint    string // label of the hint set
	// Format, when not empty, names ANOTHER symbology's format for this call (the writer must refuse
	// it; callers that try each writer in turn do exactly this): "ean" = EAN_13, "other" = CODE_128
	Format string `json:",omitempty"`
}

func (c hcall) format(own gozxing.BarcodeFormat) gozxing.BarcodeFormat {
	switch c.Format {
	case "ean":
		if own == gozxing.BarcodeFormat_EAN_13 {
			return gozxing.BarcodeFormat_EAN_8
		}
		return gozxing.BarcodeFormat_EAN_13
	case "other":
		if own == gozxing.BarcodeFormat_CODE_128 {
			return gozxing.BarcodeFormat_CODE_39
		}
		return gozxing.BarcodeFormat_CODE_128
	}
	return own
}

func hintSet(label string) map[gozxing.EncodeHintType]interface{} {
	switch label {
	case "none":
		return nil
	case "empty":
		return map[gozxing.EncodeHintType]interface{}{}
	case "margin0":
		return map[gozxing.EncodeHintType]interface{}{gozxing.EncodeHintType_MARGIN: 0}
	case "margin3":
		return map[gozxing.EncodeHintType]interface{}{gozxing.EncodeHintType_MARGIN: 3}
	case "margin20":
		return map[gozxing.EncodeHintType]interface{}{gozxing.EncodeHintType_MARGIN: "20"}
	case "ecH":
		return map[gozxing.EncodeHintType]interface{}{gozxing.EncodeHintType_ERROR_CORRECTION: qrdec.ErrorCorrectionLevel_H, gozxing.EncodeHintType_QR_MASK_PATTERN: 2}
	case "rect":
		return map[gozxing.EncodeHintType]interface{}{gozxing.EncodeHintType_DATA_MATRIX_SHAPE: dmenc.SymbolShapeHint_FORCE_RECTANGLE}
	case "setC":
		return map[gozxing.EncodeHintType]interface{}{gozxing.EncodeHintType_FORCE_CODE_SET: "B"}
	case "bad":
		return map[gozxing.EncodeHintType]interface{}{gozxing.EncodeHintType_MARGIN: "x"}
	}
	return nil
}

func sameMatrix(a, b *gozxing.BitMatrix) bool {
	if (a == nil) != (b == nil) {
		return false
	}
	if a == nil {
		return true
	}
	if a.GetWidth() != b.GetWidth() || a.GetHeight() != b.GetHeight() {
		return false
	}
	for y := 0; y < a.GetHeight(); y++ {
		for x := 0; x < a.GetWidth(); x++ {
			if a.Get(x, y) != b.Get(x, y) {
				return false
			}
		}
	}
	return true
}

type hcase struct {
	Writer string
	Calls  []hcall
}

func runHistory() {
	var menu []hcall
	for _, hint := range []string{"none", "empty", "margin0", "margin3", "margin20", "ecH", "rect", "setC", "bad"} {
		for _, sz := range [][2]int{{0, 0}, {157, 31}} {
			for c := 0; c < 2; c++ {
				if c == 1 && (hint == "empty" || hint == "bad" || sz[0] != 0) {
					continue
				}
				menu = append(menu, hcall{Content: c, W: sz[0], H: sz[1], Hint: hint})
			}
		}
	}
	// calls that name another symbology's format: refused, and without consequence for later calls
	menu = append(menu, hcall{Hint: "none", Format: "ean"}, hcall{Hint: "none", Format: "other"}, hcall{W: 157, H: 31, Hint: "margin3", Format: "ean"})
	depth := chk.Pick(2, 3)
	type job struct {
		w     int
		first int
	}
	var jobs []job
	for wi := range hwriters {
		for f := range menu {
			jobs = append(jobs, job{wi, f})
		}
	}
	chk.Range(fmt.Sprintf("writer-object histories: 11 writers x ALL sequences of <=%d calls from a %d-entry menu (9 hint sets incl. a refused one x 2 sizes x 2 contents, and 3 calls naming ANOTHER symbology's format) on ONE writer object; the last image == the image of a fresh object for the same call", depth, len(menu)), len(jobs),
		func(i int) string { return fmt.Sprint(hwriters[jobs[i].w].name, " first call ", menu[jobs[i].first]) },
		func(l *mc.Local, i int) {
			hw := hwriters[jobs[i].w]
			do := func(w gozxing.Writer, c hcall) (*gozxing.BitMatrix, error) {
				return w.Encode(hw.contents[c.Content], c.format(hw.format), c.W, c.H, hintSet(c.Hint))
			}
			fresh := map[hcall]*gozxing.BitMatrix{}
			freshErr := map[hcall]bool{}
			for _, c := range menu {
				m, err := do(hw.mk(), c)
				fresh[c] = m
				freshErr[c] = err != nil
			}
			var rec func(seq []hcall)
			rec = func(seq []hcall) {
				obj := hw.mk()
				var last *gozxing.BitMatrix
				var lastErr error
				kept := make([]*gozxing.BitMatrix, 0, len(seq)) // every image of the sequence is retained
				pm, site := mc.Guard(func() {
					for _, c := range seq {
						last, lastErr = do(obj, c)
						kept = append(kept, last)
					}
				})
				// an image handed out earlier must not change when later images are produced
				for k := 0; k+1 < len(kept) && pm == ""; k++ {
					if !sameMatrix(kept[k], fresh[seq[k]]) {
						chk.Violation("C14/"+hw.name+"/history/retained-image-changed", fmt.Sprintf("%s: the image returned by call %d of %+v changed after the later calls on the same writer object", hw.name, k+1, seq), hcase{hw.name, seq})
						break
					}
				}
				l.Count("evaluations", 1)
				final := seq[len(seq)-1]
				cs := hcase{hw.name, seq}
				if pm != "" {
					chk.Violation("C14/panic/"+site+"/history", fmt.Sprintf("%s: panic %s after calls %+v on one writer object", hw.name, pm, seq), cs)
				} else if (lastErr != nil) != freshErr[final] || !sameMatrix(last, fresh[final]) {
					desc := "differs"
					if last != nil && fresh[final] != nil {
						desc = fmt.Sprintf("is %dx%d, a fresh writer returns %dx%d", last.GetWidth(), last.GetHeight(), fresh[final].GetWidth(), fresh[final].GetHeight())
					}
					chk.Violation("C14/"+hw.name+"/history", fmt.Sprintf("%s: after the calls %+v on one writer object the image of the last call %s (error now=%v, fresh=%v)", hw.name, seq[:len(seq)-1], desc, lastErr != nil, freshErr[final]), cs)
				} else if len(seq) > 1 && last != nil {
					l.Distinct("nontrivial", fmt.Sprint("hist", hw.name, seq))
				}
				if len(seq) < depth {
					for _, c := range menu {
						rec(append(append([]hcall{}, seq...), c))
					}
				}
			}
			rec([]hcall{menu[jobs[i].first]})
		})
	chk.Sample("writer history", hcase{"1d:Code128", []hcall{{Hint: "margin0"}, {Hint: "none"}}})
}

// ---------------------------------------------------------------- one hints map, several writers

type sharedCase struct {
	Kind    string // "shared-hints"
	Hint    string
	Writers []string
	W, H    int
}

func copyHints(h map[gozxing.EncodeHintType]interface{}) map[gozxing.EncodeHintType]interface{} {
	if h == nil {
		return nil
	}
	c := map[gozxing.EncodeHintType]interface{}{}
	for k, v := range h {
		c[k] = v
	}
	return c
}

// runSharedHints: a caller that builds ONE hints map and hands it to several writers in turn (the
// usual way to configure a batch) must get, from every call, the image it would get with a private
// copy of the map as the caller built it: a writer that records something in the caller's map
// changes the geometry of whatever is written next.
func runSharedHints() {
	labels := []string{"empty", "ecH", "rect", "setC", "margin3", "margin20"}
	sizes := [][2]int{{0, 0}, {157, 31}}
	type job struct{ a, b int }
	var jobs []job
	for a := range hwriters {
		for b := range hwriters {
			jobs = append(jobs, job{a, b})
		}
	}
	third := chk.Pick(0, len(hwriters))
	chk.Range(fmt.Sprintf("one hints map shared by several writers: every ordered pair of the 11 writers (thorough: every ordered triple) x 6 initial maps (empty, QR level+mask, DM shape, Code 128 set, MARGIN int, MARGIN string) x 2 sizes: every image == the image written with a private copy of the map as the caller built it"), len(jobs),
		func(i int) string { return fmt.Sprint(hwriters[jobs[i].a].name, " then ", hwriters[jobs[i].b].name) },
		func(l *mc.Local, i int) {
			j := jobs[i]
			seqs := [][]int{{j.a, j.b}}
			for c := 0; c < third; c++ {
				seqs = append(seqs, []int{j.a, j.b, c})
			}
			for _, seq := range seqs {
				for _, label := range labels {
					for _, sz := range sizes {
						shared := hintSet(label)
						var names []string
						for _, w := range seq {
							names = append(names, hwriters[w].name)
						}
						cs := sharedCase{"shared-hints", label, names, sz[0], sz[1]}
						for k, w := range seq {
							hw := hwriters[w]
							var got, want *gozxing.BitMatrix
							var gotErr, wantErr error
							pm, site := mc.Guard(func() {
								want, wantErr = hw.mk().Encode(hw.contents[0], hw.format, sz[0], sz[1], copyHints(hintSet(label)))
								got, gotErr = hw.mk().Encode(hw.contents[0], hw.format, sz[0], sz[1], shared)
							})
							l.Count("evaluations", 1)
							if pm != "" {
								chk.Violation("C14/panic/"+site+"/shared-hints", fmt.Sprintf("%v with one shared %s hints map: panic %s", names, label, pm), cs)
								break
							}
							if (gotErr != nil) != (wantErr != nil) || !sameMatrix(got, want) {
								desc := "differs"
								if got != nil && want != nil {
									desc = fmt.Sprintf("is %dx%d, with a private copy of the map %dx%d", got.GetWidth(), got.GetHeight(), want.GetWidth(), want.GetHeight())
								}
								chk.Violation("C14/"+hw.name+"/shared-hints-map", fmt.Sprintf("writers %v called in turn with ONE %q hints map (size %dx%d): the image of call %d (%s) %s (error now=%v, private=%v); map now %v", names, label, sz[0], sz[1], k+1, hw.name, desc, gotErr != nil, wantErr != nil, shared), cs)
								break
							}
							if k > 0 && got != nil {
								l.Distinct("nontrivial", fmt.Sprint("shared", names[:k+1], label, sz))
							}
						}
					}
				}
			}
		})
	chk.Sample("shared hints", sharedCase{"shared-hints", "empty", []string{"1d:Code39", "1d:EAN-8"}, 0, 0})
}

// runZeroValueWriters: QRCodeWriter and DataMatrixWriter are exported empty structs; `var w
// qrcode.QRCodeWriter`, `new(qrcode.QRCodeWriter)` and `&qrcode.QRCodeWriter{}` are writers as good as
// the constructors' (the constructors return exactly that). Every call of the history menu gives
// the same image through each way of making the writer.
func runZeroValueWriters() {
	var menu []hcall
	for _, hint := range []string{"none", "empty", "margin0", "margin3", "margin20", "ecH", "rect"} {
		for _, sz := range [][2]int{{0, 0}, {157, 31}, {200, 160}} {
			for c := 0; c < 2; c++ {
				menu = append(menu, hcall{Content: c, W: sz[0], H: sz[1], Hint: hint})
			}
		}
	}
	type maker struct {
		name string
		mk   func() gozxing.Writer
	}
	var qrVar qrcode.QRCodeWriter
	var dmVar datamatrix.DataMatrixWriter
	kinds := []struct {
		hw    hwriter
		other []maker
	}{
		{hwriters[0], []maker{{"new(QRCodeWriter)", func() gozxing.Writer { return new(qrcode.QRCodeWriter) }}, {"&QRCodeWriter{}", func() gozxing.Writer { return &qrcode.QRCodeWriter{} }}, {"var QRCodeWriter", func() gozxing.Writer { return &qrVar }}}},
		{hwriters[1], []maker{{"new(DataMatrixWriter)", func() gozxing.Writer { return new(datamatrix.DataMatrixWriter) }}, {"&DataMatrixWriter{}", func() gozxing.Writer { return &datamatrix.DataMatrixWriter{} }}, {"var DataMatrixWriter", func() gozxing.Writer { return &dmVar }}}},
	}
	chk.Range(fmt.Sprintf("zero-value writers: QRCodeWriter and DataMatrixWriter made by new(T), &T{} and var T x %d calls (7 hint sets x 3 sizes x 2 contents): image == the constructor's writer's image", len(menu)), len(kinds),
		func(i int) string { return kinds[i].hw.name },
		func(l *mc.Local, i int) {
			k := kinds[i]
			for _, c := range menu {
				want, wantErr := k.hw.mk().Encode(k.hw.contents[c.Content], k.hw.format, c.W, c.H, hintSet(c.Hint))
				for _, o := range k.other {
					var got *gozxing.BitMatrix
					var gotErr error
					pm, site := mc.Guard(func() { got, gotErr = o.mk().Encode(k.hw.contents[c.Content], k.hw.format, c.W, c.H, hintSet(c.Hint)) })
					l.Count("evaluations", 1)
					cs := hcase{k.hw.name + " via " + o.name, []hcall{c}}
					if pm != "" {
						chk.Violation("C14/panic/"+site+"/zero-value-writer", fmt.Sprintf("%s: panic %s on %+v", o.name, pm, c), cs)
						continue
					}
					if (gotErr != nil) != (wantErr != nil) || !sameMatrix(got, want) {
						desc := "differs"
						if got != nil && want != nil {
							desc = fmt.Sprintf("is %dx%d, the constructor's writer gives %dx%d", got.GetWidth(), got.GetHeight(), want.GetWidth(), want.GetHeight())
						}
						chk.Violation("C14/"+k.hw.name+"/zero-value-writer", fmt.Sprintf("%s, call %+v: the image %s (error %v / %v)", o.name, c, desc, gotErr != nil, wantErr != nil), cs)
						continue
					}
					if got != nil {
						l.Distinct("nontrivial", fmt.Sprint("zero", o.name, c))
					}
				}
			}
		})
}
