// C14 — rendering geometry of the writers: output size, integer module size, centring, quiet
// zone, uniform module blocks (1-D: full-height bars), white everywhere else, centre sampling,
// and the image.Image view of the result.
//
// Bounded-exhaustive enumeration of (symbol, margin hint, requested width, requested height) on
// the real Writer.Encode. The oracle is the formula of the property statement, evaluated naively
// for every pixel of every returned image (functions geometry / wantPixel below):
//
//	n = modules on the axis, q = quiet modules (QR: 2*margin, 1-D: margin, Data Matrix: 0)
//	out = max(requested, n+q)            Data Matrix: requested if it fits on both axes, else n
//	s   = floor(out/(n+q))               2-D: the smaller of the two axes
//	pad = floor((out - n*s)/2)
//	pixel(x,y) = module(floor((x-padx)/s), floor((y-pady)/s)) inside the symbol, white outside
//
// The module matrix never comes from the renderer under test at the size under test: for QR it
// is encoder.Encoder_encode(...).GetMatrix(); for Data Matrix and 1-D it is the 0x0 / margin-0
// rendering, which is the bare symbol by definition (and is checked to be bare: Data Matrix
// finder/clock borders against ref/dm, 1-D first and last module dark, fixed-length symbologies
// against their standard module counts).
package main

import (
	"fmt"
	"image"
	"image/color"
	"strings"

	"verif/mc"
	refdm "verif/ref/dm"

	"github.com/makiuchi-d/gozxing"
	"github.com/makiuchi-d/gozxing/datamatrix"
	dmenc "github.com/makiuchi-d/gozxing/datamatrix/encoder"
	"github.com/makiuchi-d/gozxing/oned"
	"github.com/makiuchi-d/gozxing/qrcode"
	qrdec "github.com/makiuchi-d/gozxing/qrcode/decoder"
	qrenc "github.com/makiuchi-d/gozxing/qrcode/encoder"
)

var chk *mc.Check

const defaultMargin = -1 // "no MARGIN hint" in a case description

type hintMap = map[gozxing.EncodeHintType]interface{}

// symbol is one (writer, content) whose module matrix is known independently of the rendering
// under test.
type symbol struct {
	Kind    string // "qr" | "dm" | "1d:<writer>"  (violation key component)
	Name    string // unique, used in replays
	Content string
	oneD    bool
	margins bool // the writer honours a MARGIN hint (QR, 1-D); Data Matrix has no quiet zone
	nx, ny  int
	mod     [][]bool // [y][x], true = dark; 1-D: one row
	// bounding box of the dark modules inside mod (normally the whole matrix)
	mx0, my0, mx1, my1 int
	docDefault         int  // documented default margin when no hint is given
	measuredDefault    int  // margin implied by the no-hint 0x0 rendering (>= docDefault on correct code)
	noDefault          bool // the no-hint 0x0 rendering could not be explained (reported); no-hint cases are skipped
	newWriter          func() gozxing.Writer
	format             gozxing.BarcodeFormat
	extra              hintMap // hints that select the symbol (Data Matrix shape)
}

func (s *symbol) key(facet string) string { return "C14/" + s.Kind + "/" + facet }

func (s *symbol) hints(margin int) hintMap {
	if margin == defaultMargin && len(s.extra) == 0 {
		return nil
	}
	h := hintMap{}
	for k, v := range s.extra {
		h[k] = v
	}
	if margin != defaultMargin {
		h[gozxing.EncodeHintType_MARGIN] = margin
	}
	return h
}

// render calls the real writer (a fresh one per call).
func (s *symbol) render(w, h, margin int, withoutHintEntry bool) (out *gozxing.BitMatrix, err error, pmsg, site string) {
	hints := s.hints(margin)
	if margin != defaultMargin && (w+h+margin)%3 == 0 {
		// the documented string spelling, on a third of the requests, in every form strconv.Atoi reads
		hints[gozxing.EncodeHintType_MARGIN] = fmt.Sprintf([]string{"%d", "%02d", "%03d", "+%d"}[((w+h)/3)%4], margin)
	}
	if hints == nil && withoutHintEntry {
		// the second entry point for a request without hints
		pmsg, site = mc.Guard(func() { out, err = s.newWriter().EncodeWithoutHint(s.Content, s.format, w, h) })
		return
	}
	pmsg, site = mc.Guard(func() {
		out, err = s.newWriter().Encode(s.Content, s.format, w, h, hints)
	})
	return
}

// ------------------------------------------------------------------ the oracle (statement formula)

type geom struct {
	outW, outH int
	s          int
	padx, pady int
}

func imax(a, b int) int {
	if a > b {
		return a
	}
	return b
}

// geometry evaluates the statement's formula for a request (w,h) and a margin m (modules).
func (s *symbol) geometry(w, h, m int) geom {
	var g geom
	switch {
	case s.oneD:
		q := m // shared between the two sides
		g.outW = imax(w, s.nx+q)
		g.outH = imax(h, 1)
		g.s = g.outW / (s.nx + q)
		g.padx = (g.outW - s.nx*g.s) / 2
		g.pady = 0
	case s.margins: // QR
		q := 2 * m
		g.outW = imax(w, s.nx+q)
		g.outH = imax(h, s.ny+q)
		g.s = g.outW / (s.nx + q)
		if v := g.outH / (s.ny + q); v < g.s {
			g.s = v
		}
		g.padx = (g.outW - s.nx*g.s) / 2
		g.pady = (g.outH - s.ny*g.s) / 2
	default: // Data Matrix: no quiet zone; requested size if the symbol fits on both axes
		if w >= s.nx && h >= s.ny {
			g.outW, g.outH = w, h
			g.s = w / s.nx
			if v := h / s.ny; v < g.s {
				g.s = v
			}
			g.padx = (g.outW - s.nx*g.s) / 2
			g.pady = (g.outH - s.ny*g.s) / 2
		} else {
			g.outW, g.outH = s.nx, s.ny
			g.s = 1
		}
	}
	return g
}

// wantPixel is the colour the statement gives pixel (x,y) for module size sz and paddings px,py.
func (s *symbol) wantPixel(x, y, sz, px, py int) bool {
	dx := x - px
	if dx < 0 {
		return false
	}
	mx := dx / sz
	if mx >= s.nx {
		return false
	}
	if s.oneD {
		return s.mod[0][mx] // a bar covers every row
	}
	dy := y - py
	if dy < 0 {
		return false
	}
	my := dy / sz
	if my >= s.ny {
		return false
	}
	return s.mod[my][mx]
}

// firstMismatch compares every pixel of out with the formula; ok = no mismatch.
func (s *symbol) firstMismatch(out *gozxing.BitMatrix, sz, px, py int) (x, y int, ok bool) {
	w, h := out.GetWidth(), out.GetHeight()
	for y = 0; y < h; y++ {
		for x = 0; x < w; x++ {
			if out.Get(x, y) != s.wantPixel(x, y, sz, px, py) {
				return x, y, false
			}
		}
	}
	return 0, 0, true
}

// observed is what can be measured on an image without the formula: the bounding box of its dark
// pixels and, if that box is an integer multiple of the dark-module box, the drawn module size
// and paddings.
type observed struct {
	any                bool
	ax0, ay0, ax1, ay1 int
	inferable          bool
	s, padx, pady      int
}

func (s *symbol) observe(out *gozxing.BitMatrix) observed {
	var o observed
	w, h := out.GetWidth(), out.GetHeight()
	for y := 0; y < h; y++ {
		for x := 0; x < w; x++ {
			if !out.Get(x, y) {
				continue
			}
			if !o.any {
				o.any = true
				o.ax0, o.ax1, o.ay0, o.ay1 = x, x, y, y
			}
			if x < o.ax0 {
				o.ax0 = x
			}
			if x > o.ax1 {
				o.ax1 = x
			}
			if y < o.ay0 {
				o.ay0 = y
			}
			if y > o.ay1 {
				o.ay1 = y
			}
		}
	}
	if !o.any {
		return o
	}
	mw := s.mx1 - s.mx0 + 1
	aw := o.ax1 - o.ax0 + 1
	if aw%mw != 0 {
		return o
	}
	o.s = aw / mw
	o.padx = o.ax0 - s.mx0*o.s
	if s.oneD {
		if o.ay0 != 0 || o.ay1 != h-1 {
			return o
		}
		o.inferable = true
		return o
	}
	mh := s.my1 - s.my0 + 1
	ah := o.ay1 - o.ay0 + 1
	if ah%mh != 0 || ah/mh != o.s {
		return o
	}
	o.pady = o.ay0 - s.my0*o.s
	o.inferable = true
	return o
}

// ------------------------------------------------------------------ one case

type caseRec struct {
	Symbol  string // symbol.Name
	Content string
	W, H    int
	Margin  int // -1 = no MARGIN hint
}

func marginText(m int) string {
	if m == defaultMargin {
		return "default"
	}
	return fmt.Sprint(m)
}

func checkOne(l *mc.Local, s *symbol, w, h, margin int, verbose bool) {
	checkOneEntry(l, s, w, h, margin, verbose, false)
	if s.hints(margin) == nil {
		// a request without hints has a second entry point, EncodeWithoutHint: the same statement
		checkOneEntry(l, s, w, h, margin, verbose, true)
	}
}

func checkOneEntry(l *mc.Local, s *symbol, w, h, margin int, verbose, withoutHintEntry bool) {
	cs := caseRec{s.Name, s.Content, w, h, margin}
	desc := fmt.Sprintf("%s content=%q requested %dx%d margin=%s", s.Name, abbreviate(s.Content), w, h, marginText(margin))
	if withoutHintEntry {
		desc += " through EncodeWithoutHint"
	}
	out, err, pmsg, site := s.render(w, h, margin, withoutHintEntry)
	l.Count("evaluations", 1)
	if pmsg != "" {
		chk.Violation("C14/panic/"+site, fmt.Sprintf("panic %q: %s", pmsg, desc), cs)
		return
	}
	if err != nil || out == nil {
		chk.Violation(s.key("error"), fmt.Sprintf("in-domain request refused (%v): %s", err, desc), cs)
		return
	}
	// the margin that is in force: the hint, or (no hint) the default the writer itself shows at 0x0
	m := margin
	required := margin // quiet modules the statement guarantees
	if margin == defaultMargin {
		m = s.measuredDefault
		required = s.docDefault
	}
	if !s.margins {
		m, required = 0, 0
	}
	g := s.geometry(w, h, m)
	gw, gh := out.GetWidth(), out.GetHeight()
	if verbose {
		fmt.Printf("replay %s\n  modules %dx%d, margin in force %d\n  formula: out %dx%d, module size %d, padding (%d,%d)\n  library: out %dx%d\n",
			desc, s.nx, s.ny, m, g.outW, g.outH, g.s, g.padx, g.pady, gw, gh)
	}

	// (1) the image.Image view agrees with Get (independent of any geometry)
	checkImageView(s, out, desc, cs)

	// (2) size
	sizeOK := gw == g.outW && gh == g.outH
	if !sizeOK {
		chk.Violation(s.key("size"), fmt.Sprintf("image is %dx%d, statement gives %dx%d (modules %dx%d, margin %d): %s", gw, gh, g.outW, g.outH, s.nx, s.ny, m, desc), cs)
	}

	// (3) quiet zone, measured on the image with the module size actually drawn
	o := s.observe(out)
	if verbose {
		fmt.Printf("  observed: dark box x %d..%d y %d..%d, inferable=%v module size %d padding (%d,%d)\n", o.ax0, o.ax1, o.ay0, o.ay1, o.inferable, o.s, o.padx, o.pady)
	}
	if !o.any {
		chk.Violation(s.key("pixel"), "image has no dark pixel: "+desc, cs)
		return
	}
	if o.inferable && s.margins {
		left := o.padx
		right := gw - o.padx - s.nx*o.s
		if s.oneD {
			if left < 0 || right < 0 || left+right < required*o.s {
				chk.Violation(s.key("quiet-zone"), fmt.Sprintf("white columns left %d + right %d < margin %d x module size %d: %s", left, right, required, o.s, desc), cs)
			}
		} else {
			top := o.pady
			bottom := gh - o.pady - s.ny*o.s
			need := required * o.s
			if left < need || right < need || top < need || bottom < need {
				chk.Violation(s.key("quiet-zone"), fmt.Sprintf("white border left %d right %d top %d bottom %d, need margin %d x module size %d = %d on every side: %s", left, right, top, bottom, required, o.s, need, desc), cs)
			}
		}
	}
	if !sizeOK {
		return
	}

	// (4) every pixel against the formula; a mismatch is classified by what the image shows
	if x, y, ok := s.firstMismatch(out, g.s, g.padx, g.pady); !ok {
		facet := "pixel"
		detail := fmt.Sprintf("pixel (%d,%d) is %s, statement gives %s (module size %d, padding (%d,%d))", x, y, ink(out.Get(x, y)), ink(s.wantPixel(x, y, g.s, g.padx, g.pady)), g.s, g.padx, g.pady)
		if o.inferable && o.s >= 1 {
			if _, _, same := s.firstMismatch(out, o.s, o.padx, o.pady); same {
				// the image is a faithful rendering, but with another module size / position
				if o.s != g.s {
					facet = "scale"
					detail = fmt.Sprintf("drawn with module size %d, statement gives %d (largest that fits)", o.s, g.s)
				} else {
					facet = "padding"
					detail = fmt.Sprintf("symbol drawn at offset (%d,%d), statement gives (%d,%d) (leftover split evenly, rounded down)", o.padx, o.pady, g.padx, g.pady)
				}
			}
		}
		chk.Violation(s.key(facet), detail+": "+desc, cs)
		return
	}

	// (5) sampling the centre of every module block returns the module matrix
	for my := 0; my < s.ny; my++ {
		for mx := 0; mx < s.nx; mx++ {
			cx := g.padx + mx*g.s + g.s/2
			cy := g.pady + my*g.s + g.s/2
			if s.oneD {
				cy = gh / 2
			}
			if out.Get(cx, cy) != s.mod[my][mx] {
				chk.Violation(s.key("pixel"), fmt.Sprintf("centre sample (%d,%d) of module (%d,%d) is %s, module is %s: %s", cx, cy, mx, my, ink(out.Get(cx, cy)), ink(s.mod[my][mx]), desc), cs)
				return
			}
		}
	}

	l.Distinct("nontrivial", fmt.Sprint(s.Name, "|", m, "|", gw, "|", gh))
	l.Distinct("outcomes", fmt.Sprint(s.Kind, "|s=", g.s, "|odd=", (gw-s.nx*g.s)%2, (gh-s.ny*g.s)%2, "|grown=", gw > w, gh > h))
	if verbose {
		fmt.Println("  case agrees with the statement")
	}
}

func ink(b bool) string {
	if b {
		return "dark"
	}
	return "white"
}

func abbreviate(s string) string {
	if len(s) > 24 {
		return fmt.Sprintf("%s...(%d bytes)", s[:16], len(s))
	}
	return s
}

// checkImageView: BitMatrix as image.Image — bounds are the matrix, a set bit is black, an unset
// bit is white.
func checkImageView(s *symbol, out *gozxing.BitMatrix, desc string, cs caseRec) {
	var img image.Image = out
	w, h := out.GetWidth(), out.GetHeight()
	if b := img.Bounds(); b != image.Rect(0, 0, w, h) {
		chk.Violation(s.key("image-view"), fmt.Sprintf("Bounds()=%v for a %dx%d matrix: %s", b, w, h, desc), cs)
		return
	}
	for y := 0; y < h; y++ {
		for x := 0; x < w; x++ {
			r, g, b, a := img.At(x, y).RGBA()
			want := uint32(0xffff)
			if out.Get(x, y) {
				want = 0
			}
			if r != want || g != want || b != want || a != 0xffff {
				chk.Violation(s.key("image-view"), fmt.Sprintf("At(%d,%d) has RGBA (%#x,%#x,%#x,%#x) but Get is %v (set = black): %s", x, y, r, g, b, a, out.Get(x, y), desc), cs)
				return
			}
		}
	}
	// the image's colour model represents its own two colours unchanged
	for _, c := range []color.Color{img.At(0, 0), color.Gray{Y: 0}, color.Gray{Y: 255}} {
		r0, g0, b0, a0 := c.RGBA()
		r1, g1, b1, a1 := img.ColorModel().Convert(c).RGBA()
		if r0 != r1 || g0 != g1 || b0 != b1 || a0 != a1 {
			chk.Violation(s.key("image-view"), fmt.Sprintf("ColorModel() changes the image's own colour %v: %s", c, desc), cs)
			return
		}
	}
}

// ------------------------------------------------------------------ symbols

func (s *symbol) setMatrix(mod [][]bool) {
	s.mod = mod
	s.ny = len(mod)
	s.nx = len(mod[0])
	first := true
	for y := range mod {
		for x := range mod[y] {
			if !mod[y][x] {
				continue
			}
			if first {
				first = false
				s.mx0, s.mx1, s.my0, s.my1 = x, x, y, y
			}
			if x < s.mx0 {
				s.mx0 = x
			}
			if x > s.mx1 {
				s.mx1 = x
			}
			if y < s.my0 {
				s.my0 = y
			}
			if y > s.my1 {
				s.my1 = y
			}
		}
	}
	if first {
		panic("harness: module matrix of " + s.Name + " has no dark module")
	}
}

func matrixOf(bm *gozxing.BitMatrix) [][]bool {
	m := make([][]bool, bm.GetHeight())
	for y := range m {
		m[y] = make([]bool, bm.GetWidth())
		for x := range m[y] {
			m[y][x] = bm.Get(x, y)
		}
	}
	return m
}

// measureDefault derives the margin in force when no hint is given from the 0x0 rendering and
// checks it against the documented default (weaker reading: it may be larger, never smaller).
func (s *symbol) measureDefault() bool {
	cs := caseRec{s.Name, s.Content, 0, 0, defaultMargin}
	out, err, pmsg, site := s.render(0, 0, defaultMargin, false)
	if pmsg != "" {
		chk.Violation("C14/panic/"+site, fmt.Sprintf("panic %q rendering %s at 0x0 without hints", pmsg, s.Name), cs)
		return false
	}
	if err != nil || out == nil {
		chk.Violation(s.key("error"), fmt.Sprintf("%s refused at 0x0 without hints: %v", s.Name, err), cs)
		return false
	}
	dx, dy := out.GetWidth()-s.nx, out.GetHeight()-s.ny
	if s.oneD {
		if dx < 0 || out.GetHeight() != 1 {
			chk.Violation(s.key("size"), fmt.Sprintf("%s at 0x0 without hints is %dx%d; symbol has %d modules", s.Name, out.GetWidth(), out.GetHeight(), s.nx), cs)
			return false
		}
		s.measuredDefault = dx
	} else {
		if dx < 0 || dx != dy || dx%2 != 0 {
			chk.Violation(s.key("size"), fmt.Sprintf("%s at 0x0 without hints is %dx%d; no margin on every side of %dx%d modules gives that", s.Name, out.GetWidth(), out.GetHeight(), s.nx, s.ny), cs)
			return false
		}
		s.measuredDefault = dx / 2
	}
	if s.measuredDefault < s.docDefault {
		chk.Violation(s.key("quiet-zone"), fmt.Sprintf("%s without MARGIN hint leaves %d quiet modules, the default is %d", s.Name, s.measuredDefault, s.docDefault), cs)
	}
	return true
}

// --- QR

var qrContents = map[int]string{
	1:  "C14",
	2:  "rendering geometry C14",                                    // 22 bytes: above version 1-L (17), within 2-L (32)
	7:  strings.Repeat("quiet zone / scale; ", 7),                   // 140 bytes: above 6-L (134), within 7-L (154)
	40: strings.Repeat("0123456789abcdefghijklmnopqrstuvwxyz-", 79), // 2923 bytes: above 39-L (2809), within 40-L (2953)
}

func qrSymbol(version int) *symbol {
	s := &symbol{Kind: "qr", Name: fmt.Sprintf("qr-v%d", version), Content: qrContents[version], margins: true,
		docDefault: 4, format: gozxing.BarcodeFormat_QR_CODE,
		newWriter: func() gozxing.Writer { return qrcode.NewQRCodeWriter() }}
	var code *qrenc.QRCode
	var err error
	pmsg, site := mc.Guard(func() { code, err = qrenc.Encoder_encode(s.Content, qrdec.ErrorCorrectionLevel_L, nil) })
	if pmsg != "" {
		chk.Violation("C14/panic/"+site, fmt.Sprintf("panic %q in Encoder_encode for %s", pmsg, s.Name), caseRec{s.Name, s.Content, 0, 0, 0})
		return nil
	}
	if err != nil {
		panic(fmt.Sprintf("harness: %s content refused: %v", s.Name, err))
	}
	bm := code.GetMatrix()
	if got := code.GetVersion().GetVersionNumber(); got != version || bm.GetWidth() != 17+4*version || bm.GetHeight() != 17+4*version {
		panic(fmt.Sprintf("harness: content for %s produced version %d (%dx%d)", s.Name, got, bm.GetWidth(), bm.GetHeight()))
	}
	mod := make([][]bool, bm.GetHeight())
	for y := range mod {
		mod[y] = make([]bool, bm.GetWidth())
		for x := range mod[y] {
			mod[y][x] = bm.Get(x, y) == 1
		}
	}
	s.setMatrix(mod)
	s.noDefault = !s.measureDefault()
	return s
}

// --- Data Matrix

func dmSymbol(rows, cols int) *symbol {
	shape := dmenc.SymbolShapeHint_FORCE_SQUARE
	if rows != cols {
		shape = dmenc.SymbolShapeHint_FORCE_RECTANGLE
	}
	s := &symbol{Kind: "dm", Name: fmt.Sprintf("dm-%dx%d", rows, cols), format: gozxing.BarcodeFormat_DATA_MATRIX,
		newWriter: func() gozxing.Writer { return datamatrix.NewDataMatrixWriter() },
		extra:     hintMap{gozxing.EncodeHintType_DATA_MATRIX_SHAPE: shape}}
	// the shortest prefix of a fixed text whose symbol has the wanted size
	text := strings.Repeat("Geometry-14 ", 40)
	for n := 1; n <= len(text); n++ {
		s.Content = text[:n]
		// the bare symbol: 0x0 request (MARGIN 0 is passed as the property words it; Data Matrix has no margin)
		out, err, pmsg, site := s.render(0, 0, 0, false)
		if pmsg != "" {
			chk.Violation("C14/panic/"+site, fmt.Sprintf("panic %q rendering Data Matrix %q at 0x0", pmsg, s.Content), caseRec{s.Name, s.Content, 0, 0, 0})
			return nil
		}
		if err != nil || out == nil {
			continue
		}
		if out.GetWidth() > cols && out.GetHeight() > rows {
			break
		}
		if out.GetWidth() != cols || out.GetHeight() != rows {
			continue
		}
		mod := matrixOf(out)
		s.setMatrix(mod)
		// the 0x0 rendering must be the bare symbol: every finder / clock module where ISO 16022 puts it
		rs, ok := refdm.SymbolBySize(rows, cols)
		if !ok {
			panic("harness: ref/dm does not know " + s.Name)
		}
		if e := refdm.CheckBorders(mod, rs); e != nil {
			chk.Violation(s.key("padding"), fmt.Sprintf("0x0 rendering of %q (%dx%d) is not a bare symbol: %v", s.Content, cols, rows, e), caseRec{s.Name, s.Content, 0, 0, 0})
			return nil
		}
		// informative only (content correctness is C01/C02's subject)
		if cw, _, e := refdm.ReadCodewords(mod); e == nil {
			if txt, e2 := refdm.DecodeStream(cw[:rs.DataCW]); e2 != nil || txt != s.Content {
				chk.Note(fmt.Sprintf("%s: reference decoder reads %q (%v) from the bare symbol of %q", s.Name, txt, e2, s.Content))
			}
		}
		return s
	}
	panic("harness: no prefix of the text produces " + s.Name)
}

// --- 1-D

type onedSpec struct {
	name     string
	format   gozxing.BarcodeFormat
	newW     func() gozxing.Writer
	def      int
	contents [2]string
	modules  int // standard module count of a fixed-length symbology, 0 = variable
}

var onedSpecs = []onedSpec{
	{"EAN-13", gozxing.BarcodeFormat_EAN_13, oned.NewEAN13Writer, 9, [2]string{"5901234123457", "4006381333931"}, 95},
	{"EAN-8", gozxing.BarcodeFormat_EAN_8, oned.NewEAN8Writer, 9, [2]string{"96385074", "12345670"}, 67},
	{"UPC-A", gozxing.BarcodeFormat_UPC_A, oned.NewUPCAWriter, 9, [2]string{"036000291452", "123456789012"}, 95},
	{"UPC-E", gozxing.BarcodeFormat_UPC_E, oned.NewUPCEWriter, 9, [2]string{"01234565", "05096893"}, 51},
	{"Code39", gozxing.BarcodeFormat_CODE_39, oned.NewCode39Writer, 10, [2]string{"C14", "GEOMETRY-14"}, 0},
	{"Code93", gozxing.BarcodeFormat_CODE_93, oned.NewCode93Writer, 10, [2]string{"C14", "GEOMETRY 14"}, 0},
	{"Code128", gozxing.BarcodeFormat_CODE_128, oned.NewCode128Writer, 10, [2]string{"c14", "Geometry 2024"}, 0},
	{"ITF", gozxing.BarcodeFormat_ITF, oned.NewITFWriter, 10, [2]string{"14", "0012345678"}, 0},
	{"Codabar", gozxing.BarcodeFormat_CODABAR, oned.NewCodaBarWriter, 10, [2]string{"A14B", "C12-34$5D"}, 0},
}

func onedSymbol(sp onedSpec, ci int) *symbol {
	s := &symbol{Kind: "1d:" + sp.name, Name: fmt.Sprintf("%s#%d", sp.name, ci), Content: sp.contents[ci], oneD: true, margins: true,
		docDefault: sp.def, format: sp.format, newWriter: sp.newW}
	cs := caseRec{s.Name, s.Content, 0, 0, 0}
	out, err, pmsg, site := s.render(0, 0, 0, false)
	if pmsg != "" {
		chk.Violation("C14/panic/"+site, fmt.Sprintf("panic %q rendering %s %q at 0x0 margin 0", pmsg, sp.name, s.Content), cs)
		return nil
	}
	if err != nil || out == nil {
		panic(fmt.Sprintf("harness: %s refuses %q: %v", sp.name, s.Content, err))
	}
	if out.GetHeight() != 1 {
		chk.Violation(s.key("size"), fmt.Sprintf("%s %q at 0x0 margin 0 is %d rows high, statement gives max(0,1)=1", sp.name, s.Content, out.GetHeight()), cs)
		return nil
	}
	mod := matrixOf(out)
	s.setMatrix(mod)
	if sp.modules != 0 && s.nx != sp.modules {
		chk.Violation(s.key("size"), fmt.Sprintf("%s %q at 0x0 margin 0 is %d wide; a %s symbol has %d modules", sp.name, s.Content, s.nx, sp.name, sp.modules), cs)
		return nil
	}
	if s.mx0 != 0 || s.mx1 != s.nx-1 {
		chk.Violation(s.key("padding"), fmt.Sprintf("%s %q at 0x0 margin 0 has white columns outside its first/last bar (dark %d..%d of %d)", sp.name, s.Content, s.mx0, s.mx1, s.nx), cs)
		return nil
	}
	s.noDefault = !s.measureDefault()
	return s
}

// ------------------------------------------------------------------ enumeration

type pt struct{ w, h int }

// job = one Range index: a symbol, a margin and a list of requests.
type job struct {
	s      *symbol
	margin int
	reqs   []pt
}

func (j job) String() string {
	return fmt.Sprintf("%s margin=%s %d requests from %dx%d", j.s.Name, marginText(j.margin), len(j.reqs), j.reqs[0].w, j.reqs[0].h)
}

func runJobs(name string, all []job) {
	var jobs []job
	noted := map[string]bool{}
	for _, j := range all {
		if j.margin == defaultMargin && j.s.margins && j.s.noDefault {
			if !noted[j.s.Name] {
				noted[j.s.Name] = true
				chk.Note("no-hint cases of " + j.s.Name + " skipped: its default margin could not be determined (reported as a violation)")
			}
			continue
		}
		jobs = append(jobs, j)
	}
	if len(jobs) == 0 {
		chk.Incomplete(name, "no symbol could be prepared")
		return
	}
	renders := 0
	for _, j := range jobs {
		renders += len(j.reqs)
	}
	name += fmt.Sprintf(" [%d renders]", renders)
	chk.Range(name, len(jobs),
		func(i int) string { return jobs[i].String() },
		func(l *mc.Local, i int) {
			j := jobs[i]
			for _, r := range j.reqs {
				checkOne(l, j.s, r.w, r.h, j.margin, false)
			}
		})
}

// natural is the smallest image of the symbol under margin m, per axis.
func (s *symbol) natural(margin int) (int, int) {
	m := margin
	if margin == defaultMargin {
		m = s.measuredDefault
	}
	switch {
	case s.oneD:
		return s.nx + m, 1
	case s.margins:
		return s.nx + 2*m, s.ny + 2*m
	}
	return s.nx, s.ny
}

func marginList(quick []int) []int {
	var ms []int
	if chk.Quick() {
		ms = append(ms, quick...)
	} else {
		for m := 0; m <= 20; m++ {
			ms = append(ms, m)
		}
	}
	return append(ms, defaultMargin)
}

// top is the upper end of a requested-size range "k times natural": two pixels further, so that the
// largest module size k is also seen with an odd and an even leftover.
func top(k, nat int) int { return k*nat + 2 }

// squareJobs: every (w,h) in 0..k*natural+2 on both axes, one job per w.
func squareJobs(s *symbol, margin, k int) []job {
	natW, natH := s.natural(margin)
	var jobs []job
	for w := 0; w <= top(k, natW); w++ {
		j := job{s: s, margin: margin}
		for h := 0; h <= top(k, natH); h++ {
			j.reqs = append(j.reqs, pt{w, h})
		}
		jobs = append(jobs, j)
	}
	return jobs
}

// sweepJobs: one-parameter families through the (w,h) plane up to k*natural+2, in chunks.
// fixed lists the values the other axis is held at for the width-only / height-only sweeps.
func sweepJobs(s *symbol, margin, k int, fixedW, fixedH []int) []job {
	natW, natH := s.natural(margin)
	var reqs []pt
	for _, fh := range fixedH {
		for w := 0; w <= top(k, natW); w++ {
			reqs = append(reqs, pt{w, fh})
		}
	}
	for _, fw := range fixedW {
		for h := 0; h <= top(k, natH); h++ {
			reqs = append(reqs, pt{fw, h})
		}
	}
	for t := 0; t <= top(k, natW); t++ {
		reqs = append(reqs, pt{t, t})                          // diagonal
		reqs = append(reqs, pt{t, t * natH / natW})            // proportional diagonal (differs for rectangular symbols)
		reqs = append(reqs, pt{t, top(k, natH) - t*natH/natW}) // anti-diagonal (one axis grows while the other shrinks)
	}
	for i := range reqs {
		if reqs[i].h < 0 {
			reqs[i].h = 0
		}
	}
	chunk := 64
	if natW > 60 {
		chunk = 16
	}
	var jobs []job
	for lo := 0; lo < len(reqs); lo += chunk {
		hi := lo + chunk
		if hi > len(reqs) {
			hi = len(reqs)
		}
		jobs = append(jobs, job{s, margin, reqs[lo:hi]})
	}
	return jobs
}

func runQR() {
	margins := marginList([]int{0, 1, 4, 5, 20})
	mtext := chk.Pick(0, 1)
	mdesc := []string{"{0,1,4,5,20,none}", "{0..20,none}"}[mtext]

	if s := qrSymbol(1); s != nil {
		k := 3
		var jobs []job
		for _, m := range margins {
			jobs = append(jobs, squareJobs(s, m, k)...)
		}
		runJobs(fmt.Sprintf("QR version 1 (21x21 modules): margin %s x every (width,height) in 0..%d*(21+2*margin)+2 squared", mdesc, k), jobs)
		chk.Sample("qr", caseRec{s.Name, s.Content, 64, 59, 4})
	}
	{
		k := chk.Pick(3, 8)
		var jobs []job
		for _, v := range []int{2, 7} {
			s := qrSymbol(v)
			if s == nil {
				continue
			}
			for _, m := range margins {
				natW, natH := s.natural(m)
				jobs = append(jobs, sweepJobs(s, m, k, []int{0, 2*natW + 1}, []int{0, 2*natH + 1})...)
			}
		}
		runJobs(fmt.Sprintf("QR versions 2 and 7 (25, 45 modules): margin %s x sweeps over 0..%d*natural+2: width with height in {0, 2*natural+1}, height with width in {0, 2*natural+1}, diagonal, anti-diagonal", mdesc, k), jobs)
	}
	if s := qrSymbol(40); s != nil {
		var jobs []job
		for _, m := range margins {
			nat, _ := s.natural(m)
			for _, r := range []pt{{0, 0}, {nat + 1, nat}, {2*nat + 1, 2*nat + 2}, {3*nat - 1, 2 * nat}} {
				jobs = append(jobs, job{s, m, []pt{r}})
			}
		}
		runJobs(fmt.Sprintf("QR version 40 (177 modules): margin %s x requests {0x0, (nat+1)x nat, (2nat+1)x(2nat+2), (3nat-1)x 2nat}", mdesc), jobs)
	}
}

func runDM() {
	type size struct{ rows, cols int }
	small := []size{{10, 10}, {8, 18}}
	large := []size{{16, 48}, {32, 32}, {52, 52}}
	syms := map[size]*symbol{}
	for _, z := range append(append([]size{}, small...), large...) {
		syms[z] = dmSymbol(z.rows, z.cols)
	}
	// full squares
	ksq := chk.Pick(3, 8)
	var jobs []job
	for _, z := range small {
		if s := syms[z]; s != nil {
			jobs = append(jobs, squareJobs(s, defaultMargin, ksq)...)
		}
	}
	name := fmt.Sprintf("Data Matrix 10x10 and 8x18: every (width,height) in 0..%d*natural+2 squared", ksq)
	if !chk.Quick() {
		for _, z := range large {
			if s := syms[z]; s != nil {
				jobs = append(jobs, squareJobs(s, defaultMargin, 3)...)
			}
		}
		name += "; 16x48, 32x32, 52x52: every (width,height) in 0..3*natural+2 squared"
	}
	runJobs(name, jobs)
	if s := syms[size{8, 18}]; s != nil {
		chk.Sample("dm", caseRec{s.Name, s.Content, 37, 17, defaultMargin})
	}
	// sweeps for the multi-region symbols
	k := chk.Pick(3, 8)
	jobs = nil
	for _, z := range large {
		s := syms[z]
		if s == nil {
			continue
		}
		jobs = append(jobs, sweepJobs(s, defaultMargin, k, []int{0, s.nx - 1, s.nx, 2*s.nx + 1, k * s.nx}, []int{0, s.ny - 1, s.ny, 2*s.ny + 1, k * s.ny})...)
	}
	runJobs(fmt.Sprintf("Data Matrix 16x48, 32x32, 52x52: sweeps over 0..%d*natural+2: width with height in {0, n-1, n, 2n+1, %dn}, height with width likewise, diagonal, proportional diagonal, anti-diagonal", k, k), jobs)
}

func runOneD() {
	margins := marginList([]int{0, 1, 9, 10, 20})
	mdesc := []string{"{0,1,9,10,20,none}", "{0..20,none}"}[chk.Pick(0, 1)]
	k := chk.Pick(4, 8)
	heights := []int{0, 1, 2, 37}
	var jobs []job
	for _, sp := range onedSpecs {
		for ci := 0; ci < 2; ci++ {
			s := onedSymbol(sp, ci)
			if s == nil {
				continue
			}
			for _, m := range margins {
				nat, _ := s.natural(m)
				for _, h := range heights {
					var reqs []pt
					for w := 0; w <= top(k, nat); w++ {
						reqs = append(reqs, pt{w, h})
						if len(reqs) == 128 {
							jobs = append(jobs, job{s, m, reqs})
							reqs = nil
						}
					}
					if len(reqs) > 0 {
						jobs = append(jobs, job{s, m, reqs})
					}
				}
			}
			if ci == 0 {
				chk.Sample(s.Kind, caseRec{s.Name, s.Content, 2*s.nx + 7, 37, defaultMargin})
			}
		}
	}
	runJobs(fmt.Sprintf("1-D: 9 writers (EAN-13, EAN-8, UPC-A, UPC-E, Code 39, Code 93, Code 128, ITF, Codabar) x 2 contents x margin %s x height {0,1,2,37} x every width 0..%d*(modules+margin)+2", mdesc, k), jobs)
}

// ------------------------------------------------------------------ main / replay

func symbolByName(name string) *symbol {
	var v, r, c, ci int
	var w string
	if mk, ok := hintedQR[name]; ok {
		return mk()
	}
	if n, _ := fmt.Sscanf(name, "qr-v%d", &v); n == 1 {
		return qrSymbol(v)
	}
	if n, _ := fmt.Sscanf(name, "dm-%dx%d", &r, &c); n == 2 {
		return dmSymbol(r, c)
	}
	if i := strings.LastIndex(name, "#"); i > 0 {
		w = name[:i]
		fmt.Sscanf(name[i+1:], "%d", &ci)
		for _, sp := range onedSpecs {
			if sp.name == w && ci >= 0 && ci < 2 {
				return onedSymbol(sp, ci)
			}
		}
	}
	return nil
}

func replay() {
	var tm typedMarginCase
	if err := mc.LoadReplay(chk.ReplayFile(), &tm); err == nil && tm.Kind == "typed-margin" {
		l := chk.NewLocal()
		typedMarginOne(l, tm)
		l.Merge()
		return
	}
	var sc sharedCase
	if err := mc.LoadReplay(chk.ReplayFile(), &sc); err == nil && sc.Kind == "shared-hints" {
		fmt.Printf("replay %+v: the shared-hints sub-space is re-run as a whole (it takes seconds)\n", sc)
		runSharedHints()
		return
	}
	var c caseRec
	if err := mc.LoadReplay(chk.ReplayFile(), &c); err != nil {
		fmt.Println("cannot read replay:", err)
		return
	}
	s := symbolByName(c.Symbol)
	if s == nil && strings.Contains(c.Symbol, "-huge") && c.Content != "" {
		// huge symbols are rebuilt from the recorded content
		for _, sp := range onedSpecs {
			if strings.HasPrefix(c.Symbol, sp.name+"-huge") {
				sp.contents = [2]string{c.Content, c.Content}
				sp.name += "-huge"
				sp.modules = 0
				s = onedSymbol(sp, 0)
			}
		}
	}
	if s == nil {
		fmt.Println("replay: symbol", c.Symbol, "cannot be prepared (see violations above)")
		return
	}
	if c.Margin == defaultMargin && s.margins && s.noDefault {
		fmt.Println("replay: the default margin of", s.Name, "cannot be determined (see violation above)")
		return
	}
	l := chk.NewLocal()
	defer l.Merge()
	checkOne(l, s, c.W, c.H, c.Margin, true)
}

func main() {
	chk = mc.New("C14", "exploration")
	chk.Rule = "complete enumeration of (symbol, margin hint, requested width, requested height) in the stated ranges; every case renders with the real writer and compares every pixel with the statement's formula; non-trivial = distinct (symbol, margin in force, output width, output height), i.e. requests that lead to different images"
	chk.Assume("module matrix: QR = encoder.Encoder_encode(content, L, nil).GetMatrix() (the same hints apart from MARGIN, which the encoder does not read); Data Matrix and 1-D = the writer's own 0x0 rendering with MARGIN 0, which is the bare symbol by definition; that rendering is additionally required to have Data Matrix finder/clock borders where ref/dm puts them, 1-D first and last module dark, and 95/67/95/51 modules for EAN-13/EAN-8/UPC-A/UPC-E")
	chk.Assume("Data Matrix has no quiet zone and ignores MARGIN: requested size if width >= columns and height >= rows, otherwise exactly the bare symbol at module size 1")
	chk.Assume("1-D quiet zone = margin modules in total (left + right), image height = max(requested,1), bars span every row")
	chk.Assume("no MARGIN hint (weaker reading): the margin in force is the one the writer itself shows at 0x0 without hints; it must be at least the documented default (QR 4, EAN/UPC 9, other 1-D 10) and all other sizes must follow the formula with that same margin; a larger default is not reported")
	chk.Assume("the MARGIN hint is given as an int, and as a decimal string (the other documented spelling: plain, zero-padded to 2 and 3 digits, with a plus sign - everything strconv.Atoi reads as that number) on the requests with (width+height+margin) divisible by 3; all must follow the same formula")
	chk.Assume("domain: width, height >= 0 and MARGIN an int in 0..20; negative values and other hint spellings belong to C12")
	if chk.ReplayFile() != "" {
		replay()
		chk.Finish()
	}
	runQR()
	runDM()
	runOneD()
	runLargeScales()
	runHugeSymbols()
	runHintedQR()
	runFarCanvases()
	runTypedMargins()
	runTexturedQR()
	runHintedDM()
	runHistory()
	runSharedHints()
	runZeroValueWriters()
	chk.Finish()
}
