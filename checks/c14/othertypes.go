package main

// MARGIN values of OTHER Go types than the documented int / decimal string: float64 (what a hint map
// decoded from JSON carries), float32, int64, uint8. The writers are free to refuse them; a value
// that is ACCEPTED is "the configured quiet zone" and the image must leave at least that much:
// at the natural size (request 0x0, one pixel per module) the white columns (2-D: and rows) around
// the symbol are counted. Nothing else is judged here.

import (
	"fmt"

	"verif/mc"

	"github.com/makiuchi-d/gozxing"
	"github.com/makiuchi-d/gozxing/qrcode"
)

type typedMarginCase struct {
	Kind   string // "typed-margin"
	Writer string
	Type   string
	Value  float64
}

func typedValue(typ string, v float64) interface{} {
	switch typ {
	case "float64":
		return v
	case "float32":
		return float32(v)
	case "int64":
		return int64(v)
	case "uint8":
		return uint8(v)
	case "int32":
		return int32(v)
	}
	return v
}

func typedMarginOne(l *mc.Local, c typedMarginCase) {
	var w gozxing.Writer
	var f gozxing.BarcodeFormat
	content, twoD := "", false
	if c.Writer == "QR" {
		w, f, content, twoD = qrcode.NewQRCodeWriter(), gozxing.BarcodeFormat_QR_CODE, "C14", true
	} else {
		for _, sp := range onedSpecs {
			if sp.name == c.Writer {
				w, f, content = sp.newW(), sp.format, sp.contents[0]
			}
		}
	}
	if w == nil {
		return
	}
	var m *gozxing.BitMatrix
	var err error
	pm, site := mc.Guard(func() {
		m, err = w.Encode(content, f, 0, 0, map[gozxing.EncodeHintType]interface{}{gozxing.EncodeHintType_MARGIN: typedValue(c.Type, c.Value)})
	})
	l.Count("evaluations", 1)
	if pm != "" {
		chk.Violation("C14/panic/"+site, fmt.Sprintf("%+v: panic %s", c, pm), c)
		return
	}
	if err != nil || m == nil {
		l.Count("MARGIN values of undocumented Go types refused by the writer (not judged)", 1)
		return
	}
	W, H := m.GetWidth(), m.GetHeight()
	colEmpty := func(x int) bool {
		for y := 0; y < H; y++ {
			if m.Get(x, y) {
				return false
			}
		}
		return true
	}
	rowEmpty := func(y int) bool {
		for x := 0; x < W; x++ {
			if m.Get(x, y) {
				return false
			}
		}
		return true
	}
	left, right, top, bottom := 0, 0, 0, 0
	for left < W && colEmpty(left) {
		left++
	}
	for right < W-left && colEmpty(W-1-right) {
		right++
	}
	for top < H && rowEmpty(top) {
		top++
	}
	for bottom < H-top && rowEmpty(H-1-bottom) {
		bottom++
	}
	want := float64(typedAsFloat(c))
	ok := true
	if twoD {
		for _, q := range []int{left, right, top, bottom} {
			if float64(q) < want {
				ok = false
			}
		}
	} else if float64(left+right) < want {
		ok = false
	}
	if !ok {
		chk.Violation("C14/typed-margin/"+c.Writer+"/"+c.Type, fmt.Sprintf("%s writer accepts MARGIN = %s(%v) and leaves %d / %d white columns (rows %d / %d) around the symbol in a %dx%d image at one pixel per module", c.Writer, c.Type, c.Value, left, right, top, bottom, W, H), c)
		return
	}
	l.Distinct("nontrivial", fmt.Sprint("typed-margin", c))
}

// typedAsFloat is the numeric value the caller configured (after the conversion to the Go type).
func typedAsFloat(c typedMarginCase) float64 {
	switch v := typedValue(c.Type, c.Value).(type) {
	case float64:
		return v
	case float32:
		return float64(v)
	case int64:
		return float64(v)
	case uint8:
		return float64(v)
	case int32:
		return float64(v)
	}
	return c.Value
}

func runTypedMargins() {
	var cases []typedMarginCase
	writers := []string{"QR"}
	for _, sp := range onedSpecs {
		writers = append(writers, sp.name)
	}
	for _, w := range writers {
		for _, t := range []string{"float64", "float32", "int64", "int32", "uint8"} {
			for _, v := range []float64{0, 0.75, 1, 2.5, 4, 7.25, 12, 20} {
				if t != "float64" && t != "float32" && v != float64(int(v)) {
					continue
				}
				cases = append(cases, typedMarginCase{"typed-margin", w, t, v})
			}
		}
	}
	chk.Range("MARGIN values of undocumented Go types (float64, float32, int64, int32, uint8) x values {0, 0.75, 1, 2.5, 4, 7.25, 12, 20} x QR and 9 1-D writers at the natural size: a value the writer accepts must be left as quiet zone", len(cases),
		func(i int) string { return fmt.Sprint(cases[i]) },
		func(l *mc.Local, i int) { typedMarginOne(l, cases[i]) })
}
