package main

// Large module sizes: the other families stop at 8 times the natural size, i.e. modules of at
// most 8 pixels. Here every module size 9..72 (thorough: ..130) pixels is rendered for small
// symbols of every writer, with several leftovers so that the padding - and with it the position
// of the module blocks relative to the 32-bit words of the image rows - varies.

import (
	"fmt"
	"strings"

	"verif/mc"

	"github.com/makiuchi-d/gozxing"
	"github.com/makiuchi-d/gozxing/datamatrix"
	dmenc "github.com/makiuchi-d/gozxing/datamatrix/encoder"
	"github.com/makiuchi-d/gozxing/qrcode"
	qrdec "github.com/makiuchi-d/gozxing/qrcode/decoder"
	qrenc "github.com/makiuchi-d/gozxing/qrcode/encoder"
)

func runLargeScales() {
	maxScale := chk.Pick(72, 130)
	leftovers := []int{0, 1, 33}
	if !chk.Quick() {
		leftovers = []int{0, 1, 7, 33, 62}
	}
	var jobs []job
	add := func(s *symbol, margins []int, h1d []int) {
		if s == nil {
			return
		}
		for _, m := range margins {
			natW, natH := s.natural(m)
			for sc := 9; sc <= maxScale; sc++ {
				var reqs []pt
				for _, r := range leftovers {
					if s.oneD {
						for _, h := range h1d {
							reqs = append(reqs, pt{natW*sc + r, h})
						}
					} else {
						reqs = append(reqs, pt{natW*sc + r, natH*sc + r})
					}
				}
				jobs = append(jobs, job{s, m, reqs})
			}
		}
	}
	add(qrSymbol(1), []int{0, 4, defaultMargin}, nil)
	add(dmSymbol(10, 10), []int{defaultMargin}, nil)
	add(dmSymbol(8, 18), []int{defaultMargin}, nil)
	for _, sp := range onedSpecs {
		add(onedSymbol(sp, 0), []int{0, 9, defaultMargin}, []int{1, 2})
	}
	runJobs(fmt.Sprintf("large module sizes: QR version 1 (margin 0, 4, none), Data Matrix 10x10 and 8x18, 9 1-D writers (margin 0, 9, none; height 1, 2) x EVERY module size 9..%d x leftover pixels %v on both axes", maxScale, leftovers), jobs)
}

// qrSymbolWith: a QR symbol written with further writer hints (error-correction level, version,
// mask, character set, GS1) NEXT TO the margin hint. The module matrix comes from Encoder_encode
// with the same hints (the encoder does not read MARGIN); the geometry formula is unchanged.
func qrSymbolWith(name, content string, level qrdec.ErrorCorrectionLevel, extra hintMap, writerHints hintMap) *symbol {
	s := &symbol{Kind: "qr", Name: name, Content: content, margins: true, docDefault: 4, format: gozxing.BarcodeFormat_QR_CODE,
		newWriter: func() gozxing.Writer { return qrcode.NewQRCodeWriter() }, extra: writerHints}
	var code *qrenc.QRCode
	var err error
	pmsg, site := mc.Guard(func() { code, err = qrenc.Encoder_encode(content, level, extra) })
	if pmsg != "" {
		chk.Violation("C14/panic/"+site, fmt.Sprintf("panic %q in Encoder_encode for %s", pmsg, name), caseRec{name, content, 0, 0, 0})
		return nil
	}
	if err != nil {
		panic(fmt.Sprintf("harness: %s content refused: %v", name, err))
	}
	bm := code.GetMatrix()
	mod := make([][]bool, bm.GetHeight())
	for y := range mod {
		mod[y] = make([]bool, bm.GetWidth())
		for x := range mod[y] {
			mod[y][x] = bm.Get(x, y) == 1
		}
	}
	s.setMatrix(mod)
	s.noDefault = !s.measureDefault()
	return s
}

var hintedQR = map[string]func() *symbol{}

func init() {
	add := func(name string, level qrdec.ErrorCorrectionLevel, enc hintMap, wr hintMap) {
		hintedQR[name] = func() *symbol { return qrSymbolWith(name, "C14 hinted", level, enc, wr) }
	}
	EC := gozxing.EncodeHintType(gozxing.EncodeHintType_ERROR_CORRECTION)
	add("qr+ecH", qrdec.ErrorCorrectionLevel_H, nil, hintMap{EC: qrdec.ErrorCorrectionLevel_H})
	add("qr+ecQstr", qrdec.ErrorCorrectionLevel_Q, nil, hintMap{EC: "Q"})
	add("qr+ecLstr", qrdec.ErrorCorrectionLevel_L, nil, hintMap{EC: "L"})
	add("qr+v3", qrdec.ErrorCorrectionLevel_L, hintMap{gozxing.EncodeHintType_QR_VERSION: 3}, hintMap{gozxing.EncodeHintType_QR_VERSION: 3})
	add("qr+mask5", qrdec.ErrorCorrectionLevel_L, hintMap{gozxing.EncodeHintType_QR_MASK_PATTERN: 5}, hintMap{gozxing.EncodeHintType_QR_MASK_PATTERN: 5})
	add("qr+utf8", qrdec.ErrorCorrectionLevel_L, hintMap{gozxing.EncodeHintType_CHARACTER_SET: "UTF-8"}, hintMap{gozxing.EncodeHintType_CHARACTER_SET: "UTF-8"})
	add("qr+gs1", qrdec.ErrorCorrectionLevel_L, hintMap{gozxing.EncodeHintType_GS1_FORMAT: true}, hintMap{gozxing.EncodeHintType_GS1_FORMAT: true})
	add("qr+all", qrdec.ErrorCorrectionLevel_M,
		hintMap{gozxing.EncodeHintType_QR_VERSION: "2", gozxing.EncodeHintType_QR_MASK_PATTERN: "1", gozxing.EncodeHintType_CHARACTER_SET: "ISO-8859-1"},
		hintMap{EC: "M", gozxing.EncodeHintType_QR_VERSION: "2", gozxing.EncodeHintType_QR_MASK_PATTERN: "1", gozxing.EncodeHintType_CHARACTER_SET: "ISO-8859-1"})
}

// Textured symbols: long runs of equal modules. A payload of zeros (all data bits 0) under a mask
// that inverts whole rows, or of 0xFF bytes under one that does not, gives rows of more than 128 and
// columns of more than 128 equal modules in the large versions - a renderer that draws runs instead
// of single modules counts that far.
var texturedQR []string

func init() {
	for _, v := range []int{28, 40} {
		for mask := 0; mask < 8; mask++ {
			v, mask := v, mask
			zeros := fmt.Sprintf("qr+zeros-v%d-mask%d", v, mask)
			hz := hintMap{gozxing.EncodeHintType_QR_VERSION: v, gozxing.EncodeHintType_QR_MASK_PATTERN: mask}
			hintedQR[zeros] = func() *symbol {
				return qrSymbolWith(zeros, strings.Repeat("0", map[int]int{28: 3600, 40: 7089}[v]), qrdec.ErrorCorrectionLevel_L, hz, hz)
			}
			ff := fmt.Sprintf("qr+ff-v%d-mask%d", v, mask)
			hf := hintMap{gozxing.EncodeHintType_QR_VERSION: v, gozxing.EncodeHintType_QR_MASK_PATTERN: mask, gozxing.EncodeHintType_CHARACTER_SET: "ISO-8859-1"}
			hintedQR[ff] = func() *symbol {
				return qrSymbolWith(ff, strings.Repeat("\u00ff", map[int]int{28: 1500, 40: 2940}[v]), qrdec.ErrorCorrectionLevel_L, hf, hf)
			}
			texturedQR = append(texturedQR, zeros, ff)
		}
	}
}

func runTexturedQR() {
	var jobs []job
	longest := 0
	for _, n := range texturedQR {
		s := hintedQR[n]()
		if s == nil {
			continue
		}
		for _, row := range s.mod {
			run := 0
			for _, b := range row {
				if b {
					run++
					if run > longest {
						longest = run
					}
				} else {
					run = 0
				}
			}
		}
		for _, m := range marginList([]int{0, 4}) {
			natW, natH := s.natural(m)
			jobs = append(jobs, job{s, m, []pt{{0, 0}, {natW + 3, natH + 1}, {2*natW + 1, 2 * natH}}})
		}
	}
	chk.Subspace("textured QR symbols", map[string]interface{}{"symbols": len(texturedQR), "longest_dark_run_in_a_row_modules": longest})
	runJobs("QR versions 28 and 40 with long runs of equal modules (payload of zeros / of 0xFF bytes x every forced mask 0..7) x margins x 3 requested sizes", jobs)
}

// runFarCanvases: flat and narrow canvases whose far edge lies beyond 2^16 and 2^17 pixels, so that the
// centred symbol itself starts beyond pixel 65535: offsets kept in 16-bit tables or counters go wrong
// only there.
func runFarCanvases() {
	var jobs []job
	add := func(s *symbol, margins []int) {
		if s == nil {
			return
		}
		for _, m := range margins {
			var reqs []pt
			for _, far := range []int{140000, 262147} {
				if s.oneD {
					reqs = append(reqs, pt{far, 3})
					continue
				}
				reqs = append(reqs, pt{far, 12}, pt{12, far}, pt{far, 75})
			}
			jobs = append(jobs, job{s, m, reqs})
		}
	}
	add(qrSymbol(1), []int{0, defaultMargin})
	add(dmSymbol(10, 10), []int{defaultMargin})
	add(dmSymbol(8, 18), []int{defaultMargin})
	add(dmSymbol(16, 48), []int{defaultMargin})
	for _, sp := range onedSpecs {
		add(onedSymbol(sp, 0), []int{0, defaultMargin})
	}
	runJobs("far canvases: QR version 1, Data Matrix 10x10, 8x18 and 16x48, 9 1-D writers x requests {140000, 262147} x {12, 75} and 12 x {140000, 262147} (1-D: height 3): the centred symbol starts beyond pixel 65535", jobs)
}

func runHintedQR() {
	var jobs []job
	names := []string{"qr+ecH", "qr+ecQstr", "qr+ecLstr", "qr+v3", "qr+mask5", "qr+utf8", "qr+gs1", "qr+all"}
	for _, n := range names {
		s := hintedQR[n]()
		if s == nil {
			continue
		}
		for _, m := range marginList([]int{0, 1, 4, 7, 20}) {
			natW, natH := s.natural(m)
			var reqs []pt
			for _, r := range []pt{{0, 0}, {natW, natH}, {natW + 3, natH + 1}, {2*natW + 1, 2 * natH}, {3 * natW, 3*natH + 2}, {natW - 5, 2 * natH}} {
				if r.w >= 0 && r.h >= 0 {
					reqs = append(reqs, r)
				}
			}
			jobs = append(jobs, job{s, m, reqs})
		}
	}
	runJobs("QR with further writer hints next to MARGIN (ERROR_CORRECTION typed and as string, QR_VERSION, QR_MASK_PATTERN, CHARACTER_SET, GS1_FORMAT, all together as strings) x margins x 6 requested sizes", jobs)
}

// runHugeSymbols: symbols of more than a million modules (the Codabar writer has no length limit; the
// other 1-D writers stop at 80 characters). Module size and padding are integer quotients of the requested width and the symbol's
// width; computed through floating point they go wrong only when the two numbers are of that
// magnitude and the request misses a multiple by one pixel. Requests: k times the natural width
// minus one, exactly, plus one (k = 1, 2, 3), height 1, margins {10 (default), 0}.
func runHugeSymbols() {
	type hs struct {
		sp      onedSpec
		content string
	}
	body := strings.Repeat("1234567890", 10003)
	huge := []hs{
		{onedSpecs[8], "A" + body + "B"},                // Codabar: about 1.1 million modules
		{onedSpecs[8], "C" + body + body[:50001] + "D"}, // about 1.65 million modules
	}
	var jobs []job
	for _, h := range huge {
		sp := h.sp
		sp.contents = [2]string{h.content, h.content}
		sp.name = sp.name + "-huge"
		sp.modules = 0
		s := onedSymbol(sp, 0)
		if s == nil {
			continue
		}
		for _, m := range []int{defaultMargin, 0} {
			natW, _ := s.natural(m)
			var reqs []pt
			for k := 1; k <= 3; k++ {
				for d := -1; d <= 1; d++ {
					reqs = append(reqs, pt{k*natW + d, 1})
				}
			}
			if chk.Quick() {
				reqs = reqs[:6]
			}
			jobs = append(jobs, job{s, m, reqs})
		}
	}
	runJobs("huge 1-D symbols (Codabar with 100 030 and 150 031 digits: 1.1 and 1.65 million modules): requested widths k x natural width -1, +0, +1 (k = 1..3; quick: k <= 2), height 1, margins {default, 0}", jobs)
}

// Data Matrix with the size hints. MIN_SIZE and MAX_SIZE bound the SYMBOL in modules; the image
// still has the requested size whenever the chosen symbol fits it. Symbols chosen under a
// maximum larger than, equal to and smaller than typical requests, under a minimum, under both,
// and with a forced shape next to a maximum.
var hintedDM []string

func init() {
	dim := func(w, h int) *gozxing.Dimension {
		d, _ := gozxing.NewDimension(w, h)
		return d
	}
	add := func(name, content string, h hintMap) {
		hintedDM = append(hintedDM, name)
		hintedQR[name] = func() *symbol {
			s := &symbol{Kind: "dm", Name: name, Content: content, format: gozxing.BarcodeFormat_DATA_MATRIX,
				newWriter: func() gozxing.Writer { return datamatrix.NewDataMatrixWriter() }, extra: h}
			out, err, pmsg, site := s.render(0, 0, 0, false)
			if pmsg != "" {
				chk.Violation("C14/panic/"+site, fmt.Sprintf("panic %q rendering %s at 0x0", pmsg, name), caseRec{name, content, 0, 0, 0})
				return nil
			}
			if err != nil || out == nil {
				panic(fmt.Sprintf("harness: %s refused: %v", name, err))
			}
			s.setMatrix(matrixOf(out))
			return s
		}
	}
	MIN, MAX, SHAPE := gozxing.EncodeHintType(gozxing.EncodeHintType_MIN_SIZE), gozxing.EncodeHintType(gozxing.EncodeHintType_MAX_SIZE), gozxing.EncodeHintType(gozxing.EncodeHintType_DATA_MATRIX_SHAPE)
	add("dm+max16", "A", hintMap{MAX: dim(16, 16)})
	add("dm+max10", "A", hintMap{MAX: dim(10, 10)})
	add("dm+min14", "A", hintMap{MIN: dim(14, 14)})
	add("dm+min12+max20", "A", hintMap{MIN: dim(12, 12), MAX: dim(20, 20)})
	add("dm+rect+max32x8", "RECT", hintMap{SHAPE: dmenc.SymbolShapeHint_FORCE_RECTANGLE, MAX: dim(32, 8)})
	add("dm+max40", "Geometry-14 Geometry-14", hintMap{MAX: dim(40, 40)})
	add("dm+min0x20", "A", hintMap{MIN: dim(0, 20)})
}

func runHintedDM() {
	var jobs []job
	for _, n := range hintedDM {
		if s := hintedQR[n](); s != nil {
			jobs = append(jobs, squareJobs(s, defaultMargin, 3)...)
		}
	}
	runJobs("Data Matrix with MIN_SIZE / MAX_SIZE hints (maximum above, at and below typical requests; minimum; both; forced rectangle next to a maximum; one-directional minimum): every (width,height) in 0..3*natural+2 squared", jobs)
}
