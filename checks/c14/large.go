package main

// Large module sizes: the other families stop at 8 times the natural size, i.e. modules of at
// most 8 pixels. Here every module size 9..72 (thorough: ..130) pixels is rendered for small
// symbols of every writer, with several leftovers so that the padding - and with it the position
// of the module blocks relative to the 32-bit words of the image rows - varies.

import "fmt"

func runLargeScales() {
	maxScale := chk.Pick(72, 130)
	leftovers := []int{0, 1, 33}
	if !chk.Quick() {
		leftovers = []int{0, 1, 7, 33, 62}
	}
	var jobs []job
	add := func(s *symbol, margins []int, h1d []int) {
		if s == nil {
			return
		}
		for _, m := range margins {
			natW, natH := s.natural(m)
			for sc := 9; sc <= maxScale; sc++ {
				var reqs []pt
				for _, r := range leftovers {
					if s.oneD {
						for _, h := range h1d {
							reqs = append(reqs, pt{natW*sc + r, h})
						}
					} else {
						reqs = append(reqs, pt{natW*sc + r, natH*sc + r})
					}
				}
				jobs = append(jobs, job{s, m, reqs})
			}
		}
	}
	add(qrSymbol(1), []int{0, 4, defaultMargin}, nil)
	add(dmSymbol(10, 10), []int{defaultMargin}, nil)
	add(dmSymbol(8, 18), []int{defaultMargin}, nil)
	for _, sp := range onedSpecs {
		add(onedSymbol(sp, 0), []int{0, 9, defaultMargin}, []int{1, 2})
	}
	runJobs(fmt.Sprintf("large module sizes: QR version 1 (margin 0, 4, none), Data Matrix 10x10 and 8x18, 9 1-D writers (margin 0, 9, none; height 1, 2) x EVERY module size 9..%d x leftover pixels %v on both axes", maxScale, leftovers), jobs)
}
