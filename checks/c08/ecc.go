package main

import (
	"bytes"
	"fmt"
	"verif/ref/gf"

	"verif/mc"
	"verif/ref/dm"

	"github.com/makiuchi-d/gozxing/datamatrix/encoder"
)

// libECC runs ErrorCorrection_EncodeECC200 for size s under a panic guard.
// infoSource, when set, replaces the table lookup of libECC (set and cleared around ONE Range, which
// runs to completion before the next sub-space starts).
var infoSource func(dm.Symbol) (*encoder.SymbolInfo, error)

func libECC(l *mc.Local, s dm.Symbol, data []byte, cs rcase) ([]byte, bool) {
	si, err := libInfo(s)
	if infoSource != nil {
		si, err = infoSource(s)
	}
	if err != nil {
		chk.Violation(fmt.Sprintf("C08/symbolinfo/%v/lookup", s), fmt.Sprintf("SymbolInfo_Lookup pinned to %v: %v", s, err), rcase{Sub: "tables"})
		return nil, false
	}
	// the data vector is handed over as a window of a larger array (spare capacity behind it, as
	// when a codeword stream is cut into consecutive windows): the bytes behind the window belong
	// to the caller and must not be touched
	const guard = 0xA5
	backing := make([]byte, len(data)+s.ECCW+16)
	for i := range backing {
		backing[i] = guard
	}
	copy(backing, data)
	in := backing[:len(data)]
	var out []byte
	pm, site := mc.Guard(func() { out, err = encoder.ErrorCorrection_EncodeECC200(in, si) })
	l.Count("evaluations", 1)
	if pm != "" {
		chk.Violation(fmt.Sprintf("C08/ecc/%v/panic/%s", s, site), fmt.Sprintf("ErrorCorrection_EncodeECC200 panicked on %s: %s", cs.Vec, pm), cs)
		return nil, false
	}
	if err != nil {
		chk.Violation(fmt.Sprintf("C08/ecc/%v/error", s), fmt.Sprintf("ErrorCorrection_EncodeECC200 on %d codewords (%s): %v", len(data), cs.Vec, err), cs)
		return nil, false
	}
	for i := len(data); i < len(backing); i++ {
		if backing[i] != guard {
			chk.Violation(fmt.Sprintf("C08/ecc/%v/writes-behind-input", s), fmt.Sprintf("ErrorCorrection_EncodeECC200 wrote into the caller's array behind the data window (offset +%d) (%s)", i-len(data), cs.Vec), cs)
			return nil, false
		}
	}
	if !bytes.Equal(in, data) {
		chk.Violation(fmt.Sprintf("C08/ecc/%v/input-modified", s), "ErrorCorrection_EncodeECC200 modified its input slice ("+cs.Vec+")", cs)
		return nil, false
	}
	return out, true
}

// ---------------------------------------------------------------------------------------
// Generator polynomials, black-box: with a single 1 in the last data codeword of one block the
// parity of that block is x^n mod g(x), i.e. the coefficients of g below the leading one.

func runGenerators() {
	type job struct {
		s dm.Symbol
		b int
	}
	var jobs []job
	lengths := map[int]bool{}
	for _, s := range dm.Symbols {
		lengths[s.ECPerBlock()] = true
		for b := 0; b < s.Blocks; b++ {
			jobs = append(jobs, job{s, b})
		}
	}
	if len(lengths) != 16 {
		chk.Violation("C08/harness/parity-lengths", fmt.Sprintf("reference table has %d distinct parity lengths, expected 16", len(lengths)), nil)
	}
	chk.Range(fmt.Sprintf("generator polynomials black-box: unit vector in the last data codeword of every block of every size (%d blocks, all 16 parity lengths) against prod(x-2^i)", len(jobs)), len(jobs),
		func(i int) string { return fmt.Sprint(jobs[i].s, " block ", jobs[i].b) },
		func(l *mc.Local, i int) {
			s, b := jobs[i].s, jobs[i].b
			n := s.ECPerBlock()
			last := -1
			for k := b; k < s.DataCW; k += s.Blocks {
				last = k
			}
			data := make([]byte, s.DataCW)
			data[last] = 1
			cs := rcase{Sub: "factors", Rows: s.Rows, Cols: s.Cols, Vec: fmt.Sprintf("e_%d", last), Index: b, N: n}
			out, ok := libECC(l, s, data, cs)
			if !ok {
				return
			}
			key := fmt.Sprintf("C08/factors/n=%d", n)
			if len(out) != s.TotalCW() {
				markN(n)
				chk.Violation(key, fmt.Sprintf("%v: %d codewords returned, expected %d", s, len(out), s.TotalCW()), cs)
				return
			}
			// the parity of the only non-zero block occupies one residue class of the interleave
			ecc := out[s.DataCW:]
			class := -1
			for j, v := range ecc {
				if v != 0 {
					if class >= 0 && class != j%s.Blocks {
						class = -2
						break
					}
					class = j % s.Blocks
				}
			}
			g := dm.Generator(n)
			if class < 0 {
				markN(n)
				chk.Violation(key, fmt.Sprintf("%v block %d: unit vector e_%d gives parity in %s interleave class; expected the %d coefficients of g(x)", s, b, last, map[int]string{-1: "no", -2: "more than one"}[class], n), cs)
				return
			}
			for k := 0; k < n; k++ {
				if ecc[class+k*s.Blocks] != g[n-1-k] {
					markN(n)
					chk.Violation(key, fmt.Sprintf("%v block %d: parity of e_%d implies generator coefficient of x^%d = %d, prod_{i=1..%d}(x-2^i) has %d", s, b, last, n-1-k, ecc[class+k*s.Blocks], n, g[n-1-k]), cs)
					return
				}
			}
			l.Distinct("nontrivial", fmt.Sprint("gen", s, b))
			l.Distinct("outcomes", fmt.Sprint("gen", n))
		})
	chk.Sample("factors", rcase{Sub: "factors", Rows: 132, Cols: 132, Vec: "e_1303", Index: 7, N: 62})
}

// ---------------------------------------------------------------------------------------
// Parity and interleaving on the vector family

const eccChunk = 96

func runECC() {
	type job struct {
		s      dm.Symbol
		lo, hi int
	}
	var jobs []job
	total := 0
	for _, s := range dm.Symbols {
		n := famSize(s.DataCW)
		total += n
		for lo := 0; lo < n; lo += eccChunk {
			hi := lo + eccChunk
			if hi > n {
				hi = n
			}
			jobs = append(jobs, job{s, lo, hi})
		}
	}
	// biggest sizes first: better load balance
	for i, j := 0, len(jobs)-1; i < j; i, j = i+1, j-1 {
		jobs[i], jobs[j] = jobs[j], jobs[i]
	}
	chk.Range(fmt.Sprintf("ErrorCorrection_EncodeECC200 == reference parity+interleaving: 30 sizes x {zero, all-ones, 0x55, 0xAA, counting, quadratic, every single-bit data vector} = %d vectors", total), len(jobs),
		func(i int) string { return fmt.Sprintf("%v vectors %d..%d", jobs[i].s, jobs[i].lo, jobs[i].hi) },
		func(l *mc.Local, i int) {
			j := jobs[i]
			for idx := j.lo; idx < j.hi; idx++ {
				if !eccCase(l, j.s, idx) {
					return
				}
			}
		})
	chk.Sample("ecc", rcase{Sub: "ecc", Rows: 144, Cols: 144, Vec: "bit 0 of codeword 1557", Index: fixedVecs + 8*1557})
}

func eccCase(l *mc.Local, s dm.Symbol, idx int) bool {
	name, data := famVec(s.DataCW, idx)
	cs := rcase{Sub: "ecc", Rows: s.Rows, Cols: s.Cols, Vec: name, Index: idx}
	return eccCompare(l, s, name, data, cs, idx > 0)
}

// runECCValues (thorough tier): every codeword value 1..255 alone at one position, for every
// position of the single-block sizes and for the first and the last two interleave cycles of
// the multi-block sizes.
func runECCValues() {
	type job struct {
		s   dm.Symbol
		pos int
	}
	var jobs []job
	for _, s := range dm.Symbols {
		for p := 0; p < s.DataCW; p++ {
			if s.Blocks == 1 || p < s.Blocks || p >= s.DataCW-2*s.Blocks {
				jobs = append(jobs, job{s, p})
			}
		}
	}
	chk.Range(fmt.Sprintf("ErrorCorrection_EncodeECC200, single non-zero codeword with every value 1..255: every position of the 20 single-block sizes, first and last two interleave cycles of the 10 multi-block sizes (%d vectors)", 255*len(jobs)), len(jobs),
		func(i int) string { return fmt.Sprintf("%v position %d", jobs[i].s, jobs[i].pos) },
		func(l *mc.Local, i int) {
			for v := 1; v < 256; v++ {
				if !eccValueCase(l, jobs[i].s, jobs[i].pos, v) {
					return
				}
			}
		})
}

func eccValueCase(l *mc.Local, s dm.Symbol, pos, v int) bool {
	data := make([]byte, s.DataCW)
	data[pos] = byte(v)
	name := fmt.Sprintf("codeword %d = %d, rest 0", pos, v)
	return eccCompare(l, s, name, data, rcase{Sub: "eccv", Rows: s.Rows, Cols: s.Cols, Vec: name, Index: pos, N: v}, true)
}

func eccCompare(l *mc.Local, s dm.Symbol, name string, data []byte, cs rcase, nontrivial bool) bool {
	out, ok := libECC(l, s, data, cs)
	if !ok {
		return false
	}
	want := dm.CodewordsSkewed144(data, s)
	if nontrivial {
		l.Distinct("nontrivial", fmt.Sprint("ecc", s, name))
	}
	if bytes.Equal(out, want) {
		l.Distinct("outcomes", string(out[s.DataCW:]))
		return true
	}
	key := fmt.Sprintf("C08/ecc/%v", s)
	n := s.ECPerBlock()
	if isBadN(n) {
		key = fmt.Sprintf("C08/factors/n=%d", n)
	}
	what := ""
	switch {
	case len(out) != len(want):
		what = fmt.Sprintf("%v, %s: %d codewords returned, expected %d", s, name, len(out), len(want))
	case !bytes.Equal(out[:s.DataCW], data):
		what = fmt.Sprintf("%v, %s: the data part of the result differs from the input", s, name)
	default:
		p := 0
		for out[p] == want[p] {
			p++
		}
		what = fmt.Sprintf("%v (%d blocks x %d parity), data vector %s: error codeword %d is %d, reference %d", s, s.Blocks, n, name, p-s.DataCW, out[p], want[p])
		if s.Blocks > 1 && bytes.Equal(out, dm.Codewords(data, s)) && s.Rows == 144 {
			what += " (the result equals the un-rotated interleaving: parity of block b at offset b instead of (b+2) mod 10)"
		}
	}
	markSize(s.String(), key)
	chk.Violation(key, what, cs)
	return true
}

// eccSpecialCase: data vectors whose Reed-Solomon parity is special. kind 0: ALL-ZERO parity in
// every interleaved block (each block's data is a multiple of the generator polynomial: its last
// ec codewords are the remainder of the ones before them); kind 1: in block 0 only; kind 2: the
// first parity codeword of every block is zero (found by trying the 256 values of the block's
// last data codeword). No text and no fixed pattern produces such parity.
func eccSpecialCase(l *mc.Local, s dm.Symbol, kind int) bool {
	data := make([]byte, s.DataCW)
	for i := range data {
		data[i] = byte(i*i*29 + i*11 + 3 + kind)
	}
	ec := s.ECPerBlock()
	constructible := false
	for b := 0; b < s.Blocks; b++ {
		var idx []int
		for i := b; i < s.DataCW; i += s.Blocks {
			idx = append(idx, i)
		}
		blk := make([]byte, len(idx))
		for k, i := range idx {
			blk[k] = data[i]
		}
		switch {
		case kind == 2:
			for v := 0; v < 256; v++ {
				blk[len(blk)-1] = byte(v)
				if dm.RSParity(blk, ec)[0] == 0 {
					constructible = true
					break
				}
			}
		case (kind == 0 || b == 0) && len(blk) > ec:
			copy(blk[len(blk)-ec:], dm.RSParity(blk[:len(blk)-ec], ec))
			constructible = true
		}
		for k, i := range idx {
			data[i] = blk[k]
		}
	}
	if !constructible {
		l.Count("special_parity_not_constructible", 1)
		return true
	}
	name := []string{"zero parity in every block", "zero parity in block 0", "first parity codeword of every block zero"}[kind]
	return eccCompare(l, s, name, data, rcase{Sub: "eccz", Rows: s.Rows, Cols: s.Cols, Vec: name, Index: kind}, true)
}

func runECCSpecial() {
	chk.Range("ErrorCorrection_EncodeECC200 on algebraically special vectors: 30 sizes x {ALL-ZERO parity in every block, in block 0 only, first parity codeword of every block zero}", len(dm.Symbols),
		func(i int) string { return fmt.Sprint(dm.Symbols[i]) },
		func(l *mc.Local, i int) {
			for kind := 0; kind < 3; kind++ {
				if !eccSpecialCase(l, dm.Symbols[i], kind) {
					return
				}
			}
		})
}

var dmField = gf.Field{Poly: 0x12D, Size: 256}

// eccRegisterCase: data whose division register, after a short prefix in every interleaved block,
// is all zero (kind 0), has only its first cell non-zero (1), only its last cell non-zero (2) or is
// constant (3), followed by z zero codewords and a counting tail. The last ec codewords of the
// prefix are solved for the wanted state in the reference field.
func eccRegisterCase(l *mc.Local, s dm.Symbol, kind, z int) bool {
	data := make([]byte, s.DataCW)
	ec := s.ECPerBlock()
	constructible := false
	for b := 0; b < s.Blocks; b++ {
		var idx []int
		for i := b; i < s.DataCW; i += s.Blocks {
			idx = append(idx, i)
		}
		a := 1 + b%2
		if len(idx) < a+ec+z+1 {
			for k, i := range idx {
				data[i] = byte(k*7 + b + 1)
			}
			continue
		}
		constructible = true
		prefix := make([]int, a)
		for q := range prefix {
			prefix[q] = 66 + 3*q + b
		}
		target := make([]int, ec)
		switch kind {
		case 1:
			target[0] = 77
		case 2:
			target[ec-1] = 33
		case 3:
			for q := range target {
				target[q] = 5
			}
		}
		u := dmField.TailForParity(prefix, ec, 1, target)
		blk := append(append([]int{}, prefix...), u...)
		chkp := make([]byte, len(blk))
		for q, v := range blk {
			chkp[q] = byte(v)
		}
		if got := dm.RSParity(chkp, ec); !sameInts(got, target) {
			panic("harness: the constructed prefix does not put the register into the wanted state")
		}
		for q := 0; q < z; q++ {
			blk = append(blk, 0)
		}
		for len(blk) < len(idx) {
			blk = append(blk, (115+len(blk))%256)
		}
		for k, i := range idx {
			data[i] = byte(blk[k])
		}
	}
	if !constructible {
		l.Count("register_state_not_constructible", 1)
		return true
	}
	name := fmt.Sprintf("register state %s after the prefix of every block, then %d zero codewords", []string{"all zero", "first cell only", "last cell only", "constant"}[kind], z)
	return eccCompare(l, s, name, data, rcase{Sub: "eccr", Rows: s.Rows, Cols: s.Cols, Vec: name, Index: kind, N: z}, true)
}

func sameInts(b []byte, v []int) bool {
	if len(b) != len(v) {
		return false
	}
	for i := range b {
		if int(b[i]) != v[i] {
			return false
		}
	}
	return true
}

func runECCRegister() {
	chk.Range("ErrorCorrection_EncodeECC200 on data that drives the division register into special states: 30 sizes x state after a short prefix of every block {all zero, only the first cell non-zero, only the last cell non-zero, constant} x {0,1,2,ec} zero codewords after it", len(dm.Symbols),
		func(i int) string { return fmt.Sprint(dm.Symbols[i]) },
		func(l *mc.Local, i int) {
			s := dm.Symbols[i]
			for kind := 0; kind < 4; kind++ {
				for _, z := range []int{0, 1, 2, s.ECPerBlock()} {
					if !eccRegisterCase(l, s, kind, z) {
						return
					}
				}
			}
		})
}

// runECCHistories: call sequences. ErrorCorrection_EncodeECC200 is a pure function of its
// arguments; whatever happened before - another size, or a REFUSED request (a SymbolInfo whose
// error-codeword count has no generator polynomial, as the library's own unit test passes) - must
// not change its answer. For every ordered pair of sizes: [first] [refused request] [second], and
// [first] [second], each result compared with the reference.
func runECCHistories() {
	type job struct{ a, b int }
	var jobs []job
	for a := range dm.Symbols {
		for b := range dm.Symbols {
			jobs = append(jobs, job{a, b})
		}
	}
	mk := func(s dm.Symbol, salt int) []byte {
		d := make([]byte, s.DataCW)
		for i := range d {
			d[i] = byte(i*i*7 + i*3 + salt)
		}
		return d
	}
	refuse := func() string {
		var err error
		pm, _ := mc.Guard(func() {
			_, err = encoder.ErrorCorrection_EncodeECC200([]byte{1}, encoder.NewSymbolInfo(false, 1, 1, 10, 10, 1))
		})
		if pm != "" {
			return "panic " + pm
		}
		if err == nil {
			return "no error"
		}
		return ""
	}
	chk.Range("ErrorCorrection_EncodeECC200 call histories: all 30x30 ordered pairs of sizes, [first][second] and [first][a refused request: 1 error codeword][second]: every result equals the reference", len(jobs),
		func(i int) string { return fmt.Sprint(dm.Symbols[jobs[i].a], " then ", dm.Symbols[jobs[i].b]) },
		func(l *mc.Local, i int) {
			a, b := dm.Symbols[jobs[i].a], dm.Symbols[jobs[i].b]
			for _, withRefusal := range []bool{false, true} {
				name := fmt.Sprintf("history [%v]%s[%v]", a, map[bool]string{false: "", true: "[refused request]"}[withRefusal], b)
				if !eccCompare(l, a, name+" first call", mk(a, 1), rcase{Sub: "ecch", Rows: a.Rows, Cols: a.Cols, Vec: name, Index: jobs[i].a, N: jobs[i].b}, false) {
					return
				}
				if withRefusal {
					if r := refuse(); r != "" {
						chk.Violation("C08/ecc/refusal", "ErrorCorrection_EncodeECC200 with a SymbolInfo of 1 error codeword: "+r, rcase{Sub: "ecch", Vec: name})
						return
					}
				}
				if !eccCompare(l, b, name+" last call", mk(b, 2), rcase{Sub: "ecch", Rows: b.Rows, Cols: b.Cols, Vec: name, Index: jobs[i].a, N: jobs[i].b}, true) {
					return
				}
			}
		})
}

// runECCLongHistories: counters and generation numbers wrap. Between two ordinary requests the
// function is called N times with the smallest symbol and degenerate data (all zero / all 0xFF:
// calls that refresh as little internal state as possible), for N on both sides of 2^8 and 2^16;
// the last result must equal the reference.
func runECCLongHistories() {
	pick := []int{0, 9, 20, 24, 29} // 10x10, 26x26 ... 144x144 and a rectangle: indices into dm.Symbols
	ns := []int{255, 256, 257, 65535, 65536, 65537}
	type job struct{ a, b, n, fill int }
	var jobs []job
	for _, a := range pick {
		for _, b := range pick {
			for _, n := range ns {
				for fill := 0; fill < 2; fill++ {
					if chk.Quick() && (a+b+n+fill)%2 == 1 {
						continue
					}
					jobs = append(jobs, job{a, b, n, fill})
				}
			}
		}
	}
	mk := func(s dm.Symbol, salt int) []byte {
		d := make([]byte, s.DataCW)
		for i := range d {
			d[i] = byte(i*i*5 + i*9 + salt)
		}
		return d
	}
	small := dm.Symbols[0]
	// ONE worker runs all histories one after the other: whatever the function counts is
	// package-level, and calls made by other workers in between would change the distance between
	// the two requests
	chk.Range(fmt.Sprintf("ErrorCorrection_EncodeECC200 LONG call histories (sequential, one worker): [first size][N calls with the smallest symbol and all-zero / all-0xFF data][second size], N in %v (counters and generation numbers wrap at 2^8 and 2^16), 5x5 size pairs (quick: half; %d histories): the last result equals the reference; and for all 30 sizes the same request twice with the first result overwritten by the caller in between", ns, len(jobs)), 1,
		func(i int) string { return "all long histories" },
		func(l *mc.Local, _ int) {
			// the SAME request twice in a row, the caller having scribbled over the first result in
			// between (damage simulation on one's own copy): the second result is the reference again
			for si, s := range dm.Symbols {
				data := mk(s, 5)
				name := fmt.Sprintf("[%v][the caller overwrites the returned codewords][%v with the same data]", s, s)
				cs := rcase{Sub: "eccl", Rows: s.Rows, Cols: s.Cols, Vec: name, Index: si, N: si}
				first, ok := libECC(l, s, data, cs)
				if !ok {
					return
				}
				for k := range first {
					first[k] ^= byte(0x5a + k)
				}
				if !eccCompare(l, s, name, data, cs, true) {
					return
				}
			}
			for _, j := range jobs {
				a, b := dm.Symbols[j.a%len(dm.Symbols)], dm.Symbols[j.b%len(dm.Symbols)]
				name := fmt.Sprintf("long history [%v][%d x smallest symbol, data all %#02x][%v]", a, j.n, j.fill*255, b)
				cs := rcase{Sub: "eccl", Rows: b.Rows, Cols: b.Cols, Vec: name, Index: j.a, N: j.b}
				if !eccCompare(l, a, name+" first call", mk(a, 3), cs, false) {
					return
				}
				si, err := libInfo(small)
				if err != nil {
					return
				}
				filler := make([]byte, small.DataCW)
				for k := range filler {
					filler[k] = byte(j.fill * 255)
				}
				pm, site := mc.Guard(func() {
					for k := 0; k < j.n; k++ {
						if k%4096 == 0 {
							l.Beat("")
						}
						encoder.ErrorCorrection_EncodeECC200(filler, si)
					}
				})
				if pm != "" {
					chk.Violation("C08/panic/"+site, name+": panic "+pm, cs)
					return
				}
				if !eccCompare(l, b, name+" last call", mk(b, 4), cs, true) {
					return
				}
			}
		})
}

// runECCConstructedInfo: the SymbolInfo handed to ErrorCorrection_EncodeECC200 need not be the table's
// own object: the constructors are exported (NewSymbolInfo, NewSymbolInfoRS,
// NewDataMatrixSymbolInfo144) and a copy of a table entry is a value like any other. For all 30
// sizes the result with a caller-constructed SymbolInfo of the same attributes, and with a struct
// copy of the table entry, equals the reference.
func runECCConstructedInfo() {
	type src struct {
		name string
		mk   func(dm.Symbol) (*encoder.SymbolInfo, error)
	}
	srcs := []src{
		{"constructed", func(s dm.Symbol) (*encoder.SymbolInfo, error) {
			if s.Rows == 144 {
				return encoder.NewDataMatrixSymbolInfo144(), nil
			}
			return encoder.NewSymbolInfoRS(s.Rect, s.DataCW, s.ECCW, s.RegionCols, s.RegionRows, s.HRegions*s.VRegions, s.DataCW/s.Blocks, s.ECCW/s.Blocks), nil
		}},
		{"copied", func(s dm.Symbol) (*encoder.SymbolInfo, error) {
			si, err := libInfo(s)
			if err != nil {
				return nil, err
			}
			c := *si
			return &c, nil
		}},
	}
	for _, sc := range srcs {
		infoSource = sc.mk
		chk.Range("ErrorCorrection_EncodeECC200 with a "+sc.name+" SymbolInfo (not the table's own object): all 30 sizes x {counting, quadratic, 0x55, all-ones} vectors == reference", len(dm.Symbols),
			func(i int) string { return fmt.Sprint(dm.Symbols[i]) },
			func(l *mc.Local, i int) {
				s := dm.Symbols[i]
				for idx := 1; idx < fixedVecs; idx++ {
					name, data := famVec(s.DataCW, idx)
					if !eccCompare(l, s, name+" ("+sc.name+" SymbolInfo)", data, rcase{Sub: "ecci", Rows: s.Rows, Cols: s.Cols, Vec: name + " (" + sc.name + " SymbolInfo)", Index: idx}, true) {
						return
					}
				}
			})
		infoSource = nil
	}
}
