package main

// Near-twin blocks. In the multi-block sizes the blocks are encoded one after the other by the same
// routine; data whose blocks are EQUAL, or equal except for a difference that common digests do not
// see, is where a shortcut that recognises "the same block again" by anything less than the
// contents goes wrong. For every multi-block size and every pair of blocks (b, c) the data of
// block c is the data of block b (a fixed non-trivial pattern) changed by one of these differences,
// placed at the start, the middle and the end of the block:
//   identical                no difference (equal blocks have equal parity)
//   crc32-ieee / crc32-cast  a multiple of the CRC-32 polynomial (reflected and normal bit order,
//                            IEEE and Castagnoli): found by solving, verified with hash/crc32
//   sum+adler                +1 -2 +1 on three neighbouring codewords (byte sum and Adler-32 keep
//                            their value)
//   xor                      the same value xor-ed into two codewords
//   swap                     two neighbouring codewords exchanged (any order-blind digest)
//   middle-only              equal first and last four codewords, different in between
// Every result is compared with the reference parity and interleaving.

import (
	"fmt"
	"hash/adler32"
	"hash/crc32"

	"verif/mc"
	dm "verif/ref/dm"
)

type twinDiff struct {
	name string
	// apply changes blk in place around position p (0 <= p, p+5 <= len) and reports whether it did
	apply func(blk []byte, p int) bool
}

// crcCollide finds a 5-byte xor pattern d (d[0] != 0) at position p that leaves crc(tab) of the
// block unchanged: CRC is affine, so the 40 single-bit patterns are combined by elimination.
func crcCollide(tab *crc32.Table, n, p int) []byte {
	zero := make([]byte, n)
	base := crc32.Checksum(zero, tab)
	type row struct {
		v    uint32
		bits uint64
	}
	var rows []row
	for i := 0; i < 40; i++ {
		b := make([]byte, n)
		b[p+i/8] = 1 << uint(i%8)
		rows = append(rows, row{crc32.Checksum(b, tab) ^ base, 1 << uint(i)})
	}
	// Gaussian elimination over GF(2): 40 vectors in a 32-dimensional space have a dependency
	var basis [32]*row
	for i := range rows {
		r := rows[i]
		for bit := 31; bit >= 0 && r.v != 0; bit-- {
			if r.v>>uint(bit)&1 == 0 {
				continue
			}
			if basis[bit] == nil {
				rr := r
				basis[bit] = &rr
				r.v = 0
				r.bits = 0
				break
			}
			r.v ^= basis[bit].v
			r.bits ^= basis[bit].bits
		}
		if r.v == 0 && r.bits != 0 {
			d := make([]byte, 5)
			for k := 0; k < 40; k++ {
				if r.bits>>uint(k)&1 == 1 {
					d[k/8] |= 1 << uint(k%8)
				}
			}
			return d
		}
	}
	return nil
}

func twinDiffs(n int) []twinDiff {
	crc := func(name string, tab *crc32.Table) twinDiff {
		return twinDiff{name, func(blk []byte, p int) bool {
			d := crcCollide(tab, len(blk), p)
			if d == nil {
				return false
			}
			before := crc32.Checksum(blk, tab)
			for i := range d {
				blk[p+i] ^= d[i]
			}
			if crc32.Checksum(blk, tab) != before {
				panic("harness: CRC collision construction is wrong")
			}
			return true
		}}
	}
	return []twinDiff{
		{"identical", func(blk []byte, p int) bool { return true }},
		crc("crc32-ieee", crc32.IEEETable),
		crc("crc32-castagnoli", crc32.MakeTable(crc32.Castagnoli)),
		crc("crc32-koopman", crc32.MakeTable(crc32.Koopman)),
		{"sum+adler", func(blk []byte, p int) bool {
			if blk[p] == 255 || blk[p+1] < 2 || blk[p+2] == 255 {
				return false
			}
			a, s := adler32.Checksum(blk), 0
			for _, v := range blk {
				s += int(v)
			}
			blk[p]++
			blk[p+1] -= 2
			blk[p+2]++
			s2 := 0
			for _, v := range blk {
				s2 += int(v)
			}
			if adler32.Checksum(blk) != a || s != s2 {
				panic("harness: Adler collision construction is wrong")
			}
			return true
		}},
		{"xor", func(blk []byte, p int) bool { blk[p] ^= 0x5a; blk[p+3] ^= 0x5a; return true }},
		{"swap", func(blk []byte, p int) bool {
			if blk[p] == blk[p+1] {
				return false
			}
			blk[p], blk[p+1] = blk[p+1], blk[p]
			return true
		}},
		{"middle-only", func(blk []byte, p int) bool {
			if len(blk) < 10 {
				return false
			}
			for i := 4; i < len(blk)-4; i++ {
				blk[i] ^= byte(i*7 + 1)
			}
			return true
		}},
	}
}

// twinCase: blocks b and c of symbol s are near twins under difference kind at placement pl.
func twinCase(l *mc.Local, s dm.Symbol, b, c, kind, pl int) bool {
	data := make([]byte, s.DataCW)
	for i := range data {
		data[i] = byte(i*i*13 + i*5 + 17)
	}
	idx := func(blk int) []int {
		var ix []int
		for i := blk; i < s.DataCW; i += s.Blocks {
			ix = append(ix, i)
		}
		return ix
	}
	ib, ic := idx(b), idx(c)
	n := len(ib)
	if len(ic) < n {
		n = len(ic) // 144x144: blocks of 156 and 155 codewords
	}
	twin := make([]byte, len(ic))
	for k := range twin {
		if k < len(ib) {
			twin[k] = data[ib[k]]
		} else {
			twin[k] = data[ic[k]]
		}
	}
	p := []int{0, n/2 - 2, n - 5}[pl]
	d := twinDiffs(n)[kind]
	if p < 0 || p+5 > n || !d.apply(twin[:n], p) {
		l.Count("near_twin_not_constructible", 1)
		return true
	}
	for k, i := range ic {
		data[i] = twin[k]
	}
	name := fmt.Sprintf("blocks %d and %d near twins: %s at %s", b, c, d.name, []string{"the start", "the middle", "the end"}[pl])
	return eccCompare(l, s, name, data, rcase{Sub: "ecct", Rows: s.Rows, Cols: s.Cols, Vec: name, Index: kind*3 + pl, N: b*16 + c}, true)
}

func runECCTwins() {
	type job struct{ s, b, c int }
	var jobs []job
	for si, s := range dm.Symbols {
		if s.Blocks < 2 {
			continue
		}
		for b := 0; b < s.Blocks; b++ {
			for c := 0; c < s.Blocks; c++ {
				if b != c && (!chk.Quick() || c == b+1 || (b == s.Blocks-1 && c == 0) || (c == b-1)) {
					jobs = append(jobs, job{si, b, c})
				}
			}
		}
	}
	chk.Range(fmt.Sprintf("ErrorCorrection_EncodeECC200 on near-twin blocks: the 10 multi-block sizes x block pairs (quick: neighbours in both orders and last/first; thorough: every ordered pair) x 8 differences (identical, CRC-32 IEEE/Castagnoli/Koopman collisions, byte-sum+Adler-32 collision, xor-sum collision, neighbour swap, equal ends) x 3 placements [%d pairs]", len(jobs)), len(jobs),
		func(i int) string { j := jobs[i]; return fmt.Sprint(dm.Symbols[j.s], " blocks ", j.b, j.c) },
		func(l *mc.Local, i int) {
			j := jobs[i]
			for kind := range twinDiffs(10) {
				for pl := 0; pl < 3; pl++ {
					if !twinCase(l, dm.Symbols[j.s], j.b, j.c, kind, pl) {
						return
					}
				}
			}
		})
}
