package main

// Near-twin blocks. In the multi-block sizes the blocks are encoded one after the other by the same
// routine; data whose blocks are EQUAL, or equal except for a difference that common digests do not
// see, is where a shortcut that recognises "the same block again" by anything less than the
// contents goes wrong. For every multi-block size and every pair of blocks (b, c) the data of
// block c is the data of block b (a fixed non-trivial pattern) changed by one of these differences,
// placed at the start, the middle and the end of the block:
//   identical                no difference (equal blocks have equal parity)
//   crc32-ieee / crc32-cast  a multiple of the CRC-32 polynomial (reflected and normal bit order,
//                            IEEE and Castagnoli): found by solving, verified with hash/crc32
//   sum+adler                +1 -2 +1 on three neighbouring codewords (byte sum and Adler-32 keep
//                            their value)
//   xor                      the same value xor-ed into two codewords
//   swap                     two neighbouring codewords exchanged (any order-blind digest)
//   middle-only              equal first and last four codewords, different in between
// Every result is compared with the reference parity and interleaving.

import (
	"fmt"

	"verif/mc"
	dm "verif/ref/dm"
	"verif/ref/twin"
)

// twinCase: blocks b and c of symbol s are near twins under difference kind at placement pl.
func twinCase(l *mc.Local, s dm.Symbol, b, c, kind, pl int) bool {
	data := make([]byte, s.DataCW)
	for i := range data {
		data[i] = byte(i*i*13 + i*5 + 17)
	}
	idx := func(blk int) []int {
		var ix []int
		for i := blk; i < s.DataCW; i += s.Blocks {
			ix = append(ix, i)
		}
		return ix
	}
	ib, ic := idx(b), idx(c)
	n := len(ib)
	if len(ic) < n {
		n = len(ic) // 144x144: blocks of 156 and 155 codewords
	}
	tw := make([]byte, len(ic))
	for k := range tw {
		if k < len(ib) {
			tw[k] = data[ib[k]]
		} else {
			tw[k] = data[ic[k]]
		}
	}
	p := []int{0, n/2 - 2, n - 5}[pl]
	d := twin.Diffs()[kind]
	if p < 0 || p+5 > n || !d.Apply(tw[:n], p) {
		l.Count("near_twin_not_constructible", 1)
		return true
	}
	for k, i := range ic {
		data[i] = tw[k]
	}
	name := fmt.Sprintf("blocks %d and %d near twins: %s at %s", b, c, d.Name, []string{"the start", "the middle", "the end"}[pl])
	return eccCompare(l, s, name, data, rcase{Sub: "ecct", Rows: s.Rows, Cols: s.Cols, Vec: name, Index: kind*3 + pl, N: b*16 + c}, true)
}

func runECCTwins() {
	type job struct{ s, b, c int }
	var jobs []job
	for si, s := range dm.Symbols {
		if s.Blocks < 2 {
			continue
		}
		for b := 0; b < s.Blocks; b++ {
			for c := 0; c < s.Blocks; c++ {
				if b != c && (!chk.Quick() || c == b+1 || (b == s.Blocks-1 && c == 0) || (c == b-1)) {
					jobs = append(jobs, job{si, b, c})
				}
			}
		}
	}
	chk.Range(fmt.Sprintf("ErrorCorrection_EncodeECC200 on near-twin blocks: the 10 multi-block sizes x block pairs (quick: neighbours in both orders and last/first; thorough: every ordered pair) x 8 differences (identical, CRC-32 IEEE/Castagnoli/Koopman collisions, byte-sum+Adler-32 collision, xor-sum collision, neighbour swap, equal ends) x 3 placements [%d pairs]", len(jobs)), len(jobs),
		func(i int) string { j := jobs[i]; return fmt.Sprint(dm.Symbols[j.s], " blocks ", j.b, j.c) },
		func(l *mc.Local, i int) {
			j := jobs[i]
			for kind := range twin.Diffs() {
				for pl := 0; pl < 3; pl++ {
					if !twinCase(l, dm.Symbols[j.s], j.b, j.c, kind, pl) {
						return
					}
				}
			}
		})
}
