package main

import (
	"fmt"

	"verif/mc"
	"verif/ref/dm"

	"github.com/makiuchi-d/gozxing/datamatrix/encoder"
)

// placeRef is the reference placement of one mapping matrix, flattened for fast comparison.
type placeRef struct {
	R, C  int
	cw    [][8][2]int
	fixed [][2]int
	owner []int    // module -> codeword index, -1 = fixed pattern / none
	class []string // codeword index -> "utah" | "corner1".."corner4"
}

// The four corner shapes of Annex F (figures F.3-F.6), most significant bit first, written
// here from the standard to name the failing class (they are not used as the oracle).
func cornerShapes(R, C int) [4][8][2]int {
	return [4][8][2]int{
		{{R - 1, 0}, {R - 1, 1}, {R - 1, 2}, {0, C - 2}, {0, C - 1}, {1, C - 1}, {2, C - 1}, {3, C - 1}},
		{{R - 3, 0}, {R - 2, 0}, {R - 1, 0}, {0, C - 4}, {0, C - 3}, {0, C - 2}, {0, C - 1}, {1, C - 1}},
		{{R - 3, 0}, {R - 2, 0}, {R - 1, 0}, {0, C - 2}, {0, C - 1}, {1, C - 1}, {2, C - 1}, {3, C - 1}},
		{{R - 1, 0}, {R - 1, C - 1}, {0, C - 3}, {0, C - 2}, {0, C - 1}, {1, C - 3}, {1, C - 2}, {1, C - 1}},
	}
}

func newPlaceRef(R, C int) *placeRef {
	p := &placeRef{R: R, C: C}
	p.cw, p.fixed = dm.PlacementMap(R, C)
	p.owner = make([]int, R*C)
	for i := range p.owner {
		p.owner[i] = -1
	}
	corners := cornerShapes(R, C)
	p.class = make([]string, len(p.cw))
	for i, shape := range p.cw {
		p.class[i] = "utah"
		for k, c := range corners {
			if shape == c {
				p.class[i] = fmt.Sprintf("corner%d", k+1)
			}
		}
		for _, m := range shape {
			if p.owner[m[0]*C+m[1]] != -1 {
				panic("reference placement assigns a module twice")
			}
			p.owner[m[0]*C+m[1]] = i
		}
	}
	free := 0
	for _, o := range p.owner {
		if o < 0 {
			free++
		}
	}
	if len(p.cw) != R*C/8 || (free != 0 && free != 4) || (free == 4) != (len(p.fixed) == 2) {
		panic(fmt.Sprintf("reference placement %dx%d is not a partition: %d codewords, %d free modules, %d fixed", R, C, len(p.cw), free, len(p.fixed)))
	}
	return p
}

const placeChunk = 256

func runPlacement() {
	type job struct {
		ref    *placeRef
		lo, hi int
	}
	var jobs []job
	total := 0
	classes := map[string]int{}
	seen := map[[2]int]bool{}
	for _, s := range dm.Symbols {
		R, C := s.MappingRows(), s.MappingCols()
		if seen[[2]int{R, C}] {
			continue
		}
		seen[[2]int{R, C}] = true
		ref := newPlaceRef(R, C)
		for _, c := range ref.class {
			if c != "utah" {
				classes[c]++
			}
		}
		if len(ref.fixed) > 0 {
			classes["fixed-pattern"]++
		}
		n := famSize(R * C / 8)
		total += n
		for lo := 0; lo < n; lo += placeChunk {
			hi := lo + placeChunk
			if hi > n {
				hi = n
			}
			jobs = append(jobs, job{ref, lo, hi})
		}
	}
	for i, j := 0, len(jobs)-1; i < j; i, j = i+1, j-1 {
		jobs[i], jobs[j] = jobs[j], jobs[i]
	}
	chk.Range(fmt.Sprintf("DefaultPlacement.Place/GetBit == Annex F reference: %d mapping matrices x {zero, all-ones, 0x55, 0xAA, counting, quadratic, every single-bit codeword vector} = %d vectors, every module compared", len(seen), total), len(jobs),
		func(i int) string {
			return fmt.Sprintf("mapping %dx%d vectors %d..%d", jobs[i].ref.R, jobs[i].ref.C, jobs[i].lo, jobs[i].hi)
		},
		func(l *mc.Local, i int) {
			j := jobs[i]
			for idx := j.lo; idx < j.hi; idx++ {
				if !placementCase(l, j.ref.R, j.ref.C, idx, j.ref) {
					return
				}
			}
		})
	chk.Subspace("placement: corner shapes present in the 30 mapping matrices (sizes per class)", classes)
	chk.Sample("placement", rcase{Sub: "placement", Rows: 132, Cols: 132, Vec: "all-ones", Index: 1})
}

func placementCase(l *mc.Local, R, C, idx int, ref *placeRef) bool {
	n := R * C / 8
	name, all := famVec(n, idx)
	cs := rcase{Sub: "placement", Rows: R, Cols: C, Vec: name, Index: idx}
	var p *encoder.DefaultPlacement
	pm, site := mc.Guard(func() {
		p = encoder.NewDefaultPlacement(all, C, R)
		p.Place()
	})
	l.Count("evaluations", 1)
	if pm != "" {
		chk.Violation(fmt.Sprintf("C08/placement/%dx%d/panic/%s", R, C, site), fmt.Sprintf("Place() panicked on %s: %s", name, pm), cs)
		return false
	}
	want := make([]bool, R*C)
	for i, shape := range ref.cw {
		v := all[i]
		if v == 0 {
			continue
		}
		for k, m := range shape {
			if v&(0x80>>uint(k)) != 0 {
				want[m[0]*C+m[1]] = true
			}
		}
	}
	for _, m := range ref.fixed {
		want[m[0]*C+m[1]] = true
	}
	if idx > 0 {
		l.Distinct("nontrivial", fmt.Sprint("place", R, C, idx))
	}
	// first differing module in codeword order names the class
	bad, badR, badC := -2, 0, 0
	var got bool
	pm, site = mc.Guard(func() {
		for r := 0; r < R; r++ {
			for c := 0; c < C; c++ {
				g := p.GetBit(c, r)
				if g != want[r*C+c] {
					o := ref.owner[r*C+c]
					if bad == -2 || (o >= 0 && (bad < 0 || o < bad)) {
						bad, badR, badC, got = o, r, c, g
					}
				}
			}
		}
	})
	if pm != "" {
		chk.Violation(fmt.Sprintf("C08/placement/%dx%d/panic/%s", R, C, site), fmt.Sprintf("GetBit panicked after placing %s: %s", name, pm), cs)
		return false
	}
	if bad == -2 {
		return true
	}
	class := "fixed-pattern"
	if bad >= 0 {
		class = ref.class[bad]
	}
	key := fmt.Sprintf("C08/placement/%dx%d/%s", R, C, class)
	for _, s := range dm.Symbols {
		if s.MappingRows() == R && s.MappingCols() == C {
			markSize(s.String(), key)
		}
	}
	owner := "the fixed corner pattern"
	if bad >= 0 {
		owner = fmt.Sprintf("codeword %d (%s shape in Annex F)", bad, class)
	}
	chk.Violation(key, fmt.Sprintf("mapping matrix %d rows x %d cols, codewords = %s: module (row %d, col %d) is %v, reference %v; the module belongs to %s", R, C, name, badR, badC, got, !got, owner), cs)
	return true
}

// foreignPlacements: the FIRST library calls of the process. DefaultPlacement is a public type and
// is also used for mapping matrices that are not among the 30 ECC 200 ones (the rectangular
// extension sizes, transposed or experimental shapes). For every ECC 200 mapping matrix R x C, every
// other even-sided matrix R' x C' with the same number of modules is placed once here, before any
// ECC 200 placement of the process; nothing of these calls is judged (they are outside the
// property) - what is judged is every ECC 200 placement that follows them in the same process.
func foreignPlacements() {
	done := map[[2]int]bool{}
	n := 0
	for _, s := range dm.Symbols {
		R, C := s.MappingRows(), s.MappingCols()
		area := R * C
		for r := 6; r <= area/6; r += 2 {
			if area%r != 0 || (area/r)%2 != 0 || (r == R && area/r == C) || done[[2]int{r, area / r}] {
				continue
			}
			if _, std := symByMapping(r, area/r); std {
				continue
			}
			done[[2]int{r, area / r}] = true
			cw := make([]byte, area/8)
			for i := range cw {
				cw[i] = byte(i*37 + 11)
			}
			mc.Guard(func() { encoder.NewDefaultPlacement(cw, area/r, r).Place() })
			n++
		}
	}
	chk.Note(fmt.Sprintf("process prologue: %d placements of non-ECC 200 mapping matrices with the module count of an ECC 200 one (every even-sided factorisation) were made before the first judged call; not judged themselves", n))
}

func symByMapping(r, c int) (dm.Symbol, bool) {
	for _, s := range dm.Symbols {
		if s.MappingRows() == r && s.MappingCols() == c {
			return s, true
		}
	}
	return dm.Symbol{}, false
}
