//go:build verif && !blackbox

package main

import (
	"fmt"

	"verif/ref/dm"

	"github.com/makiuchi-d/gozxing/datamatrix/decoder"
	"github.com/makiuchi-d/gozxing/datamatrix/encoder"
)

// runWhiteBox compares the stored tables themselves: the encoder's generator coefficient rows
// with prod(x-2^i), and the decoder's versions field by field with Table 7 and with the
// encoder's SymbolInfo.
func runWhiteBox() {
	// generator polynomial rows
	sets, rows := encoder.VerifFactors()
	need := map[int]bool{}
	for _, s := range dm.Symbols {
		need[s.ECPerBlock()] = true
	}
	for i, n := range sets {
		cs := rcase{Sub: "tables", N: n}
		chk.Count("evaluations", 1)
		key := fmt.Sprintf("C08/factors/n=%d", n)
		if i >= len(rows) {
			chk.Violation(key, fmt.Sprintf("factorSets lists %d but there is no factors row %d", n, i), cs)
			continue
		}
		g := dm.Generator(n)
		if len(rows[i]) != n {
			markN(n)
			chk.Violation(key, fmt.Sprintf("stored factors row for %d parity codewords has %d entries", n, len(rows[i])), cs)
			continue
		}
		for k := 0; k < n; k++ {
			if rows[i][k] != int(g[k]) {
				markN(n)
				chk.Violation(key, fmt.Sprintf("stored factors row for %d parity codewords: entry %d (coefficient of x^%d) is %d, prod_{i=1..%d}(x-2^i) has %d", n, k, k, rows[i][k], n, g[k]), cs)
				break
			}
		}
		delete(need, n)
		chk.Distinct("nontrivial", fmt.Sprint("factors row", n))
	}
	for n := range need {
		chk.Violation(fmt.Sprintf("C08/factors/n=%d", n), fmt.Sprintf("no stored generator polynomial for %d parity codewords", n), rcase{Sub: "tables", N: n})
	}
	if c := encoder.VerifSymbolCount(); c != len(dm.Symbols) {
		chk.Violation("C08/symbolinfo/row-count", fmt.Sprintf("the encoder's symbol table has %d rows, ISO/IEC 16022 Table 7 has %d", c, len(dm.Symbols)), rcase{Sub: "tables"})
	}

	// decoder versions
	vs := decoder.VerifVersions()
	extra := 0
	for _, v := range vs {
		if _, ok := dm.SymbolBySize(v.Rows, v.Cols); !ok {
			extra++
		}
	}
	for _, s := range dm.Symbols {
		cs := rcase{Sub: "tables", Rows: s.Rows, Cols: s.Cols}
		chk.Count("evaluations", 1)
		var v *decoder.VerifVersion
		for i := range vs {
			if vs[i].Rows == s.Rows && vs[i].Cols == s.Cols {
				v = &vs[i] // first match, as getVersionForDimensions
				break
			}
		}
		if v == nil {
			chk.Violation(fmt.Sprintf("C08/decoder-table/%v/missing", s), fmt.Sprintf("the decoder's version table has no entry for %v", s), cs)
			continue
		}
		// expected block groups: runs of equal data length
		type grp struct{ count, data int }
		var want []grp
		for _, d := range s.BlockDataSizes() {
			if len(want) > 0 && want[len(want)-1].data == d {
				want[len(want)-1].count++
			} else {
				want = append(want, grp{1, d})
			}
		}
		fs := []field{
			{"region-rows", v.RegionRows, s.RegionRows},
			{"region-cols", v.RegionCols, s.RegionCols},
			{"ec-per-block", v.ECCodewords, s.ECPerBlock()},
			{"total-codewords", v.TotalCodewords, s.TotalCW()},
			{"block-groups", len(v.Blocks), len(want)},
		}
		for i := 0; i < len(want) && i < len(v.Blocks); i++ {
			fs = append(fs,
				field{"block-count", v.Blocks[i].Count, want[i].count},
				field{"block-data", v.Blocks[i].DataCodewords, want[i].data})
		}
		for _, f := range fs {
			if f.got != f.want {
				chk.Violation(fmt.Sprintf("C08/decoder-table/%v/%s", s, f.name), fmt.Sprintf("decoder version %d (%v): %s = %d, ISO/IEC 16022 Table 7: %d", v.Number, s, f.name, f.got, f.want), cs)
			}
		}
		// decoder entry against the encoder's entry
		if si, err := libInfo(s); err == nil {
			blocks, data := 0, 0
			for _, b := range v.Blocks {
				blocks += b.Count
				data += b.Count * b.DataCodewords
			}
			es := []field{
				{"region-rows", v.RegionRows, si.GetMatrixHeight()},
				{"region-cols", v.RegionCols, si.GetMatrixWidth()},
				{"blocks", blocks, si.GetInterleavedBlockCount()},
				{"data-codewords", data, si.GetDataCapacity()},
				{"error-codewords", blocks * v.ECCodewords, si.GetErrorCodewords()},
			}
			pos := 0
			for _, b := range v.Blocks {
				for k := 0; k < b.Count; k++ {
					pos++
					if pos <= si.GetInterleavedBlockCount() {
						es = append(es,
							field{"block-data", b.DataCodewords, si.GetDataLengthForInterleavedBlock(pos)},
							field{"ec-per-block", v.ECCodewords, si.GetErrorLengthForInterleavedBlock(pos)})
					}
				}
			}
			for _, f := range es {
				if f.got != f.want {
					chk.Violation(fmt.Sprintf("C08/decoder-table/%v/%s", s, f.name), fmt.Sprintf("%v: decoder table has %s = %d, encoder table has %d", s, f.name, f.got, f.want), cs)
				}
			}
		}
		chk.Distinct("nontrivial", fmt.Sprint("decoder row", s))
	}
	chk.Subspace("stored tables white-box: 16 generator coefficient rows == prod(x-2^i); decoder versions of the 30 ECC 200 sizes field by field against Table 7 and against the encoder's SymbolInfo", map[string]interface{}{"cases": len(sets) + len(dm.Symbols), "complete": true, "decoder_rows_outside_ECC200_ignored": extra})
}
