package main

import (
	"bytes"
	"fmt"
	"sort"
	"sync"

	"verif/mc"
	"verif/ref/dm"

	"github.com/makiuchi-d/gozxing"
	"github.com/makiuchi-d/gozxing/datamatrix"
	"github.com/makiuchi-d/gozxing/datamatrix/encoder"
)

// ---------------------------------------------------------------------------------------
// text generators (deterministic families)

func digits(n, k int) string {
	b := make([]byte, n)
	for i := range b {
		b[i] = byte('0' + (i*(2*k+1)+(i/3)*k+k)%10)
	}
	return string(b)
}

// asciiText stays in ASCII encodation with a typical encoder (mixed case and punctuation);
// codewords are then 1..128, i.e. the top bit is clear, complementing the digit pairs (130..229).
func asciiText(n, k int) string {
	unit := "aB!c,D?eZ.q;R x(J)m#T"
	b := make([]byte, n)
	for i := range b {
		b[i] = unit[(i*(k+1)+k)%len(unit)]
	}
	return string(b)
}

type symText struct {
	Text       string
	Shape      encoder.SymbolShapeHint
	Exact      bool // MIN_SIZE = MAX_SIZE = Cols x Rows
	Rows, Cols int  // intended size (only binding when Exact)
}

func (t symText) hints() (map[gozxing.EncodeHintType]interface{}, *gozxing.Dimension) {
	h := map[gozxing.EncodeHintType]interface{}{gozxing.EncodeHintType_DATA_MATRIX_SHAPE: t.Shape}
	if !t.Exact {
		return h, nil
	}
	d := dim(t.Cols, t.Rows)
	h[gozxing.EncodeHintType_MIN_SIZE] = d
	h[gozxing.EncodeHintType_MAX_SIZE] = d
	return h, d
}

func short(s string) string {
	if len(s) <= 24 {
		return fmt.Sprintf("%q", s)
	}
	return fmt.Sprintf("%q...(%d chars)", s[:20], len(s))
}

// coverage of the whole-symbol sub-space: which sizes were produced and which modules were
// seen dark and light.
type symCoverage struct {
	mu      sync.Mutex
	reached map[string]int
	dark    map[string][]bool
	light   map[string][]bool
}

func (c *symCoverage) add(s dm.Symbol, m [][]bool) {
	c.mu.Lock()
	defer c.mu.Unlock()
	k := s.String()
	c.reached[k]++
	if c.dark[k] == nil {
		c.dark[k] = make([]bool, s.Rows*s.Cols)
		c.light[k] = make([]bool, s.Rows*s.Cols)
	}
	for r := range m {
		for col, v := range m[r] {
			if v {
				c.dark[k][r*s.Cols+col] = true
			} else {
				c.light[k][r*s.Cols+col] = true
			}
		}
	}
}

func prevCapacity(s dm.Symbol) int {
	p := 0
	for _, o := range dm.Symbols {
		if o.Rect == s.Rect && o.DataCW < s.DataCW && o.DataCW > p {
			p = o.DataCW
		}
	}
	return p
}

func runSymbols() {
	var texts []symText
	K := chk.Pick(5, 12)
	for _, s := range dm.Symbols {
		N, P, sh := s.DataCW, prevCapacity(s), shapeOf(s)
		add := func(t string, shape encoder.SymbolShapeHint, exact bool) {
			texts = append(texts, symText{t, shape, exact, s.Rows, s.Cols})
		}
		for k := 0; k < K; k++ {
			add(digits(2*N, k), sh, false)      // fills the symbol exactly
			add(asciiText(N-k%2, k), sh, false) // ASCII codewords (top bit clear)
		}
		if N-1 > P {
			add(digits(2*(N-1), 1), sh, false) // one pad codeword
		}
		add(digits(2*(P+1), 2), sh, false) // smallest content of this size: longest padding
		add(asciiText(P+1, 3), sh, false)
		if !s.Rect {
			add(digits(2*N, 3), encoder.SymbolShapeHint_FORCE_NONE, false)
		}
		add("A", sh, true) // one character under MIN_SIZE: padding from position 2
		add(digits(2, 1), sh, true)
		add(digits(2*(N-1), 4), sh, true)
		add(asciiText((P+N)/2+1, 4), sh, true)
	}
	cov := &symCoverage{reached: map[string]int{}, dark: map[string][]bool{}, light: map[string][]bool{}}
	chk.Range(fmt.Sprintf("DataMatrixWriter.Encode(t,0,0) == reference Build(parity(EncodeHighLevel(t))): %d texts (digit strings filling each size exactly / with 1 pad / with the longest padding, ASCII texts, one-character texts under MIN_SIZE=MAX_SIZE) aimed at all 30 sizes; every module compared", len(texts)), len(texts),
		func(i int) string { return fmt.Sprintf("%dx%d %s", texts[i].Rows, texts[i].Cols, short(texts[i].Text)) },
		func(l *mc.Local, i int) { symbolCase(l, texts[i], cov) })
	// the family must have produced every size
	var missing []string
	both, total := 0, 0
	for _, s := range dm.Symbols {
		k := s.String()
		if cov.reached[k] == 0 {
			missing = append(missing, k)
			continue
		}
		for i := range cov.dark[k] {
			if border, _ := s.IsBorder(i/s.Cols, i%s.Cols); border {
				continue
			}
			total++
			if cov.dark[k][i] && cov.light[k][i] {
				both++
			}
		}
	}
	sort.Strings(missing)
	if len(missing) > 0 && chk.Violations() == 0 {
		chk.Violation("C08/symbol/size-not-reached", fmt.Sprintf("no text of the family produced the sizes %v (digit string of 2 x capacity digits with the matching DATA_MATRIX_SHAPE, one-character text with MIN_SIZE = MAX_SIZE)", missing), rcase{Sub: "tables"})
	}
	chk.Subspace("whole symbol: coverage", map[string]interface{}{"sizes_reached": len(cov.reached), "data_modules": total, "data_modules_seen_dark_and_light": both})
	chk.Sample("symbol", rcase{Sub: "symbol", Rows: 16, Cols: 48, Text: digits(98, 0), Shape: int(encoder.SymbolShapeHint_FORCE_RECTANGLE)})
}

func symbolCase(l *mc.Local, t symText, cov *symCoverage) {
	cs := rcase{Sub: "symbol", Rows: t.Rows, Cols: t.Cols, Text: t.Text, Shape: int(t.Shape), ExactSz: t.Exact}
	hints, d := t.hints()
	var enc []byte
	var bm *gozxing.BitMatrix
	var err1, err2 error
	l.Beat("EncodeHighLevel " + short(t.Text))
	pm, site := mc.Guard(func() {
		enc, err1 = encoder.EncodeHighLevel(t.Text, t.Shape, d, d)
		bm, err2 = datamatrix.NewDataMatrixWriter().Encode(t.Text, gozxing.BarcodeFormat_DATA_MATRIX, 0, 0, hints)
	})
	l.Count("evaluations", 1)
	if pm != "" {
		chk.Violation("C08/symbol/panic/"+site, fmt.Sprintf("writer panicked on %s (shape %d, exact size %v): %s", short(t.Text), t.Shape, t.Exact, pm), cs)
		return
	}
	if err1 != nil || err2 != nil || bm == nil {
		chk.Violation("C08/symbol/error", fmt.Sprintf("text %s aimed at %dx%d (shape %d, exact size %v): EncodeHighLevel err=%v, Encode err=%v", short(t.Text), t.Rows, t.Cols, t.Shape, t.Exact, err1, err2), cs)
		return
	}
	s, ok := symBySize(bm.GetHeight(), bm.GetWidth())
	if !ok || len(enc) != s.DataCW || (t.Exact && (s.Rows != t.Rows || s.Cols != t.Cols)) {
		chk.Violation(fmt.Sprintf("C08/symbolinfo/%dx%d/size", t.Rows, t.Cols), fmt.Sprintf("text %s (shape %d, exact size %v, aimed at %dx%d): matrix is %d rows x %d cols for %d data codewords; no row of ISO/IEC 16022 Table 7 has this combination", short(t.Text), t.Shape, t.Exact, t.Rows, t.Cols, bm.GetHeight(), bm.GetWidth(), len(enc)), cs)
		return
	}
	want := dm.Build(dm.CodewordsSkewed144(enc, s), s)
	if cov != nil {
		cov.add(s, want)
	}
	l.Distinct("nontrivial", fmt.Sprint("sym", s, t.Text, t.Shape, t.Exact))
	l.Distinct("outcomes", fmt.Sprint("sym", s))
	for r := 0; r < s.Rows; r++ {
		for c := 0; c < s.Cols; c++ {
			if bm.Get(c, r) == want[r][c] {
				continue
			}
			border, _ := s.IsBorder(r, c)
			if border {
				chk.Violation("C08/symbol/border", fmt.Sprintf("%v symbol for %s: finder/clock module (row %d, col %d) is %v, ISO/IEC 16022 requires %v (regions of %dx%d modules)", s, short(t.Text), r, c, !want[r][c], want[r][c], s.RegionRows, s.RegionCols), cs)
				return
			}
			key := sizeKey(s.String())
			if key == "" {
				key = fmt.Sprintf("C08/symbol/data/%v", s)
			}
			chk.Violation(key, fmt.Sprintf("%v symbol for %s: data module (row %d, col %d) is %v, reference construction from the same data codewords gives %v", s, short(t.Text), r, c, !want[r][c], want[r][c]), cs)
			return
		}
	}
}

// ---------------------------------------------------------------------------------------
// 253-state randomiser: padding observed from every start position in every size

func runPads() {
	type job struct {
		s      dm.Symbol
		lo, hi int
	}
	var jobs []job
	total := 0
	for _, s := range dm.Symbols {
		total += s.DataCW
		for lo := 0; lo < s.DataCW; lo += 32 {
			hi := lo + 32
			if hi > s.DataCW {
				hi = s.DataCW
			}
			jobs = append(jobs, job{s, lo, hi})
		}
	}
	for i, j := 0, len(jobs)-1; i < j; i, j = i+1, j-1 {
		jobs[i], jobs[j] = jobs[j], jobs[i]
	}
	chk.Range(fmt.Sprintf("pad codewords (129, then 253-state randomised) in all 30 sizes under MIN_SIZE=MAX_SIZE: one-character text and digit strings of every length 2d, d=1..capacity-1 (%d texts; pads at every position 2..1558, every start position)", total), len(jobs),
		func(i int) string { return fmt.Sprintf("%v d=%d..%d", jobs[i].s, jobs[i].lo, jobs[i].hi) },
		func(l *mc.Local, i int) {
			for d := jobs[i].lo; d < jobs[i].hi; d++ {
				padCase(l, jobs[i].s, d)
			}
		})
	chk.Sample("pad", rcase{Sub: "pad", Rows: 144, Cols: 144, N: 0, Text: "A"})
}

// padCase: d == 0 is the one-character text "A"; d > 0 the digit string of 2d digits.
func padCase(l *mc.Local, s dm.Symbol, d int) {
	text := "A"
	if d > 0 {
		text = digits(2*d, d%4)
	}
	cs := rcase{Sub: "pad", Rows: s.Rows, Cols: s.Cols, N: d, Text: text}
	sz := dim(s.Cols, s.Rows)
	var enc []byte
	var err error
	l.Beat(fmt.Sprintf("EncodeHighLevel %v %s", s, short(text)))
	pm, site := mc.Guard(func() { enc, err = encoder.EncodeHighLevel(text, shapeOf(s), sz, sz) })
	l.Count("evaluations", 1)
	if pm != "" {
		chk.Violation("C08/pad253/panic/"+site, fmt.Sprintf("EncodeHighLevel(%s) with MIN_SIZE=MAX_SIZE=%v panicked: %s", short(text), s, pm), cs)
		return
	}
	if err != nil || len(enc) != s.DataCW {
		chk.Violation(fmt.Sprintf("C08/symbolinfo/%v/size", s), fmt.Sprintf("EncodeHighLevel(%s) with shape and MIN_SIZE=MAX_SIZE=%v: %d codewords, err=%v; the size holds %d", short(text), s, len(enc), err, s.DataCW), cs)
		return
	}
	got, padStart, derr := dm.DecodeStreamPad(enc)
	if derr != nil || got != text {
		chk.Violation("C08/highlevel/ascii-digits", fmt.Sprintf("%v: data codewords for %s do not read back by ISO/IEC 16022 (err=%v), so the padding cannot be located", s, short(text), derr), cs)
		return
	}
	want := dm.PadStream(enc[:padStart], len(enc))
	if padStart < len(enc) {
		l.Distinct("nontrivial", fmt.Sprint("pad", s, d))
		l.Distinct("outcomes", fmt.Sprint("padstart", padStart))
	}
	for p := padStart; p < len(enc); p++ {
		if enc[p] != want[p] {
			rule := fmt.Sprintf("129 + (149*%d mod 253) + 1 (minus 254 if above 254) = %d", p+1, want[p])
			if p == padStart {
				rule = "the first pad codeword is 129"
			}
			chk.Violation("C08/pad253", fmt.Sprintf("%v, %s: %d data codewords, pad codeword at position %d is %d; %s", s, short(text), padStart, p+1, enc[p], rule), cs)
			return
		}
	}
}

// ---------------------------------------------------------------------------------------
// 255-state randomiser: Base-256 runs of every length

var b256Patterns = []string{"all 0x80", "all 0xFF", "0x80+(37i+n) mod 128", "0x80+(91i+5) mod 128", "alternating 0x80/0xFF"}

func b256Text(n, pat int) (string, []byte) {
	raw := make([]byte, n)
	r := make([]rune, n)
	for i := range raw {
		switch pat {
		case 0:
			raw[i] = 0x80
		case 1:
			raw[i] = 0xFF
		case 2:
			raw[i] = byte(0x80 + (37*i+n)%128)
		case 3:
			raw[i] = byte(0x80 + (91*i+5)%128)
		default:
			raw[i] = byte(0x80 + 0x7F*(i%2))
		}
		r[i] = rune(raw[i])
	}
	return string(r), raw
}

// b256Lengths: every run length 1..1555 except those where the library's Base-256 encoder takes
// its "fills the symbol exactly" branch (run + latch + ONE length byte == a square capacity).
func b256Lengths() (ns []int, skipped []int) {
	caps := map[int]bool{}
	for _, s := range dm.Symbols {
		if !s.Rect {
			caps[s.DataCW] = true
		}
	}
	for n := 1; n <= 1555; n++ {
		if caps[n+2] {
			skipped = append(skipped, n)
			continue
		}
		ns = append(ns, n)
	}
	return
}

func runBase256() {
	ns, skipped := b256Lengths()
	type job struct{ n, pat int }
	var jobs []job
	npat := chk.Pick(3, len(b256Patterns))
	for i := len(ns) - 1; i >= 0; i-- {
		for p := 0; p < npat; p++ {
			jobs = append(jobs, job{ns[i], p})
		}
	}
	chk.Range(fmt.Sprintf("Base-256 codewords (latch 231, length field, data; 255-state randomised): texts of n characters >= 0x80 for every n in 1..1555 except %d exact-fill lengths, x %d value patterns (%d texts; every position 2..1558)", len(skipped), npat, len(jobs)), len(jobs),
		func(i int) string { return fmt.Sprintf("n=%d pattern %s", jobs[i].n, b256Patterns[jobs[i].pat]) },
		func(l *mc.Local, i int) { b256Case(l, jobs[i].n, jobs[i].pat) })
	chk.Subspace("Base-256: run lengths left to C02 (run + 2 == square capacity)", skipped)
	chk.Sample("b256", rcase{Sub: "b256", N: 1555, Index: 2})
}

func b256Case(l *mc.Local, n, pat int) {
	text, raw := b256Text(n, pat)
	cs := rcase{Sub: "b256", N: n, Index: pat}
	var enc []byte
	var err error
	l.Beat(fmt.Sprintf("EncodeHighLevel base256 n=%d pattern %d", n, pat))
	pm, site := mc.Guard(func() {
		enc, err = encoder.EncodeHighLevel(text, encoder.SymbolShapeHint_FORCE_SQUARE, nil, nil)
	})
	l.Count("evaluations", 1)
	desc := fmt.Sprintf("text of %d characters (%s)", n, b256Patterns[pat])
	if pm != "" {
		chk.Violation("C08/rand255/panic/"+site, fmt.Sprintf("EncodeHighLevel panicked on a %s: %s", desc, pm), cs)
		return
	}
	if err != nil {
		chk.Violation("C08/highlevel/base256/error", fmt.Sprintf("EncodeHighLevel on a %s: %v", desc, err), cs)
		return
	}
	// the single-run encodation written out from the standard
	exp := []byte{231}
	if n <= 249 {
		exp = append(exp, dm.Randomize255(byte(n), 2))
	} else {
		exp = append(exp, dm.Randomize255(byte(n/250+249), 2), dm.Randomize255(byte(n%250), 3))
	}
	for _, v := range raw {
		exp = append(exp, dm.Randomize255(v, len(exp)+1))
	}
	run := len(exp)
	s, _ := dm.SmallestSymbol(run, true, false)
	exp = dm.PadStream(exp, s.DataCW)
	l.Distinct("nontrivial", fmt.Sprint("b256", n, pat))
	if bytes.Equal(enc, exp) {
		l.Distinct("outcomes", fmt.Sprint("b256 single run in ", s))
		return
	}
	// any other valid encodation of the same text is accepted
	if got, padStart, derr := dm.DecodeStreamPad(enc); derr == nil && got == text {
		if _, ok := dm.SmallestSymbol(len(enc), true, false); ok && bytes.Equal(enc, dm.PadStream(enc[:padStart], len(enc))) {
			l.Distinct("outcomes", "b256 other valid encodation")
			l.Count("base256_other_valid_encodation", 1)
			return
		}
	}
	p := 0
	for p < len(enc) && p < len(exp) && enc[p] == exp[p] {
		p++
	}
	switch {
	case len(enc) == 0 || enc[0] != 231:
		chk.Violation("C08/highlevel/base256/stream", fmt.Sprintf("%s: the codewords do not start with the Base-256 latch and do not read back by ISO/IEC 16022", desc), cs)
	case p >= run && p < len(exp) && p < len(enc):
		chk.Violation("C08/pad253", fmt.Sprintf("%s: pad codeword at position %d after the Base-256 run is %d, expected %d", desc, p+1, enc[p], exp[p]), cs)
	case p < run && p < len(enc):
		v := byte(0)
		what := "length field"
		if lf := run - n; p >= lf {
			v = raw[p-lf]
			what = fmt.Sprintf("data byte %d (value %d)", p-lf, v)
		} else {
			v = dm.UnRandomize255(exp[p], p+1)
		}
		chk.Violation("C08/rand255", fmt.Sprintf("%s: codeword at position %d (%s) is %d; value %d + (149*%d mod 255) + 1 mod 256 = %d", desc, p+1, what, enc[p], v, p+1, exp[p]), cs)
	default:
		chk.Violation("C08/highlevel/base256/stream", fmt.Sprintf("%s: %d codewords emitted, the single Base-256 run padded to %v has %d; the stream does not read back by ISO/IEC 16022", desc, len(enc), s, len(exp)), cs)
	}
}
