// C08 — Data Matrix symbols conform to ISO/IEC 16022 ECC 200.
//
// Every stage of the library's Data Matrix encoder (symbol attribute table, Reed-Solomon parity
// with block interleaving, Annex F module placement, finder/clock drawing, the 253- and
// 255-state randomisers) and the decoder's size table are compared with the independent
// reference model verif/ref/dm over complete, enumerated vector/text families for all 30 sizes.
package main

import (
	"fmt"
	"sync"

	"verif/mc"
	"verif/ref/dm"

	"github.com/makiuchi-d/gozxing"
	"github.com/makiuchi-d/gozxing/datamatrix/encoder"
)

var chk *mc.Check

// rcase is the replay record of every sub-space (Sub selects the interpretation).
type rcase struct {
	Sub     string `json:"sub"`
	Rows    int    `json:"rows,omitempty"` // symbol size, or mapping matrix size for "placement"
	Cols    int    `json:"cols,omitempty"`
	Vec     string `json:"vec,omitempty"` // name of the family member
	Index   int    `json:"index"`         // index into the vector family / text family / error variant
	Text    string `json:"text,omitempty"`
	Shape   int    `json:"shape,omitempty"`
	ExactSz bool   `json:"exact_size,omitempty"` // MIN_SIZE = MAX_SIZE = Cols x Rows
	N       int    `json:"n,omitempty"`
}

// ---------------------------------------------------------------------------------------
// attribution of follow-up failures: a size whose parity or placement already failed keeps
// that key when the whole-symbol comparison fails on its data modules as well.

var (
	attrMu   sync.Mutex
	badN     = map[int]bool{}      // parity lengths whose generator failed black-box
	firstKey = map[string]string{} // "RxC" (symbol size) -> first ecc/placement key
)

func markN(n int) { attrMu.Lock(); badN[n] = true; attrMu.Unlock() }
func isBadN(n int) bool {
	attrMu.Lock()
	defer attrMu.Unlock()
	return badN[n]
}
func markSize(size, key string) {
	attrMu.Lock()
	if _, ok := firstKey[size]; !ok {
		firstKey[size] = key
	}
	attrMu.Unlock()
}
func sizeKey(size string) string {
	attrMu.Lock()
	defer attrMu.Unlock()
	return firstKey[size]
}

// ---------------------------------------------------------------------------------------
// helpers shared by the sub-spaces

func shapeOf(s dm.Symbol) encoder.SymbolShapeHint {
	if s.Rect {
		return encoder.SymbolShapeHint_FORCE_RECTANGLE
	}
	return encoder.SymbolShapeHint_FORCE_SQUARE
}

func dim(w, h int) *gozxing.Dimension {
	d, _ := gozxing.NewDimension(w, h)
	return d
}

// libInfo obtains the encoder's SymbolInfo for size s through the public lookup, pinned by the
// symbol dimensions (so that a wrong capacity in the row is seen as a field difference).
func libInfo(s dm.Symbol) (*encoder.SymbolInfo, error) {
	d := dim(s.Cols, s.Rows)
	si, err := encoder.SymbolInfo_Lookup(1, shapeOf(s), d, d, true)
	if err != nil {
		return nil, err
	}
	if si == nil {
		return nil, fmt.Errorf("nil SymbolInfo")
	}
	return si, nil
}

// Vector family over n codewords: 6 fixed vectors followed by the 8n single-bit vectors.
const fixedVecs = 6

func famSize(n int) int { return fixedVecs + 8*n }

func famVec(n, idx int) (string, []byte) {
	v := make([]byte, n)
	switch idx {
	case 0:
		return "zero", v
	case 1:
		for i := range v {
			v[i] = 0xFF
		}
		return "all-ones", v
	case 2:
		for i := range v {
			v[i] = 0x55
		}
		return "0x55", v
	case 3:
		for i := range v {
			v[i] = 0xAA
		}
		return "0xAA", v
	case 4:
		for i := range v {
			v[i] = byte(i + 1)
		}
		return "counting", v
	case 5:
		for i := range v {
			v[i] = byte(i*i*31 + i*7 + 5)
		}
		return "quadratic", v
	}
	b := idx - fixedVecs
	v[b/8] = 0x80 >> uint(b%8)
	return fmt.Sprintf("bit %d of codeword %d", b%8, b/8), v
}

func symBySize(rows, cols int) (dm.Symbol, bool) { return dm.SymbolBySize(rows, cols) }

func main() {
	chk = mc.New("C08", "exploration")
	chk.Rule = "all 30 ECC 200 sizes x complete vector families (zero, all-ones, 0x55, 0xAA, counting, quadratic, every single-bit vector) through the parity and placement stages; text families reaching every size through the writer; every pad position 2..1558 and every Base-256 position 2..1558; every table row field by field; non-trivial = distinct (stage, size, vector or text) whose expected output is not all-zero / not pad-free"
	chk.Assume("the oracle is verif/ref/dm (written from ISO/IEC 16022, validated against Table 7, the Annex F figure and the standard's worked examples)")
	chk.Assume("144x144: the whole codeword stream is interleaved, i.e. error codeword j belongs to block (j+8) mod 10 (dm.CodewordsSkewed144); this is what ISO/IEC 16022, zint, libdmtx and the library's own decoder use")
	chk.Assume("which symbol size the encoder chooses for a text is not part of this property: the whole-symbol comparison accepts any standard size whose capacity equals the emitted codeword count and only requires that the text family reaches all 30 sizes")
	chk.Assume("high-level encodation choices are not part of this property: a stream is accepted if the reference stream decoder reads the text back and the padding after it follows the 253-state rule; Base-256 texts avoid lengths that exactly fill a symbol (known library defect, belongs to C02)")
	chk.Assume("the decoder's 18 additional DMRE rows (ISO/IEC 21471) are outside the property and are not examined")
	foreignPlacements() // must stay first: the first library calls of the process (also when replaying)
	if chk.ReplayFile() != "" {
		var c rcase
		if err := mc.LoadReplay(chk.ReplayFile(), &c); err == nil {
			fmt.Printf("replay %+v\n", c)
			replay(c)
		} else {
			fmt.Println("cannot load replay:", err)
		}
		chk.Finish()
	}
	runTables()     // symbol attribute table (black-box) and, if built white-box, stored tables
	runGenerators() // generator polynomials through unit vectors
	runECC()
	runECCSpecial()
	runECCRegister()
	runECCHistories() // parity + interleaving, vector families
	runECCTwins()
	runECCConstructedInfo()
	runECCLongHistories()
	if !chk.Quick() {
		runECCValues()
	}
	runPlacement()   // Annex F, vector families
	runSymbols()     // whole symbol through the writer
	runPads()        // 253-state randomiser
	runBase256()     // 255-state randomiser
	runDecodeTable() // decoder's size table, black-box
	chk.Finish()
}

func replay(c rcase) {
	l := chk.NewLocal()
	defer l.Merge()
	switch c.Sub {
	case "tables":
		runTables()
	case "factors":
		runGenerators()
	case "ecc":
		if s, ok := symBySize(c.Rows, c.Cols); ok {
			eccCase(l, s, c.Index)
		}
	case "ecch":
		fmt.Println("replay of a call history re-runs the history family")
		runECCHistories()
	case "ecci":
		fmt.Println("replay of a constructed-SymbolInfo case re-runs the family")
		runECCConstructedInfo()
	case "eccl":
		fmt.Println("replay of a long call history re-runs the family")
		runECCLongHistories()
	case "ecct":
		if s, ok := symBySize(c.Rows, c.Cols); ok {
			twinCase(l, s, c.N/16, c.N%16, c.Index/3, c.Index%3)
		}
	case "eccr":
		if s, ok := symBySize(c.Rows, c.Cols); ok {
			eccRegisterCase(l, s, c.Index, c.N)
		}
	case "eccz":
		if s, ok := symBySize(c.Rows, c.Cols); ok {
			eccSpecialCase(l, s, c.Index)
		}
	case "eccv":
		if s, ok := symBySize(c.Rows, c.Cols); ok {
			eccValueCase(l, s, c.Index, c.N)
		}
	case "placement":
		placementCase(l, c.Rows, c.Cols, c.Index, newPlaceRef(c.Rows, c.Cols))
	case "symbol":
		symbolCase(l, symText{c.Text, encoder.SymbolShapeHint(c.Shape), c.ExactSz, c.Rows, c.Cols}, nil)
	case "pad":
		if s, ok := symBySize(c.Rows, c.Cols); ok {
			padCase(l, s, c.N)
		}
	case "b256":
		b256Case(l, c.N, c.Index)
	case "decode":
		if s, ok := symBySize(c.Rows, c.Cols); ok {
			decodeCase(l, s, c.Index)
		}
	}
}
