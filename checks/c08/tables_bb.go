//go:build !verif || blackbox

package main

// Black-box build: the stored tables are only observed through their effects (unit-vector
// parity for the generator rows, decoding of reference symbols for the decoder's versions).
func runWhiteBox() {
	chk.Note("built without white-box accessors: factors / decoder versions compared through their effects only")
}
