package main

import (
	"bytes"
	"fmt"

	"verif/mc"
	"verif/ref/dm"

	"github.com/makiuchi-d/gozxing"
	"github.com/makiuchi-d/gozxing/common"
	"github.com/makiuchi-d/gozxing/datamatrix/decoder"
	"github.com/makiuchi-d/gozxing/datamatrix/encoder"
)

// field is one comparison of a table entry with ISO/IEC 16022 Table 7.
type field struct {
	name      string
	got, want int
}

func infoFields(si *encoder.SymbolInfo, s dm.Symbol) []field {
	f := []field{
		{"symbol-rows", si.GetSymbolHeight(), s.Rows},
		{"symbol-cols", si.GetSymbolWidth(), s.Cols},
		{"region-rows", si.GetMatrixHeight(), s.RegionRows},
		{"region-cols", si.GetMatrixWidth(), s.RegionCols},
		{"mapping-rows", si.GetSymbolDataHeight(), s.MappingRows()},
		{"mapping-cols", si.GetSymbolDataWidth(), s.MappingCols()},
		{"data-codewords", si.GetDataCapacity(), s.DataCW},
		{"error-codewords", si.GetErrorCodewords(), s.ECCW},
		{"total-codewords", si.GetCodewordCount(), s.TotalCW()},
		{"blocks", si.GetInterleavedBlockCount(), s.Blocks},
	}
	sizes := s.BlockDataSizes()
	for b := 0; b < s.Blocks && b < si.GetInterleavedBlockCount(); b++ {
		f = append(f,
			field{"block-data", si.GetDataLengthForInterleavedBlock(b + 1), sizes[b]},
			field{"block-ec", si.GetErrorLengthForInterleavedBlock(b + 1), s.ECPerBlock()})
	}
	return f
}

func runTables() {
	// 1. every row of Table 7 is present in the encoder's table with the standard's attributes
	for _, s := range dm.Symbols {
		cs := rcase{Sub: "tables", Rows: s.Rows, Cols: s.Cols}
		var si *encoder.SymbolInfo
		var err error
		var fs []field
		pm, site := mc.Guard(func() {
			si, err = libInfo(s)
			if err == nil {
				fs = infoFields(si, s)
			}
		})
		chk.Count("evaluations", 1)
		if pm != "" {
			chk.Violation(fmt.Sprintf("C08/symbolinfo/%v/panic/%s", s, site), pm, cs)
			continue
		}
		if err != nil {
			chk.Violation(fmt.Sprintf("C08/symbolinfo/%v/lookup", s), fmt.Sprintf("SymbolInfo_Lookup(1, shape, min=max=%dx%d): %v; the size is missing from the encoder's table", s.Cols, s.Rows, err), cs)
			continue
		}
		for _, f := range fs {
			if f.got != f.want {
				chk.Violation(fmt.Sprintf("C08/symbolinfo/%v/%s", s, f.name), fmt.Sprintf("encoder SymbolInfo of %v: %s = %d, ISO/IEC 16022 Table 7: %d", s, f.name, f.got, f.want), cs)
			}
		}
		// the same row must be found through its capacity
		byCap, e2 := encoder.SymbolInfo_Lookup(s.DataCW, shapeOf(s), nil, nil, true)
		if e2 != nil || byCap != si {
			chk.Violation(fmt.Sprintf("C08/symbolinfo/%v/lookup", s), fmt.Sprintf("SymbolInfo_Lookup(%d data codewords, shape %d) does not return the %v row (err=%v, got %v)", s.DataCW, shapeOf(s), s, e2, byCap), cs)
		}
		chk.Distinct("nontrivial", fmt.Sprint("symbolinfo", s))
	}
	// 2. no lookup returns anything but a Table 7 row that can hold the data
	shapes := []encoder.SymbolShapeHint{encoder.SymbolShapeHint_FORCE_NONE, encoder.SymbolShapeHint_FORCE_SQUARE, encoder.SymbolShapeHint_FORCE_RECTANGLE}
	for _, sh := range shapes {
		for n := 0; n <= 1560; n++ {
			si, _ := encoder.SymbolInfo_Lookup(n, sh, nil, nil, false)
			chk.Count("evaluations", 1)
			if si == nil {
				limit := 1558
				if sh == encoder.SymbolShapeHint_FORCE_RECTANGLE {
					limit = 49
				}
				if n <= limit {
					chk.Violation("C08/symbolinfo/lookup/none", fmt.Sprintf("SymbolInfo_Lookup(%d, shape %d) finds no symbol", n, sh), rcase{Sub: "tables", N: n, Shape: int(sh)})
				}
				continue
			}
			s, ok := symBySize(si.GetSymbolHeight(), si.GetSymbolWidth())
			if !ok || si.GetDataCapacity() != s.DataCW || s.DataCW < n ||
				(sh == encoder.SymbolShapeHint_FORCE_SQUARE && s.Rect) || (sh == encoder.SymbolShapeHint_FORCE_RECTANGLE && !s.Rect) {
				chk.Violation("C08/symbolinfo/lookup/non-standard", fmt.Sprintf("SymbolInfo_Lookup(%d, shape %d) returns %v", n, sh, si), rcase{Sub: "tables", N: n, Shape: int(sh)})
			}
			chk.Distinct("outcomes", fmt.Sprint("lookup", sh, s))
		}
	}
	chk.Subspace("encoder symbol table black-box: 30 sizes x 10 attributes + per-block lengths; SymbolInfo_Lookup for 0..1560 codewords x 3 shapes returns only Table 7 rows", map[string]interface{}{"cases": 30 + 3*1561, "complete": true})
	// 3. stored tables (white-box build only)
	runWhiteBox()
	chk.Sample("tables", rcase{Sub: "tables", Rows: 144, Cols: 144})
}

// ---------------------------------------------------------------------------------------
// decoder's size table, black-box: a reference symbol with floor(ec/2) wrong codewords in
// EVERY block only decodes if rows, cols, region size, block count, data and ec codewords per
// block of the decoder's entry all agree with the standard.

var errFamilies = []string{"no errors", "first t codewords of each block", "last t codewords of each block (parity)", "t codewords spread over each block", "t codewords straddling data/parity", "first t codewords, magnitude 0x01", "spread, magnitude varying"}

// blockIndices lists the positions (in the interleaved stream) of the codewords of block b.
func blockIndices(s dm.Symbol, b int) []int {
	var idx []int
	for i := b; i < s.DataCW; i += s.Blocks {
		idx = append(idx, i)
	}
	off := b
	if s.Rows == 144 && s.Cols == 144 {
		off = (b + 2) % 10
	}
	for k := 0; k < s.ECPerBlock(); k++ {
		idx = append(idx, s.DataCW+off+k*s.Blocks)
	}
	return idx
}

func runDecodeTable() {
	type job struct {
		s dm.Symbol
		v int
	}
	var jobs []job
	for i := len(dm.Symbols) - 1; i >= 0; i-- {
		for v := range errFamilies {
			jobs = append(jobs, job{dm.Symbols[i], v})
		}
	}
	chk.Range(fmt.Sprintf("decoder size table black-box: reference symbols of all 30 sizes x %d error families with floor(ec/2) wrong codewords in every block must decode to the original codewords", len(errFamilies)), len(jobs),
		func(i int) string { return fmt.Sprintf("%v %s", jobs[i].s, errFamilies[jobs[i].v]) },
		func(l *mc.Local, i int) { decodeCase(l, jobs[i].s, jobs[i].v) })
	chk.Sample("decode", rcase{Sub: "decode", Rows: 52, Cols: 52, Index: 3, Vec: errFamilies[3]})
}

func decodeCase(l *mc.Local, s dm.Symbol, v int) {
	cs := rcase{Sub: "decode", Rows: s.Rows, Cols: s.Cols, Index: v, Vec: errFamilies[v]}
	data := make([]byte, s.DataCW)
	text := make([]byte, s.DataCW)
	for i := range data {
		text[i] = byte('a' + (i*7+i/26+v)%26)
		data[i] = text[i] + 1 // ASCII encodation
	}
	all := dm.CodewordsSkewed144(data, s)
	bad := append([]byte(nil), all...)
	t := s.ECPerBlock() / 2
	nerr := 0
	if v > 0 {
		for b := 0; b < s.Blocks; b++ {
			idx := blockIndices(s, b)
			n := len(idx)
			nd := n - s.ECPerBlock()
			for e := 0; e < t; e++ {
				var p int
				mag := byte(0xFF)
				switch v {
				case 1:
					p = e
				case 2:
					p = n - 1 - e
				case 3:
					p = e * n / t
				case 4:
					p = nd - t/2 + e
					if p < 0 {
						p = e
					}
				case 5:
					p, mag = e, 0x01
				case 6:
					p, mag = e*n/t, byte(1+(e*37+b*11)%255)
				}
				bad[idx[p]] ^= mag
				nerr++
			}
		}
	}
	m := dm.Build(bad, s)
	bm, _ := gozxing.NewBitMatrix(s.Cols, s.Rows)
	for r := range m {
		for c := range m[r] {
			if m[r][c] {
				bm.Set(c, r)
			}
		}
	}
	var res *common.DecoderResult
	var err error
	pm, site := mc.Guard(func() { res, err = decoder.NewDecoder().Decode(bm) })
	l.Count("evaluations", 1)
	if nerr > 0 {
		l.Distinct("nontrivial", fmt.Sprint("decode", s, v))
	}
	key := fmt.Sprintf("C08/decoder-table/%v/decode", s)
	desc := fmt.Sprintf("reference %v symbol (%d blocks, %d data + %d parity codewords per block) with %d wrong codewords per block (%s)", s, s.Blocks, s.BlockDataSizes()[0], s.ECPerBlock(), t, errFamilies[v])
	if v == 0 {
		desc = fmt.Sprintf("error-free reference %v symbol", s)
	}
	if pm != "" {
		chk.Violation(fmt.Sprintf("C08/decoder-table/%v/panic/%s", s, site), desc+": Decode panicked: "+pm, cs)
		return
	}
	if err != nil {
		chk.Violation(key, fmt.Sprintf("%s: Decode fails with %v", desc, err), cs)
		return
	}
	if !bytes.Equal(res.GetRawBytes(), data) {
		chk.Violation(key, desc+": the corrected data codewords differ from the encoded ones", cs)
		return
	}
	if res.GetText() != string(text) {
		chk.Violation(key, fmt.Sprintf("%s: text %s, expected %s", desc, short(res.GetText()), short(string(text))), cs)
		return
	}
	l.Distinct("outcomes", fmt.Sprint("decoded", s))
}
