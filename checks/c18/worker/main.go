//go:build c18worker

// The C18 worker executes requests from the explorer (checks/c18) inside ONE fresh process,
// linked against the instrumented copy of the library: either a sequential trace of one
// operation (shared-state footprint) or a list of controlled executions of multi-thread
// scenarios under given schedule prefixes.
package main

import (
	"encoding/json"
	"fmt"
	"os"

	"verif/checks/c18/ops"

	"github.com/makiuchi-d/gozxing/zzrt"
)

type runReq struct {
	Threads     [][]int `json:"threads"`
	Epilogue    []int   `json:"epilogue"` // operations run sequentially after all threads finished (reveals poisoned caches)
	Prefix      []int   `json:"prefix"`
	Interesting []int   `json:"interesting"`
	MaxPoints   int     `json:"maxPoints"`
}

type request struct {
	Mode      string   `json:"mode"` // "trace" | "runs" | "roots"
	Op        int      `json:"op"`
	HashEvery int      `json:"hashEvery"`
	Runs      []runReq `json:"runs"`
}

type pointOut struct {
	T int    `json:"t"`
	S uint32 `json:"s"`
	E []int  `json:"e"`
	C int    `json:"c"`
	W bool   `json:"w,omitempty"`
}

type runOut struct {
	Results  [][]string `json:"results"`
	Epilogue []string   `json:"epilogue,omitempty"`
	Points   []pointOut `json:"points"`
	Panics   []string   `json:"panics,omitempty"`
	Diverged string     `json:"diverged,omitempty"`
	Deadlock string     `json:"deadlock,omitempty"`
	CapHit   bool       `json:"capHit,omitempty"`
	Changed  []int      `json:"changed,omitempty"` // roots whose hash differs after the run
	Shared   int64      `json:"shared"`
}

type traceOut struct {
	Result      string   `json:"result"`
	Accessed    []int    `json:"accessed"`
	Changed     []int    `json:"changed"`
	Shared      int64    `json:"shared"`
	Hashes      int      `json:"hashes"`
	WriteEvents int64    `json:"writeEvents"`
	CapHit      bool     `json:"capHit"`
	Panics      []string `json:"panics,omitempty"`
	Sites       []uint32 `json:"sites,omitempty"` // statement sites executed by the operation
}

func ids(b []bool) []int {
	var o []int
	for i, v := range b {
		if v {
			o = append(o, i)
		}
	}
	return o
}

func main() {
	var req request
	if err := json.NewDecoder(os.Stdin).Decode(&req); err != nil {
		fmt.Fprintln(os.Stderr, "worker: bad request:", err)
		os.Exit(3)
	}
	names := zzrt.RootNames()
	rootID := map[string]int{}
	for i, n := range names {
		rootID[n] = i
	}
	siteRoots := make([][]int, len(zzrt.SiteTable))
	for i, s := range zzrt.SiteTable {
		for _, r := range s.Roots {
			if id, ok := rootID[r]; ok {
				siteRoots[i] = append(siteRoots[i], id)
			}
		}
	}
	zzrt.SiteRoots = func(site uint32) []int {
		if int(site) < len(siteRoots) {
			return siteRoots[site]
		}
		return nil
	}
	enc := json.NewEncoder(os.Stdout)
	switch req.Mode {
	case "roots":
		sites := make([]string, len(zzrt.SiteTable))
		funcs := make([]string, len(zzrt.SiteTable))
		for i, s := range zzrt.SiteTable {
			sites[i] = s.Pos
			funcs[i] = s.Func
		}
		var opNames []string
		for _, o := range ops.All() {
			opNames = append(opNames, o.Name)
		}
		enc.Encode(map[string]interface{}{"roots": names, "sites": sites, "funcs": funcs, "ops": opNames})
	case "trace":
		all := ops.All()
		ops.PrepareFor(all, []int{req.Op})
		var res string
		c := zzrt.Run([]func(){func() { res = all[req.Op].Run() }}, zzrt.Config{Trace: true, MaxHashes: 3000, HashEvery: req.HashEvery})
		enc.Encode(traceOut{Result: res, Accessed: ids(c.Accessed), Changed: ids(c.Changed), Shared: c.SharedStmts, Hashes: c.Hashes, WriteEvents: c.WriteEvents, CapHit: c.CapHit, Panics: c.Panics(), Sites: zzrt.CoveredSites()})
	case "runs":
		all := ops.All()
		for _, r := range req.Runs {
			for _, t := range r.Threads {
				ops.PrepareFor(all, t)
			}
			ops.PrepareFor(all, r.Epilogue)
		}
		var outs []runOut
		for _, r := range req.Runs {
			before := zzrt.HashRoots()
			results := make([][]string, len(r.Threads))
			var bodies []func()
			for ti, seq := range r.Threads {
				ti, seq := ti, seq
				results[ti] = make([]string, len(seq))
				bodies = append(bodies, func() {
					for k, op := range seq {
						results[ti][k] = all[op].Run()
					}
				})
			}
			var interesting []bool
			if len(r.Interesting) > 0 {
				interesting = make([]bool, len(names))
				for _, id := range r.Interesting {
					if id < len(interesting) {
						interesting[id] = true
					}
				}
			}
			c := zzrt.Run(bodies, zzrt.Config{Prefix: r.Prefix, Interesting: interesting, MaxPoints: r.MaxPoints})
			var epi []string
			for _, op := range r.Epilogue {
				epi = append(epi, all[op].Run())
			}
			after := zzrt.HashRoots()
			o := runOut{Results: results, Epilogue: epi, Panics: c.Panics(), Diverged: c.Diverged, Deadlock: c.Deadlock, CapHit: c.CapHit, Shared: c.SharedStmts}
			for i := range after {
				if after[i] != before[i] {
					o.Changed = append(o.Changed, i)
				}
			}
			for _, p := range c.Points {
				o.Points = append(o.Points, pointOut{T: p.Thread, S: p.Site, E: p.Enabled, C: p.Choice, W: p.Write})
			}
			outs = append(outs, o)
		}
		enc.Encode(outs)
	default:
		os.Exit(3)
	}
}
