// C18 — independent readers and writers can run concurrently.
//
// Stage 1 (footprint): every operation of the alphabet runs alone in a fresh process linked against
// the instrumented library; the deep hash of ALL package-level variables is compared before,
// during and after, giving W(op) (shared variables it changes, even transiently) and A(op)
// (shared variables its statements can access).
// Stage 2 (schedules): for every pair of operations (and triples of a sub-alphabet) two/three
// controlled threads run them on private instances under the cooperative scheduler of
// sched/zzrt. Scheduling points are the statements that can access a variable in
// I = union of W(op) over the scenario. If I is empty the operations are independent at every
// statement (nothing shared is written), all interleavings are equivalent, and only the
// non-preemptive schedules (all thread orders) are run. Otherwise ALL schedules with at most K
// preemptions at those points are explored, each in a fresh process. Oracle: every call returns
// what it returns alone; no panic; shared state unchanged when I is empty.
// Stage 3 (races): the same operation bodies, plain library, -race, free running.
package main

import (
	"bufio"
	"bytes"
	"context"
	"encoding/json"
	"fmt"
	"os"
	"os/exec"
	"sort"
	"strings"
	"sync"
	"time"

	"verif/mc"
)

var chk *mc.Check
var siteFuncs []string

const workerBin = "/verif/build/bin/c18worker"
const racerBin = "/verif/build/bin/c18racer"

type runReq struct {
	Threads     [][]int `json:"threads"`
	Epilogue    []int   `json:"epilogue"`
	Prefix      []int   `json:"prefix"`
	Interesting []int   `json:"interesting"`
	MaxPoints   int     `json:"maxPoints"`
}

type point struct {
	T int    `json:"t"`
	S uint32 `json:"s"`
	E []int  `json:"e"`
	C int    `json:"c"`
	W bool   `json:"w"`
}

type runOut struct {
	Results  [][]string `json:"results"`
	Epilogue []string   `json:"epilogue"`
	Points   []point    `json:"points"`
	Panics   []string   `json:"panics"`
	Diverged string     `json:"diverged"`
	Deadlock string     `json:"deadlock"`
	CapHit   bool       `json:"capHit"`
	Changed  []int      `json:"changed"`
	Shared   int64      `json:"shared"`
}

type traceOut struct {
	Result      string   `json:"result"`
	Accessed    []int    `json:"accessed"`
	Changed     []int    `json:"changed"`
	Shared      int64    `json:"shared"`
	Hashes      int      `json:"hashes"`
	WriteEvents int64    `json:"writeEvents"`
	CapHit      bool     `json:"capHit"`
	Panics      []string `json:"panics"`
	Sites       []uint32 `json:"sites"`
}

func worker(req interface{}, out interface{}) error {
	js, _ := json.Marshal(req)
	ctx, cancel := context.WithTimeout(context.Background(), 300*time.Second)
	defer cancel()
	cmd := exec.CommandContext(ctx, workerBin)
	cmd.Stdin = bytes.NewReader(js)
	var so, se bytes.Buffer
	cmd.Stdout, cmd.Stderr = &so, &se
	cmd.Env = append(os.Environ(), "GOMAXPROCS=2")
	if err := cmd.Run(); err != nil {
		if ctx.Err() != nil {
			return errHung
		}
		tail := se.String()
		if len(tail) > 1500 {
			tail = tail[len(tail)-1500:]
		}
		return fmt.Errorf("worker died: %v: %s", err, tail)
	}
	return json.Unmarshal(so.Bytes(), out)
}

var errHung = fmt.Errorf("worker made no progress for 300 s and was killed")

var (
	roots, sites, opNames []string
	solo                  []traceOut
)

type scenario struct {
	Threads [][]int
}

// epilogue: every operation of the scenario once more, sequentially, after the threads finished
func (s scenario) epilogue() []int {
	var e []int
	for _, t := range s.Threads {
		e = append(e, t...)
	}
	return e
}

func (s scenario) name() string {
	var parts []string
	for _, t := range s.Threads {
		var n []string
		for _, o := range t {
			n = append(n, opNames[o])
		}
		parts = append(parts, "["+strings.Join(n, ",")+"]")
	}
	return strings.Join(parts, " || ")
}

type replayCase struct {
	Scenario string
	Threads  [][]int
	Choices  []int
	Detail   string
}

func rootNames(ids []int) []string {
	var n []string
	for _, i := range ids {
		if i < len(roots) {
			n = append(n, strings.TrimPrefix(roots[i], "github.com/makiuchi-d/gozxing"))
		}
	}
	return n
}

func main() {
	chk = mc.New("C18", "model_checking")
	chk.Rule = "stage 1: shared-state footprint of each of the operations (fresh process each); stage 2: stateless schedule exploration of every pair (and sub-alphabet triples) under a cooperative scheduler with preemption bounding at the statements that can touch a written shared variable; stage 3: free-running race-detector pass over the same bodies. states = schedule-tree nodes (distinct prefixes executed), transitions = scheduling points passed; non-trivial = distinct (scenario, schedule) executions with at least two threads"
	chk.Assume("shared state = memory reachable from package-level variables of the library (registered automatically by the instrumenter); a statement can touch it if it mentions such a variable or runs inside a function that received a pointer/slice/map argument or receiver pointing into it")
	chk.Assume("sequential consistency between scheduling points; unsynchronised accesses and weaker orderings are the race detector's part (stage 3)")
	chk.Assume("memory shared between OBJECTS that the library derived from one another (bands cut from one parent bitmap with BinaryBitmap.Crop before the goroutines start, each band then used by one goroutine only: operations lum-sibling-band-read and its twin) is not reachable from package-level variables; it is the free-running race pass and the result comparison that judge it, not the schedule explorer")
	var info struct {
		Roots, Sites, Funcs, Ops []string
	}
	if err := worker(map[string]string{"mode": "roots"}, &info); err != nil {
		fmt.Fprintln(os.Stderr, "C18: cannot run the worker:", err)
		os.Exit(2)
	}
	roots, sites, siteFuncs, opNames = info.Roots, info.Sites, info.Funcs, info.Ops
	chk.Subspace("instrumentation", map[string]interface{}{"package_level_variables": len(roots), "statement_sites": len(sites), "operations": len(opNames)})
	if chk.ReplayFile() != "" {
		replay()
		chk.Finish()
	}
	stage1()
	stage2()
	stage3()
	chk.Finish()
}

// ------------------------------------------------------------------ stage 1

func stage1() {
	solo = make([]traceOut, len(opNames))
	chk.Range(fmt.Sprintf("stage 1: footprint of each of the %d operations alone, fresh process, registry re-hashed after the first 16 and then every 200th potential shared write", len(opNames)), len(opNames),
		func(i int) string { return opNames[i] },
		func(l *mc.Local, i int) {
			var t traceOut
			if err := worker(map[string]interface{}{"mode": "trace", "op": i, "hashEvery": 200}, &t); err != nil {
				chk.Violation("C18/worker-died/trace/"+opNames[i], err.Error(), replayCase{Scenario: opNames[i]})
				return
			}
			solo[i] = t
			l.Count("evaluations", 1)
			l.Count("transitions", t.Shared)
			if len(t.Panics) > 0 {
				chk.Violation("C18/panic-alone/"+opNames[i], strings.Join(t.Panics, "; "), replayCase{Scenario: opNames[i]})
			}
			if strings.HasPrefix(t.Result, "ERR(") {
				chk.Note("operation " + opNames[i] + " returns an error when run alone: " + t.Result)
			}
			l.Distinct("outcomes", t.Result)
		})
	written := map[int][]string{}
	for i, t := range solo {
		for _, r := range t.Changed {
			written[r] = append(written[r], opNames[i])
		}
	}
	var wl []string
	for r, ops := range written {
		wl = append(wl, fmt.Sprintf("%s written by %v", rootNames([]int{r})[0], ops))
	}
	sort.Strings(wl)
	chk.Subspace("stage 1 result: shared variables written after initialisation", wl)
	reportReach()
	if len(wl) == 0 {
		chk.Note("no operation writes any package-level state: all operations are independent; stage 2 runs every thread order (non-preemptive schedules) and re-validates that shared state stays unchanged")
	}
}

// reportReach states what the operation alphabet reaches: which package-level variables some
// operation can touch, and which functions of the library no operation executes. A change that
// gives shared state to a function outside the alphabet is invisible to stages 2 and 3; the list
// is the measure of that blind spot (evidence only, never a violation).
func reportReach() {
	touched := map[int]bool{}
	hit := map[uint32]bool{}
	for _, t := range solo {
		for _, r := range t.Accessed {
			touched[r] = true
		}
		for _, r := range t.Changed {
			touched[r] = true
		}
		for _, s := range t.Sites {
			hit[s] = true
		}
	}
	var untouched []string
	for i := range roots {
		if !touched[i] {
			untouched = append(untouched, rootNames([]int{i})[0])
		}
	}
	sort.Strings(untouched)
	type fc struct{ total, hit int }
	funcs := map[string]*fc{}
	pk := map[string]*fc{}
	for i, f := range siteFuncs {
		if i == 0 || f == "" {
			continue
		}
		p := f
		if k := strings.Index(f, "."); k >= 0 {
			p = f[:k]
		}
		if funcs[f] == nil {
			funcs[f] = &fc{}
		}
		if pk[p] == nil {
			pk[p] = &fc{}
		}
		funcs[f].total++
		pk[p].total++
		if hit[uint32(i)] {
			funcs[f].hit++
			pk[p].hit++
		}
	}
	var dead []string
	reached := 0
	for f, c := range funcs {
		if c.hit == 0 {
			dead = append(dead, f)
		} else {
			reached++
		}
	}
	sort.Strings(dead)
	per := map[string]string{}
	stmts, hits := 0, 0
	for p, c := range pk {
		name := p
		if name == "" {
			name = "(root)"
		}
		per[name] = fmt.Sprintf("%d of %d statements", c.hit, c.total)
		stmts += c.total
		hits += c.hit
	}
	chk.Subspace("reach of the operation alphabet (stage 1 traces)", map[string]interface{}{
		"package_level_variables_no_operation_touches": untouched,
		"functions_reached":                            fmt.Sprintf("%d of %d", reached, len(funcs)),
		"statements_reached":                           fmt.Sprintf("%d of %d", hits, stmts),
		"statements_by_package":                        per,
		"functions_no_operation_executes":              dead,
	})
}

// ------------------------------------------------------------------ stage 2

// interesting returns the shared variables through which two DIFFERENT threads of the scenario
// can conflict: written (even transiently) by an operation of one thread and accessed or written
// by an operation of another. If there is none, the threads are independent at every statement.
func interesting(s scenario) []int {
	type sets struct{ w, a map[int]bool }
	per := make([]sets, len(s.Threads))
	for ti, t := range s.Threads {
		per[ti] = sets{map[int]bool{}, map[int]bool{}}
		for _, o := range t {
			for _, r := range solo[o].Changed {
				per[ti].w[r] = true
				per[ti].a[r] = true
			}
			for _, r := range solo[o].Accessed {
				per[ti].a[r] = true
			}
		}
	}
	set := map[int]bool{}
	for ti := range per {
		for tj := range per {
			if ti == tj {
				continue
			}
			for r := range per[ti].w {
				if per[tj].a[r] {
					set[r] = true
				}
			}
		}
	}
	var ids []int
	for r := range set {
		ids = append(ids, r)
	}
	sort.Ints(ids)
	return ids
}

// judge compares one execution with the solo results.
func judge(s scenario, o runOut, choices []int, l *mc.Local) bool {
	ok := true
	if o.Deadlock != "" {
		chk.Violation("C18/deadlock/"+classify(s), fmt.Sprintf("%s: %s (schedule %v)", s.name(), o.Deadlock, choices), replayCase{s.name(), s.Threads, choices, o.Deadlock})
		return false
	}
	if len(o.Panics) > 0 {
		chk.Violation("C18/panic-under-schedule/"+classify(s), fmt.Sprintf("%s: %s (schedule %v)", s.name(), strings.Join(o.Panics, "; "), choices), replayCase{s.name(), s.Threads, choices, strings.Join(o.Panics, "; ")})
		ok = false
	}
	for ti, seq := range s.Threads {
		for k, op := range seq {
			if ti < len(o.Results) && k < len(o.Results[ti]) && o.Results[ti][k] != solo[op].Result {
				d := fmt.Sprintf("%s: thread %d call %d (%s) returned %.160q, alone it returns %.160q (schedule %v)", s.name(), ti, k, opNames[op], o.Results[ti][k], solo[op].Result, choices)
				chk.Violation("C18/result-differs/"+opNames[op], d, replayCase{s.name(), s.Threads, choices, d})
				ok = false
			}
		}
	}
	for k, op := range s.epilogue() {
		if k < len(o.Epilogue) && o.Epilogue[k] != solo[op].Result {
			d := fmt.Sprintf("%s: after the concurrent phase a sequential %s returned %.160q, alone it returns %.160q (schedule %v)", s.name(), opNames[op], o.Epilogue[k], solo[op].Result, choices)
			chk.Violation("C18/result-differs-afterwards/"+opNames[op], d, replayCase{s.name(), s.Threads, choices, d})
			ok = false
		}
	}
	l.Distinct("outcomes", fmt.Sprint(o.Results))
	return ok
}

func classify(s scenario) string {
	var n []string
	seen := map[string]bool{}
	for _, t := range s.Threads {
		for _, o := range t {
			if !seen[opNames[o]] {
				seen[opNames[o]] = true
				n = append(n, opNames[o])
			}
		}
	}
	sort.Strings(n)
	return strings.Join(n, "+")
}

func choicesOf(pts []point) []int {
	c := make([]int, len(pts))
	for i, p := range pts {
		c[i] = p.C
	}
	return c
}

func stage2() {
	var scen []scenario
	n := len(opNames)
	for a := 0; a < n; a++ {
		for b := a; b < n; b++ {
			scen = append(scen, scenario{[][]int{{a}, {b}}})
		}
	}
	sub := []int{}
	for i := 0; i < n && len(sub) < chk.Pick(8, 12); i += n / chk.Pick(8, 12) {
		sub = append(sub, i)
	}
	for x := 0; x < len(sub); x++ {
		for y := x; y < len(sub); y++ {
			for z := y; z < len(sub); z++ {
				scen = append(scen, scenario{[][]int{{sub[x]}, {sub[y]}, {sub[z]}}})
			}
		}
	}
	var indep, dep []scenario
	for _, s := range scen {
		if len(interesting(s)) == 0 {
			indep = append(indep, s)
		} else {
			dep = append(dep, s)
		}
	}
	// independent scenarios: all thread orders, batched per process
	const batch = 12
	nb := (len(indep) + batch - 1) / batch
	chk.Range(fmt.Sprintf("stage 2a: %d scenarios whose operations write no shared state (all pairs a<=b as threads [a]||[b] followed by a sequential epilogue a,b; triples of a %d-operation sub-alphabet): every thread order (non-preemptive schedules), shared state re-hashed after every execution", len(indep), len(sub)), nb,
		func(i int) string { return fmt.Sprint("batch ", i) },
		func(l *mc.Local, i int) {
			var reqs []runReq
			var owner []scenario
			var orders [][]int
			for k := i * batch; k < (i+1)*batch && k < len(indep); k++ {
				s := indep[k]
				for _, ord := range threadOrders(len(s.Threads)) {
					reqs = append(reqs, runReq{Threads: s.Threads, Epilogue: s.epilogue(), Prefix: ord})
					owner = append(owner, s)
					orders = append(orders, ord)
				}
			}
			var outs []runOut
			if err := worker(map[string]interface{}{"mode": "runs", "runs": reqs}, &outs); err != nil {
				chk.Violation("C18/worker-died/"+classify(owner[0]), err.Error(), replayCase{Scenario: owner[0].name(), Threads: owner[0].Threads})
				return
			}
			for k, o := range outs {
				s := owner[k]
				l.Count("evaluations", 1)
				l.Count("states", int64(len(o.Points)))
				l.Count("transitions", o.Shared)
				l.Distinct("nontrivial", fmt.Sprint(s.Threads, orders[k]))
				judge(s, o, choicesOf(o.Points), l)
				// shared state may change only where some operation of the scenario changes it alone
				expected := map[int]bool{}
				for _, t := range s.Threads {
					for _, op := range t {
						for _, r := range solo[op].Changed {
							expected[r] = true
						}
					}
				}
				var unexpected []int
				for _, r := range o.Changed {
					if !expected[r] {
						unexpected = append(unexpected, r)
					}
				}
				if len(unexpected) > 0 {
					d := fmt.Sprintf("%s: shared variables %v changed although no operation of the scenario changes them when run alone (order %v)", s.name(), rootNames(unexpected), orders[k])
					chk.Violation("C18/shared-write/"+strings.Join(rootNames(unexpected), ","), d, replayCase{s.name(), s.Threads, orders[k], d})
				}
			}
		})
	chk.Sample("independent scenario", map[string]interface{}{"threads": "[qr-w-v1] || [dm-r-located], then sequentially qr-w-v1, dm-r-located", "schedules": "thread 0 first; thread 1 first"})
	if len(dep) == 0 {
		chk.Subspace("stage 2b: scenarios with shared writes", "none on this tree")
		return
	}
	exploreDependent(dep)
}

func threadOrders(n int) [][]int {
	// choices at the initial point and at each thread end: all permutations
	if n == 2 {
		return [][]int{{0}, {1}}
	}
	var out [][]int
	for a := 0; a < 3; a++ {
		for b := 0; b < 2; b++ {
			out = append(out, []int{a, b})
		}
	}
	return out
}

// exploreDependent: stateless exploration with ITERATIVE preemption bounding (all schedules with 0
// preemptions, then 1, then 2 ...), one fresh process per execution.
func exploreDependent(dep []scenario) {
	K := chk.Pick(2, 3)
	maxPoints := chk.Pick(300, 1200)
	perScenario := chk.Pick(1200, 40000)
	sort.SliceStable(dep, func(i, j int) bool { return len(dep[i].Threads) < len(dep[j].Threads) })
	stage2bDeadline := time.Now().Add(time.Duration(chk.Pick(60, 1200)) * time.Second)
	chk.Range(fmt.Sprintf("stage 2b: %d scenarios in which one thread writes a shared variable that another accesses: all schedules with 0, then 1, ... up to %d preemptions at the statements that can access those variables (point cap %d, execution cap %d per scenario), fresh process per execution", len(dep), K, maxPoints, perScenario), len(dep),
		func(i int) string { return dep[i].name() },
		func(l *mc.Local, i int) {
			s := dep[i]
			I := interesting(s)
			levels := make([][][]int, K+1) // pending prefixes by number of preemptions
			levels[0] = [][]int{nil}
			execs := 0
			failed := false
			completed := -1
			capHits := 0
		outer:
			for b := 0; b <= K; b++ {
				for len(levels[b]) > 0 {
					if execs >= perScenario || chk.Expired() || time.Now().After(stage2bDeadline) {
						chk.Incomplete("stage 2b "+s.name(), fmt.Sprintf("stopped after %d executions inside preemption bound %d", execs, b))
						break outer
					}
					prefix := levels[b][len(levels[b])-1]
					levels[b] = levels[b][:len(levels[b])-1]
					var outs []runOut
					l.Beat(s.name())
					err := worker(map[string]interface{}{"mode": "runs", "runs": []runReq{{Threads: s.Threads, Epilogue: s.epilogue(), Prefix: prefix, Interesting: I, MaxPoints: maxPoints}}}, &outs)
					if err == errHung {
						chk.Incomplete("stage 2b "+s.name(), fmt.Sprintf("worker hung under schedule %v (blocking or spinning outside the primitives the scheduler models); left to the race pass", prefix))
						break outer
					}
					if err != nil || len(outs) != 1 {
						chk.Violation("C18/worker-died/"+classify(s), fmt.Sprintf("%s under schedule %v: %v", s.name(), prefix, err), replayCase{s.name(), s.Threads, prefix, "worker died"})
						failed = true
						break outer
					}
					o := outs[0]
					execs++
					l.Count("evaluations", 1)
					l.Count("states", 1)
					l.Count("transitions", int64(len(o.Points)))
					l.Distinct("nontrivial", fmt.Sprint(s.Threads, choicesOf(o.Points)))
					if o.Diverged != "" {
						chk.Note("replay divergence (nondeterministic control flow) in " + s.name() + ": " + o.Diverged)
						l.Count("diverged", 1)
						continue
					}
					if o.CapHit {
						capHits++
					}
					if !judge(s, o, choicesOf(o.Points), l) {
						var again []runOut
						if err := worker(map[string]interface{}{"mode": "runs", "runs": []runReq{{Threads: s.Threads, Epilogue: s.epilogue(), Prefix: choicesOf(o.Points), Interesting: I, MaxPoints: maxPoints}}}, &again); err == nil && len(again) == 1 {
							if fmt.Sprint(again[0].Results) != fmt.Sprint(o.Results) {
								chk.Note("failure in " + s.name() + " did not reproduce identically on replay")
							}
						}
						failed = true
						break outer
					}
					// children: one more deviation after the end of the replayed prefix
					pre := 0
					for idx, p := range o.Points {
						runningEnabled := p.T >= 0 && len(p.E) > 0 && p.E[0] == p.T
						if idx >= len(prefix) {
							cost := pre
							if runningEnabled {
								cost++
							}
							if cost <= K {
								for alt := 1; alt < len(p.E); alt++ {
									child := append(append([]int{}, choicesOf(o.Points[:idx])...), alt)
									levels[cost] = append(levels[cost], child)
								}
							}
						}
						if runningEnabled && p.C != 0 {
							pre++
						}
					}
				}
				completed = b
			}
			if !failed {
				l.Count(fmt.Sprintf("scenarios_completed_bound_%d", completed), 1)
			}
			chk.Subspace("stage 2b "+s.name(), map[string]interface{}{"executions": execs, "shared_variables": rootNames(I), "preemption_bound_completed": completed, "executions_that_hit_the_point_cap": capHits})
		})
}

// ------------------------------------------------------------------ stage 3

func stage3() {
	n := len(opNames)
	type job struct{ a, b, k, pro int }
	var jobs []job
	ks := []int{4}
	reps := 1
	if !chk.Quick() {
		ks = []int{2, 8, 16}
		reps = 2
	}
	for a := 0; a < n; a++ {
		for b := a; b < n; b++ {
			if chk.Quick() {
				// every operation with itself, its neighbour, and every other operation of the same
				// family (same name prefix up to the first '-'): families share tables and helpers;
				fam := strings.SplitN(opNames[a], "-", 2)[0]
				same := fam == strings.SplitN(opNames[b], "-", 2)[0]
				if same { // a sliding window of the next six operations of the family (the thorough tier runs all pairs)
					between := 0
					for x := a + 1; x < b; x++ {
						if strings.SplitN(opNames[x], "-", 2)[0] == fam {
							between++
						}
					}
					same = between < 6
				}
				if !(b == a || b == a+1 || same || b == (a+11)%n) {
					continue
				}
			}
			for _, k := range ks {
				jobs = append(jobs, job{a, b, k, -1})
			}
		}
	}
	// prologues: an operation that ends in an error exit runs first, sequentially; then the
	// goroutines. Failure exits have their own clean-up code; state they leave behind (a buffer
	// released twice, a half-built cache) only shows under the concurrency that follows. The
	// prologue is paired with every operation that executes library code (outside the root
	// package) that the prologue also executes (quick), or with every operation (thorough).
	nPro := 0
	for p := 0; p < n; p++ {
		if !strings.HasPrefix(opNames[p], "fail-") {
			continue
		}
		pf := map[string]bool{}
		for _, st := range solo[p].Sites {
			if int(st) < len(siteFuncs) && strings.Contains(siteFuncs[st], "/") || int(st) < len(siteFuncs) && strings.HasPrefix(siteFuncs[st], "common.") {
				pf[siteFuncs[st]] = true
			}
		}
		for a := 0; a < n; a++ {
			if strings.HasPrefix(opNames[a], "fail-") && a != p {
				continue
			}
			related := !chk.Quick()
			for _, st := range solo[a].Sites {
				if int(st) < len(siteFuncs) && pf[siteFuncs[st]] {
					related = true
					break
				}
			}
			if related {
				jobs = append(jobs, job{a, a, 4, p})
				nPro++
			}
		}
	}
	chk.Range(fmt.Sprintf("stage 3: free-running race-detector pass, %d of the jobs with a sequential PROLOGUE (one of the operations that end in an error exit) before the goroutines start,", nPro)+fmt.Sprintf("  %d (pair, goroutine count) jobs over goroutine counts %v x %d repetitions, one COLD process per job (no warm-up: lazily built state is built concurrently), each goroutine calling its operation twice, then a sequential epilogue", len(jobs), ks, reps), len(jobs),
		func(i int) string {
			return fmt.Sprint("race ", opNames[jobs[i].a], " ", opNames[jobs[i].b], " k=", jobs[i].k, " prologue=", jobs[i].pro)
		},
		func(l *mc.Local, i int) {
			j := jobs[i]
			ctx, cancel := context.WithTimeout(context.Background(), 600*time.Second)
			defer cancel()
			args := []string{fmt.Sprint(j.a), fmt.Sprint(j.b), fmt.Sprint(j.k), fmt.Sprint(reps)}
			proName := ""
			if j.pro >= 0 {
				args = append(args, fmt.Sprint(j.pro))
				proName = " after the sequential prologue " + opNames[j.pro]
			}
			cmd := exec.CommandContext(ctx, racerBin, args...)
			var so, se bytes.Buffer
			cmd.Stdout, cmd.Stderr = &so, &se
			cmd.Env = append(os.Environ(), "GORACE=halt_on_error=1 exitcode=66", "GOMAXPROCS=4")
			l.Beat("racer " + opNames[j.a] + " " + opNames[j.b])
			err := cmd.Run()
			l.Count("evaluations", 1)
			l.Distinct("nontrivial", fmt.Sprint("race", j))
			pairName := opNames[j.a] + "+" + opNames[j.b]
			if err != nil {
				errs := se.String()
				if strings.Contains(errs, "DATA RACE") {
					rep := errs[strings.Index(errs, "WARNING: DATA RACE"):]
					if len(rep) > 3000 {
						rep = rep[:3000]
					}
					site := raceSite(rep)
					d := fmt.Sprintf("data race while running %s concurrently with %s on %d goroutines%s, at %s", opNames[j.a], opNames[j.b], j.k, proName, site)
					chk.Violation("C18/data-race/"+site, d, replayCase{Scenario: opNames[j.a] + " || " + opNames[j.b], Detail: rep})
					return
				}
				if ctx.Err() != nil {
					chk.Incomplete("stage 3 "+pairName, "race-pass process exceeded 600 s")
					return
				}
				tail := errs
				if len(tail) > 2000 {
					tail = tail[len(tail)-2000:]
				}
				chk.Violation("C18/racer-died/"+pairName, fmt.Sprintf("race-pass process died (%v): %s", err, tail), replayCase{Scenario: pairName, Detail: tail})
				return
			}
			sc := bufio.NewScanner(&so)
			sc.Buffer(make([]byte, 1<<20), 1<<20)
			done := false
			for sc.Scan() {
				var which int
				var r1, r2 string
				if sc.Text() == "DONE" {
					done = true
				}
				if c, _ := fmt.Sscanf(sc.Text(), "PRO %q", &r1); c == 1 && j.pro >= 0 && r1 != solo[j.pro].Result {
					d := fmt.Sprintf("prologue %s returned %.160q in the race-pass build, alone (instrumented build) it returns %.160q", opNames[j.pro], r1, solo[j.pro].Result)
					chk.Violation("C18/free-running-result-differs/"+opNames[j.pro], d, replayCase{Scenario: d})
				}
				if c, _ := fmt.Sscanf(sc.Text(), "RES %d %q %q", &which, &r1, &r2); c == 3 {
					op := j.a
					if which == 1 {
						op = j.b
					}
					for _, r := range []string{r1, r2} {
						if r != solo[op].Result {
							d := fmt.Sprintf("free-running %s with %s on %d goroutines%s: %s returned %.160q, alone it returns %.160q", opNames[j.a], opNames[j.b], j.k, proName, opNames[op], r, solo[op].Result)
							chk.Violation("C18/free-running-result-differs/"+opNames[op], d, replayCase{Scenario: d})
						}
					}
				}
			}
			if !done {
				chk.Violation("C18/racer-died/"+pairName, "race-pass process ended without completing", replayCase{Scenario: pairName})
			}
		})
}

// raceSite extracts the first library frame of a race report.
func raceSite(rep string) string {
	for _, ln := range strings.Split(rep, "\n") {
		ln = strings.TrimSpace(ln)
		if strings.HasPrefix(ln, "github.com/makiuchi-d/gozxing") {
			ln = strings.TrimSuffix(ln, "()")
			return strings.TrimPrefix(ln, "github.com/makiuchi-d/gozxing/")
		}
	}
	return "unknown"
}

// ------------------------------------------------------------------ replay

func replay() {
	var rc replayCase
	if err := mc.LoadReplay(chk.ReplayFile(), &rc); err != nil || len(rc.Threads) == 0 {
		fmt.Println("replay file has no schedule to re-execute (race reports are re-run through stage 3)")
		return
	}
	solo = make([]traceOut, len(opNames))
	var wg sync.WaitGroup
	need := map[int]bool{}
	for _, t := range rc.Threads {
		for _, o := range t {
			need[o] = true
		}
	}
	for o := range need {
		wg.Add(1)
		go func(o int) {
			defer wg.Done()
			worker(map[string]interface{}{"mode": "trace", "op": o, "hashEvery": 200}, &solo[o])
		}(o)
	}
	wg.Wait()
	s := scenario{rc.Threads}
	var outs []runOut
	start := time.Now()
	err := worker(map[string]interface{}{"mode": "runs", "runs": []runReq{{Threads: s.Threads, Epilogue: s.epilogue(), Prefix: rc.Choices, Interesting: interesting(s), MaxPoints: 5000}}}, &outs)
	fmt.Printf("replay %s schedule %v: err=%v (%.2fs)\n", s.name(), rc.Choices, err, time.Since(start).Seconds())
	if err == nil && len(outs) == 1 {
		l := chk.NewLocal()
		judge(s, outs[0], rc.Choices, l)
		l.Count("evaluations", 1)
		l.Count("states", 1)
		l.Count("transitions", int64(len(outs[0].Points)))
		l.Merge()
		for ti, r := range outs[0].Results {
			fmt.Printf("  thread %d results %.300q\n", ti, r)
		}
	}
}
