package ops

// Sibling tiles: bitmaps that the LIBRARY derived (BinaryBitmap.Crop) from ONE parent bitmap before
// the goroutines start - an image cut into bands that are then read in parallel, each goroutine with
// its own band and its own reader. The bands are distinct objects handed out by the library; whatever
// work memory they still share with their parent or with each other is library-level shared state.
// The parent uses the global-histogram binariser and has been binarised itself (row and matrix)
// before the bands are cut. The bands are cut during preparation, never by a running operation (a
// running operation touches only its own band), and are handed out through a free list so that no
// band is ever in the hands of two operations at once.

import (
	"fmt"
	"image"

	"github.com/makiuchi-d/gozxing"
	"github.com/makiuchi-d/gozxing/oned"
)

const tilesPerKind = 192

var tileFree = [2]chan *gozxing.BinaryBitmap{
	make(chan *gozxing.BinaryBitmap, tilesPerKind),
	make(chan *gozxing.BinaryBitmap, tilesPerKind),
}

func init() {
	builders["sibling-tiles"] = func() *image.Gray {
		PrepareKey("ean13-tall")
		g := cloneGray(imgs["ean13-tall"])
		w, h := g.Rect.Dx(), g.Rect.Dy()
		parent, e := gozxing.NewBinaryBitmap(gozxing.NewGlobalHistgramBinarizer(gozxing.NewLuminanceSourceFromImage(g)))
		if e != nil {
			panic("ops: sibling tiles: " + e.Error())
		}
		if _, e := parent.GetBlackRow(h/2, nil); e != nil {
			panic("ops: sibling tiles: " + e.Error())
		}
		if _, e := parent.GetBlackMatrix(); e != nil {
			panic("ops: sibling tiles: " + e.Error())
		}
		for i := 0; i < tilesPerKind; i++ {
			a, e1 := parent.Crop(0, 0, w, h/2)
			b, e2 := parent.Crop(2, h/2, w-4, h-h/2)
			if e1 != nil || e2 != nil {
				panic("ops: sibling tiles: crop refused")
			}
			tileFree[0] <- a
			tileFree[1] <- b
		}
		return image.NewGray(image.Rect(0, 0, 1, 1))
	}
	needs["lum-sibling-band-read"] = []string{"sibling-tiles"}
	needs["lum-sibling-band-read-twin"] = []string{"sibling-tiles"}
}

// readBand reads one band of the given kind with a fresh reader and returns the band afterwards.
func readBand(kind int) string {
	t := <-tileFree[kind]
	defer func() { tileFree[kind] <- t }()
	var s string
	for y := 0; y < t.GetHeight(); y += 3 {
		row, e := t.GetBlackRow(y, nil)
		if e != nil {
			s += errKind(e) + ";"
			continue
		}
		s += hashRow(row) + ";"
	}
	return s + result(oned.NewEAN13Reader().Decode(t, nil))
}

func hashRow(r *gozxing.BitArray) string {
	h := uint64(1469598103934665603)
	for _, w := range r.GetBitArray() {
		h = (h ^ uint64(w)) * 1099511628211
	}
	return fmt.Sprintf("%d:%x", r.GetSize(), h)
}
