// Package ops is the operation alphabet of the C18 harness: every entry performs one write or
// one read of one symbology / configuration class on PRIVATE reader and writer instances and
// returns a canonical observation string. The same bodies are used by the controlled-scheduler
// worker (instrumented library) and by the free-running race pass (plain library, -race).
package ops

import (
	"fmt"
	"hash/fnv"
	"image"
	"image/color"
	_ "image/png"
	"os"
	"sort"
	"strings"

	refaztec "verif/ref/aztec"
	refoned "verif/ref/oned"
	refqr "verif/ref/qr"

	"github.com/makiuchi-d/gozxing"
	"github.com/makiuchi-d/gozxing/aztec"
	azdec "github.com/makiuchi-d/gozxing/aztec/decoder"
	"github.com/makiuchi-d/gozxing/common"
	"github.com/makiuchi-d/gozxing/common/reedsolomon"
	"github.com/makiuchi-d/gozxing/datamatrix"
	dmdec "github.com/makiuchi-d/gozxing/datamatrix/decoder"
	dmenc "github.com/makiuchi-d/gozxing/datamatrix/encoder"
	multiqr "github.com/makiuchi-d/gozxing/multi/qrcode"
	"github.com/makiuchi-d/gozxing/oned"
	"github.com/makiuchi-d/gozxing/oned/rss"
	"github.com/makiuchi-d/gozxing/qrcode"
	qrdec "github.com/makiuchi-d/gozxing/qrcode/decoder"
)

type Op struct {
	Name  string
	Run   func() string
	Needs []string // keys of the input images the operation reads
}

type H = map[gozxing.EncodeHintType]interface{}
type D = map[gozxing.DecodeHintType]interface{}

func hashM(m *gozxing.BitMatrix) string {
	h := fnv.New64a()
	for y := 0; y < m.GetHeight(); y++ {
		for _, w := range m.GetRow(y, nil).GetBitArray() {
			h.Write([]byte{byte(w), byte(w >> 8), byte(w >> 16), byte(w >> 24)})
		}
	}
	return fmt.Sprintf("%dx%d:%x", m.GetWidth(), m.GetHeight(), h.Sum64())
}

func errKind(e error) string {
	s := fmt.Sprintf("%T", e)
	msg := e.Error()
	if i := strings.Index(msg, "\n"); i >= 0 {
		msg = msg[:i] // no stack frames: the text must be the same in the instrumented and the plain build
	}
	return "ERR(" + s + ":" + msg + ")"
}

func write(w gozxing.Writer, c string, f gozxing.BarcodeFormat, wd, ht int, h H) string {
	m, e := w.Encode(c, f, wd, ht, h)
	if e != nil {
		return errKind(e)
	}
	return hashM(m)
}

func gray(m *gozxing.BitMatrix, scale, pad int) *image.Gray {
	w, h := m.GetWidth()*scale+2*pad, m.GetHeight()*scale+2*pad
	g := image.NewGray(image.Rect(0, 0, w, h))
	for i := range g.Pix {
		g.Pix[i] = 255
	}
	for y := 0; y < m.GetHeight(); y++ {
		for x := 0; x < m.GetWidth(); x++ {
			if m.Get(x, y) {
				for dy := 0; dy < scale; dy++ {
					for dx := 0; dx < scale; dx++ {
						g.SetGray(pad+x*scale+dx, pad+y*scale+dy, color.Gray{0})
					}
				}
			}
		}
	}
	return g
}

func result(r *gozxing.Result, e error) string {
	if e != nil {
		return errKind(e)
	}
	md := r.GetResultMetadata()
	var keys []int
	for k := range md {
		keys = append(keys, int(k))
	}
	sort.Ints(keys)
	var sb strings.Builder
	fmt.Fprintf(&sb, "%q|%v|raw%d", r.GetText(), r.GetBarcodeFormat(), len(r.GetRawBytes()))
	for _, k := range keys {
		fmt.Fprintf(&sb, "|%d=%v", k, md[gozxing.ResultMetadataType(k)])
	}
	return sb.String()
}

func read(rd gozxing.Reader, img image.Image, h D) string {
	bmp, e := gozxing.NewBinaryBitmapFromImage(img)
	if e != nil {
		return errKind(e)
	}
	return result(rd.Decode(bmp, h))
}

func cloneGray(g *image.Gray) *image.Gray {
	c := image.NewGray(g.Rect)
	copy(c.Pix, g.Pix)
	return c
}

// inputs prepared once per process, before any controlled or concurrent execution
var (
	imgs = map[string]*image.Gray{}
)

func must(m *gozxing.BitMatrix, e error) *gozxing.BitMatrix {
	if e != nil {
		panic("ops.Prepare: " + e.Error())
	}
	return m
}

func loadPNG(path string) *image.Gray {
	f, err := os.Open(path)
	if err != nil {
		return nil
	}
	defer f.Close()
	im, _, err := image.Decode(f)
	if err != nil {
		return nil
	}
	b := im.Bounds()
	g := image.NewGray(image.Rect(0, 0, b.Dx(), b.Dy()))
	for y := 0; y < b.Dy(); y++ {
		for x := 0; x < b.Dx(); x++ {
			g.Set(x, y, im.At(b.Min.X+x, b.Min.Y+y))
		}
	}
	return g
}

// builders of the private input images of the read operations, by key
var builders = map[string]func() *image.Gray{}

func init() {
	qw := func() gozxing.Writer { return qrcode.NewQRCodeWriter() }
	builders["qr-pure"] = func() *image.Gray {
		return gray(must(qw().Encode("HELLO WORLD 123", gozxing.BarcodeFormat_QR_CODE, 0, 0, nil)), 1, 0)
	}
	builders["qr-loc"] = func() *image.Gray {
		return gray(must(qw().Encode("located symbol, level Q", gozxing.BarcodeFormat_QR_CODE, 0, 0, H{gozxing.EncodeHintType_ERROR_CORRECTION: qrdec.ErrorCorrectionLevel_Q})), 4, 13)
	}
	builders["qr-v7"] = func() *image.Gray {
		return gray(must(qw().Encode(strings.Repeat("version seven ", 9), gozxing.BarcodeFormat_QR_CODE, 0, 0, nil)), 3, 5)
	}
	builders["qr-eci"] = func() *image.Gray {
		return gray(must(qw().Encode("日本語とéß", gozxing.BarcodeFormat_QR_CODE, 0, 0, H{gozxing.EncodeHintType_CHARACTER_SET: "UTF-8"})), 2, 6)
	}
	builders["qr-kanji"] = func() *image.Gray {
		return gray(must(qw().Encode("漢字点茗", gozxing.BarcodeFormat_QR_CODE, 0, 0, H{gozxing.EncodeHintType_CHARACTER_SET: "Shift_JIS"})), 2, 6)
	}
	// twins of the read inputs: the same shape (version, size, length), another content
	builders["qr-pure-twin"] = func() *image.Gray {
		return gray(must(qw().Encode("WORLD HELLO 321", gozxing.BarcodeFormat_QR_CODE, 0, 0, nil)), 1, 0)
	}
	builders["qr-kanji-twin"] = func() *image.Gray {
		return gray(must(qw().Encode("茗点字漢", gozxing.BarcodeFormat_QR_CODE, 0, 0, H{gozxing.EncodeHintType_CHARACTER_SET: "Shift_JIS"})), 2, 6)
	}
	dw := func() gozxing.Writer { return datamatrix.NewDataMatrixWriter() }
	builders["dm-pure-twin"] = func() *image.Gray {
		return gray(must(dw().Encode("Matrix Data 9876543210", gozxing.BarcodeFormat_DATA_MATRIX, 0, 0, nil)), 1, 0)
	}
	builders["dm-pure"] = func() *image.Gray {
		return gray(must(dw().Encode("Data Matrix 0123456789", gozxing.BarcodeFormat_DATA_MATRIX, 0, 0, nil)), 1, 0)
	}
	builders["dm-loc"] = func() *image.Gray {
		return gray(must(dw().Encode("located data matrix", gozxing.BarcodeFormat_DATA_MATRIX, 0, 0, nil)), 4, 12)
	}
	builders["dm-rect"] = func() *image.Gray {
		return gray(must(dw().Encode("RECT1", gozxing.BarcodeFormat_DATA_MATRIX, 0, 0, H{gozxing.EncodeHintType_DATA_MATRIX_SHAPE: dmenc.SymbolShapeHint_FORCE_RECTANGLE})), 4, 12)
	}
	// 1-D symbols are ONE pixel row high unless stated: a corrupted row decode is then visible in
	// the result instead of being masked by the reader trying the next row
	one := func(key string, w func() gozxing.Writer, f gozxing.BarcodeFormat, c string, height int) {
		builders[key] = func() *image.Gray {
			return gray(must(w().Encode(c, f, 0, height, H{gozxing.EncodeHintType_MARGIN: 20})), 1, 0)
		}
	}
	one("ean13", oned.NewEAN13Writer, gozxing.BarcodeFormat_EAN_13, "590123412345", 1)
	one("ean13-twin", oned.NewEAN13Writer, gozxing.BarcodeFormat_EAN_13, "400638133393", 1)
	one("code128-twin", oned.NewCode128Writer, gozxing.BarcodeFormat_CODE_128, "Twin128 0987654321", 1)
	one("ean13-tall", oned.NewEAN13Writer, gozxing.BarcodeFormat_EAN_13, "590123412345", 15)
	one("ean8", oned.NewEAN8Writer, gozxing.BarcodeFormat_EAN_8, "9638507", 1)
	one("upca", oned.NewUPCAWriter, gozxing.BarcodeFormat_UPC_A, "03600029145", 1)
	one("upce", oned.NewUPCEWriter, gozxing.BarcodeFormat_UPC_E, "04252614", 1)
	one("code39", oned.NewCode39Writer, gozxing.BarcodeFormat_CODE_39, "CODE-39 X", 1)
	one("code39ext", oned.NewCode39Writer, gozxing.BarcodeFormat_CODE_39, "+A+B/A", 1)
	one("code93", oned.NewCode93Writer, gozxing.BarcodeFormat_CODE_93, "Code93a", 1)
	one("code128", oned.NewCode128Writer, gozxing.BarcodeFormat_CODE_128, "Code128 1234567890", 1)
	one("itf", oned.NewITFWriter, gozxing.BarcodeFormat_ITF, "12345678901234", 1)
	one("codabar", oned.NewCodaBarWriter, gozxing.BarcodeFormat_CODABAR, "A12345B", 1)
	builders["ean13+5"] = func() *image.Gray {
		return refoned.Image(refoned.WithAddOn(refoned.EAN13("5901234123457"), refoned.AddOn5("52495"), 9), 1, 12, 12, 1)
	}
	// 5-digit add-ons with the price codes that have a meaning of their own (90000 = no price,
	// 99990 = used, 99991 = complimentary) and the three currency prefixes, on two main symbols with
	// and without a known country prefix
	for _, v := range []string{"90000", "99990", "99991", "01299", "51299", "99999"} {
		v := v
		builders["ean13+5="+v] = func() *image.Gray {
			return refoned.Image(refoned.WithAddOn(refoned.EAN13("4901234567894"), refoned.AddOn5(v), 9), 1, 12, 12, 1)
		}
		builders["isbn+5="+v] = func() *image.Gray {
			return refoned.Image(refoned.WithAddOn(refoned.EAN13("9780306406157"), refoned.AddOn5(v), 9), 1, 12, 12, 1)
		}
	}
	builders["ean13+2"] = func() *image.Gray {
		return refoned.Image(refoned.WithAddOn(refoned.EAN13("5901234123457"), refoned.AddOn2("12"), 9), 1, 12, 12, 1)
	}
	builders["upca+5"] = func() *image.Gray {
		return refoned.Image(refoned.WithAddOn(refoned.UPCA("036000291452"), refoned.AddOn5("01999"), 9), 1, 12, 12, 1)
	}
	builders["ean8+2-wrong"] = func() *image.Gray {
		return refoned.Image(refoned.WithAddOn(refoned.EAN8("96385074"), refoned.AddOn2WithParity("12", [2]bool{true, true}), 9), 1, 12, 12, 1)
	}
	builders["code39chk"] = func() *image.Gray {
		m, err := refoned.Code39("CODE39"+string(refoned.Code39Check("CODE39")), 2)
		if err != nil {
			panic(err)
		}
		return refoned.Image(m, 1, 12, 12, 1)
	}
	one("code128gs1", oned.NewCode128Writer, gozxing.BarcodeFormat_CODE_128, "\u00f10112345678901231", 1)
	one("itf6", oned.NewITFWriter, gozxing.BarcodeFormat_ITF, "123456", 1)
	builders["dm-macro"] = func() *image.Gray {
		return gray(must(dw().Encode("[)>\x1e05\x1dMACRO TEXT 123\x1e\x04", gozxing.BarcodeFormat_DATA_MATRIX, 0, 0, nil)), 3, 9)
	}
	builders["qr-gs1"] = func() *image.Gray {
		return gray(must(qw().Encode("0112345678901231", gozxing.BarcodeFormat_QR_CODE, 0, 0, H{gozxing.EncodeHintType_GS1_FORMAT: true})), 3, 12)
	}
	for _, cs := range []struct{ key, charset, text string }{
		{"qr-utf16be", "UTF-16BE", "日本語ΩЖ é"}, {"qr-gb18030", "GB18030", "汉字编码 gb"}, {"qr-euckr", "EUC-KR", "한글 테스트"},
		{"qr-big5", "Big5", "繁體中文"}, {"qr-sjis-byte", "Shift_JIS", "ｶﾀｶﾅ and 漢字"}, {"qr-1251", "windows-1251", "Привет, мир"},
	} {
		cs := cs
		builders[cs.key] = func() *image.Gray {
			return gray(must(qw().Encode(cs.text, gozxing.BarcodeFormat_QR_CODE, 0, 0, H{gozxing.EncodeHintType_CHARACTER_SET: cs.charset})), 2, 8)
		}
	}
	builders["qr-v8"] = func() *image.Gray {
		return gray(must(qw().Encode(strings.Repeat("really version eight. ", 9), gozxing.BarcodeFormat_QR_CODE, 0, 0, H{gozxing.EncodeHintType_ERROR_CORRECTION: qrdec.ErrorCorrectionLevel_M})), 3, 12)
	}
	builders["qr-mirrored"] = func() *image.Gray {
		return transposeGray(gray(must(qw().Encode("mirrored symbol 42", gozxing.BarcodeFormat_QR_CODE, 0, 0, nil)), 3, 12))
	}
	builders["qr-mirrored-pure"] = func() *image.Gray {
		return transposeGray(gray(must(qw().Encode("mirrored symbol 42", gozxing.BarcodeFormat_QR_CODE, 0, 0, nil)), 1, 0))
	}
	builders["qr-two"] = func() *image.Gray {
		a := gray(must(qw().Encode("first of two", gozxing.BarcodeFormat_QR_CODE, 0, 0, nil)), 3, 12)
		b := gray(must(qw().Encode("second of two symbols", gozxing.BarcodeFormat_QR_CODE, 0, 0, H{gozxing.EncodeHintType_ERROR_CORRECTION: qrdec.ErrorCorrectionLevel_H})), 3, 12)
		g := image.NewGray(image.Rect(0, 0, a.Rect.Dx()+b.Rect.Dx()+20, imax(a.Rect.Dy(), b.Rect.Dy())))
		for i := range g.Pix {
			g.Pix[i] = 255
		}
		for y := 0; y < a.Rect.Dy(); y++ {
			copy(g.Pix[y*g.Stride:], a.Pix[y*a.Stride:y*a.Stride+a.Rect.Dx()])
		}
		for y := 0; y < b.Rect.Dy(); y++ {
			copy(g.Pix[y*g.Stride+a.Rect.Dx()+20:], b.Pix[y*b.Stride:y*b.Stride+b.Rect.Dx()])
		}
		return g
	}
	builders["dm-mixed"] = func() *image.Gray {
		return gray(must(dw().Encode("ABC>DEF*GHI\r123>*\r @@@@^^^^____ éééééééé\u00a0\u00ff end", gozxing.BarcodeFormat_DATA_MATRIX, 0, 0, nil)), 1, 0)
	}
	for i, n := range []int{3, 9, 14, 20, 30, 45, 60, 90, 130, 200} {
		n := n
		builders[fmt.Sprint("dm-size-", i)] = func() *image.Gray {
			return gray(must(dw().Encode(strings.Repeat("A1b", n)[:n+2], gozxing.BarcodeFormat_DATA_MATRIX, 0, 0, nil)), 1, 0)
		}
		builders[fmt.Sprint("dm-rsize-", i)] = func() *image.Gray {
			m, e := dw().Encode(strings.Repeat("Z9", n)[:imin(n+1, 40)], gozxing.BarcodeFormat_DATA_MATRIX, 0, 0, H{gozxing.EncodeHintType_DATA_MATRIX_SHAPE: dmenc.SymbolShapeHint_FORCE_RECTANGLE})
			if e != nil {
				return image.NewGray(image.Rect(0, 0, 8, 8))
			}
			return gray(m, 1, 0)
		}
	}
	builders["code128-sideways"] = func() *image.Gray {
		up := gray(must(oned.NewCode128Writer().Encode("Sideways 128", gozxing.BarcodeFormat_CODE_128, 0, 24, H{gozxing.EncodeHintType_MARGIN: 20})), 1, 3)
		r := transposeGray(up)
		return r
	}
	builders["aztec-c"] = func() *image.Gray {
		s, err := refaztec.EncodeAuto(refaztec.AutoEncode([]byte("Aztec compact")), 33)
		if err != nil {
			panic(err)
		}
		return refaztec.Render(s.Matrix, 4, 3, 0)
	}
	builders["aztec-f"] = func() *image.Gray {
		s, err := refaztec.EncodeBits(refaztec.AutoEncode([]byte(strings.Repeat("Full range Aztec symbol 0123456789. ", 6))), false, 9)
		if err != nil {
			panic(err)
		}
		return refaztec.Render(s.Matrix, 3, 3, 1)
	}
	builders["rss14"] = func() *image.Gray {
		if g := loadPNG("/repo/oned/rss/testdata/1_1.png"); g != nil {
			return g
		}
		return image.NewGray(image.Rect(0, 0, 8, 8))
	}
}

// Prepare builds every input image. It must run before any controlled or concurrent execution
// (the builders call the library's writers).
func Prepare() {
	for k := range builders {
		PrepareKey(k)
	}
}

// PrepareKey builds one input image.
func PrepareKey(k string) {
	if _, ok := imgs[k]; !ok {
		if b, ok := builders[k]; ok {
			imgs[k] = b()
		}
	}
}

// PrepareFor builds the inputs the named operations need.
func PrepareFor(all []Op, idx []int) {
	for _, i := range idx {
		for _, k := range all[i].Needs {
			PrepareKey(k)
		}
	}
}

func img(k string) *image.Gray {
	g := imgs[k]
	if g == nil {
		panic("ops: input image " + k + " was not prepared")
	}
	return cloneGray(g)
}

func rsRoundTrip(f *reedsolomon.GenericGF, k, r int, size int) string {
	w := make([]int, k+r)
	for i := 0; i < k; i++ {
		w[i] = (i*37 + 11) % size
	}
	if e := reedsolomon.NewReedSolomonEncoder(f).Encode(w, r); e != nil {
		return errKind(e)
	}
	c := append([]int{}, w...)
	for i := 0; i < r/2; i++ {
		c[(i*5)%(k+r)] ^= 1 + i%(size-1)
	}
	if e := reedsolomon.NewReedSolomonDecoder(f).Decode(c, r); e != nil {
		return "ERR(" + e.Error() + ")"
	}
	return fmt.Sprint(c[:4], c[k:k+2], fmt.Sprint(c) == fmt.Sprint(w))
}

// rsErrorSweep decodes every single-error pattern (position x magnitude) and every pair of
// magnitudes at positions 1 and k+1 (every eighth value for fields above 64) of one code word.
func rsErrorSweep(f *reedsolomon.GenericGF, k, r, size int) string {
	w := make([]int, k+r)
	for i := 0; i < k; i++ {
		w[i] = (i*29 + 7) % size
	}
	if e := reedsolomon.NewReedSolomonEncoder(f).Encode(w, r); e != nil {
		return errKind(e)
	}
	dec := reedsolomon.NewReedSolomonDecoder(f)
	good, bad := 0, 0
	try := func(c []int) {
		if e := dec.Decode(c, r); e == nil && fmt.Sprint(c) == fmt.Sprint(w) {
			good++
		} else {
			bad++
		}
	}
	for p := 0; p < k+r; p++ {
		for m := 1; m < size; m++ {
			c := append([]int{}, w...)
			c[p] ^= m
			try(c)
		}
	}
	step := 1
	if size > 64 {
		step = 8
	}
	for a := 1; a < size; a += step {
		for b := 1; b < size; b += step {
			c := append([]int{}, w...)
			c[1] ^= a
			c[k+1] ^= b
			try(c)
		}
	}
	return fmt.Sprint("restored ", good, " not restored ", bad)
}

// flipModules inverts the pixels of the given modules (x, y) of a symbol rendered with the given
// scale and quiet zone (in modules).
func flipModules(g *image.Gray, scale, quiet int, mods [][2]int) *image.Gray {
	for _, m := range mods {
		for dy := 0; dy < scale; dy++ {
			for dx := 0; dx < scale; dx++ {
				x, y := (m[0]+quiet)*scale+dx, (m[1]+quiet)*scale+dy
				if x < g.Rect.Dx() && y < g.Rect.Dy() {
					g.Pix[y*g.Stride+x] ^= 0xff
				}
			}
		}
	}
	return g
}

func imax(a, b int) int {
	if a > b {
		return a
	}
	return b
}

func imin(a, b int) int {
	if a < b {
		return a
	}
	return b
}

func transposeGray(g *image.Gray) *image.Gray {
	w, h := g.Rect.Dx(), g.Rect.Dy()
	t := image.NewGray(image.Rect(0, 0, h, w))
	for y := 0; y < h; y++ {
		for x := 0; x < w; x++ {
			t.Pix[x*t.Stride+y] = g.Pix[y*g.Stride+x]
		}
	}
	return t
}

type rowDecoder interface {
	DecodeRow(rowNumber int, row *gozxing.BitArray, hints map[gozxing.DecodeHintType]interface{}) (*gozxing.Result, error)
}

func decodeRow(rd gozxing.Reader, g *image.Gray) string {
	d, ok := rd.(rowDecoder)
	if !ok {
		return "ERR(no DecodeRow)"
	}
	row := gozxing.NewBitArray(g.Rect.Dx())
	for x := 0; x < g.Rect.Dx(); x++ {
		if g.Pix[x] < 128 {
			row.Set(x)
		}
	}
	return result(d.DecodeRow(0, row, nil))
}

func parseRoundTrip(w, h, step int) string {
	m, _ := gozxing.NewBitMatrix(w, h)
	for i := 0; i < w*h; i += step {
		m.Set(i%w, i/w)
	}
	str := m.ToString("X ", "  ")
	p, e := gozxing.ParseStringToBitMatrix(str, "X ", "  ")
	if e != nil {
		return errKind(e)
	}
	return hashM(p) + fmt.Sprint(hashM(p) == hashM(m))
}

// All returns the operation alphabet; the images named in Needs must be prepared before an
// operation runs.
func All() []Op {
	var o []Op
	for _, l := range all() {
		o = append(o, Op{Name: l.Name, Run: l.Run, Needs: needs[l.Name]})
	}
	return o
}

type opLit struct {
	Name string
	Run  func() string
}

var needs = map[string][]string{
	"qr-r-pure": {"qr-pure"}, "qr-r-located": {"qr-loc"}, "qr-r-v7-hard": {"qr-v7"}, "qr-r-eci": {"qr-eci"}, "qr-r-kanji": {"qr-kanji"}, "qr-r-multi": {"qr-loc"},
	"dm-r-pure": {"dm-pure"}, "dm-r-located": {"dm-loc"}, "dm-r-rect": {"dm-rect"}, "aztec-r-compact": {"aztec-c"}, "aztec-r-full": {"aztec-f"},
	"ean13-r": {"ean13"}, "ean13-r-multi": {"ean13-tall"}, "ean8-r": {"ean8"}, "upca-r": {"upca"}, "upce-r": {"upce"}, "code39-r": {"code39"}, "code39-r-ext": {"code39ext"},
	"ean13-r-addon5-price-codes": {"ean13+5=90000", "ean13+5=99990", "ean13+5=99991", "ean13+5=01299", "ean13+5=51299", "ean13+5=99999"},
	"isbn-r-addon5-price-codes":  {"isbn+5=90000", "isbn+5=99990", "isbn+5=99991", "isbn+5=01299", "isbn+5=51299", "isbn+5=99999"},
	"ean13-r-addon5":             {"ean13+5"}, "ean13-r-addon2": {"ean13+2"}, "multi-r-upca-addon5": {"upca+5"}, "ean8-r-addon-wrong-parity": {"ean8+2-wrong"},
	"ean13-r-addon-required": {"ean13+5"}, "code39-r-check": {"code39chk"}, "code128-r-gs1": {"code128gs1"}, "itf-r-allowed-lengths": {"itf6"},
	"codabar-r-startend": {"codabar"}, "dm-r-macro": {"dm-macro"}, "qr-r-gs1": {"qr-gs1"},
	"qr-r-utf16be": {"qr-utf16be"}, "qr-r-gb18030": {"qr-gb18030"}, "qr-r-euckr": {"qr-euckr"}, "qr-r-big5": {"qr-big5"}, "qr-r-sjis-byte": {"qr-sjis-byte"}, "qr-r-1251": {"qr-1251"},
	"qr-r-hint-charset": {"qr-loc"}, "lum-views": {"qr-pure"},
	"qr-r-v8": {"qr-v8"}, "qr-r-mirrored": {"qr-mirrored"}, "qr-r-mirrored-pure": {"qr-mirrored-pure"}, "qr-r-multi-two": {"qr-two"}, "dm-r-mixed": {"dm-mixed"},
	"dm-r-sizes":         {"dm-size-0", "dm-size-1", "dm-size-2", "dm-size-3", "dm-size-4", "dm-size-5", "dm-size-6", "dm-size-7", "dm-size-8", "dm-size-9"},
	"dm-r-rsizes":        {"dm-rsize-0", "dm-rsize-1", "dm-rsize-2", "dm-rsize-3", "dm-rsize-4", "dm-rsize-5"},
	"code128-r-sideways": {"code128-sideways"}, "lum-rgb-yuv": {"qr-loc"},
	"misc-api":              {"dm-pure", "qr-pure", "upca", "aztec-c"},
	"qr-r-hint-iana-latin1": {"qr-loc"}, "qr-r-hint-iana-koi8": {"qr-loc"},
	"fail-qr-damaged": {"qr-pure"}, "fail-dm-damaged": {"dm-pure"}, "fail-1d-wrong-check": {"ean13"}, "fail-charset-hints": {"qr-pure"},
	"rows-upcean": {"ean13", "ean8", "upca", "upce"}, "rows-other": {"code39", "code93", "code128", "itf", "codabar"}, "rss14-r-reset": {"rss14"},
	"qr-r-repaired-a": {"qr-pure"}, "qr-r-repaired-b": {"qr-pure"}, "dm-r-repaired-a": {"dm-pure"}, "dm-r-repaired-b": {"dm-pure"},
	"aztec-r-repaired-compact-a": {"aztec-c"}, "aztec-r-repaired-compact-b": {"aztec-c"}, "aztec-r-repaired-full-a": {"aztec-f"}, "aztec-r-repaired-full-b": {"aztec-f"},
	"qr-r-pure-twin": {"qr-pure-twin"}, "qr-r-kanji-twin": {"qr-kanji-twin"}, "dm-r-pure-twin": {"dm-pure-twin"}, "ean13-r-twin": {"ean13-twin"}, "code128-r-twin": {"code128-twin"},
	"code93-r": {"code93"}, "code128-r": {"code128"}, "itf-r": {"itf"}, "codabar-r": {"codabar"}, "rss14-r": {"rss14"},
}

func all() []opLit {
	QR := gozxing.BarcodeFormat_QR_CODE
	DM := gozxing.BarcodeFormat_DATA_MATRIX
	pure := D{gozxing.DecodeHintType_PURE_BARCODE: true}
	hard := D{gozxing.DecodeHintType_TRY_HARDER: true}
	return []opLit{
		{"qr-w-v1", func() string { return write(qrcode.NewQRCodeWriter(), "HELLO", QR, 0, 0, nil) }},
		{"qr-w-v7-H", func() string {
			return write(qrcode.NewQRCodeWriter(), strings.Repeat("abc123", 10), QR, 120, 120, H{gozxing.EncodeHintType_ERROR_CORRECTION: qrdec.ErrorCorrectionLevel_H})
		}},
		{"qr-w-v40", func() string {
			return write(qrcode.NewQRCodeWriter(), strings.Repeat("0123456789", 700), QR, 0, 0, H{gozxing.EncodeHintType_QR_MASK_PATTERN: 3})
		}},
		{"qr-w-kanji", func() string {
			return write(qrcode.NewQRCodeWriter(), "漢字点茗", QR, 0, 0, H{gozxing.EncodeHintType_CHARACTER_SET: "Shift_JIS"})
		}},
		// TWINS: the same request shape (mode, length, hints) with another content. State that is
		// keyed by the shape of a request - a buffer handed from one phase of a call to the next, a
		// memo keyed by length - collides only between two different contents of one shape; an
		// operation paired with itself writes the same bytes twice and cannot show it.
		{"qr-w-kanji-twin", func() string {
			return write(qrcode.NewQRCodeWriter(), "茗点字漢", QR, 0, 0, H{gozxing.EncodeHintType_CHARACTER_SET: "Shift_JIS"})
		}},
		{"qr-w-v1-twin", func() string { return write(qrcode.NewQRCodeWriter(), "WORLD", QR, 0, 0, nil) }},
		{"qr-w-eci-8859-2-twin", func() string {
			return write(qrcode.NewQRCodeWriter(), "Żółć", QR, 0, 0, H{gozxing.EncodeHintType_CHARACTER_SET: "ISO-8859-2"})
		}},
		{"dm-w-ascii-twin", func() string { return write(datamatrix.NewDataMatrixWriter(), "World 654321", DM, 0, 0, nil) }},
		{"dm-w-c40-x12-twin", func() string {
			return write(datamatrix.NewDataMatrixWriter(), "PONMLKJIHGFEDCBA>*>*>*321CBA", DM, 60, 60, nil)
		}},
		{"ean13-w-twin", func() string {
			return write(oned.NewEAN13Writer(), "400638133393", gozxing.BarcodeFormat_EAN_13, 200, 40, nil)
		}},
		{"code128-w-twin", func() string {
			return write(oned.NewCode128Writer(), "Twin-128 4321", gozxing.BarcodeFormat_CODE_128, 0, 20, nil)
		}},
		{"qr-w-eci-8859-2", func() string {
			return write(qrcode.NewQRCodeWriter(), "Łódź", QR, 0, 0, H{gozxing.EncodeHintType_CHARACTER_SET: "ISO-8859-2"})
		}},
		{"qr-w-alnum-forced-v5", func() string {
			return write(qrcode.NewQRCodeWriter(), "ALPHANUMERIC $%*+-./:", QR, 0, 0, H{gozxing.EncodeHintType_QR_VERSION: 5, gozxing.EncodeHintType_MARGIN: 1})
		}},
		{"dm-w-ascii", func() string { return write(datamatrix.NewDataMatrixWriter(), "Hello 123456", DM, 0, 0, nil) }},
		{"dm-w-c40-x12", func() string {
			return write(datamatrix.NewDataMatrixWriter(), "ABCDEFGHIJKLMNOP*>*>*>123ABC", DM, 60, 60, nil)
		}},
		{"dm-w-text-edifact-b256", func() string {
			return write(datamatrix.NewDataMatrixWriter(), "lower case text @@@@^^^^ éééééé end", DM, 0, 0, nil)
		}},
		{"dm-w-144", func() string {
			return write(datamatrix.NewDataMatrixWriter(), strings.Repeat("1234567890", 305), DM, 0, 0, nil)
		}},
		{"dm-w-rect", func() string {
			return write(datamatrix.NewDataMatrixWriter(), "RECT12", DM, 0, 0, H{gozxing.EncodeHintType_DATA_MATRIX_SHAPE: dmenc.SymbolShapeHint_FORCE_RECTANGLE})
		}},
		{"ean13-w", func() string {
			return write(oned.NewEAN13Writer(), "590123412345", gozxing.BarcodeFormat_EAN_13, 200, 40, nil)
		}},
		{"ean8-w", func() string { return write(oned.NewEAN8Writer(), "9638507", gozxing.BarcodeFormat_EAN_8, 0, 10, nil) }},
		{"upca-w", func() string {
			return write(oned.NewUPCAWriter(), "03600029145", gozxing.BarcodeFormat_UPC_A, 0, 10, nil)
		}},
		{"upce-w", func() string { return write(oned.NewUPCEWriter(), "04252614", gozxing.BarcodeFormat_UPC_E, 0, 10, nil) }},
		{"code39-w", func() string {
			return write(oned.NewCode39Writer(), "Code 39 ext", gozxing.BarcodeFormat_CODE_39, 0, 10, nil)
		}},
		{"code93-w", func() string {
			return write(oned.NewCode93Writer(), "Code 93 ext", gozxing.BarcodeFormat_CODE_93, 0, 10, nil)
		}},
		{"code128-w", func() string {
			return write(oned.NewCode128Writer(), "ab\x01\x02CD12345678ef", gozxing.BarcodeFormat_CODE_128, 0, 10, nil)
		}},
		{"itf-w", func() string { return write(oned.NewITFWriter(), "0123456789", gozxing.BarcodeFormat_ITF, 0, 10, nil) }},
		{"codabar-w", func() string {
			return write(oned.NewCodaBarWriter(), "T12-34.5N", gozxing.BarcodeFormat_CODABAR, 0, 10, nil)
		}},

		{"qr-r-pure", func() string { return read(qrcode.NewQRCodeReader(), img("qr-pure"), pure) }},
		{"qr-r-pure-twin", func() string { return read(qrcode.NewQRCodeReader(), img("qr-pure-twin"), pure) }},
		{"qr-r-kanji-twin", func() string { return read(qrcode.NewQRCodeReader(), img("qr-kanji-twin"), nil) }},
		{"dm-r-pure-twin", func() string { return read(datamatrix.NewDataMatrixReader(), img("dm-pure-twin"), pure) }},
		{"ean13-r-twin", func() string { return read(oned.NewEAN13Reader(), img("ean13-twin"), nil) }},
		{"code128-r-twin", func() string { return read(oned.NewCode128Reader(), img("code128-twin"), nil) }},
		{"qr-r-located", func() string { return read(qrcode.NewQRCodeReader(), img("qr-loc"), nil) }},
		{"qr-r-v7-hard", func() string { return read(qrcode.NewQRCodeReader(), img("qr-v7"), hard) }},
		{"qr-r-eci", func() string { return read(qrcode.NewQRCodeReader(), img("qr-eci"), nil) }},
		{"qr-r-kanji", func() string { return read(qrcode.NewQRCodeReader(), img("qr-kanji"), nil) }},
		{"qr-r-multi", func() string {
			bmp, _ := gozxing.NewBinaryBitmapFromImage(img("qr-loc"))
			rs, e := multiqr.NewQRCodeMultiReader().DecodeMultiple(bmp, nil)
			if e != nil {
				return errKind(e)
			}
			var s []string
			for _, r := range rs {
				s = append(s, result(r, nil))
			}
			return strings.Join(s, ";")
		}},
		{"dm-r-pure", func() string { return read(datamatrix.NewDataMatrixReader(), img("dm-pure"), pure) }},
		{"dm-r-located", func() string { return read(datamatrix.NewDataMatrixReader(), img("dm-loc"), nil) }},
		{"dm-r-rect", func() string { return read(datamatrix.NewDataMatrixReader(), img("dm-rect"), nil) }},
		{"aztec-r-compact", func() string { return read(aztec.NewAztecReader(), img("aztec-c"), nil) }},
		{"aztec-r-full", func() string { return read(aztec.NewAztecReader(), img("aztec-f"), nil) }},
		{"ean13-r", func() string { return read(oned.NewEAN13Reader(), img("ean13"), nil) }},
		{"ean13-r-multi", func() string { return read(oned.NewMultiFormatUPCEANReader(nil), img("ean13-tall"), hard) }},
		{"ean8-r", func() string { return read(oned.NewEAN8Reader(), img("ean8"), nil) }},
		{"upca-r", func() string { return read(oned.NewUPCAReader(), img("upca"), nil) }},
		{"upce-r", func() string { return read(oned.NewUPCEReader(), img("upce"), nil) }},
		{"code39-r", func() string { return read(oned.NewCode39Reader(), img("code39"), nil) }},
		{"code39-r-ext", func() string { return read(oned.NewCode39ReaderWithFlags(false, true), img("code39ext"), nil) }},
		{"code93-r", func() string { return read(oned.NewCode93Reader(), img("code93"), nil) }},
		{"code128-r", func() string { return read(oned.NewCode128Reader(), img("code128"), nil) }},
		{"itf-r", func() string { return read(oned.NewITFReader(), img("itf"), nil) }},
		{"codabar-r", func() string { return read(oned.NewCodaBarReader(), img("codabar"), nil) }},
		{"rss14-r", func() string { return read(rss.NewRSS14Reader(), img("rss14"), nil) }},
		{"ean13-r-addon5", func() string { return read(oned.NewEAN13Reader(), img("ean13+5"), nil) }},
		{"ean13-r-addon5-price-codes", func() string {
			var sb strings.Builder
			for _, v := range []string{"90000", "99990", "99991", "01299", "51299", "99999"} {
				sb.WriteString(read(oned.NewEAN13Reader(), img("ean13+5="+v), nil) + ";")
			}
			return sb.String()
		}},
		{"isbn-r-addon5-price-codes", func() string {
			var sb strings.Builder
			for _, v := range []string{"99991", "90000", "51299", "99990", "01299", "99999"} {
				sb.WriteString(read(oned.NewMultiFormatUPCEANReader(nil), img("isbn+5="+v), nil) + ";")
			}
			return sb.String()
		}},
		{"ean13-r-addon2", func() string { return read(oned.NewEAN13Reader(), img("ean13+2"), nil) }},
		{"multi-r-upca-addon5", func() string { return read(oned.NewMultiFormatUPCEANReader(nil), img("upca+5"), nil) }},
		{"ean8-r-addon-wrong-parity", func() string { return read(oned.NewEAN8Reader(), img("ean8+2-wrong"), nil) }},
		{"ean13-r-addon-required", func() string {
			return read(oned.NewEAN13Reader(), img("ean13+5"), D{gozxing.DecodeHintType_ALLOWED_EAN_EXTENSIONS: []int{5}})
		}},
		{"code39-r-check", func() string { return read(oned.NewCode39ReaderWithFlags(true, false), img("code39chk"), nil) }},
		{"code128-r-gs1", func() string {
			return read(oned.NewCode128Reader(), img("code128gs1"), D{gozxing.DecodeHintType_ASSUME_GS1: true})
		}},
		{"itf-r-allowed-lengths", func() string {
			return read(oned.NewITFReader(), img("itf6"), D{gozxing.DecodeHintType_ALLOWED_LENGTHS: []int{6, 10}})
		}},
		{"codabar-r-startend", func() string {
			return read(oned.NewCodaBarReader(), img("codabar"), D{gozxing.DecodeHintType_RETURN_CODABAR_START_END: true})
		}},
		{"dm-r-macro", func() string { return read(datamatrix.NewDataMatrixReader(), img("dm-macro"), nil) }},
		{"qr-r-gs1", func() string { return read(qrcode.NewQRCodeReader(), img("qr-gs1"), nil) }},
		{"qr-w-gs1", func() string {
			return write(qrcode.NewQRCodeWriter(), "0112345678901231", QR, 0, 0, H{gozxing.EncodeHintType_GS1_FORMAT: true})
		}},
		{"dm-w-macro", func() string {
			return write(datamatrix.NewDataMatrixWriter(), "[)>\x1e06\x1dMACRO 06\x1e\x04", DM, 0, 0, nil)
		}},
		{"code128-w-forced-c", func() string {
			return write(oned.NewCode128Writer(), "12345678", gozxing.BarcodeFormat_CODE_128, 0, 5, H{gozxing.EncodeHintType_FORCE_CODE_SET: "C"})
		}},

		{"qr-w-utf16be", func() string {
			return write(qrcode.NewQRCodeWriter(), "日本語ΩЖ é", QR, 0, 0, H{gozxing.EncodeHintType_CHARACTER_SET: "UTF-16BE"})
		}},
		{"qr-w-gb18030", func() string {
			return write(qrcode.NewQRCodeWriter(), "汉字编码 gb", QR, 0, 0, H{gozxing.EncodeHintType_CHARACTER_SET: "GB18030"})
		}},
		{"qr-r-utf16be", func() string { return read(qrcode.NewQRCodeReader(), img("qr-utf16be"), nil) }},
		{"qr-r-gb18030", func() string { return read(qrcode.NewQRCodeReader(), img("qr-gb18030"), nil) }},
		{"qr-r-euckr", func() string { return read(qrcode.NewQRCodeReader(), img("qr-euckr"), nil) }},
		{"qr-r-big5", func() string { return read(qrcode.NewQRCodeReader(), img("qr-big5"), nil) }},
		{"qr-r-sjis-byte", func() string { return read(qrcode.NewQRCodeReader(), img("qr-sjis-byte"), nil) }},
		{"qr-r-1251", func() string { return read(qrcode.NewQRCodeReader(), img("qr-1251"), nil) }},
		{"qr-r-hint-charset", func() string {
			// a byte-mode symbol without ECI: the hint decides how its bytes are read
			return read(qrcode.NewQRCodeReader(), img("qr-loc"), D{gozxing.DecodeHintType_CHARACTER_SET: "ISO-8859-15"})
		}},
		{"qr-r-v8", func() string { return read(qrcode.NewQRCodeReader(), img("qr-v8"), nil) }},
		{"qr-r-mirrored", func() string { return read(qrcode.NewQRCodeReader(), img("qr-mirrored"), nil) }},
		{"qr-r-mirrored-pure", func() string { return read(qrcode.NewQRCodeReader(), img("qr-mirrored-pure"), pure) }},
		{"qr-r-multi-two", func() string {
			bmp, _ := gozxing.NewBinaryBitmapFromImage(img("qr-two"))
			rs, e := multiqr.NewQRCodeMultiReader().DecodeMultiple(bmp, hard)
			if e != nil {
				return errKind(e)
			}
			var s []string
			for _, r := range rs {
				s = append(s, result(r, nil))
			}
			sort.Strings(s)
			return strings.Join(s, ";")
		}},
		{"dm-r-mixed", func() string { return read(datamatrix.NewDataMatrixReader(), img("dm-mixed"), pure) }},
		{"dm-w-mixed", func() string {
			return write(datamatrix.NewDataMatrixWriter(), "ABC>DEF*GHI\r123>*\r @@@@^^^^____ éééééééé\u00a0\u00ff end", DM, 0, 0, nil)
		}},
		{"dm-r-sizes", func() string {
			var sb strings.Builder
			for i := 0; i < 10; i++ {
				sb.WriteString(read(datamatrix.NewDataMatrixReader(), img(fmt.Sprint("dm-size-", i)), pure) + ";")
			}
			return sb.String()
		}},
		{"dm-r-rsizes", func() string {
			var sb strings.Builder
			for i := 0; i < 6; i++ {
				sb.WriteString(read(datamatrix.NewDataMatrixReader(), img(fmt.Sprint("dm-rsize-", i)), pure) + ";")
			}
			return sb.String()
		}},
		{"code128-r-sideways", func() string { return read(oned.NewCode128Reader(), img("code128-sideways"), hard) }},
		{"rows-upcean", func() string {
			return decodeRow(oned.NewEAN13Reader(), img("ean13")) + ";" + decodeRow(oned.NewEAN8Reader(), img("ean8")) + ";" +
				decodeRow(oned.NewUPCAReader(), img("upca")) + ";" + decodeRow(oned.NewUPCEReader(), img("upce")) + ";" +
				decodeRow(oned.NewMultiFormatUPCEANReader(nil), img("upca"))
		}},
		{"rows-other", func() string {
			return decodeRow(oned.NewCode39Reader(), img("code39")) + ";" + decodeRow(oned.NewCode93Reader(), img("code93")) + ";" +
				decodeRow(oned.NewCode128Reader(), img("code128")) + ";" + decodeRow(oned.NewITFReader(), img("itf")) + ";" + decodeRow(oned.NewCodaBarReader(), img("codabar"))
		}},
		{"rss14-r-reset", func() string {
			rd := rss.NewRSS14Reader()
			a := read(rd, img("rss14"), nil)
			rd.Reset()
			return a + ";" + read(rd, img("rss14"), hard)
		}},
		{"lum-rgb-yuv", func() string {
			g := img("qr-loc")
			w, h := g.Rect.Dx(), g.Rect.Dy()
			px := make([]int, w*h)
			yuv := make([]byte, w*h*3/2+8)
			for i := 0; i < w*h; i++ {
				v := int(g.Pix[(i/w)*g.Stride+i%w])
				px[i] = 0xff000000 | v<<16 | v<<8 | v
				yuv[i] = byte(v)
			}
			var sb strings.Builder
			rgb := gozxing.NewRGBLuminanceSource(w, h, px)
			for _, v := range []gozxing.LuminanceSource{rgb, rgb.Invert().Invert()} {
				bmp, _ := gozxing.NewBinaryBitmap(gozxing.NewHybridBinarizer(v))
				sb.WriteString(result(qrcode.NewQRCodeReader().Decode(bmp, nil)) + ";")
			}
			if c, e := rgb.Crop(2, 2, w-4, h-4); e == nil {
				bmp, _ := gozxing.NewBinaryBitmap(gozxing.NewGlobalHistgramBinarizer(c))
				sb.WriteString(result(qrcode.NewQRCodeReader().Decode(bmp, nil)) + ";")
			}
			ys, e := gozxing.NewPlanarYUVLuminanceSource(yuv, w, h, 1, 1, w-2, h-2, false)
			if e != nil {
				return sb.String() + errKind(e)
			}
			bmp, _ := gozxing.NewBinaryBitmap(gozxing.NewHybridBinarizer(ys))
			sb.WriteString(result(qrcode.NewQRCodeReader().Decode(bmp, nil)) + ";")
			if c, e := bmp.Crop(1, 1, w-6, h-6); e == nil {
				sb.WriteString(result(qrcode.NewQRCodeReader().Decode(c, nil)) + ";")
			}
			yr, e := gozxing.NewPlanarYUVLuminanceSource(yuv, w, h, 0, 0, w, h, true)
			if e == nil {
				hsh := fnv.New64a()
				hsh.Write(yr.GetMatrix())
				fmt.Fprintf(&sb, "%x;%dx%d", hsh.Sum64(), yr.(*gozxing.PlanarYUVLuminanceSource).GetThumbnailWidth(), len(yr.(*gozxing.PlanarYUVLuminanceSource).RenderThumbnail()))
			}
			return sb.String()
		}},
		{"aztec-highlevel", func() string {
			bits := refaztec.AutoEncode([]byte("High level: Aztec 123, punct. and \x01\x02 binary \xe9\xff"))
			s, e := azdec.NewDecoder().HighLevelDecode(bits)
			if e != nil {
				return errKind(e)
			}
			return fmt.Sprintf("%q", s)
		}},
		{"writers-nohint", func() string {
			a, e1 := qrcode.NewQRCodeWriter().EncodeWithoutHint("no hints", QR, 30, 30)
			b, e2 := datamatrix.NewDataMatrixWriter().EncodeWithoutHint("no hints", DM, 0, 0)
			c, e3 := oned.NewUPCAWriter().EncodeWithoutHint("03600029145", gozxing.BarcodeFormat_UPC_A, 0, 3)
			if e1 != nil || e2 != nil || e3 != nil {
				return fmt.Sprint("ERR", e1, e2, e3)
			}
			return hashM(a) + hashM(b) + hashM(c)
		}},
		{"qr-d-hanzi", func() string {
			// one Hanzi segment (mode 1101, subset 0001, 2 characters of 13 bits) in a version 1-L symbol
			bits := []int{}
			put := func(v, n int) {
				for i := n - 1; i >= 0; i-- {
					bits = append(bits, (v>>uint(i))&1)
				}
			}
			put(0xD, 4)
			put(1, 4)
			put(2, 8)
			put(0x0F*0x60+0x00, 13) // GB2312 B0A1
			put(0x0F*0x60+0x01, 13) // GB2312 B0A2
			put(0, 4)
			for len(bits)%8 != 0 {
				bits = append(bits, 0)
			}
			data := make([]byte, 19)
			for i := range data {
				if i*8 < len(bits) {
					for k := 0; k < 8; k++ {
						data[i] = data[i]<<1 | byte(bits[i*8+k])
					}
				} else if (i-len(bits)/8)%2 == 0 {
					data[i] = 0xEC
				} else {
					data[i] = 0x11
				}
			}
			m := refqr.Build(data, 1, refqr.L, 2)
			r, e := qrdec.NewDecoder().DecodeBoolMap(m, nil)
			if e != nil {
				return errKind(e)
			}
			r2, e2 := qrdec.NewDecoder().DecodeBoolMapWithoutHint(m)
			return fmt.Sprintf("%q %v %v", r.GetText(), r2 != nil, e2)
		}},
		{"misc-api", func() string {
			var sb strings.Builder
			a := gozxing.NewBitArray(70)
			a.SetRange(3, 67)
			a.Flip(40)
			fmt.Fprint(&sb, a.GetBitArray(), ";")
			m, _ := gozxing.ParseBoolMapToBitMatrix([][]bool{{true, false, true}, {false, true, true}})
			m.Unset(2, 1)
			fmt.Fprint(&sb, hashM(m), m.Bounds(), m.At(0, 0), m.GetRowSize(), ";")
			pt := common.PerspectiveTransform_QuadrilateralToQuadrilateral(0, 0, 10, 0, 10, 10, 0, 10, 1, 2, 30, 4, 28, 33, 2, 29)
			xs, ys := []float64{0.5, 3.5, 9.5}, []float64{0.5, 7.5, 9.5}
			pt.TransformPointsXY(xs, ys)
			fmt.Fprintf(&sb, "%.6f %.6f;", xs, ys)
			ar, er := []int{3, 4, 5, 2}, []float64{0.1, -0.4, 0.3, 0.2}
			rss.RSSReader_increment(ar, er)
			rss.RSSReader_decrement(ar, er)
			rss.RSSReader_decrement(ar, er)
			fmt.Fprint(&sb, ar, ";")
			f := reedsolomon.NewGenericGF(0x13, 16, 1)
			lg, _ := f.Log(11)
			fmt.Fprint(&sb, f.Multiply(7, 9), f.Exp(5), lg, ";")
			dmm := [][]bool{}
			g := img("dm-pure")
			for y := 0; y < g.Rect.Dy(); y++ {
				row := make([]bool, g.Rect.Dx())
				for x := range row {
					row[x] = g.Pix[y*g.Stride+x] < 128
				}
				dmm = append(dmm, row)
			}
			dr, e := dmdec.NewDecoder().DecodeBoolMap(dmm)
			if e != nil {
				sb.WriteString(errKind(e))
			} else {
				fmt.Fprintf(&sb, "%q;", dr.GetText())
			}
			bmp, _ := gozxing.NewBinaryBitmapFromImage(img("qr-pure"))
			sb.WriteString(result(qrcode.NewQRCodeReader().DecodeWithoutHints(bmp)) + ";")
			bmp, _ = gozxing.NewBinaryBitmapFromImage(img("dm-pure"))
			sb.WriteString(result(datamatrix.NewDataMatrixReader().DecodeWithoutHints(bmp)) + ";")
			bmp, _ = gozxing.NewBinaryBitmapFromImage(img("upca"))
			sb.WriteString(result(oned.NewUPCAReader().DecodeWithoutHints(bmp)) + ";")
			bmp, _ = gozxing.NewBinaryBitmapFromImage(img("aztec-c"))
			sb.WriteString(result(aztec.NewAztecReader().DecodeWithoutHints(bmp)) + ";")
			return sb.String()
		}},
		// operations that END IN AN ERROR: failure exits have their own code (clean-up, early returns);
		// they are also used as sequential PROLOGUES of concurrent scenarios
		{"fail-sample-twisted", func() string {
			// unit square -> convex trapezoid whose vanishing line crosses the 3x1 grid: the end points
			// of the row are inside a 32x12 image, the middle point is not
			im, _ := gozxing.NewBitMatrix(32, 12)
			im.SetRegion(0, 0, 32, 12)
			t := common.PerspectiveTransform_QuadrilateralToQuadrilateral(0, 0, 1, 0, 1, 1, 0, 1, 21.625, 5, 25.25, 4.5, 25.25, 6.5, 21.625, 6)
			m, e := common.NewDefaultGridSampler().SampleGridWithTransform(im, 3, 1, t)
			if e != nil {
				return errKind(e)
			}
			return hashM(m)
		}},
		{"fail-sample-outside", func() string {
			im, _ := gozxing.NewBitMatrix(20, 20)
			m, e := common.GridSampler_GetInstance().SampleGrid(im, 5, 5, 0, 0, 5, 0, 5, 5, 0, 5, 30, 30, 40, 30, 40, 40, 30, 40)
			if e != nil {
				return errKind(e)
			}
			return hashM(m)
		}},
		{"fail-2d-noise", func() string {
			g := image.NewGray(image.Rect(0, 0, 90, 90))
			for i := range g.Pix {
				g.Pix[i] = byte(255 * ((i*7 + i/90*13 + (i*i)/5) % 3 / 2))
			}
			return read(qrcode.NewQRCodeReader(), g, hard) + ";" + read(datamatrix.NewDataMatrixReader(), g, nil) + ";" + read(aztec.NewAztecReader(), g, nil)
		}},
		// damaged but CORRECTABLE symbols (two variants with different error patterns each): the
		// error-correcting path of the readers, which clean symbols leave at the first syndrome test
		{"qr-r-repaired-a", func() string {
			return read(qrcode.NewQRCodeReader(), flipModules(img("qr-pure"), 1, 0, [][2]int{{12, 12}, {13, 12}}), pure)
		}},
		{"qr-r-repaired-b", func() string {
			return read(qrcode.NewQRCodeReader(), flipModules(img("qr-pure"), 1, 0, [][2]int{{20, 20}, {9, 18}, {15, 10}}), pure)
		}},
		{"dm-r-repaired-a", func() string {
			return read(datamatrix.NewDataMatrixReader(), flipModules(img("dm-pure"), 1, 0, [][2]int{{3, 3}, {4, 3}}), pure)
		}},
		{"dm-r-repaired-b", func() string {
			return read(datamatrix.NewDataMatrixReader(), flipModules(img("dm-pure"), 1, 0, [][2]int{{9, 6}, {5, 11}, {12, 12}}), pure)
		}},
		{"aztec-r-repaired-compact-a", func() string {
			return read(aztec.NewAztecReader(), flipModules(img("aztec-c"), 4, 3, [][2]int{{0, 3}, {1, 3}}), nil)
		}},
		{"aztec-r-repaired-compact-b", func() string {
			return read(aztec.NewAztecReader(), flipModules(img("aztec-c"), 4, 3, [][2]int{{3, 0}, {4, 1}, {0, 8}}), nil)
		}},
		{"aztec-r-repaired-full-a", func() string {
			return read(aztec.NewAztecReader(), flipModules(img("aztec-f"), 3, 3, [][2]int{{2, 10}, {2, 11}, {3, 20}}), nil)
		}},
		{"aztec-r-repaired-full-b", func() string {
			return read(aztec.NewAztecReader(), flipModules(img("aztec-f"), 3, 3, [][2]int{{14, 2}, {15, 2}, {30, 1}, {1, 30}}), nil)
		}},
		{"fail-qr-damaged", func() string {
			g := img("qr-pure")
			for y := 9; y < g.Rect.Dy(); y++ {
				for x := 9; x < g.Rect.Dx(); x += 2 {
					g.Pix[y*g.Stride+x] ^= 0xff
				}
			}
			return read(qrcode.NewQRCodeReader(), g, pure)
		}},
		{"fail-dm-damaged", func() string {
			g := img("dm-pure")
			for y := 1; y < g.Rect.Dy()-1; y++ {
				for x := 1; x < g.Rect.Dx()-1; x += 2 {
					g.Pix[y*g.Stride+x] ^= 0xff
				}
			}
			return read(datamatrix.NewDataMatrixReader(), g, pure)
		}},
		{"fail-1d-blank", func() string {
			g := image.NewGray(image.Rect(0, 0, 120, 3))
			for i := range g.Pix {
				g.Pix[i] = 255
			}
			var sb strings.Builder
			for _, rd := range []gozxing.Reader{oned.NewEAN13Reader(), oned.NewCode128Reader(), oned.NewCode39Reader(), oned.NewCode93Reader(), oned.NewITFReader(), oned.NewCodaBarReader(), oned.NewMultiFormatUPCEANReader(nil), rss.NewRSS14Reader()} {
				sb.WriteString(read(rd, g, hard) + ";")
			}
			return sb.String()
		}},
		{"fail-1d-wrong-check", func() string {
			// an EAN-13 row with a wrong check digit, then one that asks for an add-on that is not there
			m := refoned.Image(refoned.EAN13("5901234123450"), 1, 12, 12, 1)
			return read(oned.NewEAN13Reader(), m, nil) + ";" + read(oned.NewEAN13Reader(), img("ean13"), D{gozxing.DecodeHintType_ALLOWED_EAN_EXTENSIONS: []int{5}})
		}},
		{"fail-writers-refuse", func() string {
			return write(qrcode.NewQRCodeWriter(), strings.Repeat("9", 8000), QR, 0, 0, nil) + ";" +
				write(datamatrix.NewDataMatrixWriter(), strings.Repeat("A", 4000), DM, 0, 0, nil) + ";" +
				write(oned.NewEAN13Writer(), "5901234123450", gozxing.BarcodeFormat_EAN_13, 0, 0, nil) + ";" +
				write(oned.NewITFWriter(), "123", gozxing.BarcodeFormat_ITF, 0, 0, nil) + ";" +
				write(oned.NewCode128Writer(), "ab\u20ac", gozxing.BarcodeFormat_CODE_128, 0, 0, nil) + ";" +
				write(oned.NewCodaBarWriter(), "A12X", gozxing.BarcodeFormat_CODABAR, 0, 0, nil) + ";" +
				write(qrcode.NewQRCodeWriter(), "\u20ac", QR, 0, 0, H{gozxing.EncodeHintType_CHARACTER_SET: "ISO-8859-1"}) + ";" +
				write(qrcode.NewQRCodeWriter(), "x", QR, -1, 5, nil)
		}},
		{"fail-rs-overdamaged", func() string {
			var sb strings.Builder
			for _, f := range []*reedsolomon.GenericGF{reedsolomon.GenericGF_QR_CODE_FIELD_256, reedsolomon.GenericGF_AZTEC_DATA_12, reedsolomon.GenericGF_AZTEC_PARAM} {
				w := make([]int, 12)
				for i := range w {
					w[i] = (i*5 + 1) % 16
				}
				reedsolomon.NewReedSolomonEncoder(f).Encode(w, 4)
				w[0] ^= 1
				w[3] ^= 2
				w[7] ^= 3
				if e := reedsolomon.NewReedSolomonDecoder(f).Decode(w, 4); e != nil {
					sb.WriteString("ERR;")
				} else {
					sb.WriteString(fmt.Sprint(w, ";"))
				}
			}
			return sb.String()
		}},
		{"fail-charset-hints", func() string {
			var sb strings.Builder
			for _, n := range []string{"UTF-7", "nope", ""} {
				sb.WriteString(read(qrcode.NewQRCodeReader(), img("qr-pure"), D{gozxing.DecodeHintType_PURE_BARCODE: true, gozxing.DecodeHintType_CHARACTER_SET: n}) + ";")
				sb.WriteString(write(qrcode.NewQRCodeWriter(), "x", QR, 0, 0, H{gozxing.EncodeHintType_CHARACTER_SET: n}) + ";")
			}
			return sb.String()
		}},
		{"qr-r-hint-iana-latin1", func() string {
			// a CHARACTER_SET hint spelled with a name that is not in the ECI table but that the IANA index resolves
			return read(qrcode.NewQRCodeReader(), img("qr-loc"), D{gozxing.DecodeHintType_CHARACTER_SET: "latin1"})
		}},
		{"qr-r-hint-iana-koi8", func() string {
			return read(qrcode.NewQRCodeReader(), img("qr-loc"), D{gozxing.DecodeHintType_CHARACTER_SET: "KOI8-R"}) + ";" +
				read(qrcode.NewQRCodeReader(), img("qr-loc"), D{gozxing.DecodeHintType_CHARACTER_SET: "csShiftJIS"}) + ";" +
				read(qrcode.NewQRCodeReader(), img("qr-loc"), D{gozxing.DecodeHintType_CHARACTER_SET: "utf-8"})
		}},
		{"qr-w-hint-alias", func() string {
			return write(qrcode.NewQRCodeWriter(), "é", QR, 0, 0, H{gozxing.EncodeHintType_CHARACTER_SET: "latin1"}) + ";" + write(qrcode.NewQRCodeWriter(), "é", QR, 0, 0, H{gozxing.EncodeHintType_CHARACTER_SET: "cp1252"}) + ";" + write(qrcode.NewQRCodeWriter(), "é", QR, 0, 0, H{gozxing.EncodeHintType_CHARACTER_SET: "UnicodeBig"})
		}},
		{"bm-parse-a", func() string { return parseRoundTrip(37, 11, 3) }},
		{"bm-parse-b", func() string { return parseRoundTrip(64, 5, 7) }},
		{"bm-ops", func() string {
			m, _ := gozxing.NewBitMatrix(70, 9)
			for i := 0; i < 70*9; i += 5 {
				m.Set(i%70, i/70)
			}
			m.SetRegion(30, 2, 36, 4)
			m.Rotate180()
			m.Rotate90()
			c, _ := gozxing.NewBitMatrix(m.GetWidth(), m.GetHeight())
			for y := 0; y < m.GetHeight(); y++ {
				c.SetRow(y, m.GetRow(y, nil))
			}
			c.FlipAll()
			m.Xor(c)
			return hashM(m) + hashM(c) + fmt.Sprint(c.GetEnclosingRectangle(), c.GetTopLeftOnBit(), c.GetBottomRightOnBit())
		}},
		{"lum-views", func() string {
			g := img("qr-pure")
			src := gozxing.NewLuminanceSourceFromImage(g)
			var sb strings.Builder
			for _, v := range []gozxing.LuminanceSource{src, src.Invert()} {
				if c, e := v.Crop(1, 2, v.GetWidth()-3, v.GetHeight()-4); e == nil {
					v = c
				}
				if r, e := v.RotateCounterClockwise(); e == nil {
					v = r
				}
				h := fnv.New64a()
				h.Write(v.GetMatrix())
				row, _ := v.GetRow(1, nil)
				h.Write(row)
				fmt.Fprintf(&sb, "%dx%d:%x;", v.GetWidth(), v.GetHeight(), h.Sum64())
			}
			for _, mk := range []func(gozxing.LuminanceSource) gozxing.Binarizer{gozxing.NewGlobalHistgramBinarizer, gozxing.NewHybridBinarizer} {
				bm, e := mk(src).GetBlackMatrix()
				if e != nil {
					sb.WriteString(errKind(e))
				} else {
					sb.WriteString(hashM(bm))
				}
			}
			return sb.String()
		}},

		// a camera-sized frame (two megapixels, 201 x 158 blocks of the local binariser, width and
		// height NOT multiples of the block size so that the last block row and column overlap their
		// neighbours): what readers are given in practice, and the size class where implementations
		// start to pool buffers or to split the work
		{"lum-sibling-band-read", func() string { return readBand(0) }},
		{"lum-sibling-band-read-twin", func() string { return readBand(1) }},
		{"lum-megapixel-frame", func() string {
			const w, h = 1601, 1257
			yuv := make([]byte, w*h)
			x := uint32(12345)
			for i := range yuv {
				x = x*1664525 + 1013904223
				v := byte(x >> 24)
				if (i/w/16+i%w/16)%2 == 0 {
					v = v/4 + 16 // dark tile with noise
				} else {
					v = 255 - v/4 // light tile with noise
				}
				yuv[i] = v
			}
			src, e := gozxing.NewPlanarYUVLuminanceSource(yuv, w, h, 0, 0, w, h, false)
			if e != nil {
				return errKind(e)
			}
			bm, e := gozxing.NewHybridBinarizer(src).GetBlackMatrix()
			if e != nil {
				return errKind(e)
			}
			return hashM(bm)
		}},
		{"rs-qr", func() string { return rsRoundTrip(reedsolomon.GenericGF_QR_CODE_FIELD_256, 19, 7, 256) }},
		{"rs-dm", func() string { return rsRoundTrip(reedsolomon.GenericGF_DATA_MATRIX_FIELD_256, 44, 28, 256) }},
		{"rs-aztec12", func() string { return rsRoundTrip(reedsolomon.GenericGF_AZTEC_DATA_12, 60, 30, 4096) }},
		{"rs-aztec-param", func() string { return rsRoundTrip(reedsolomon.GenericGF_AZTEC_PARAM, 4, 6, 16) }},
		// every single-error pattern of one short code word (every position x every magnitude) and
		// every error pair at two fixed positions: the decoder's intermediate polynomials take every
		// normalisation the Euclidean algorithm can end in (leading / constant coefficient 1, ...)
		{"rs-qr-every-single-error", func() string { return rsErrorSweep(reedsolomon.GenericGF_QR_CODE_FIELD_256, 6, 4, 256) }},
		{"rs-aztec6-every-error-pair", func() string { return rsErrorSweep(reedsolomon.GenericGF_AZTEC_DATA_6, 6, 5, 64) }},
		{"eci-lookup", func() string {
			var sb strings.Builder
			for _, n := range []string{"UTF-8", "UTF8", "Shift_JIS", "SJIS", "ISO-8859-15", "Cp437", "nope"} {
				e, ok := common.GetCharacterSetECIByName(n)
				if ok && e != nil {
					fmt.Fprintf(&sb, "%s=%d;", n, e.GetValue())
				} else {
					fmt.Fprintf(&sb, "%s=-;", n)
				}
			}
			for _, v := range []int{0, 3, 26, 899, 900} {
				e, err := common.GetCharacterSetECIByValue(v)
				fmt.Fprintf(&sb, "%d:%v,%v;", v, e != nil, err != nil)
			}
			return sb.String()
		}},
		{"guess-charset", func() string {
			var sb strings.Builder
			for _, b := range [][]byte{[]byte("plain"), []byte("é€漢"), {0x93, 0xfa, 0x96, 0x7b}, {0xe9, 0x41}, {0xef, 0xbb, 0xbf, 0x41}} {
				enc, err := common.StringUtils_guessCharset(b, nil)
				fmt.Fprintf(&sb, "%v,%v;", enc, err)
			}
			return sb.String()
		}},
	}
}
