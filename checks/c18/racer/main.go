//go:build c18racer

// Free-running race pass of C18: the same operation bodies as the controlled worker, linked
// against the PLAIN library and built with -race. For every requested pair of operations K
// goroutines (alternating the two operations, each running its operation twice) are released from
// a start barrier. Because the library contains no synchronisation, conflicting accesses of two
// workers are unordered by happens-before in every schedule, so the detector's verdict does not
// depend on the interleaving that happens to run. Prints one line per pair; exit status 0.
// Race reports go to stderr (GORACE=halt_on_error=0) and are attributed by the parent through
// the "PAIR a b" markers.
package main

import (
	"bufio"
	"fmt"
	"os"
	"sync"

	"verif/checks/c18/ops"
)

func main() {
	ops.Prepare()
	all := ops.All()
	in := bufio.NewScanner(os.Stdin)
	for in.Scan() {
		var a, b, k, reps int
		if n, _ := fmt.Sscanf(in.Text(), "%d %d %d %d", &a, &b, &k, &reps); n != 4 {
			continue
		}
		fmt.Fprintf(os.Stderr, "PAIR %d %d\n", a, b)
		mismatch := ""
		wantA, wantB := all[a].Run(), all[b].Run()
		for r := 0; r < reps; r++ {
			var wg sync.WaitGroup
			start := make(chan struct{})
			res := make([]string, k)
			for g := 0; g < k; g++ {
				wg.Add(1)
				go func(g int) {
					defer wg.Done()
					<-start
					op := all[a]
					if g%2 == 1 {
						op = all[b]
					}
					res[g] = op.Run()
					if s := op.Run(); s != res[g] {
						res[g] = "UNSTABLE " + res[g] + " / " + s
					}
				}(g)
			}
			close(start)
			wg.Wait()
			for g := 0; g < k; g++ {
				want := wantA
				if g%2 == 1 {
					want = wantB
				}
				if res[g] != want && mismatch == "" {
					mismatch = fmt.Sprintf("goroutine %d got %.200q want %.200q", g, res[g], want)
				}
			}
		}
		fmt.Printf("DONE %d %d %q\n", a, b, mismatch)
	}
}
