//go:build c18racer

// Free-running race pass of C18: the same operation bodies as the controlled worker, linked
// against the PLAIN library and built with -race. For every requested pair of operations K
// goroutines (alternating the two operations, each running its operation twice) are released from
// a start barrier. Because the library contains no synchronisation, conflicting accesses of two
// workers are unordered by happens-before in every schedule, so the detector's verdict does not
// depend on the interleaving that happens to run. One pair per process (cold start every time).
package main

import (
	"bufio"
	"fmt"
	"os"
	"sync"

	"verif/checks/c18/ops"
)

func main() {
	// one request per process: "a b k reps" on the command line. No warm-up of any kind happens
	// before the goroutines are released (lazily built shared state must be built concurrently);
	// the results are printed and compared with the solo results by the parent.
	if len(os.Args) != 5 && len(os.Args) != 6 {
		os.Exit(3)
	}
	var a, b, k, reps int
	pro := -1 // optional sequential prologue operation (an operation that ends in an error exit)
	if len(os.Args) == 6 {
		fmt.Sscan(os.Args[5], &pro)
	}
	fmt.Sscan(os.Args[1], &a)
	fmt.Sscan(os.Args[2], &b)
	fmt.Sscan(os.Args[3], &k)
	fmt.Sscan(os.Args[4], &reps)
	all := ops.All()
	ops.PrepareFor(all, []int{a, b})
	out := bufio.NewWriter(os.Stdout)
	defer out.Flush()
	if pro >= 0 {
		ops.PrepareFor(all, []int{pro})
		fmt.Fprintf(out, "PRO %q\n", all[pro].Run())
	}
	for r := 0; r < reps; r++ {
		var wg sync.WaitGroup
		start := make(chan struct{})
		res := make([][2]string, k)
		for g := 0; g < k; g++ {
			wg.Add(1)
			go func(g int) {
				defer wg.Done()
				<-start
				op := all[a]
				if g%2 == 1 {
					op = all[b]
				}
				res[g][0] = op.Run()
				res[g][1] = op.Run()
			}(g)
		}
		close(start)
		wg.Wait()
		for g := 0; g < k; g++ {
			fmt.Fprintf(out, "RES %d %q %q\n", g%2, res[g][0], res[g][1])
		}
	}
	// sequential epilogue: a poisoned cache shows here
	fmt.Fprintf(out, "RES 0 %q %q\n", all[a].Run(), all[a].Run())
	fmt.Fprintf(out, "RES 1 %q %q\n", all[b].Run(), all[b].Run())
	fmt.Fprintf(out, "DONE\n")
}
