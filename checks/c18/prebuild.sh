#!/bin/bash
# Builds what the C18 check needs from the CURRENT /repo tree:
#   build/c18/overlay.json + instrumented sources   (sched/instr)
#   build/bin/c18worker   controlled-scheduler worker, instrumented library
#   build/bin/c18racer    free-running race pass, plain library, -race
set -e
export GOFLAGS=-mod=mod GOPROXY=off GOSUMDB=off GOTOOLCHAIN=local
cd /verif
mkdir -p build/bin build/c18
base="${VERIF_OVERLAY:-build/overlay.json}"
go run ./sched/instr -repo /repo -out /verif/build/c18 -base "$base" > build/c18/instr.log
go build -tags "verif c18worker" -overlay build/c18/overlay.json -o build/bin/c18worker ./checks/c18/worker
go build -race -tags "verif c18racer" -overlay "$base" -o build/bin/c18racer ./checks/c18/racer
