module verif

go 1.23

require github.com/makiuchi-d/gozxing v0.0.0

replace github.com/makiuchi-d/gozxing => /repo
