#!/bin/bash
# Entry point used by every MANIFEST command:  run.sh <Cxx> <quick|thorough> [--replay file]
# Rebuilds the check binary from /repo's current working tree (replace => /repo, overlay of
# the add-only hook files under /verif/hooks) and runs it.
set -u
export GOFLAGS=-mod=mod GOPROXY=off GOSUMDB=off GOTOOLCHAIN=local
cd /verif
id="$1"; tier="${2:-quick}"; shift; shift || true
lc=$(echo "$id" | tr 'A-Z' 'a-z')
mkdir -p build/bin evidence replays
# atomic updates: several checks may be started at the same time
cmp -s /repo/go.sum go.sum || { cp /repo/go.sum "go.sum.$$" && mv "go.sum.$$" go.sum; }
python3 tools/mkoverlay.py > "build/overlay.$$.json" || exit 2
mv "build/overlay.$$.json" build/overlay.json
if [ -x "checks/$lc/prebuild.sh" ]; then "checks/$lc/prebuild.sh" "$tier" || exit 2; fi
if ! go build -tags verif -overlay build/overlay.json -o "build/bin/$lc" "./checks/$lc" 2> "build/$lc.build.log"; then
  # white-box accessors may stop compiling after a refactor of /repo: retry black-box only
  if ! go build -tags "verif blackbox" -o "build/bin/$lc" "./checks/$lc" 2>> "build/$lc.build.log"; then
    cat "build/$lc.build.log" >&2
    echo "BUILD-FAILED $id" >&2
    exit 2
  fi
  echo "note: built $id without white-box accessors (see build/$lc.build.log)"
fi
export VERIF_TIER="$tier"
"./build/bin/$lc" -tier "$tier" "$@" > "build/$lc.out" 2> "build/$lc.err"
rc=$?
cat "build/$lc.out"
if [ $rc -ne 0 ] && [ $rc -ne 1 ]; then
  # the binary died (fatal error / runtime abort that recover() cannot catch, or killed)
  tail -40 "build/$lc.err" >&2
  mkdir -p replays
  cp "build/$lc.err" "replays/$id-crash.txt"
  echo "VIOLATION property=$id replay=/verif/replays/$id-crash.txt"
  exit 1
fi
[ -s "build/$lc.err" ] && tail -5 "build/$lc.err" >&2
exit $rc
