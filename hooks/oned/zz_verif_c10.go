//go:build verif

package oned

// VerifConvertUPCEtoUPCA exports convertUPCEtoUPCA for check C10 (UPC-E to UPC-A expansion
// is the inverse of zero-suppression). Add-only, never part of a normal build.
func VerifConvertUPCEtoUPCA(s string) string { return convertUPCEtoUPCA(s) }
