//go:build verif

package rss

// VerifFinderPatterns returns the RSS-14 finder pattern table.
func VerifFinderPatterns() [][]int { return rss14_FINDER_PATTERNS }
