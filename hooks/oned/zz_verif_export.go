//go:build verif

package oned

// White-box accessors used by /verif checks (add-only, never part of a normal build).

// VerifPatternTables returns the run-length pattern tables of the 1-D readers.
func VerifPatternTables() map[string][][]int {
	return map[string][][]int{
		"upcean_L_AND_G":   UPCEANReader_L_AND_G_PATTERNS,
		"upcean_START_END": {UPCEANReader_START_END_PATTERN},
		"upcean_MIDDLE":    {UPCEANReader_MIDDLE_PATTERN},
		"upcean_END":       {UPCEANReader_END_PATTERN},
		"upce_MIDDLE_END":  {upce_MIDDLE_END_PATTERN},
		"code128":          code128CODE_PATTERNS,
		"itf":              itfReader_PATTERNS,
		"itf_START":        {itfReader_START_PATTERN},
		"itf_END_REVERSED": itfReader_END_PATTERN_REVERSED,
	}
}
