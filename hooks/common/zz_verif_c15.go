//go:build verif

package common

import "sort"

// White-box accessors used by /verif/checks/c15 (add-only, never part of a normal build).

// VerifECINames returns every key of the name registry (nameToECI), sorted.
func VerifECINames() []string {
	var out []string
	for k := range nameToECI {
		out = append(out, k)
	}
	sort.Strings(out)
	return out
}

// VerifECIValues returns every key of the value registry (valueToECI), sorted.
func VerifECIValues() []int {
	var out []int
	for k := range valueToECI {
		out = append(out, k)
	}
	sort.Ints(out)
	return out
}

// VerifECIEntry returns the values and the names (canonical name first) an entry was declared with.
func VerifECIEntry(e *CharacterSetECI) (values []int, names []string) {
	values = append(values, e.values...)
	names = append([]string{e.name}, e.otherEncodingNames...)
	return
}
