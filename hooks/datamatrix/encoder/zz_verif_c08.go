//go:build verif

package encoder

// White-box accessor used by /verif/checks/c08 (add-only, never part of a normal build).

// VerifFactors returns copies of the encoder's parity-length list and of the stored
// generator polynomial coefficient rows (row i belongs to sets[i]).
func VerifFactors() (sets []int, rows [][]int) {
	sets = append([]int(nil), factorSets...)
	for _, r := range factors {
		rows = append(rows, append([]int(nil), r...))
	}
	return sets, rows
}

// VerifSymbolCount returns the number of rows of the encoder's symbol table.
func VerifSymbolCount() int { return len(symbols) }
