//go:build verif

package encoder

// White-box accessors used by /verif/checks/c02 (add-only, never part of a normal build).
// They let the check drive the body of EncodeHighLevel's dispatch loop one step at a time, so
// that it can see the error values that loop throws away and can recognise a step that leaves
// the whole encoder state unchanged (a proven livelock) without having to sit in it.

var verifC02Encoders = []Encoder{
	NewASCIIEncoder(), NewC40Encoder(), NewTextEncoder(),
	NewX12Encoder(), NewEdifactEncoder(), NewBase256Encoder(),
}

// VerifEncodeStep calls the unexported encode method of the encoder for the given mode
// (HighLevelEncoder_ASCII_ENCODATION .. HighLevelEncoder_BASE256_ENCODATION) and returns its error.
func VerifEncodeStep(mode int, ctx *EncoderContext) error {
	return verifC02Encoders[mode].encode(ctx)
}

// VerifPos returns the context's unexported read position.
func VerifPos(ctx *EncoderContext) int { return ctx.pos }

// VerifSetPos sets the context's unexported read position (EncodeHighLevel does this itself
// to skip a macro header).
func VerifSetPos(ctx *EncoderContext, pos int) { ctx.pos = pos }
