//go:build verif

package decoder

// White-box accessor used by /verif/checks/c08 (add-only, never part of a normal build).

// VerifECB is one group of equally sized error-correction blocks.
type VerifECB struct {
	Count         int
	DataCodewords int
}

// VerifVersion is a plain copy of one entry of the unexported versions table.
type VerifVersion struct {
	Number         int
	Rows, Cols     int
	RegionRows     int
	RegionCols     int
	ECCodewords    int // per block
	TotalCodewords int
	Blocks         []VerifECB
}

// VerifVersions returns a copy of the decoder's size table.
func VerifVersions() []VerifVersion {
	out := make([]VerifVersion, 0, len(versions))
	for _, v := range versions {
		x := VerifVersion{
			Number:         v.versionNumber,
			Rows:           v.symbolSizeRows,
			Cols:           v.symbolSizeColumns,
			RegionRows:     v.dataRegionSizeRows,
			RegionCols:     v.dataRegionSizeColumns,
			ECCodewords:    v.ecBlocks.ecCodewords,
			TotalCodewords: v.totalCodewords,
		}
		for _, b := range v.ecBlocks.ecBlocks {
			x.Blocks = append(x.Blocks, VerifECB{b.count, b.dataCodewords})
		}
		out = append(out, x)
	}
	return out
}
