package oned

// ---------------------------------------------------------------------------
// Code 128 (ISO/IEC 15417)
//
// Every symbol character is 11 modules: 3 bars and 3 spaces of 1..4 modules
// starting with a bar, with an even total of bar modules.  The stop
// character is 13 modules (7 elements).
// ---------------------------------------------------------------------------

const (
	C128Shift  = 98
	C128CodeC  = 99
	C128CodeB  = 100 // in sets A and C; in set B value 100 is FNC4
	C128CodeA  = 101 // in sets B and C; in set A value 101 is FNC4
	C128FNC1   = 102
	C128StartA = 103
	C128StartB = 104
	C128StartC = 105
	C128Stop   = 106

	C128FNC3 = 96 // sets A and B
	C128FNC2 = 97 // sets A and B
)

// code128Widths: bar-space-bar-space-bar-space(-bar) widths, index = value.
var code128Widths = [107]string{
	"212222", "222122", "222221", "121223", "121322", // 0-4
	"131222", "122213", "122312", "132212", "221213", // 5-9
	"221312", "231212", "112232", "122132", "122231", // 10-14
	"113222", "123122", "123221", "223211", "221132", // 15-19
	"221231", "213212", "223112", "312131", "311222", // 20-24
	"321122", "321221", "312212", "322112", "322211", // 25-29
	"212123", "212321", "232121", "111323", "131123", // 30-34
	"131321", "112313", "132113", "132311", "211313", // 35-39
	"231113", "231311", "112133", "112331", "132131", // 40-44
	"113123", "113321", "133121", "313121", "211331", // 45-49
	"231131", "213113", "213311", "213131", "311123", // 50-54
	"311321", "331121", "312113", "312311", "332111", // 55-59
	"314111", "221411", "431111", "111224", "111422", // 60-64
	"121124", "121421", "141122", "141221", "112214", // 65-69
	"112412", "122114", "122411", "142112", "142211", // 70-74
	"241211", "221114", "413111", "241112", "134111", // 75-79
	"111242", "121142", "121241", "114212", "124112", // 80-84
	"124211", "411212", "421112", "421211", "212141", // 85-89
	"214121", "412121", "111143", "111341", "131141", // 90-94
	"114113", "114311", "411113", "411311", "113141", // 95-99
	"114131", "311141", "411131", // 100-102
	"211412", "211214", "211232", // 103-105: Start A, B, C
	"2331112", // 106: Stop
}

var code128Mods [107][]bool

func init() {
	for v, w := range code128Widths {
		wantLen, wantSum := 6, 11
		if v == C128Stop {
			wantLen, wantSum = 7, 13
		}
		if len(w) != wantLen || sumDigits(w) != wantSum {
			panicf("Code 128 pattern element/module count", w)
		}
		bars := 0
		for i := 0; i < len(w); i++ {
			if w[i] < '1' || w[i] > '4' {
				panicf("Code 128 element width must be 1..4", w)
			}
			if i%2 == 0 && i < 6 {
				bars += int(w[i] - '0')
			}
		}
		if bars%2 != 0 {
			panicf("Code 128 bar modules must sum to an even number", w)
		}
		for u := 0; u < v; u++ {
			if code128Widths[u] == w || (v == C128Stop && code128Widths[u] == w[:6]) {
				panicf("Code 128 patterns not distinct", w)
			}
		}
		code128Mods[v] = widthsToModules(w, true)
	}
	if w := code128Widths[C128Stop]; w[6] != '2' {
		panicf("Code 128 stop pattern must end with a 2-module bar", w)
	}
}

// Code128Check returns the check symbol value for vals = start value
// followed by the data values: (start + sum i*v_i) mod 103, i = 1,2,...
func Code128Check(vals []int) int {
	if len(vals) == 0 {
		panicf("Code128Check: empty value sequence", "")
	}
	sum := vals[0]
	for i := 1; i < len(vals); i++ {
		sum += i * vals[i]
	}
	return sum % 103
}

// Code128FromValues concatenates the patterns of the given values verbatim:
// 11 modules for 0..105, the 13-module stop pattern for 106.  The caller
// supplies start, data, check (and stop).
func Code128FromValues(all []int) []bool {
	out := make([]bool, 0, 11*len(all)+2)
	for _, v := range all {
		if v < 0 || v > C128Stop {
			panicf("Code128FromValues: value out of range", itoa(v))
		}
		out = append(out, code128Mods[v]...)
	}
	return out
}

// Code128 draws a complete symbol from start + data values: it appends the
// check character and the stop pattern.
func Code128(vals []int) []bool {
	all := make([]int, 0, len(vals)+2)
	all = append(all, vals...)
	all = append(all, Code128Check(vals), C128Stop)
	return Code128FromValues(all)
}

// Code128ValuesOf reads a module sequence produced by Code128FromValues back
// into values (a pure table lookup on 11-module cells; the final cell may be
// the 13-module stop).  It is meant for inspecting symbols drawn by other
// encoders.
func Code128ValuesOf(mod []bool) ([]int, error) {
	var out []int
	for pos := 0; pos < len(mod); {
		rest := len(mod) - pos
		if rest == 13 && equalMods(mod[pos:], code128Mods[C128Stop]) {
			out = append(out, C128Stop)
			pos += 13
			continue
		}
		if rest < 11 {
			return out, errorf("Code128ValuesOf: trailing modules", itoa(rest))
		}
		found := -1
		for v := 0; v < C128Stop; v++ {
			if equalMods(mod[pos:pos+11], code128Mods[v]) {
				found = v
				break
			}
		}
		if found < 0 {
			return out, errorf("Code128ValuesOf: no such pattern at module", itoa(pos))
		}
		out = append(out, found)
		pos += 11
	}
	return out, nil
}

// code128DataValue returns the value of ASCII character c in code set 'A' or
// 'B', or -1.
//
//	set A: values 0..63 = ASCII 32..95, values 64..95 = ASCII 0..31
//	set B: values 0..95 = ASCII 32..127
func code128DataValue(set byte, c byte) int {
	switch {
	case c > 127:
		return -1
	case set == 'A' && c < 32:
		return int(c) + 64
	case set == 'A' && c < 96:
		return int(c) - 32
	case set == 'B' && c >= 32:
		return int(c) - 32
	}
	return -1
}

// Code128Plan encodes 7-bit ASCII text with an explicit code-set plan:
// sets[i] in {'A','B','C'} for each input position.  For 'C' the position
// and the next one form one digit pair and sets must say 'C' for both.  It
// emits the start character for sets[0] and a CODE x character wherever the
// set changes (SHIFT is never used), and returns the value sequence without
// check and stop.  It is an error if a character is not encodable in the
// requested set, if text is empty, or if len(sets) != len(text).  Function
// characters cannot be expressed; build the value sequence directly.
func Code128Plan(text string, sets string) ([]int, error) {
	if len(text) != len(sets) {
		return nil, errorf("Code128Plan: len(sets) != len(text)", sets)
	}
	if len(text) == 0 {
		return nil, errorf("Code128Plan: empty text", text)
	}
	out := make([]int, 0, len(text)+4)
	var cur byte
	for i := 0; i < len(text); i++ {
		set := sets[i]
		if set != 'A' && set != 'B' && set != 'C' {
			return nil, errorf("Code128Plan: set must be A, B or C", sets[i:i+1])
		}
		if set != cur {
			var v int
			switch {
			case cur == 0:
				v = C128StartA + int(set-'A')
			case set == 'A':
				v = C128CodeA
			case set == 'B':
				v = C128CodeB
			default:
				v = C128CodeC
			}
			out = append(out, v)
			cur = set
		}
		if set == 'C' {
			if i+1 >= len(text) || sets[i+1] != 'C' {
				return nil, errorf("Code128Plan: set C needs a pair of positions", sets)
			}
			if !allDigits(text[i : i+2]) {
				return nil, errorf("Code128Plan: set C needs two digits", text[i:i+2])
			}
			out = append(out, int(text[i]-'0')*10+int(text[i+1]-'0'))
			i++
			continue
		}
		v := code128DataValue(set, text[i])
		if v < 0 {
			return nil, errorf("Code128Plan: character not in code set "+string(set), text[i:i+1])
		}
		out = append(out, v)
	}
	return out, nil
}

// Code128AutoSets returns a valid (not necessarily optimal) plan for
// Code128Plan: a run of n >= 4 digits is put in set C (all of it if n is
// even, all but its first digit if n is odd); control characters (< 32) go
// to set A, characters >= 96 to set B, and characters 32..95 stay in
// whichever of A/B is current (at the beginning: whichever the first
// A-only/B-only character needs, default B).
func Code128AutoSets(text string) (string, error) {
	for i := 0; i < len(text); i++ {
		if text[i] > 127 {
			return "", errorf("Code128Auto: not 7-bit ASCII", text[i:i+1])
		}
	}
	ab := byte('B')
	for i := 0; i < len(text); i++ {
		if text[i] < 32 {
			ab = 'A'
			break
		}
		if text[i] >= 96 {
			break
		}
	}
	sets := make([]byte, len(text))
	for i := 0; i < len(text); {
		n := 0
		for i+n < len(text) && text[i+n] >= '0' && text[i+n] <= '9' {
			n++
		}
		if n >= 4 {
			if n%2 == 1 {
				sets[i] = ab
				i++
				n--
			}
			for ; n > 0; n-- {
				sets[i] = 'C'
				i++
			}
			continue
		}
		c := text[i]
		if c < 32 {
			ab = 'A'
		} else if c >= 96 {
			ab = 'B'
		}
		sets[i] = ab
		i++
	}
	return string(sets), nil
}

// Code128Auto encodes 7-bit ASCII text with the plan of Code128AutoSets.
func Code128Auto(text string) ([]int, error) {
	sets, err := Code128AutoSets(text)
	if err != nil {
		return nil, err
	}
	return Code128Plan(text, sets)
}

// Code128Decode is the reference decoder of a value sequence start, data...
// (WITHOUT check and stop) to text.
//
//   - SHIFT (98) makes exactly the next symbol character be read in the other
//     of sets A/B.
//   - FNC1 (102) is dropped while the output is still empty (GS1-128 / AIM
//     flag position) and yields GS (0x1D) anywhere else.
//   - FNC2 and FNC3 are dropped.
//   - FNC4 (101 in set A, 100 in set B): a single FNC4 adds 128 to the next
//     data character; two consecutive FNC4 latch (or unlatch) extended mode,
//     inside which a single FNC4 makes the next character a plain one.
//     Extended characters are returned as runes 128..255 (ISO 8859-1), so
//     the returned string is UTF-8.
//   - start values inside the data, values > 102 and a missing start are
//     errors.
func Code128Decode(vals []int) (string, error) {
	if len(vals) == 0 || vals[0] < C128StartA || vals[0] > C128StartC {
		return "", errorf("Code128Decode: sequence does not begin with a start character", "")
	}
	set := byte('A' + vals[0] - C128StartA)
	out := make([]rune, 0, 2*len(vals))
	shift := false
	ext1, extLatch := false, false
	emit := func(c int) {
		if ext1 != extLatch {
			c += 128
		}
		ext1 = false
		out = append(out, rune(c))
	}
	fnc4 := func() {
		if ext1 {
			extLatch = !extLatch
			ext1 = false
		} else {
			ext1 = true
		}
	}
	fnc1 := func() {
		if len(out) > 0 {
			out = append(out, 0x1d)
		}
	}
	for i := 1; i < len(vals); i++ {
		v := vals[i]
		if v < 0 || v > C128FNC1 {
			return "", errorf("Code128Decode: not a data value", itoa(v))
		}
		cur := set
		if shift {
			cur = 'A' + 'B' - set
			shift = false
		}
		switch cur {
		case 'C':
			switch {
			case v < 100:
				out = append(out, rune('0'+v/10), rune('0'+v%10))
			case v == C128CodeB:
				set = 'B'
			case v == C128CodeA:
				set = 'A'
			default:
				fnc1()
			}
		default: // 'A' or 'B'
			switch {
			case v < 64:
				emit(v + 32)
			case v < 96 && cur == 'A':
				emit(v - 64)
			case v < 96:
				emit(v + 32)
			case v == C128FNC3, v == C128FNC2:
			case v == C128Shift:
				shift = true
			case v == C128CodeC:
				set = 'C'
			case v == C128CodeB && cur == 'A':
				set = 'B'
			case v == C128CodeA && cur == 'B':
				set = 'A'
			case v == C128FNC1:
				fnc1()
			default: // 101 in A, 100 in B
				fnc4()
			}
		}
	}
	if shift {
		return "", errorf("Code128Decode: SHIFT is the last data character", "")
	}
	return string(out), nil
}
