package oned

// Black-box cross-check of the reference model against the library under
// verification (exported API only): the library WRITERS must draw the same
// module sequence, and the library READERS must decode the model's images.

import (
	"math/rand"
	"testing"

	"github.com/makiuchi-d/gozxing"
	liboned "github.com/makiuchi-d/gozxing/oned"
)

// libModules encodes with a library writer and returns the first row with
// the light margins stripped.
func libModules(t *testing.T, w gozxing.Writer, contents string, f gozxing.BarcodeFormat) []bool {
	t.Helper()
	bm, err := w.Encode(contents, f, 0, 0, nil)
	if err != nil {
		t.Fatalf("library writer rejected %q: %v", contents, err)
	}
	lo, hi := -1, -1
	for x := 0; x < bm.GetWidth(); x++ {
		if bm.Get(x, 0) {
			if lo < 0 {
				lo = x
			}
			hi = x
		}
	}
	if lo < 0 {
		t.Fatalf("library writer produced an empty row for %q", contents)
	}
	out := make([]bool, hi-lo+1)
	for x := lo; x <= hi; x++ {
		out[x-lo] = bm.Get(x, 0)
	}
	return out
}

func libRead(r gozxing.Reader, mod []bool, hints map[gozxing.DecodeHintType]interface{}) (*gozxing.Result, error) {
	return libReadQuiet(r, mod, 10, 10, hints)
}

func libReadQuiet(r gozxing.Reader, mod []bool, ql, qr int, hints map[gozxing.DecodeHintType]interface{}) (*gozxing.Result, error) {
	bmp, err := gozxing.NewBinaryBitmapFromImage(Image(mod, 2, ql, qr, 20))
	if err != nil {
		return nil, err
	}
	return r.Decode(bmp, hints)
}

func expectRead(t *testing.T, r gozxing.Reader, mod []bool, hints map[gozxing.DecodeHintType]interface{}, text string, f gozxing.BarcodeFormat) {
	t.Helper()
	res, err := libRead(r, mod, hints)
	if err != nil {
		t.Fatalf("library reader failed on %q: %v", text, err)
	}
	if res.GetText() != text || res.GetBarcodeFormat() != f {
		t.Fatalf("library reader: got %q (%v), want %q (%v)", res.GetText(), res.GetBarcodeFormat(), text, f)
	}
}

func expectSame(t *testing.T, what, in string, lib, ref []bool) {
	t.Helper()
	if !equalMods(lib, ref) {
		t.Fatalf("%s %q: library writer and reference differ\n lib %s\n ref %s", what, in, modString(lib), modString(ref))
	}
}

// structuredDigits returns n-digit strings: every digit value in every
// position (repdigits and "one position differs"), plus random fill.
func structuredDigits(rng *rand.Rand, n, random int) []string {
	var out []string
	for d := 0; d < 10; d++ {
		b := make([]byte, n)
		for i := range b {
			b[i] = byte('0' + d)
		}
		out = append(out, string(b))
		for pos := 0; pos < n; pos++ {
			c := append([]byte(nil), b...)
			c[pos] = byte('0' + (d+1+pos)%10)
			out = append(out, string(c))
		}
	}
	for i := 0; i < random; i++ {
		out = append(out, randDigits(rng, n))
	}
	return out
}

func withCheck(s string) string { return s + string(rune('0'+Mod10Check(s))) }

func TestLibEAN13(t *testing.T) {
	rng := rand.New(rand.NewSource(10))
	w, r := liboned.NewEAN13Writer(), liboned.NewEAN13Reader()
	for _, s := range structuredDigits(rng, 12, 200) {
		full := withCheck(s)
		m := EAN13(full)
		expectSame(t, "EAN-13", full, libModules(t, w, full, gozxing.BarcodeFormat_EAN_13), m)
		expectRead(t, r, m, nil, full, gozxing.BarcodeFormat_EAN_13)
	}
	// wrong check digit must not read as that number
	bad := []byte(withCheck("590123412345"))
	bad[12] = '0' + (bad[12]-'0'+1)%10
	if res, err := libRead(r, EAN13(string(bad)), nil); err == nil {
		t.Fatalf("library read a wrong-check symbol as %q", res.GetText())
	}
}

func TestLibEAN8(t *testing.T) {
	rng := rand.New(rand.NewSource(11))
	w, r := liboned.NewEAN8Writer(), liboned.NewEAN8Reader()
	for _, s := range structuredDigits(rng, 7, 200) {
		full := withCheck(s)
		m := EAN8(full)
		expectSame(t, "EAN-8", full, libModules(t, w, full, gozxing.BarcodeFormat_EAN_8), m)
		expectRead(t, r, m, nil, full, gozxing.BarcodeFormat_EAN_8)
	}
}

func TestLibUPCA(t *testing.T) {
	rng := rand.New(rand.NewSource(12))
	w, r := liboned.NewUPCAWriter(), liboned.NewUPCAReader()
	for _, s := range structuredDigits(rng, 11, 200) {
		full := withCheck(s)
		m := UPCA(full)
		expectSame(t, "UPC-A", full, libModules(t, w, full, gozxing.BarcodeFormat_UPC_A), m)
		expectRead(t, r, m, nil, full, gozxing.BarcodeFormat_UPC_A)
	}
}

func TestLibUPCE(t *testing.T) {
	rng := rand.New(rand.NewSource(13))
	w, r := liboned.NewUPCEWriter(), liboned.NewUPCEReader()
	var inputs []string
	for _, s := range structuredDigits(rng, 6, 300) {
		inputs = append(inputs, "0"+s, "1"+s)
	}
	for _, u7 := range inputs {
		full := u7 + string(rune('0'+Mod10Check(UPCEExpand(u7))))
		m := UPCE(full)
		// 8-digit input (incl. check digit): the writer must agree.
		expectSame(t, "UPC-E", full, libModules(t, w, full, gozxing.BarcodeFormat_UPC_E), m)
		// Reader: 10 modules of quiet zone on both sides.
		expectRead(t, r, m, nil, full, gozxing.BarcodeFormat_UPC_E)
	}
}

func TestLibAddOns(t *testing.T) {
	rng := rand.New(rand.NewSource(14))
	r := liboned.NewEAN13Reader()
	for n := 0; n < 300; n++ {
		full := withCheck(randDigits(rng, 12))
		var ext string
		var add []bool
		if n%2 == 0 {
			ext = randDigits(rng, 2)
			if n < 200 {
				ext = string([]byte{byte('0' + n/2/10%10), byte('0' + n/2%10)}) // all 100 values
			}
			add = AddOn2(ext)
		} else {
			ext = randDigits(rng, 5)
			add = AddOn5(ext)
		}
		res, err := libRead(r, WithAddOn(EAN13(full), add, 9), nil)
		if err != nil {
			t.Fatalf("EAN-13 %s + add-on %s: %v", full, ext, err)
		}
		got, _ := res.GetResultMetadata()[gozxing.ResultMetadataType_UPC_EAN_EXTENSION].(string)
		if res.GetText() != full || got != ext {
			t.Fatalf("EAN-13 %s + add-on %s: library read %q + %q", full, ext, res.GetText(), got)
		}
	}
}

func randFrom(rng *rand.Rand, alphabet string, n int) string {
	b := make([]byte, n)
	for i := range b {
		b[i] = alphabet[rng.Intn(len(alphabet))]
	}
	return string(b)
}

func TestLibCode39(t *testing.T) {
	rng := rand.New(rand.NewSource(15))
	w := liboned.NewCode39Writer()
	r := liboned.NewCode39Reader()
	rc := liboned.NewCode39ReaderWithFlags(true, false)
	var inputs []string
	for i := 0; i < len(Code39Alphabet); i++ {
		inputs = append(inputs, "A"+Code39Alphabet[i:i+1]+"Z", Code39Alphabet[i:i+1])
	}
	inputs = append(inputs, Code39Alphabet)
	for i := 0; i < 300; i++ {
		inputs = append(inputs, randFrom(rng, Code39Alphabet, 1+rng.Intn(20)))
	}
	for _, s := range inputs {
		m2, err := Code39(s, 2)
		if err != nil {
			t.Fatal(err)
		}
		expectSame(t, "Code 39", s, libModules(t, w, s, gozxing.BarcodeFormat_CODE_39), m2) // library draws 2:1
		m3, _ := Code39(s, 3)
		expectRead(t, r, m2, nil, s, gozxing.BarcodeFormat_CODE_39)
		expectRead(t, r, m3, nil, s, gozxing.BarcodeFormat_CODE_39)
		// with check character
		mc, _ := Code39(s+string(Code39Check(s)), 3)
		expectRead(t, rc, mc, nil, s, gozxing.BarcodeFormat_CODE_39)
	}
}

func TestLibCode39Extended(t *testing.T) {
	rng := rand.New(rand.NewSource(16))
	w := liboned.NewCode39Writer()
	r := liboned.NewCode39ReaderWithFlags(false, true)
	var inputs []string
	for c := 0; c < 128; c++ {
		inputs = append(inputs, "x"+string(rune(c))+"y")
	}
	for i := 0; i < 200; i++ {
		b := make([]byte, 1+rng.Intn(10))
		for j := range b {
			b[j] = byte(rng.Intn(128))
		}
		inputs = append(inputs, "a"+string(b)) // 'a' forces full-ASCII mode in any encoder
	}
	for _, s := range inputs {
		enc, err := Code39ExtendedEncode(s)
		if err != nil {
			t.Fatal(err)
		}
		m, err := Code39(enc, 2)
		if err != nil {
			t.Fatal(err)
		}
		expectSame(t, "Code 39 full ASCII", s, libModules(t, w, s, gozxing.BarcodeFormat_CODE_39), m)
		expectRead(t, r, m, nil, s, gozxing.BarcodeFormat_CODE_39)
	}
}

func TestLibCode93(t *testing.T) {
	rng := rand.New(rand.NewSource(17))
	w, r := liboned.NewCode93Writer(), liboned.NewCode93Reader()
	var inputs []string
	for c := 0; c < 128; c++ {
		inputs = append(inputs, "A"+string(rune(c))+"9")
	}
	inputs = append(inputs, "TEST93", Code39Alphabet)
	for i := 0; i < 300; i++ {
		if i%2 == 0 {
			inputs = append(inputs, randFrom(rng, Code39Alphabet, 1+rng.Intn(45)))
		} else {
			inputs = append(inputs, randASCII(rng, 1+rng.Intn(20)))
		}
	}
	for _, s := range inputs {
		m, err := Code93(s)
		if err != nil {
			t.Fatal(err)
		}
		expectSame(t, "Code 93", s, libModules(t, w, s, gozxing.BarcodeFormat_CODE_93), m)
		expectRead(t, r, m, nil, s, gozxing.BarcodeFormat_CODE_93)
	}
}

func TestLibCode128(t *testing.T) {
	rng := rand.New(rand.NewSource(18))
	w, r := liboned.NewCode128Writer(), liboned.NewCode128Reader()

	// (1) every symbol value drawn by the reference reads back through the
	// library reader: all of sets A and B, all 100 pairs of set C.
	var texts, plans []string
	for c := 0; c < 128; c++ {
		s := "K" + string(rune(c)) + "K"
		if c < 96 {
			texts, plans = append(texts, s), append(plans, "AAA")
		}
		if c >= 32 {
			texts, plans = append(texts, s), append(plans, "BBB")
		}
	}
	for v := 0; v < 100; v++ {
		s := string([]byte{'4', '2', byte('0' + v/10), byte('0' + v%10)})
		texts, plans = append(texts, s), append(plans, "CCCC")
	}
	for i := 0; i < 400; i++ {
		s := randASCII(rng, 1+rng.Intn(16))
		texts, plans = append(texts, s), append(plans, randomPlan(rng, s))
	}
	for i, s := range texts {
		vals, err := Code128Plan(s, plans[i])
		if err != nil {
			t.Fatal(err)
		}
		expectRead(t, r, Code128(vals), nil, s, gozxing.BarcodeFormat_CODE_128)
	}

	// (2) whatever plan the library writer chooses, its symbol must be a
	// valid value sequence with the right check character and stop, and the
	// reference decoder must give back the text.
	for i := 0; i < 400; i++ {
		s := randASCII(rng, 1+rng.Intn(16))
		lm := libModules(t, w, s, gozxing.BarcodeFormat_CODE_128)
		vals, err := Code128ValuesOf(lm)
		if err != nil || len(vals) < 3 {
			t.Fatalf("library symbol for %q is not a Code 128 pattern sequence: %v", s, err)
		}
		n := len(vals)
		if vals[n-1] != C128Stop || vals[n-2] != Code128Check(vals[:n-2]) {
			t.Fatalf("library symbol for %q: bad check/stop %v", s, vals)
		}
		got, err := Code128Decode(vals[:n-2])
		if err != nil || got != s {
			t.Fatalf("library symbol for %q decodes (reference) to %q, %v; values %v", s, got, err, vals)
		}
	}

	// (3) inputs with only one sensible plan must be drawn identically.
	for i := 0; i < 200; i++ {
		var s, plan string
		switch i % 3 {
		case 0: // even number of digits: pure set C
			s = randDigits(rng, 2*(1+rng.Intn(8)))
			plan = repeat('C', len(s))
		case 1: // lower case + punctuation, no digits: pure set B
			s = randFrom(rng, "abcdefghijklmnopqrstuvwxyz{|}~ !#-./:", 1+rng.Intn(16))
			plan = repeat('B', len(s))
		default: // a control character first, then control + upper case: pure set A
			// (the library starts in B and switches later if the text
			// begins with upper-case letters: valid, one symbol longer)
			s = randFrom(rng, "\x00\x01\x02\x09\x0a\x0d\x1b\x1f", 1) + randFrom(rng, "\x00\x01\x02\x09\x0a\x0d\x1b\x1fABCXYZ", rng.Intn(16))
			plan = repeat('A', len(s))
		}
		vals, err := Code128Plan(s, plan)
		if err != nil {
			t.Fatal(err)
		}
		expectSame(t, "Code 128", s, libModules(t, w, s, gozxing.BarcodeFormat_CODE_128), Code128(vals))
	}
}

func repeat(c byte, n int) string {
	b := make([]byte, n)
	for i := range b {
		b[i] = c
	}
	return string(b)
}

func TestLibITF(t *testing.T) {
	rng := rand.New(rand.NewSource(19))
	w, r := liboned.NewITFWriter(), liboned.NewITFReader()
	var inputs []string
	for a := 0; a < 10; a++ {
		for b := 0; b < 10; b++ { // every pair
			inputs = append(inputs, "1234"+string([]byte{byte('0' + a), byte('0' + b)}))
		}
	}
	for i := 0; i < 300; i++ {
		inputs = append(inputs, randDigits(rng, 6+2*rng.Intn(12)))
	}
	for _, s := range inputs {
		m3, err := ITF(s, 3)
		if err != nil {
			t.Fatal(err)
		}
		expectSame(t, "ITF", s, libModules(t, w, s, gozxing.BarcodeFormat_ITF), m3) // library draws 3:1
		expectRead(t, r, m3, nil, s, gozxing.BarcodeFormat_ITF)
		m2, _ := ITF(s, 2)
		expectRead(t, r, m2, nil, s, gozxing.BarcodeFormat_ITF)
	}
}

func TestLibCodabar(t *testing.T) {
	rng := rand.New(rand.NewSource(20))
	w, r := liboned.NewCodaBarWriter(), liboned.NewCodaBarReader()
	keep := map[gozxing.DecodeHintType]interface{}{gozxing.DecodeHintType_RETURN_CODABAR_START_END: true}
	const data = "0123456789-$:/.+"
	var inputs []string
	for i := 0; i < len(data); i++ {
		for _, ss := range []string{"AA", "BC", "CD", "DB"} {
			inputs = append(inputs, ss[:1]+"12"+data[i:i+1]+"3"+ss[1:])
		}
	}
	for i := 0; i < 300; i++ {
		inputs = append(inputs, randFrom(rng, "ABCD", 1)+randFrom(rng, data, 2+rng.Intn(14))+randFrom(rng, "ABCD", 1))
	}
	for _, s := range inputs {
		m2, err := Codabar(s, 2)
		if err != nil {
			t.Fatal(err)
		}
		expectSame(t, "Codabar", s, libModules(t, w, s, gozxing.BarcodeFormat_CODABAR), m2) // library draws 2:1
		expectRead(t, r, m2, keep, s, gozxing.BarcodeFormat_CODABAR)
		expectRead(t, r, m2, nil, s[1:len(s)-1], gozxing.BarcodeFormat_CODABAR)
		m3, _ := Codabar(s, 3)
		expectRead(t, r, m3, keep, s, gozxing.BarcodeFormat_CODABAR)
	}
}

// TestLibKnownIssues only LOGS (never fails on) library behaviour that is
// known to deviate, so that the evidence stays reproducible:
//
//	(a) the UPC-E writer given 7 digits computes the check digit on the
//	    unexpanded number;
//	(b) the UPC-E reader needs a wider right quiet zone than the other
//	    UPC/EAN readers and than the UPC-E writer's default margin provides;
//	(c) MultiFormatUPCEANReader without a POSSIBLE_FORMATS hint reports a
//	    UPC-A symbol as EAN_13 with a leading 0 (upstream ZXing reports UPC_A;
//	    pinned by the library's own tests).
func TestLibKnownIssues(t *testing.T) {
	w := liboned.NewUPCEWriter()
	for _, u7 := range []string{"0425261", "0100003", "0123455"} {
		want := u7 + string(rune('0'+Mod10Check(UPCEExpand(u7))))
		naive := u7 + string(rune('0'+Mod10Check(u7)))
		bm, err := w.Encode(u7, gozxing.BarcodeFormat_UPC_E, 0, 0, nil)
		if err != nil {
			t.Logf("(a) UPC-E writer(%s): %v", u7, err)
			continue
		}
		lm := libModules(t, w, u7, gozxing.BarcodeFormat_UPC_E)
		t.Logf("(a) UPC-E writer(%s): draws correct %s: %v; draws %s (check digit of the unexpanded number): %v; total width %d",
			u7, want, equalMods(lm, UPCE(want)), naive, equalMods(lm, UPCE(naive)), bm.GetWidth())
	}
	minRight := func(r gozxing.Reader, m []bool) int {
		for q := 0; q <= 30; q++ {
			if _, err := libReadQuiet(r, m, 20, q, nil); err == nil {
				return q
			}
		}
		return -1
	}
	t.Logf("(b) minimal right quiet zone in modules at scale 2: EAN-13 %d, EAN-8 %d, UPC-A %d, UPC-E %d",
		minRight(liboned.NewEAN13Reader(), EAN13("5901234123457")),
		minRight(liboned.NewEAN8Reader(), EAN8("96385074")),
		minRight(liboned.NewUPCAReader(), UPCA("036000291452")),
		minRight(liboned.NewUPCEReader(), UPCE("04252614")))
	if bm, err := w.Encode("04252614", gozxing.BarcodeFormat_UPC_E, 0, 0, nil); err == nil {
		bmp, _ := gozxing.NewBinaryBitmapFromImage(bm)
		_, err := liboned.NewUPCEReader().Decode(bmp, nil)
		t.Logf("(b) UPC-E reader on the UPC-E writer's default output (width %d): err=%v", bm.GetWidth(), err)
	}
	if res, err := libRead(liboned.NewMultiFormatUPCEANReader(nil), UPCA("036000291452"), nil); err == nil {
		t.Logf("(c) MultiFormatUPCEANReader(nil) on UPC-A 036000291452: %q %v", res.GetText(), res.GetBarcodeFormat())
	}
}
