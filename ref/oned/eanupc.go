package oned

// ---------------------------------------------------------------------------
// EAN/UPC (GS1 General Specifications, section 5.2)
//
// Number sets: A ("L", odd parity, starts light / ends dark), B ("G", even
// parity, starts light / ends dark) and C ("R", even parity, starts dark /
// ends light).  R is the complement of L; G is R read backwards.
// ---------------------------------------------------------------------------

// eanLModules: set A / "L" patterns as 7-module strings.
var eanLModules = [10]string{
	"0001101", // 0
	"0011001", // 1
	"0010011", // 2
	"0111101", // 3
	"0100011", // 4
	"0110001", // 5
	"0101111", // 6
	"0111011", // 7
	"0110111", // 8
	"0001011", // 9
}

// eanLWidths: the same patterns as space-bar-space-bar element widths
// (second, independent notation; init checks that both agree).
var eanLWidths = [10]string{
	"3211", "2221", "2122", "1411", "1132",
	"1231", "1114", "1312", "1213", "3112",
}

// ean13Parity: number sets of the six left-half digits of EAN-13, selected by
// the implicit leading digit.
var ean13Parity = [10]string{
	"LLLLLL", // 0 (UPC-A)
	"LLGLGG", // 1
	"LLGGLG", // 2
	"LLGGGL", // 3
	"LGLLGG", // 4
	"LGGLLG", // 5
	"LGGGLL", // 6
	"LGLGLG", // 7
	"LGLGGL", // 8
	"LGGLGL", // 9
}

// upceParity0: number sets of the six UPC-E digits for number system 0,
// selected by the (implicit) check digit.  Number system 1 uses the inverse.
var upceParity0 = [10]string{
	"GGGLLL", // 0
	"GGLGLL", // 1
	"GGLLGL", // 2
	"GGLLLG", // 3
	"GLGGLL", // 4
	"GLLGGL", // 5
	"GLLLGG", // 6
	"GLGLGL", // 7
	"GLGLLG", // 8
	"GLLGLG", // 9
}

// addOn5Parity: number sets of the 5-digit add-on, selected by its checksum.
var addOn5Parity = [10]string{
	"GGLLL", // 0
	"GLGLL", // 1
	"GLLGL", // 2
	"GLLLG", // 3
	"LGGLL", // 4
	"LLGGL", // 5
	"LLLGG", // 6
	"LGLGL", // 7
	"LGLLG", // 8
	"LLGLG", // 9
}

const (
	setL = 0
	setG = 1
	setR = 2
)

var (
	eanSet        [3][10][]bool // [set][digit] -> 7 modules
	guardNormal   = modulesOf("101")
	guardCentre   = modulesOf("01010")
	guardUPCEEnd  = modulesOf("010101")
	addOnStart    = modulesOf("1011")
	addOnDelineat = modulesOf("01")
)

func init() {
	for d := 0; d < 10; d++ {
		l := modulesOf(eanLModules[d])
		if len(l) != 7 || sumDigits(eanLWidths[d]) != 7 || len(eanLWidths[d]) != 4 {
			panicf("EAN L pattern is not 7 modules / 4 elements", eanLModules[d])
		}
		if !equalMods(l, widthsToModules(eanLWidths[d], false)) {
			panicf("EAN L module string and width string disagree", eanLModules[d])
		}
		if l[0] || !l[6] {
			panicf("EAN L pattern must start light and end dark", eanLModules[d])
		}
		r := make([]bool, 7)
		g := make([]bool, 7)
		dark := 0
		for i, m := range l {
			r[i] = !m
			if m {
				dark++
			}
		}
		for i := range g {
			g[i] = r[6-i]
		}
		if dark%2 != 1 {
			panicf("EAN L pattern must have odd parity", eanLModules[d])
		}
		eanSet[setL][d], eanSet[setG][d], eanSet[setR][d] = l, g, r
	}
	// all 30 patterns distinct (also implies the 10 L patterns are distinct,
	// and that no G pattern is an L pattern read in either direction)
	for s1 := 0; s1 < 3; s1++ {
		for d1 := 0; d1 < 10; d1++ {
			for s2 := 0; s2 < 3; s2++ {
				for d2 := 0; d2 < 10; d2++ {
					if (s1 != s2 || d1 != d2) && equalMods(eanSet[s1][d1], eanSet[s2][d2]) {
						panicf("EAN patterns not distinct", eanLModules[d1])
					}
				}
			}
		}
	}
	// parity tables
	for d := 0; d < 10; d++ {
		p, u, a := ean13Parity[d], upceParity0[d], addOn5Parity[d]
		if len(p) != 6 || len(u) != 6 || len(a) != 5 {
			panicf("parity row length", p)
		}
		if p[0] != 'L' {
			panicf("EAN-13 parity row must start with L", p)
		}
		wantG := 3
		if d == 0 {
			wantG = 0
		}
		if countByte(p, 'G') != wantG || countByte(p, 'L') != 6-wantG {
			panicf("EAN-13 parity row G count", p)
		}
		// The UPC-E (number system 0) parity for check digit d = 1..9 is the
		// exact inverse of the EAN-13 row d; every row is 3 G + 3 L and
		// starts with G.  (Together with the inverted rows of number system 1
		// and distinctness, the 20 rows are all C(6,3) 3-of-6 patterns.)
		if countByte(u, 'G') != 3 || countByte(u, 'L') != 3 || u[0] != 'G' {
			panicf("UPC-E parity row must be 3 G + 3 L starting with G", u)
		}
		for i := 0; i < 6 && d > 0; i++ {
			if (p[i] == 'L') == (u[i] == 'L') {
				panicf("UPC-E parity row is not the inverse of the EAN-13 row", u)
			}
		}
		if countByte(a, 'G') != 2 || countByte(a, 'L') != 3 {
			panicf("add-on 5 parity row must be 2 G of 5", a)
		}
		for e := 0; e < d; e++ {
			if ean13Parity[e] == p || addOn5Parity[e] == a || upceParity0[e] == u {
				panicf("parity rows not distinct", p)
			}
		}
	}
}

func countByte(s string, c byte) int {
	n := 0
	for i := 0; i < len(s); i++ {
		if s[i] == c {
			n++
		}
	}
	return n
}

// Mod10Check returns the GS1 check digit for a digit string that does NOT
// yet contain its check digit: weights 3,1,3,... starting from the rightmost
// digit.  Panics on a non-digit.
func Mod10Check(digits string) int {
	if !allDigits(digits) {
		panicf("Mod10Check: non-digit", digits)
	}
	sum := 0
	w := 3
	for i := len(digits) - 1; i >= 0; i-- {
		sum += w * int(digits[i]-'0')
		w = 4 - w
	}
	return (10 - sum%10) % 10
}

// EAN13 draws the 95 modules of an EAN-13 symbol.  The check digit is not
// validated.
func EAN13(d13 string) []bool {
	mustDigits("EAN13", d13, 13)
	out := make([]bool, 0, 95)
	out = append(out, guardNormal...)
	par := ean13Parity[d13[0]-'0']
	for i := 0; i < 6; i++ {
		set := setL
		if par[i] == 'G' {
			set = setG
		}
		out = append(out, eanSet[set][d13[1+i]-'0']...)
	}
	out = append(out, guardCentre...)
	for i := 7; i < 13; i++ {
		out = append(out, eanSet[setR][d13[i]-'0']...)
	}
	return append(out, guardNormal...)
}

// EAN8 draws the 67 modules of an EAN-8 symbol (4 L digits, 4 R digits).
func EAN8(d8 string) []bool {
	mustDigits("EAN8", d8, 8)
	out := make([]bool, 0, 67)
	out = append(out, guardNormal...)
	for i := 0; i < 4; i++ {
		out = append(out, eanSet[setL][d8[i]-'0']...)
	}
	out = append(out, guardCentre...)
	for i := 4; i < 8; i++ {
		out = append(out, eanSet[setR][d8[i]-'0']...)
	}
	return append(out, guardNormal...)
}

// UPCA draws the 95 modules of a UPC-A symbol (6 L digits, 6 R digits); it is
// identical to EAN13("0"+d12).
func UPCA(d12 string) []bool {
	mustDigits("UPCA", d12, 12)
	out := make([]bool, 0, 95)
	out = append(out, guardNormal...)
	for i := 0; i < 6; i++ {
		out = append(out, eanSet[setL][d12[i]-'0']...)
	}
	out = append(out, guardCentre...)
	for i := 6; i < 12; i++ {
		out = append(out, eanSet[setR][d12[i]-'0']...)
	}
	return append(out, guardNormal...)
}

// UPCEParity returns the number sets (true = G / even) of the six UPC-E
// digits for the given number system (0 or 1) and check digit (0..9).
func UPCEParity(numSys, check int) [6]bool {
	if numSys != 0 && numSys != 1 || check < 0 || check > 9 {
		panicf("UPCEParity: number system must be 0 or 1, check 0..9", itoa(numSys)+","+itoa(check))
	}
	var p [6]bool
	row := upceParity0[check]
	for i := 0; i < 6; i++ {
		p[i] = (row[i] == 'G') != (numSys == 1)
	}
	return p
}

// UPCE draws the 51 modules of a UPC-E symbol from 8 digits: number system
// (0 or 1), six data digits, check digit.  Number system and check digit are
// encoded only in the parity pattern.  The check digit is not validated.
func UPCE(d8 string) []bool {
	mustDigits("UPCE", d8, 8)
	if d8[0] > '1' {
		panicf("UPCE: number system must be 0 or 1", d8)
	}
	return UPCEWithParity(d8[1:7], UPCEParity(int(d8[0]-'0'), int(d8[7]-'0')))
}

// UPCEWithParity draws a UPC-E symbol with an explicit parity pattern
// (true = G / even), which need not be one of the 20 valid ones.
func UPCEWithParity(d6 string, parity [6]bool) []bool {
	mustDigits("UPCEWithParity", d6, 6)
	out := make([]bool, 0, 51)
	out = append(out, guardNormal...)
	for i := 0; i < 6; i++ {
		set := setL
		if parity[i] {
			set = setG
		}
		out = append(out, eanSet[set][d6[i]-'0']...)
	}
	return append(out, guardUPCEEnd...)
}

// UPCEExpand converts a zero-suppressed UPC-E number to UPC-A.
// Input is 7 digits (number system + six digits) giving 11 digits (UPC-A
// without check digit), or 8 digits (with check digit) giving 12 digits (the
// check digit is carried over unchanged: by definition a UPC-E number has the
// check digit of its UPC-A expansion).
//
// With the six digits written d1..d6:
//
//	d6 = 0,1,2 : d1 d2 d6 0 0   0 0 d3 d4 d5
//	d6 = 3     : d1 d2 d3 0 0   0 0 0 d4 d5
//	d6 = 4     : d1 d2 d3 d4 0  0 0 0 0 d5
//	d6 = 5..9  : d1 d2 d3 d4 d5 0 0 0 0 d6
func UPCEExpand(u string) string {
	if (len(u) != 7 && len(u) != 8) || !allDigits(u) {
		panicf("UPCEExpand: want 7 or 8 digits", u)
	}
	d := u[1:7]
	b := make([]byte, 0, 12)
	b = append(b, u[0])
	switch d[5] {
	case '0', '1', '2':
		b = append(b, d[0], d[1], d[5], '0', '0', '0', '0', d[2], d[3], d[4])
	case '3':
		b = append(b, d[0], d[1], d[2], '0', '0', '0', '0', '0', d[3], d[4])
	case '4':
		b = append(b, d[0], d[1], d[2], d[3], '0', '0', '0', '0', '0', d[4])
	default:
		b = append(b, d[0], d[1], d[2], d[3], d[4], '0', '0', '0', '0', d[5])
	}
	if len(u) == 8 {
		b = append(b, u[7])
	}
	return string(b)
}

// UPCESuppress is the inverse of UPCEExpand: it zero-suppresses an 11-digit
// UPC-A number (number system 0 or 1, no check digit) to number system + six
// digits, if that is possible.  The four GS1 rules are tried in order, so
// that the result is the canonical UPC-E form and
// UPCEExpand(UPCESuppress(n)) == n whenever ok.
//
// With a11 = N m1..m5 p1..p5:
//
//  1. m3 in 0..2, m4=m5=0, p1=p2=0        -> m1 m2 p3 p4 p5 m3
//  2. m4=m5=0, p1=p2=p3=0                 -> m1 m2 m3 p4 p5 3
//  3. m5=0, p1=p2=p3=p4=0                 -> m1 m2 m3 m4 p5 4
//  4. p1=p2=p3=p4=0, p5 in 5..9           -> m1 m2 m3 m4 m5 p5
//
// Consequently the UPC-E numbers with d6=3 and d3 in 0..2, with d6=4 and
// d4=0, or with d6 in 5..9 and d5=0 are non-canonical: they expand to a
// UPC-A number that an earlier rule suppresses differently (180,000 of the
// 2,000,000 seven-digit UPC-E numbers).
func UPCESuppress(a11 string) (u7 string, ok bool) {
	mustDigits("UPCESuppress", a11, 11)
	if a11[0] > '1' {
		return "", false
	}
	m := a11[1:6]
	p := a11[6:11]
	z := func(s string) bool {
		for i := 0; i < len(s); i++ {
			if s[i] != '0' {
				return false
			}
		}
		return true
	}
	var d [7]byte
	d[0] = a11[0]
	switch {
	case m[2] <= '2' && z(m[3:]) && z(p[:2]):
		d[1], d[2], d[3], d[4], d[5], d[6] = m[0], m[1], p[2], p[3], p[4], m[2]
	case z(m[3:]) && z(p[:3]):
		d[1], d[2], d[3], d[4], d[5], d[6] = m[0], m[1], m[2], p[3], p[4], '3'
	case z(m[4:]) && z(p[:4]):
		d[1], d[2], d[3], d[4], d[5], d[6] = m[0], m[1], m[2], m[3], p[4], '4'
	case z(p[:4]) && p[4] >= '5':
		d[1], d[2], d[3], d[4], d[5], d[6] = m[0], m[1], m[2], m[3], m[4], p[4]
	default:
		return "", false
	}
	return string(d[:]), true
}

// UPCECanonical reports whether the 7-digit (or 8-digit) UPC-E number is the
// canonical zero-suppressed form of its expansion (see UPCESuppress).
func UPCECanonical(u string) bool {
	if (len(u) != 7 && len(u) != 8) || !allDigits(u) {
		panicf("UPCECanonical: want 7 or 8 digits", u)
	}
	if u[0] > '1' {
		return false
	}
	d := u[1:7]
	switch {
	case d[5] <= '2':
		return true
	case d[5] == '3':
		return d[2] >= '3'
	case d[5] == '4':
		return d[3] != '0'
	default:
		return d[4] != '0'
	}
}

// AddOn2 draws the 20 modules of a 2-digit add-on symbol.  Parity: value mod
// 4 = 0 LL, 1 LG, 2 GL, 3 GG.
func AddOn2(v string) []bool {
	mustDigits("AddOn2", v, 2)
	n := (int(v[0]-'0')*10 + int(v[1]-'0')) % 4
	return AddOn2WithParity(v, [2]bool{n&2 != 0, n&1 != 0})
}

// AddOn2WithParity draws a 2-digit add-on with explicit parity (true = G).
func AddOn2WithParity(v string, parity [2]bool) []bool {
	mustDigits("AddOn2WithParity", v, 2)
	return addOn(v, parity[:])
}

// AddOn5Checksum is the parity selector of the 5-digit add-on:
// (3*(d1+d3+d5) + 9*(d2+d4)) mod 10.
func AddOn5Checksum(v string) int {
	mustDigits("AddOn5Checksum", v, 5)
	d := func(i int) int { return int(v[i] - '0') }
	return (3*(d(0)+d(2)+d(4)) + 9*(d(1)+d(3))) % 10
}

// AddOn5 draws the 47 modules of a 5-digit add-on symbol.
func AddOn5(v string) []bool {
	row := addOn5Parity[AddOn5Checksum(v)]
	var p [5]bool
	for i := range p {
		p[i] = row[i] == 'G'
	}
	return AddOn5WithParity(v, p)
}

// AddOn5Parity returns the parity pattern ("L"/"G" per digit) that encodes the checksum of v.
func AddOn5Parity(v string) string { return addOn5Parity[AddOn5Checksum(v)] }

// AddOn5WithParity draws a 5-digit add-on with explicit parity (true = G).
func AddOn5WithParity(v string, parity [5]bool) []bool {
	mustDigits("AddOn5WithParity", v, 5)
	return addOn(v, parity[:])
}

// addOn: add-on guard 1011, then the digits separated by delineators 01.
func addOn(v string, parity []bool) []bool {
	out := make([]bool, 0, 4+9*len(v)-2)
	out = append(out, addOnStart...)
	for i := 0; i < len(v); i++ {
		if i > 0 {
			out = append(out, addOnDelineat...)
		}
		set := setL
		if parity[i] {
			set = setG
		}
		out = append(out, eanSet[set][v[i]-'0']...)
	}
	return out
}

// WithAddOn joins a main symbol and an add-on symbol with gap light modules
// between them (GS1: 7..12 modules; whatever is given is used).
func WithAddOn(main, addon []bool, gap int) []bool {
	if gap < 0 {
		panicf("WithAddOn: negative gap", itoa(gap))
	}
	out := make([]bool, 0, len(main)+gap+len(addon))
	out = append(out, main...)
	out = append(out, make([]bool, gap)...)
	return append(out, addon...)
}
