package oned

import "image"

// RunLengths returns the alternating run lengths of mod starting with a dark
// run (the first entry is 0 if mod starts light).  Empty input gives nil.
func RunLengths(mod []bool) []int {
	if len(mod) == 0 {
		return nil
	}
	var out []int
	cur := true
	n := 0
	for _, m := range mod {
		if m == cur {
			n++
			continue
		}
		out = append(out, n)
		cur = m
		n = 1
	}
	return append(out, n)
}

// FromRunLengths is the inverse of RunLengths.
func FromRunLengths(runs []int) []bool {
	var out []bool
	dark := true
	for _, n := range runs {
		for i := 0; i < n; i++ {
			out = append(out, dark)
		}
		dark = !dark
	}
	return out
}

// Row builds one pixel row: quietL light modules + modules + quietR light
// modules, each module scale pixels wide.
func Row(mod []bool, scale, quietL, quietR int) []bool {
	if scale < 1 || quietL < 0 || quietR < 0 {
		panicf("Row: scale must be >= 1 and quiet zones >= 0", itoa(scale))
	}
	out := make([]bool, (quietL+len(mod)+quietR)*scale)
	p := quietL * scale
	for _, m := range mod {
		if m {
			for j := 0; j < scale; j++ {
				out[p+j] = true
			}
		}
		p += scale
	}
	return out
}

// Image renders the row height times into an *image.Gray (dark = 0, light =
// 255).
func Image(mod []bool, scale, quietL, quietR, height int) *image.Gray {
	if height < 1 {
		panicf("Image: height must be >= 1", itoa(height))
	}
	row := Row(mod, scale, quietL, quietR)
	img := image.NewGray(image.Rect(0, 0, len(row), height))
	line := img.Pix[:len(row)]
	for x, dark := range row {
		if dark {
			line[x] = 0
		} else {
			line[x] = 255
		}
	}
	for y := 1; y < height; y++ {
		copy(img.Pix[y*img.Stride:y*img.Stride+len(row)], line)
	}
	return img
}
