package oned

// ---------------------------------------------------------------------------
// Code 93 (AIM USS-93)
//
// Every character is 9 modules: 3 bars and 3 spaces, each 1..4 modules,
// starting with a bar.  Values 0..42 are the Code 39 alphabet in the same
// order, 43..46 are the shift characters ($) (%) (/) (+), 47 is start/stop.
// A symbol is start, data, check C, check K, stop, termination bar.
// ---------------------------------------------------------------------------

const (
	Code93ShiftDollar  = 43 // ($)
	Code93ShiftPercent = 44 // (%)
	Code93ShiftSlash   = 45 // (/)
	Code93ShiftPlus    = 46 // (+)
	Code93StartStop    = 47
)

// code93Widths: bar-space-bar-space-bar-space widths, index = value.
var code93Widths = [48]string{
	"131112", // 0
	"111213", // 1
	"111312", // 2
	"111411", // 3
	"121113", // 4
	"121212", // 5
	"121311", // 6
	"111114", // 7
	"131211", // 8
	"141111", // 9
	"211113", // A
	"211212", // B
	"211311", // C
	"221112", // D
	"221211", // E
	"231111", // F
	"112113", // G
	"112212", // H
	"112311", // I
	"122112", // J
	"132111", // K
	"111123", // L
	"111222", // M
	"111321", // N
	"121122", // O
	"131121", // P
	"212112", // Q
	"212211", // R
	"211122", // S
	"211221", // T
	"221121", // U
	"222111", // V
	"112122", // W
	"112221", // X
	"122121", // Y
	"123111", // Z
	"121131", // -
	"311112", // .
	"311211", // space
	"321111", // $
	"112131", // /
	"113121", // +
	"211131", // %
	"121221", // ($)
	"312111", // (%)
	"311121", // (/)
	"122211", // (+)
	"111141", // start/stop
}

var code93Mods [48][]bool

func init() {
	for v, w := range code93Widths {
		if len(w) != 6 || sumDigits(w) != 9 {
			panicf("Code 93 pattern must be 6 elements / 9 modules", w)
		}
		for i := 0; i < 6; i++ {
			if w[i] < '1' || w[i] > '4' {
				panicf("Code 93 element width must be 1..4", w)
			}
		}
		for u := 0; u < v; u++ {
			if code93Widths[u] == w {
				panicf("Code 93 patterns not distinct", w)
			}
		}
		code93Mods[v] = widthsToModules(w, true)
	}
	// Property of the USS-93 table: of the six patterns containing a
	// 4-module element, 411111 and 114111 are unused, three data characters
	// (3, 7, 9) have a 4-module space, and start/stop is the only pattern
	// with a 4-module bar.
	for v, w := range code93Widths {
		has4bar := w[0] == '4' || w[2] == '4' || w[4] == '4'
		if has4bar != (v == Code93StartStop) {
			panicf("Code 93: only start/stop has a 4-module bar", w)
		}
	}
}

// code93Ext[c]: value sequence for ASCII c in full-ASCII Code 93.
var code93Ext [128][]int

func init() {
	val := func(c byte) int { return int(code39Index[c]) } // same order as Code 39
	set := func(c int, vals ...int) {
		if code93Ext[c] != nil {
			panicf("Code 93 full ASCII table: duplicate", itoa(c))
		}
		code93Ext[c] = vals
	}
	pair := func(shift int, first byte, from, to int) {
		for c := from; c <= to; c++ {
			set(c, shift, val(first+byte(c-from)))
		}
	}
	single := func(chars string) {
		for i := 0; i < len(chars); i++ {
			set(int(chars[i]), val(chars[i]))
		}
	}
	set(0, Code93ShiftPercent, val('U'))
	pair(Code93ShiftDollar, 'A', 1, 26)
	pair(Code93ShiftPercent, 'A', 27, 31)
	// The 43 native characters are encoded as themselves (unlike full-ASCII
	// Code 39, the shift characters are distinct from $ % / +).
	single(Code39Alphabet)
	pair(Code93ShiftSlash, 'A', '!', '#')   // ! " #   (/A../C)
	pair(Code93ShiftSlash, 'F', '&', '*')   // & ' ( ) *   (/F../J)
	set(',', Code93ShiftSlash, val('L'))    // ,
	set(':', Code93ShiftSlash, val('Z'))    // :
	pair(Code93ShiftPercent, 'F', ';', '?') // ; < = > ?
	set('@', Code93ShiftPercent, val('V'))
	pair(Code93ShiftPercent, 'K', '[', '_')
	set('`', Code93ShiftPercent, val('W'))
	pair(Code93ShiftPlus, 'A', 'a', 'z')
	pair(Code93ShiftPercent, 'P', '{', '~')
	set(127, Code93ShiftPercent, val('T'))

	for c, s := range code93Ext {
		if len(s) != 1 && len(s) != 2 {
			panicf("Code 93 full ASCII table: missing entry", itoa(c))
		}
		for _, v := range s {
			if v < 0 || v > 46 {
				panicf("Code 93 full ASCII table: bad value", itoa(c))
			}
		}
		if len(s) == 2 && (s[0] < 43 || s[1] < 10 || s[1] > 35) {
			panicf("Code 93 full ASCII table: pair must be shift + letter", itoa(c))
		}
		if len(s) == 1 && s[0] > 42 {
			panicf("Code 93 full ASCII table: bare shift", itoa(c))
		}
	}
}

// Code93Values returns the data symbol values (0..46) for 7-bit ASCII text
// after full-ASCII encoding, WITHOUT check characters.  The 43 native
// characters (Code39Alphabet) map to one value each, everything else to a
// shift character 43..46 followed by a letter.
func Code93Values(ascii string) ([]int, error) {
	out := make([]int, 0, len(ascii)+8)
	for i := 0; i < len(ascii); i++ {
		c := ascii[i]
		if c > 127 {
			return nil, errorf("Code93Values: not 7-bit ASCII", ascii[i:i+1])
		}
		out = append(out, code93Ext[c]...)
	}
	return out, nil
}

// Code93Checks computes the two modulo-47 check characters: C with weights
// 1..20 cycling from the rightmost data value, K with weights 1..15 cycling
// from C (i.e. over vals followed by C).
func Code93Checks(vals []int) (c, k int) {
	w := 1
	for i := len(vals) - 1; i >= 0; i-- {
		c += w * vals[i]
		if w++; w > 20 {
			w = 1
		}
	}
	c %= 47
	k = c // weight 1
	w = 2
	for i := len(vals) - 1; i >= 0; i-- {
		k += w * vals[i]
		if w++; w > 15 {
			w = 1
		}
	}
	k %= 47
	return c, k
}

// Code93FromValues draws start + the given values verbatim (they should
// already include C and K if wanted) + stop + the 1-module termination bar.
// Values must be 0..47 (47 draws a start/stop pattern inside the symbol).
func Code93FromValues(all []int) []bool {
	out := make([]bool, 0, 9*(len(all)+2)+1)
	out = append(out, code93Mods[Code93StartStop]...)
	for _, v := range all {
		if v < 0 || v > 47 {
			panicf("Code93FromValues: value out of range", itoa(v))
		}
		out = append(out, code93Mods[v]...)
	}
	out = append(out, code93Mods[Code93StartStop]...)
	return append(out, true)
}

// Code93 draws the complete symbol for 7-bit ASCII text with correct C and K.
func Code93(ascii string) ([]bool, error) {
	vals, err := Code93Values(ascii)
	if err != nil {
		return nil, err
	}
	c, k := Code93Checks(vals)
	return Code93FromValues(append(vals, c, k)), nil
}
