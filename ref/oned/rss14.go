package oned

// GS1 DataBar Omnidirectional ("RSS-14"), ISO/IEC 24724, forward direction:
//
//	symbol value  ->  left pair value, right pair value   (base 4537077)
//	pair value    ->  outside character, inside character (base 1597)
//	character     ->  group -> (odd value, even value) -> 4 odd + 4 even widths
//	32 widths     ->  checksum modulo 79 -> left and right finder pattern
//	46 elements   ->  96 modules
//
// Layout of the 46 elements (the first element is a SPACE):
//
//	guard(1,1) | char 1 (16 modules, outside in) | left finder (15)
//	| char 2 (15, drawn right to left) | char 4 (15, left to right)
//	| right finder (15, mirrored) | char 3 (16, drawn right to left)
//	| guard(1,1)
//
// Characters 1 and 3 are the "outside" (16,4) characters, 2 and 4 the
// "inside" (15,4) characters; 1+2 form the left pair, 3+4 the right pair.
//
// Remarks on the value range.  4537077 = 2841 * 1597, so every value below
// 4537077^2 = 20 585 067 703 929 has four in-range characters.  ISO/IEC 24724
// uses 0 .. 9 999 999 999 999 for the 13 GTIN digits without check digit and
// 10^13 + that for the same GTIN with the composite "linkage flag" set; the
// remaining values are not assigned.  This file draws all of them.

// rss14Group is one row of the character tables of the standard (Table 1:
// outside, Table 2: inside).  Total is the size of the sub-set whose value is
// the LOW part of the character value: the even sub-set for outside
// characters, the odd sub-set for inside characters.
type rss14Group struct {
	first       int // first character value of the group (G_sum)
	oddModules  int
	evenModules int
	oddWidest   int
	evenWidest  int
	oddTotal    int // T_odd
	evenTotal   int // T_even
}

var rss14Outside = []rss14Group{
	{0, 12, 4, 8, 1, 161, 1},
	{161, 10, 6, 6, 3, 80, 10},
	{961, 8, 8, 4, 5, 31, 34},
	{2015, 6, 10, 3, 6, 10, 70},
	{2715, 4, 12, 1, 8, 1, 126},
}

var rss14Inside = []rss14Group{
	{0, 5, 10, 2, 7, 4, 84},
	{336, 7, 8, 4, 5, 20, 35},
	{1036, 9, 6, 6, 3, 48, 10},
	{1516, 11, 4, 8, 1, 81, 1},
}

const (
	rss14OutsideCount = 2841
	rss14InsideCount  = 1597
	rss14PairCount    = rss14OutsideCount * rss14InsideCount // 4537077
	// RSS14ValueCount is the number of symbol values that can be drawn.
	RSS14ValueCount uint64 = rss14PairCount * rss14PairCount
)

// rss14Finders are the nine finder patterns, elements 1..5 as drawn left to
// right in the LEFT half (space, bar, space, bar, space); the right half
// shows the mirror image.
var rss14Finders = [9]string{
	"38211", "35511", "33711", "31911", "27411", "25611", "23811", "15711", "13911",
}

// rss14Weights are the checksum weights of the standard's table, one row per
// data character 1..4, one column per element in VALUE order (odd 1, even 1,
// odd 2, even 2, ...).  They are the powers 3^0 .. 3^31 modulo 79.
var rss14Weights = [4][8]int{
	{1, 3, 9, 27, 2, 6, 18, 54},
	{4, 12, 36, 29, 8, 24, 72, 58},
	{16, 48, 65, 37, 32, 17, 51, 74},
	{64, 34, 23, 69, 49, 68, 46, 59},
}

func init() {
	if rss14PairCount != 4537077 {
		panicf("rss14: pair count", itoa(rss14PairCount))
	}
	p := 1
	for c := 0; c < 4; c++ {
		for e := 0; e < 8; e++ {
			if rss14Weights[c][e] != p {
				panicf("rss14: weight table is not 3^k mod 79", itoa(c*8+e))
			}
			p = p * 3 % 79
		}
	}
	seen := map[string]bool{}
	for i, f := range rss14Finders {
		// 15 modules, the two trailing elements are single modules, and the
		// ratio (e2+e3)/(e2+e3+e4+e5) the standard uses to locate the finder
		// lies within 9.5/12 .. 12.5/14.
		r := float64(int(f[1]-'0')+int(f[2]-'0')) / float64(sumDigits(f[1:]))
		if len(f) != 5 || sumDigits(f) != 15 || f[3:] != "11" || seen[f] || r < 9.5/12 || r > 12.5/14 {
			panicf("rss14: finder pattern", itoa(i))
		}
		seen[f] = true
	}
	rss14CheckTable("outside", rss14Outside, 16, rss14OutsideCount, true)
	rss14CheckTable("inside", rss14Inside, 15, rss14InsideCount, false)
}

// rss14CheckTable checks a character table against its own arithmetic and
// checks rss14Widths (the combinatorial algorithm) against plain
// lexicographic enumeration for every value of every sub-set in use.
func rss14CheckTable(name string, tab []rss14Group, modules, count int, outside bool) {
	next := 0
	for i, g := range tab {
		if g.first != next || g.oddModules+g.evenModules != modules || g.oddWidest+g.evenWidest != 9 {
			panicf("rss14: "+name+" table row", itoa(i))
		}
		next += g.oddTotal * g.evenTotal
		// outside: the even elements need a one-module element; inside: the
		// odd elements do.
		odd := rss14Enumerate(g.oddModules, g.oddWidest, !outside)
		even := rss14Enumerate(g.evenModules, g.evenWidest, outside)
		// The unrestricted sub-set and the restricted outside sub-sets are
		// used completely; the standard uses only the first 48 of 52 and the
		// first 81 of 100 restricted odd patterns of inside groups 3 and 4.
		okOdd := len(odd) == g.oddTotal
		if !outside {
			okOdd = len(odd) >= g.oddTotal && (i < 2) == (len(odd) == g.oddTotal)
		}
		if !okOdd || len(even) != g.evenTotal {
			panicf("rss14: "+name+" sub-set size", itoa(i))
		}
		for v := 0; v < g.oddTotal; v++ {
			if rss14Widths(v, g.oddModules, g.oddWidest, !outside) != odd[v] {
				panicf("rss14: "+name+" odd widths", itoa(v))
			}
		}
		for v := 0; v < g.evenTotal; v++ {
			if rss14Widths(v, g.evenModules, g.evenWidest, outside) != even[v] {
				panicf("rss14: "+name+" even widths", itoa(v))
			}
		}
	}
	if next != count {
		panicf("rss14: "+name+" table total", itoa(next))
	}
}

// rss14Enumerate lists, in lexicographic order, every way to write n as an
// ordered sum of four widths 1..widest; with needNarrow only the ones that
// contain a width of 1.  The index in this list is by definition the sub-set
// value of ISO/IEC 24724.
func rss14Enumerate(n, widest int, needNarrow bool) [][4]int {
	var out [][4]int
	for a := 1; a <= widest; a++ {
		for b := 1; b <= widest; b++ {
			for c := 1; c <= widest; c++ {
				d := n - a - b - c
				if d < 1 || d > widest {
					continue
				}
				if needNarrow && a != 1 && b != 1 && c != 1 && d != 1 {
					continue
				}
				out = append(out, [4]int{a, b, c, d})
			}
		}
	}
	return out
}

func rss14Choose(n, r int) int {
	if r < 0 || n < r {
		return 0
	}
	v := 1
	for i := 1; i <= r; i++ {
		v = v * (n - r + i) / i
	}
	return v
}

// rss14Widths is getRSSwidths of ISO/IEC 24724 annex B for four elements:
// the val-th pattern of n modules with no element wider than widest.  For
// every element but the last it walks the candidate widths upwards and skips
// the block of patterns that start with the narrower candidates: all
// patterns of the remaining modules, less the ones without a one-module
// element (needNarrow), less the ones with an element above widest.
func rss14Widths(val, n, widest int, needNarrow bool) [4]int {
	const elements = 4
	var w [4]int
	anyNarrow := false
	for bar := 0; bar < elements-1; bar++ {
		rest := elements - 1 - bar // elements after this one
		width := 1
		for ; ; width++ {
			left := n - width // modules for the elements after this one
			if left < rest {
				panicf("rss14Widths: value outside the sub-set", itoa(val))
			}
			block := rss14Choose(left-1, rest-1)
			if needNarrow && !anyNarrow && width > 1 && left >= 2*rest {
				// all remaining elements two or more modules wide
				block -= rss14Choose(left-rest-1, rest-1)
			}
			if rest > 1 {
				over := 0
				for big := left - (rest - 1); big > widest; big-- {
					over += rss14Choose(left-big-1, rest-2)
				}
				block -= over * rest
			} else if left > widest {
				block--
			}
			if val < block {
				break
			}
			val -= block
		}
		if width == 1 {
			anyNarrow = true
		}
		w[bar] = width
		n -= width
	}
	w[elements-1] = n
	return w
}

// rss14Character returns the eight element widths of a data character in
// value order: odd 1, even 1, odd 2, even 2, ... (odd elements are the
// 1st, 3rd, ... element counted from the start of the character).
func rss14Character(value int, outside bool) [8]int {
	tab := rss14Inside
	if outside {
		tab = rss14Outside
	}
	gi := 0
	for gi+1 < len(tab) && value >= tab[gi+1].first {
		gi++
	}
	g := tab[gi]
	rel := value - g.first
	var vOdd, vEven int
	if outside {
		vOdd, vEven = rel/g.evenTotal, rel%g.evenTotal
	} else {
		vEven, vOdd = rel/g.oddTotal, rel%g.oddTotal
	}
	odd := rss14Widths(vOdd, g.oddModules, g.oddWidest, !outside)
	even := rss14Widths(vEven, g.evenModules, g.evenWidest, outside)
	var out [8]int
	for i := 0; i < 4; i++ {
		out[2*i] = odd[i]
		out[2*i+1] = even[i]
	}
	return out
}

// RSS14Elements returns the 46 element widths of the symbol, starting with
// the one-module SPACE of the left guard, together with the checksum value
// (0..78) and the two finder pattern numbers.  See RSS14FromCharacters.
func RSS14Elements(leftOutside, leftInside, rightOutside, rightInside int) (elements []int, checksum, leftFinder, rightFinder int, err error) {
	for _, c := range []struct {
		v, n int
		name string
	}{
		{leftOutside, rss14OutsideCount, "leftOutside"}, {leftInside, rss14InsideCount, "leftInside"},
		{rightOutside, rss14OutsideCount, "rightOutside"}, {rightInside, rss14InsideCount, "rightInside"},
	} {
		if c.v < 0 || c.v >= c.n {
			return nil, 0, 0, 0, errorf("RSS14: "+c.name+" out of range 0.."+itoa(c.n-1), itoa(c.v))
		}
	}
	ch := [4][8]int{
		rss14Character(leftOutside, true),
		rss14Character(leftInside, false),
		rss14Character(rightOutside, true),
		rss14Character(rightInside, false),
	}
	for c := 0; c < 4; c++ {
		for e := 0; e < 8; e++ {
			checksum += rss14Weights[c][e] * ch[c][e]
		}
	}
	checksum %= 79
	// The 79 checksum values are spread over the 81 finder combinations
	// leaving out (0,8) and (8,0).
	k := checksum
	if k >= 8 {
		k++
	}
	if k >= 72 {
		k++
	}
	leftFinder, rightFinder = k/9, k%9

	elements = make([]int, 0, 46)
	elements = append(elements, 1, 1)
	elements = append(elements, ch[0][:]...)
	for _, d := range []byte(rss14Finders[leftFinder]) {
		elements = append(elements, int(d-'0'))
	}
	for e := 7; e >= 0; e-- {
		elements = append(elements, ch[1][e])
	}
	elements = append(elements, ch[3][:]...)
	for e := 4; e >= 0; e-- {
		elements = append(elements, int(rss14Finders[rightFinder][e]-'0'))
	}
	for e := 7; e >= 0; e-- {
		elements = append(elements, ch[2][e])
	}
	elements = append(elements, 1, 1)
	return elements, checksum, leftFinder, rightFinder, nil
}

// RSS14FromCharacters builds the 96-module row (true = dark, no quiet zones;
// the first module is the light module of the left guard, the last one the
// dark module of the right guard) of a GS1 DataBar Omnidirectional symbol
// from its four data character values: leftOutside (0..2840), leftInside
// (0..1596), rightOutside (0..2840), rightInside (0..1596).  The symbol
// value is 4537077*(1597*leftOutside+leftInside) +
// (1597*rightOutside+rightInside).
func RSS14FromCharacters(leftOutside, leftInside, rightOutside, rightInside int) ([]bool, error) {
	el, _, _, _, err := RSS14Elements(leftOutside, leftInside, rightOutside, rightInside)
	if err != nil {
		return nil, err
	}
	out := make([]bool, 0, 96)
	dark := false
	for _, n := range el {
		for j := 0; j < n; j++ {
			out = append(out, dark)
		}
		dark = !dark
	}
	if len(el) != 46 || len(out) != 96 {
		panicf("RSS14: symbol is not 46 elements / 96 modules", itoa(len(out)))
	}
	return out, nil
}

// RSS14Characters splits a symbol value into its four character values.
func RSS14Characters(v uint64) (leftOutside, leftInside, rightOutside, rightInside int, err error) {
	if v >= RSS14ValueCount {
		return 0, 0, 0, 0, errorf("RSS14: value out of range 0..20585067703928", utoa(v))
	}
	left, right := int(v/rss14PairCount), int(v%rss14PairCount)
	return left / rss14InsideCount, left % rss14InsideCount, right / rss14InsideCount, right % rss14InsideCount, nil
}

// RSS14FromValue splits a symbol value (0 .. 4537077*4537077-1; every such
// value has in-range characters) into the four characters and calls
// RSS14FromCharacters.
func RSS14FromValue(v uint64) ([]bool, error) {
	lo, li, ro, ri, err := RSS14Characters(v)
	if err != nil {
		return nil, err
	}
	return RSS14FromCharacters(lo, li, ro, ri)
}

// RSS14Text is the element string data of symbol value v WITHOUT the
// application identifier "01": for v < 10^13 the value as 13 digits with
// leading zeros followed by the GS1 modulo-10 check digit (14 characters, a
// GTIN-14).  For v >= 10^13 - the standard reads those as "linkage flag set,
// GTIN digits v-10^13" up to 2*10^13-1 and assigns nothing above - it is the
// 14 decimal digits of v followed by the GS1 modulo-10 check digit of those
// 14 digits (weights 3,1,3,... starting at the RIGHTMOST digit, as for any
// GS1 key), 15 characters.
func RSS14Text(v uint64) string {
	d := utoa(v)
	for len(d) < 13 {
		d = "0" + d
	}
	return d + string(rune('0'+Mod10Check(d)))
}

func utoa(v uint64) string {
	if v == 0 {
		return "0"
	}
	var b [20]byte
	i := len(b)
	for v > 0 {
		i--
		b[i] = byte('0' + v%10)
		v /= 10
	}
	return string(b[i:])
}
