package oned

import (
	"testing"

	"github.com/makiuchi-d/gozxing"
	liboned "github.com/makiuchi-d/gozxing/oned"
)

func TestProbe2(t *testing.T) {
	m := UPCA("036000291452")
	h := map[gozxing.DecodeHintType]interface{}{gozxing.DecodeHintType_POSSIBLE_FORMATS: []gozxing.BarcodeFormat{gozxing.BarcodeFormat_UPC_A, gozxing.BarcodeFormat_EAN_13}}
	h2 := map[gozxing.DecodeHintType]interface{}{gozxing.DecodeHintType_POSSIBLE_FORMATS: []gozxing.BarcodeFormat{gozxing.BarcodeFormat_EAN_13}}
	empty := map[gozxing.DecodeHintType]interface{}{}
	for i, c := range []struct{ ctor, dec map[gozxing.DecodeHintType]interface{} }{{nil, nil}, {nil, empty}, {h, nil}, {h, h}, {nil, h}, {h2, h2}, {empty, empty}} {
		res, err := libRead(liboned.NewMultiFormatUPCEANReader(c.ctor), m, c.dec)
		if err != nil {
			t.Logf("%d: %v", i, err)
			continue
		}
		t.Logf("%d: %s %v", i, res.GetText(), res.GetBarcodeFormat())
	}
}
