package oned

// ---------------------------------------------------------------------------
// Codabar (NW-7; ANSI/AIM BC3, "rationalized Codabar")
//
// Every character is 4 bars and 3 spaces, narrow or wide:
//   - 0-9 - $     : one wide bar and one wide space
//   - : / . +     : three wide bars, no wide space
//   - A B C D     : one wide bar and two wide spaces (start/stop)
// Characters are separated by a narrow space.
// ---------------------------------------------------------------------------

// CodabarAlphabet lists the 20 characters in table order.
const CodabarAlphabet = "0123456789-$:/.+ABCD"

// codabarPatterns: upper case = bar, lower case = space; index as in
// CodabarAlphabet.
var codabarPatterns = [20]string{
	"NnNnNwW", // 0
	"NnNnWwN", // 1
	"NnNwNnW", // 2
	"WwNnNnN", // 3
	"NnWnNwN", // 4
	"WnNnNwN", // 5
	"NwNnNnW", // 6
	"NwNnWnN", // 7
	"NwWnNnN", // 8
	"WnNwNnN", // 9
	"NnNwWnN", // -
	"NnWwNnN", // $
	"WnNnWnW", // :
	"WnWnNnW", // /
	"WnWnWnN", // .
	"NnWnWnW", // +
	"NnWwNwN", // A
	"NwNwNnW", // B
	"NnNwNwW", // C
	"NnNwWwN", // D
}

// codabarModules2: the same characters as module strings at wide = 2
// (second, independent notation; init checks that both agree).
var codabarModules2 = [20]string{
	"101010011",  // 0
	"101011001",  // 1
	"101001011",  // 2
	"110010101",  // 3
	"101101001",  // 4
	"110101001",  // 5
	"100101011",  // 6
	"100101101",  // 7
	"100110101",  // 8
	"110100101",  // 9
	"101001101",  // -
	"101100101",  // $
	"1101011011", // :
	"1101101011", // /
	"1101101101", // .
	"1011011011", // +
	"1011001001", // A
	"1001001011", // B
	"1010010011", // C
	"1010011001", // D
}

var (
	codabarMods  [2][20][]bool // [wide-2][index]
	codabarIndex = buildCodabarIndex()
)

func buildCodabarIndex() (t [256]int8) {
	for i := range t {
		t[i] = -1
	}
	for i := 0; i < len(CodabarAlphabet); i++ {
		t[CodabarAlphabet[i]] = int8(i)
	}
	return t
}

func init() {
	for i, p := range codabarPatterns {
		if len(p) != 7 {
			panicf("Codabar pattern must have 7 elements", p)
		}
		wb, ws := 0, 0
		for j := 0; j < 7; j++ {
			isBar := j%2 == 0
			c := p[j]
			if isBar && c != 'N' && c != 'W' || !isBar && c != 'n' && c != 'w' {
				panicf("Codabar pattern bar/space case", p)
			}
			if c == 'W' {
				wb++
			}
			if c == 'w' {
				ws++
			}
		}
		var wantB, wantS int
		switch {
		case i < 12:
			wantB, wantS = 1, 1
		case i < 16:
			wantB, wantS = 3, 0
		default:
			wantB, wantS = 1, 2
		}
		if wb != wantB || ws != wantS {
			panicf("Codabar pattern wide bar/space count", p)
		}
		for u := 0; u < i; u++ {
			if codabarPatterns[u] == p {
				panicf("Codabar patterns not distinct", p)
			}
		}
		codabarMods[0][i] = nwToModules(p, 2)
		codabarMods[1][i] = nwToModules(p, 3)
		if !equalMods(codabarMods[0][i], modulesOf(codabarModules2[i])) {
			panicf("Codabar N/W pattern and module string disagree", p)
		}
	}
}

// Codabar draws the symbol for s, which must include its start and stop
// characters (each one of A B C D, upper case) around zero or more data
// characters 0-9 - $ : / . +.  Narrow = 1 module, wide = `wide` modules (2
// or 3); characters are separated by one narrow light module.
func Codabar(s string, wide int) ([]bool, error) {
	if wide != 2 && wide != 3 {
		return nil, errorf("Codabar: wide must be 2 or 3", itoa(wide))
	}
	if len(s) < 2 {
		return nil, errorf("Codabar: need start and stop characters", s)
	}
	for i := 0; i < len(s); i++ {
		idx := codabarIndex[s[i]]
		if idx < 0 {
			return nil, errorf("Codabar: character not in the Codabar alphabet", s[i:i+1])
		}
		edge := i == 0 || i == len(s)-1
		if edge != (idx >= 16) {
			return nil, errorf("Codabar: A-D must be exactly the first and last character", s)
		}
	}
	tab := &codabarMods[wide-2]
	out := make([]bool, 0, (5+3*wide)*len(s))
	for i := 0; i < len(s); i++ {
		if i > 0 {
			out = append(out, false)
		}
		out = append(out, tab[codabarIndex[s[i]]]...)
	}
	return out, nil
}
