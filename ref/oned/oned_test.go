package oned

import (
	"math/rand"
	"sort"
	"strings"
	"sync"
	"testing"
)

// The table invariants listed in the package documentation are enforced by
// init() (the test binary would not start if one failed).  The tests below
// add the stronger "pattern space" arguments, known values, and round trips.

// compositions enumerates all ways to write total as n parts each in 1..max.
func compositions(total, n, max int) []string {
	var out []string
	var rec func(prefix []byte, left, parts int)
	rec = func(prefix []byte, left, parts int) {
		if parts == 0 {
			if left == 0 {
				out = append(out, string(prefix))
			}
			return
		}
		for w := 1; w <= max && w <= left; w++ {
			rec(append(prefix, byte('0'+w)), left-w, parts-1)
		}
	}
	rec(nil, total, n)
	return out
}

func sortedCopy(s []string) []string {
	c := append([]string(nil), s...)
	sort.Strings(c)
	return c
}

func TestCode128PatternSpace(t *testing.T) {
	// ISO/IEC 15417: the 11-module, 3-bar/3-space, even-bar-parity, max-4
	// patterns number exactly 108: the 106 table entries 0..105, the first
	// six elements of the stop character, and the reverse stop "211133".
	var want []string
	for _, c := range compositions(11, 6, 4) {
		if (int(c[0]-'0')+int(c[2]-'0')+int(c[4]-'0'))%2 == 0 {
			want = append(want, c)
		}
	}
	if len(want) != 108 {
		t.Fatalf("expected 108 candidate patterns, got %d", len(want))
	}
	got := append([]string(nil), code128Widths[:106]...)
	got = append(got, code128Widths[106][:6], "211133")
	a, b := sortedCopy(got), sortedCopy(want)
	for i := range a {
		if a[i] != b[i] {
			t.Fatalf("table is not the full (11,3) even-parity pattern set: %q vs %q", a[i], b[i])
		}
	}
	if len(code128Widths) != 107 {
		t.Fatal("107 patterns expected")
	}
}

func TestCode93PatternSpace(t *testing.T) {
	all := compositions(9, 6, 4)
	if len(all) != 56 {
		t.Fatalf("expected 56 (9,3) patterns, got %d", len(all))
	}
	in := map[string]bool{}
	for _, c := range all {
		in[c] = true
	}
	used := map[string]bool{}
	for _, w := range code93Widths {
		if !in[w] || used[w] {
			t.Fatalf("bad/duplicate pattern %s", w)
		}
		used[w] = true
	}
	if len(used) != 48 {
		t.Fatalf("48 patterns expected, got %d", len(used))
	}
	// termination bar and overall length
	m := Code93FromValues(nil)
	if len(m) != 19 || !m[18] || m[17] {
		t.Fatalf("empty Code 93 symbol must be 2*9+1 modules ending in a lone bar")
	}
}

func TestCode39PatternSpace(t *testing.T) {
	// The 44 characters are exactly: all C(5,2)*C(4,1)=40 patterns with two
	// wide bars and one wide space + all C(4,3)=4 patterns with no wide bar
	// and three wide spaces.
	want := map[string]bool{}
	for mask := 0; mask < 1<<9; mask++ {
		wb, ws := 0, 0
		p := make([]byte, 9)
		for i := 0; i < 9; i++ {
			wide := mask>>uint(i)&1 == 1
			switch {
			case i%2 == 0 && wide:
				p[i] = 'W'
				wb++
			case i%2 == 0:
				p[i] = 'N'
			case wide:
				p[i] = 'w'
				ws++
			default:
				p[i] = 'n'
			}
		}
		if wb == 2 && ws == 1 || wb == 0 && ws == 3 {
			want[string(p)] = true
		}
	}
	if len(want) != 44 {
		t.Fatalf("expected 44 candidate patterns, got %d", len(want))
	}
	for _, p := range code39Patterns {
		if !want[p] {
			t.Fatalf("pattern %s not in the Code 39 pattern space (or duplicate)", p)
		}
		delete(want, p)
	}
	if len(want) != 0 {
		t.Fatalf("unused patterns: %v", want)
	}
	if len(Code39Alphabet) != 43 {
		t.Fatal("alphabet size")
	}
}

func TestITFAndCodabarSpaces(t *testing.T) {
	seen := map[string]bool{}
	for _, p := range twoOfFive {
		if strings.Count(p, "W") != 2 || len(p) != 5 || seen[p] {
			t.Fatalf("bad 2-of-5 %s", p)
		}
		seen[p] = true
	}
	if len(seen) != 10 { // all C(5,2) combinations are used
		t.Fatal("2-of-5 must use all 10 combinations")
	}
	if len(codabarPatterns) != 20 || len(CodabarAlphabet) != 20 {
		t.Fatal("Codabar: 20 patterns")
	}
	m, err := ITF("", 3)
	if err != nil || len(m) != 4+5 {
		t.Fatalf("empty ITF: %v %d", err, len(m))
	}
	if got := RunLengths(m); !eqInts(got, []int{1, 1, 1, 1, 3, 1, 1}) {
		t.Fatalf("ITF start/stop runs %v", got)
	}
	m, _ = ITF("12", 3)
	// 1 = WNNNW (bars), 2 = NWNNW (spaces)
	if got := RunLengths(m); !eqInts(got, []int{1, 1, 1, 1, 3, 1, 1, 3, 1, 1, 1, 1, 3, 3, 3, 1, 1}) {
		t.Fatalf("ITF 12 runs %v", got)
	}
}

func eqInts(a, b []int) bool {
	if len(a) != len(b) {
		return false
	}
	for i := range a {
		if a[i] != b[i] {
			return false
		}
	}
	return true
}

func modString(m []bool) string {
	b := make([]byte, len(m))
	for i, v := range m {
		b[i] = '0'
		if v {
			b[i] = '1'
		}
	}
	return string(b)
}

func TestMod10Check(t *testing.T) {
	for _, c := range []struct {
		in   string
		want int
	}{
		{"400638133393", 1}, // EAN-13 4006381333931
		{"03600029145", 2},  // UPC-A 036000291452
		{"9638507", 4},      // EAN-8 96385074
		{"7351353", 7},      // EAN-8 73513537
		{"978030640615", 7}, // ISBN 9780306406157
		{"590123412345", 7}, // EAN-13 5901234123457
		{"04210000526", 4},  // UPC-A 042100005264 (UPC-E 425261)
		{"", 0},
	} {
		if got := Mod10Check(c.in); got != c.want {
			t.Errorf("Mod10Check(%q) = %d, want %d", c.in, got, c.want)
		}
	}
	// defining property: with the check digit appended, the 3-1 weighted sum
	// from the right (check digit weight 1) is a multiple of 10
	rng := rand.New(rand.NewSource(1))
	for n := 0; n < 2000; n++ {
		s := randDigits(rng, 1+rng.Intn(17))
		full := s + string(rune('0'+Mod10Check(s)))
		sum, w := 0, 1
		for i := len(full) - 1; i >= 0; i-- {
			sum += w * int(full[i]-'0')
			w = 4 - w
		}
		if sum%10 != 0 {
			t.Fatalf("check digit of %s wrong", s)
		}
	}
}

func randDigits(rng *rand.Rand, n int) string {
	b := make([]byte, n)
	for i := range b {
		b[i] = byte('0' + rng.Intn(10))
	}
	return string(b)
}

func TestEANUPCShapes(t *testing.T) {
	if n := len(EAN13("5901234123457")); n != 95 {
		t.Fatalf("EAN-13 %d modules", n)
	}
	if n := len(EAN8("96385074")); n != 67 {
		t.Fatalf("EAN-8 %d modules", n)
	}
	if n := len(UPCE("04252614")); n != 51 {
		t.Fatalf("UPC-E %d modules", n)
	}
	if n := len(AddOn2("12")); n != 20 {
		t.Fatalf("add-on 2: %d modules", n)
	}
	if n := len(AddOn5("52495")); n != 47 {
		t.Fatalf("add-on 5: %d modules", n)
	}
	rng := rand.New(rand.NewSource(2))
	for i := 0; i < 500; i++ {
		d := randDigits(rng, 12)
		if !equalMods(UPCA(d), EAN13("0"+d)) {
			t.Fatalf("UPCA(%s) != EAN13(0%s)", d, d)
		}
	}
	// A fully worked example from the EAN-13 literature: 5901234123457
	// (first digit 5 -> LGGLLG).
	want := "101" +
		"0001011" + "0100111" + "0110011" + "0010011" + "0111101" + "0011101" + // 9L 0G 1G 2L 3L 4G
		"01010" +
		"1100110" + "1101100" + "1000010" + "1011100" + "1001110" + "1000100" + // 1 2 3 4 5 7 (R)
		"101"
	if got := modString(EAN13("5901234123457")); got != want {
		t.Fatalf("EAN13 example:\n got %s\nwant %s", got, want)
	}
	// UPC-E 0 425261 4: check 4, number system 0 -> GLGGLL ("EOEEOO")
	wantE := "101" + "0011101" + "0010011" + "0111001" + "0011011" + "0101111" + "0011001" + "010101"
	if got := modString(UPCE("04252614")); got != wantE {
		t.Fatalf("UPCE example:\n got %s\nwant %s", got, wantE)
	}
	// number system 1 inverts the parity
	p0, p1 := UPCEParity(0, 7), UPCEParity(1, 7)
	for i := range p0 {
		if p0[i] == p1[i] {
			t.Fatal("number system 1 parity must be the inverse")
		}
	}
	// all 20 UPC-E parity patterns are distinct and have three G
	seen := map[[6]bool]bool{}
	for ns := 0; ns < 2; ns++ {
		for c := 0; c < 10; c++ {
			p := UPCEParity(ns, c)
			g := 0
			for _, b := range p {
				if b {
					g++
				}
			}
			if g != 3 || seen[p] {
				t.Fatalf("UPC-E parity %d/%d", ns, c)
			}
			seen[p] = true
		}
	}
	// add-on 2: 1011 + d1 + 01 + d2
	a := AddOn2("34") // 34 mod 4 = 2 -> G L
	if got, want := modString(a), "1011"+"0100001"+"01"+"0100011"; got != want {
		t.Fatalf("AddOn2(34) = %s, want %s", got, want)
	}
	// add-on 5 example 52495 (ISBN price add-on; checksum 3*(5+4+5)+9*(2+9)=141 -> 1 -> GLGLL)
	if AddOn5Checksum("52495") != 1 {
		t.Fatal("AddOn5Checksum(52495)")
	}
	if !equalMods(AddOn5("52495"), AddOn5WithParity("52495", [5]bool{true, false, true, false, false})) {
		t.Fatal("AddOn5 parity")
	}
	w := WithAddOn(EAN13("5901234123457"), AddOn2("34"), 9)
	if len(w) != 95+9+20 || w[95] || w[103] || !w[104] {
		t.Fatal("WithAddOn layout")
	}
}

func TestUPCEExpandExamples(t *testing.T) {
	for _, c := range []struct{ in, want string }{
		{"0425261", "04210000526"},   // d6=1: AB X 0000 CDE
		{"0123450", "01200000345"},   // d6=0
		{"0123452", "01220000345"},   // d6=2
		{"0123453", "01230000045"},   // d6=3: ABC 00000 DE
		{"0123454", "01234000005"},   // d6=4: ABCD 00000 E
		{"0123455", "01234500005"},   // d6=5: ABCDE 0000 5
		{"1123459", "11234500009"},   // d6=9, number system 1
		{"04252614", "042100005264"}, // check digit carried over
	} {
		if got := UPCEExpand(c.in); got != c.want {
			t.Errorf("UPCEExpand(%s) = %s, want %s", c.in, got, c.want)
		}
	}
	if Mod10Check(UPCEExpand("0425261")) != 4 {
		t.Error("check digit of UPC-E 425261 must be 4")
	}
	for _, c := range []struct {
		in, want string
		ok       bool
	}{
		{"04210000526", "0425261", true},
		{"01234500005", "0123455", true},
		{"01234500004", "", false}, // product 00004 with 5-digit manufacturer: not suppressible
		{"01230000045", "0123453", true},
		{"01200000045", "0120450", true}, // rule 1 wins over rule 2 (non-canonical form would be 0120453)
		{"01230000005", "0123053", true}, // rule 2 wins over rule 3 (non-canonical 0123054)
		{"01234000005", "0123454", true},
		{"01234000000", "0123404", true}, // rule 3; product 00000
		{"21200000345", "", false},       // number system 2
		{"01234567890", "", false},
	} {
		got, ok := UPCESuppress(c.in)
		if got != c.want || ok != c.ok {
			t.Errorf("UPCESuppress(%s) = %s,%v want %s,%v", c.in, got, ok, c.want, c.ok)
		}
	}
}

// TestUPCEAllNumbers enumerates all 2,000,000 seven-digit UPC-E numbers.
//
//	Expand is injective on the canonical forms; every expansion is
//	suppressible; Expand(Suppress(Expand(u))) == Expand(u); and
//	Suppress(Expand(u)) == u exactly for the canonical u, of which there are
//	2 * (300000 + 70000 + 90000 + 450000) = 1,820,000.
func TestUPCEAllNumbers(t *testing.T) {
	canonical := 0
	buf := make([]byte, 7)
	for n := 0; n < 2000000; n++ {
		v := n
		for i := 6; i >= 0; i-- {
			buf[i] = byte('0' + v%10)
			v /= 10
		}
		u := string(buf)
		e := UPCEExpand(u)
		if len(e) != 11 || e[0] != u[0] {
			t.Fatalf("Expand(%s) = %s", u, e)
		}
		s, ok := UPCESuppress(e)
		if !ok {
			t.Fatalf("Expand(%s) = %s is not suppressible", u, e)
		}
		if UPCEExpand(s) != e {
			t.Fatalf("Expand(Suppress(%s)) = %s", e, UPCEExpand(s))
		}
		if !UPCECanonical(s) {
			t.Fatalf("Suppress(%s) = %s is not canonical", e, s)
		}
		if (s == u) != UPCECanonical(u) {
			t.Fatalf("u=%s expand=%s suppress=%s canonical=%v", u, e, s, UPCECanonical(u))
		}
		if s == u {
			canonical++
		}
	}
	if canonical != 1820000 {
		t.Fatalf("canonical UPC-E numbers: %d, want 1820000", canonical)
	}
}

// TestUPCESuppressSample: for random 11-digit UPC-A numbers Suppress says ok
// iff some UPC-E number expands to it (checked by brute force over the four
// possible candidates built directly from the definition of Expand).
func TestUPCESuppressSample(t *testing.T) {
	rng := rand.New(rand.NewSource(3))
	for n := 0; n < 200000; n++ {
		b := []byte(randDigits(rng, 11))
		b[0] = byte('0' + rng.Intn(2))
		// make zeros likely
		for i := 1; i < 11; i++ {
			if rng.Intn(3) > 0 && i >= 3 && i <= 9 {
				b[i] = '0'
			}
		}
		a := string(b)
		exists := false
		for last := byte('0'); last <= '9' && !exists; last++ {
			// candidates whose expansion could be a: take digits from a as Expand would place them
			var cand string
			switch {
			case last <= '2':
				cand = string([]byte{a[0], a[1], a[2], a[8], a[9], a[10], last})
			case last == '3':
				cand = string([]byte{a[0], a[1], a[2], a[3], a[9], a[10], last})
			case last == '4':
				cand = string([]byte{a[0], a[1], a[2], a[3], a[4], a[10], last})
			default:
				cand = string([]byte{a[0], a[1], a[2], a[3], a[4], a[5], last})
			}
			exists = UPCEExpand(cand) == a
		}
		s, ok := UPCESuppress(a)
		if ok != exists {
			t.Fatalf("Suppress(%s) ok=%v but existence=%v", a, ok, exists)
		}
		if ok && UPCEExpand(s) != a {
			t.Fatalf("Expand(Suppress(%s)) = %s", a, UPCEExpand(s))
		}
	}
}

func TestCode39(t *testing.T) {
	// check characters: value sum mod 43
	for _, c := range []struct {
		in   string
		want byte
	}{
		{"CODE39", 'W'},  // 12+24+13+14+3+9 = 75 -> 32 = W
		{"CODE 39", 'R'}, // +38 = 113 -> 27 = R
		{"12345ABCDE/", 'T'},
		{"", '0'},
		{"%", '%'},
	} {
		if got := Code39Check(c.in); got != c.want {
			t.Errorf("Code39Check(%q) = %c, want %c", c.in, got, c.want)
		}
	}
	m, err := Code39("A", 2)
	if err != nil {
		t.Fatal(err)
	}
	// * A * at 2:1 : each char 12 modules, 1 module gaps
	want := "100101101101" + "0" + "110101001011" + "0" + "100101101101"
	if modString(m) != want {
		t.Fatalf("Code39(A,2) = %s want %s", modString(m), want)
	}
	m3, _ := Code39("A", 3)
	if len(m3) != 3*15+2 {
		t.Fatalf("Code39(A,3) len %d", len(m3))
	}
	if _, err := Code39("a", 2); err == nil {
		t.Error("lower case must be rejected")
	}
	if _, err := Code39("A*B", 2); err == nil {
		t.Error("'*' in data must be rejected")
	}
	if _, err := Code39("A", 4); err == nil {
		t.Error("wide=4 must be rejected")
	}
}

func TestCode39Extended(t *testing.T) {
	var all []byte
	for c := 0; c < 128; c++ {
		all = append(all, byte(c))
	}
	enc, err := Code39ExtendedEncode(string(all))
	if err != nil {
		t.Fatal(err)
	}
	dec, err := Code39ExtendedDecode(enc)
	if err != nil || dec != string(all) {
		t.Fatalf("round trip failed: %v", err)
	}
	if _, err := Code39(enc, 2); err != nil {
		t.Fatalf("extended encoding not drawable: %v", err)
	}
	for _, c := range []struct{ in, want string }{
		{"\x00", "%U"}, {"\x01", "$A"}, {"\x1a", "$Z"}, {"\x1b", "%A"}, {"\x1f", "%E"},
		{" ", " "}, {"!", "/A"}, {"$", "/D"}, {"%", "/E"}, {"*", "/J"}, {"+", "/K"}, {",", "/L"},
		{"-", "-"}, {".", "."}, {"/", "/O"}, {"5", "5"}, {":", "/Z"}, {";", "%F"}, {"?", "%J"},
		{"@", "%V"}, {"Q", "Q"}, {"[", "%K"}, {"_", "%O"}, {"`", "%W"}, {"a", "+A"}, {"z", "+Z"},
		{"{", "%P"}, {"~", "%S"}, {"\x7f", "%T"}, {"Code 39", "C+O+D+E 39"},
	} {
		if got, _ := Code39ExtendedEncode(c.in); got != c.want {
			t.Errorf("Code39ExtendedEncode(%q) = %q, want %q", c.in, got, c.want)
		}
	}
	for _, c := range []struct{ in, want string }{
		{"/M", "-"}, {"/N", "."}, {"%X", "\x7f"}, {"%Y", "\x7f"}, {"%Z", "\x7f"},
	} {
		if got, err := Code39ExtendedDecode(c.in); err != nil || got != c.want {
			t.Errorf("Code39ExtendedDecode(%q) = %q,%v want %q", c.in, got, err, c.want)
		}
	}
	for _, bad := range []string{"$", "AB%", "/P", "/Y", "$1", "+-", "a", "*", "%%"} {
		if _, err := Code39ExtendedDecode(bad); err == nil {
			t.Errorf("Code39ExtendedDecode(%q) must fail", bad)
		}
	}
	if _, err := Code39ExtendedEncode("\x80"); err == nil {
		t.Error("non-ASCII must fail")
	}
}

func TestCode93(t *testing.T) {
	vals, err := Code93Values("TEST93")
	if err != nil || !eqInts(vals, []int{29, 14, 28, 29, 9, 3}) {
		t.Fatalf("values %v %v", vals, err)
	}
	c, k := Code93Checks(vals)
	// C = '+' (the ordinary '+', value 41 -- not the shift character (+) = 46), K = '6'
	if c != 41 || k != 6 || Code39Alphabet[c] != '+' || Code39Alphabet[k] != '6' {
		t.Fatalf("TEST93 checks = %d,%d want 41,6", c, k)
	}
	m, _ := Code93("TEST93")
	if len(m) != 9*(6+2+2)+1 {
		t.Fatalf("length %d", len(m))
	}
	if got := modString(m[:9]); got != "101011110" {
		t.Fatalf("start = %s", got)
	}
	// extended
	for _, tc := range []struct {
		in   string
		want []int
	}{
		{"a", []int{46, 10}}, {"z", []int{46, 35}}, {"\x00", []int{44, 30}}, {"\x01", []int{43, 10}},
		{"\x1b", []int{44, 10}}, {"!", []int{45, 10}}, {"$", []int{39}}, {"%", []int{42}}, {"/", []int{40}},
		{"+", []int{41}}, {"*", []int{45, 19}}, {",", []int{45, 21}}, {":", []int{45, 35}}, {"@", []int{44, 31}},
		{"`", []int{44, 32}}, {"\x7f", []int{44, 29}}, {"-. ", []int{36, 37, 38}}, {"&", []int{45, 15}},
		{"{", []int{44, 25}}, {"[", []int{44, 20}}, {";", []int{44, 15}},
	} {
		if got, err := Code93Values(tc.in); err != nil || !eqInts(got, tc.want) {
			t.Errorf("Code93Values(%q) = %v,%v want %v", tc.in, got, err, tc.want)
		}
	}
	// weights wrap: C after 20, K after 15
	long := make([]int, 41)
	for i := range long {
		long[i] = 1
	}
	// C = sum of weights: two full cycles 2*210 + weight 1 = 421; 421 mod 47 = 45
	c, k = Code93Checks(long)
	if c != 421%47 {
		t.Fatalf("C wrap: %d", c)
	}
	// K: C at weight 1, then 41 ones at weights 2..15,1..15,1..12 => (120-1)+120+78 = 317
	if k != (c+317)%47 {
		t.Fatalf("K wrap: %d", k)
	}
}

func TestCode128(t *testing.T) {
	vals, err := Code128Plan("PJJ123C", "AAAAAAA")
	if err != nil || !eqInts(vals, []int{103, 48, 42, 42, 17, 18, 19, 35}) {
		t.Fatalf("plan %v %v", vals, err)
	}
	if got := Code128Check(vals); got != 54 {
		t.Fatalf("check %d want 54", got)
	}
	m := Code128(vals)
	if len(m) != 11*(len(vals)+1)+13 {
		t.Fatalf("len %d", len(m))
	}
	if got := modString(m[len(m)-13:]); got != "1100011101011" {
		t.Fatalf("stop = %s", got)
	}
	if got := modString(m[:11]); got != "11010000100" {
		t.Fatalf("start A = %s", got)
	}
	back, err := Code128ValuesOf(m)
	if err != nil || !eqInts(back, append(append([]int{}, vals...), 54, 106)) {
		t.Fatalf("ValuesOf %v %v", back, err)
	}
	// set switching and set C
	vals, err = Code128Plan("AB1234\x01z", "BBCCCCAB")
	want := []int{104, 33, 34, 99, 12, 34, 101, 65, 100, 90}
	if err != nil || !eqInts(vals, want) {
		t.Fatalf("plan %v %v want %v", vals, err, want)
	}
	if s, err := Code128Decode(vals); err != nil || s != "AB1234\x01z" {
		t.Fatalf("decode %q %v", s, err)
	}
	for _, bad := range [][2]string{{"a", "A"}, {"\x01", "B"}, {"1", "C"}, {"1a", "CC"}, {"123", "CCC"}, {"12", "CB"}, {"", ""}, {"ab", "B"}, {"\x80", "B"}, {"1", "D"}} {
		if _, err := Code128Plan(bad[0], bad[1]); err == nil {
			t.Errorf("Code128Plan(%q,%q) must fail", bad[0], bad[1])
		}
	}
	// decoder specials
	for _, tc := range []struct {
		vals []int
		want string
	}{
		{[]int{105, 102, 12, 34}, "1234"},              // FNC1 first: dropped
		{[]int{105, 12, 102, 34}, "12\x1d34"},          // FNC1 later: GS
		{[]int{104, 33, 98, 65, 33}, "A\x01A"},         // SHIFT B->A for one character
		{[]int{103, 33, 98, 65, 33}, "AaA"},            // SHIFT A->B
		{[]int{104, 100, 33, 33}, "ÁA"},                // single FNC4 (B) : 'A'+128
		{[]int{103, 101, 101, 33, 101, 34, 33}, "ÁBÁ"}, // latch; single FNC4 inside latch = plain
		{[]int{104, 100, 100, 33, 100, 100, 33}, "ÁA"}, // latch, unlatch
		{[]int{104, 96, 97, 33}, "A"},                  // FNC3, FNC2 dropped
		{[]int{103, 64, 95, 0, 63}, "\x00\x1f _"},      // set A ranges
		{[]int{104, 0, 95}, " \x7f"},                   // set B ranges
		{[]int{105, 0, 99, 100, 16}, "00990"},          // in C 99 is the pair "99"; 100 -> B
		{[]int{105, 101, 64}, "\x00"},                  // C -> A
	} {
		if got, err := Code128Decode(tc.vals); err != nil || got != tc.want {
			t.Errorf("Code128Decode(%v) = %q,%v want %q", tc.vals, got, err, tc.want)
		}
	}
	for _, bad := range [][]int{nil, {33}, {104, 103}, {104, 106}, {104, 98}, {104, -1}} {
		if _, err := Code128Decode(bad); err == nil {
			t.Errorf("Code128Decode(%v) must fail", bad)
		}
	}
}

// randomPlan builds a random valid plan for text.
func randomPlan(rng *rand.Rand, text string) string {
	sets := make([]byte, len(text))
	for i := 0; i < len(text); {
		c := text[i]
		var opts []byte
		if c < 96 {
			opts = append(opts, 'A')
		}
		if c >= 32 {
			opts = append(opts, 'B')
		}
		if i+1 < len(text) && allDigits(text[i:i+2]) {
			opts = append(opts, 'C', 'C')
		}
		// prefer staying in the current set to keep switches moderately rare
		if i > 0 && rng.Intn(2) == 0 {
			for _, o := range opts {
				if o == sets[i-1] {
					opts = []byte{o}
				}
			}
		}
		s := opts[rng.Intn(len(opts))]
		sets[i] = s
		i++
		if s == 'C' {
			sets[i] = 'C'
			i++
		}
	}
	return string(sets)
}

func randASCII(rng *rand.Rand, n int) string {
	b := make([]byte, n)
	for i := range b {
		switch rng.Intn(4) {
		case 0:
			b[i] = byte('0' + rng.Intn(10))
		case 1:
			b[i] = byte(rng.Intn(128))
		case 2:
			b[i] = byte('A' + rng.Intn(26))
		default:
			b[i] = byte(32 + rng.Intn(96))
		}
	}
	return string(b)
}

func TestCode128RoundTrip(t *testing.T) {
	rng := rand.New(rand.NewSource(4))
	for n := 0; n < 20000; n++ {
		text := randASCII(rng, 1+rng.Intn(16))
		plan := randomPlan(rng, text)
		vals, err := Code128Plan(text, plan)
		if err != nil {
			t.Fatalf("plan(%q,%q): %v", text, plan, err)
		}
		got, err := Code128Decode(vals)
		if err != nil || got != text {
			t.Fatalf("decode(plan(%q,%q)) = %q, %v", text, plan, got, err)
		}
		back, err := Code128ValuesOf(Code128(vals))
		if err != nil || !eqInts(back[:len(vals)], vals) || back[len(back)-1] != C128Stop || back[len(back)-2] != Code128Check(vals) {
			t.Fatalf("ValuesOf mismatch for %q", text)
		}
		auto, err := Code128Auto(text)
		if err != nil {
			t.Fatalf("auto(%q): %v", text, err)
		}
		if got, err := Code128Decode(auto); err != nil || got != text {
			t.Fatalf("decode(auto(%q)) = %q, %v", text, got, err)
		}
	}
	sets, _ := Code128AutoSets("AB123456x12345\x02ZZ")
	if sets != "BBCCCCCCBBCCCCAAA" {
		t.Fatalf("auto sets = %s", sets)
	}
	if _, err := Code128Auto(""); err == nil {
		t.Error("empty text must fail")
	}
}

func TestCodabar(t *testing.T) {
	m, err := Codabar("A12B", 2)
	if err != nil {
		t.Fatal(err)
	}
	want := "1011001001" + "0" + "101011001" + "0" + "101001011" + "0" + "1001001011"
	if modString(m) != want {
		t.Fatalf("got %s want %s", modString(m), want)
	}
	for _, bad := range []string{"", "A", "12", "A1", "1A", "AAB1", "a1b", "A1*B", "AXB"} {
		if _, err := Codabar(bad, 2); err == nil {
			t.Errorf("Codabar(%q) must fail", bad)
		}
	}
	if _, err := Codabar("AB", 3); err != nil {
		t.Error("empty data is drawable")
	}
}

func TestRendering(t *testing.T) {
	m := modulesOf("0110100")
	if got := RunLengths(m); !eqInts(got, []int{0, 1, 2, 1, 1, 2}) {
		t.Fatalf("RunLengths = %v", got)
	}
	if RunLengths(nil) != nil {
		t.Fatal("RunLengths(nil)")
	}
	rng := rand.New(rand.NewSource(5))
	for n := 0; n < 1000; n++ {
		m := make([]bool, rng.Intn(40))
		for i := range m {
			m[i] = rng.Intn(2) == 0
		}
		if !equalMods(FromRunLengths(RunLengths(m)), m) {
			t.Fatalf("run length round trip %v", m)
		}
	}
	row := Row(modulesOf("101"), 2, 1, 2)
	if modString(row) != "00"+"110011"+"0000" {
		t.Fatalf("Row = %s", modString(row))
	}
	img := Image(modulesOf("101"), 2, 1, 2, 3)
	if img.Bounds().Dx() != 12 || img.Bounds().Dy() != 3 {
		t.Fatalf("bounds %v", img.Bounds())
	}
	for y := 0; y < 3; y++ {
		for x := 0; x < 12; x++ {
			want := uint8(255)
			if row[x] {
				want = 0
			}
			if img.GrayAt(x, y).Y != want {
				t.Fatalf("pixel %d,%d", x, y)
			}
		}
	}
}

func TestConcurrentUse(t *testing.T) {
	var wg sync.WaitGroup
	want := modString(EAN13("5901234123457"))
	for g := 0; g < 8; g++ {
		wg.Add(1)
		go func() {
			defer wg.Done()
			for i := 0; i < 2000; i++ {
				if modString(EAN13("5901234123457")) != want {
					t.Error("EAN13 not stable")
					return
				}
				Code93("Test 93")
				Code39("CODE 39", 3)
				v, _ := Code128Auto("Code128-001234")
				Code128(v)
				ITF("00123456", 3)
				Codabar("A123-4B", 2)
				UPCE("04252614")
			}
		}()
	}
	wg.Wait()
}

func BenchmarkEAN13(b *testing.B) {
	b.ReportAllocs()
	for i := 0; i < b.N; i++ {
		EAN13("5901234123457")
	}
}

func BenchmarkCode128(b *testing.B) {
	b.ReportAllocs()
	for i := 0; i < b.N; i++ {
		v, _ := Code128Auto("Code128-001234")
		Code128(v)
	}
}

func BenchmarkCode93(b *testing.B) {
	b.ReportAllocs()
	for i := 0; i < b.N; i++ {
		Code93("Test 93 sym")
	}
}

func BenchmarkCode39(b *testing.B) {
	b.ReportAllocs()
	for i := 0; i < b.N; i++ {
		Code39("CODE 39 SYMBOL", 2)
	}
}
