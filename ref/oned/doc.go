// Package oned is an independent reference model of the linear (1-D) barcode
// symbologies: EAN-13, EAN-8, UPC-A, UPC-E (with the 2- and 5-digit add-on
// symbols), Code 39 (incl. full-ASCII mode), Code 93, Code 128, Interleaved
// 2 of 5 and Codabar.
//
// It is written from the symbology specifications (GS1 General
// Specifications, ISO/IEC 16388, AIM USS-93, ISO/IEC 15417, ISO/IEC 16390,
// ANSI/AIM BC3 Codabar) and deliberately shares no code or table layout with
// the library under verification.  Every table is a literal that is checked
// against structural invariants of its symbology in init(); an invariant
// failure panics at program start.  Where practical a table is given in two
// independent notations (module string and element widths) which must agree.
//
// Conventions
//
//   - "modules" is a []bool with one entry per X-dimension module, true =
//     dark bar, WITHOUT quiet zones.
//   - Functions that return only []bool panic on malformed arguments (wrong
//     length, non-digit): that is a bug in the caller, never data.  They do
//     NOT validate check digits, so that wrong symbols can be drawn on purpose.
//   - After init() the package has no mutable global state; every function
//     is safe for concurrent use and returns freshly allocated slices.
package oned

func panicf(msg, arg string) {
	panic("ref/oned: " + msg + ": " + quote(arg))
}

// quote is a tiny strconv.Quote substitute that keeps fmt out of the package.
func quote(s string) string {
	const hex = "0123456789abcdef"
	b := make([]byte, 0, len(s)+2)
	b = append(b, '"')
	for i := 0; i < len(s); i++ {
		c := s[i]
		if c < 0x20 || c >= 0x7f || c == '"' || c == '\\' {
			b = append(b, '\\', 'x', hex[c>>4], hex[c&15])
		} else {
			b = append(b, c)
		}
	}
	return string(append(b, '"'))
}

type symError struct{ msg string }

func (e *symError) Error() string { return e.msg }

func errorf(msg, arg string) error { return &symError{"ref/oned: " + msg + ": " + quote(arg)} }

// modulesOf converts a "1011..." module string to modules.
func modulesOf(s string) []bool {
	out := make([]bool, len(s))
	for i := 0; i < len(s); i++ {
		switch s[i] {
		case '1':
			out[i] = true
		case '0':
		default:
			panicf("bad module string", s)
		}
	}
	return out
}

// widthsToModules expands a digit string of element widths ("3211") to
// modules; the first element is dark if firstDark.
func widthsToModules(w string, firstDark bool) []bool {
	var out []bool
	dark := firstDark
	for i := 0; i < len(w); i++ {
		n := int(w[i] - '0')
		if n < 1 || n > 9 {
			panicf("bad width string", w)
		}
		for j := 0; j < n; j++ {
			out = append(out, dark)
		}
		dark = !dark
	}
	return out
}

// nwToModules expands an N/W element string.  Upper-case letters are bars,
// lower-case letters are spaces ('N','n' narrow = 1 module; 'W','w' wide).
func nwToModules(p string, wide int) []bool {
	var out []bool
	for i := 0; i < len(p); i++ {
		var n int
		var dark bool
		switch p[i] {
		case 'N':
			n, dark = 1, true
		case 'W':
			n, dark = wide, true
		case 'n':
			n, dark = 1, false
		case 'w':
			n, dark = wide, false
		default:
			panicf("bad N/W string", p)
		}
		for j := 0; j < n; j++ {
			out = append(out, dark)
		}
	}
	return out
}

func equalMods(a, b []bool) bool {
	if len(a) != len(b) {
		return false
	}
	for i := range a {
		if a[i] != b[i] {
			return false
		}
	}
	return true
}

func sumDigits(w string) int {
	s := 0
	for i := 0; i < len(w); i++ {
		s += int(w[i] - '0')
	}
	return s
}

func allDigits(s string) bool {
	for i := 0; i < len(s); i++ {
		if s[i] < '0' || s[i] > '9' {
			return false
		}
	}
	return true
}

func mustDigits(fn, s string, n int) {
	if len(s) != n || !allDigits(s) {
		panicf(fn+": want exactly "+itoa(n)+" digits", s)
	}
}

func itoa(n int) string {
	if n == 0 {
		return "0"
	}
	neg := n < 0
	if neg {
		n = -n
	}
	var b [20]byte
	i := len(b)
	for n > 0 {
		i--
		b[i] = byte('0' + n%10)
		n /= 10
	}
	if neg {
		i--
		b[i] = '-'
	}
	return string(b[i:])
}
