package oned

// ---------------------------------------------------------------------------
// Interleaved 2 of 5 (ISO/IEC 16390)
//
// Digits are coded in pairs: the five bars carry the first digit, the five
// interleaved spaces the second, both in the 2-of-5 code `twoOfFive`
// (shared with Code 39, validated in code39.go).  Start = narrow bar, space,
// bar, space; stop = wide bar, narrow space, narrow bar.
// ---------------------------------------------------------------------------

const (
	itfStart = "NnNn"
	itfStop  = "WnN"
)

var (
	// itfPairs[wide-2][first][second] -> modules of one interleaved pair.
	itfPairs     [2][10][10][]bool
	itfStartMods = nwToModules(itfStart, 2) // no wide element
	itfStopMods  = [2][]bool{nwToModules(itfStop, 2), nwToModules(itfStop, 3)}
)

func init() {
	for a := 0; a < 10; a++ {
		for b := 0; b < 10; b++ {
			p := make([]byte, 0, 10)
			for i := 0; i < 5; i++ {
				p = append(p, twoOfFive[a][i], twoOfFive[b][i]|0x20) // bar, then lower-case = space
			}
			for w := 2; w <= 3; w++ {
				m := nwToModules(string(p), w)
				if len(m) != 6+4*w || !m[0] || m[len(m)-1] {
					panicf("ITF pair must be 6 narrow + 4 wide, start dark, end light", string(p))
				}
				itfPairs[w-2][a][b] = m
			}
		}
	}
}

// ITF draws an Interleaved 2 of 5 symbol.  digits must have even length
// (possibly zero); narrow = 1 module, wide = `wide` modules (2 or 3).  No
// check digit is added or validated.
func ITF(digits string, wide int) ([]bool, error) {
	if wide != 2 && wide != 3 {
		return nil, errorf("ITF: wide must be 2 or 3", itoa(wide))
	}
	if len(digits)%2 != 0 {
		return nil, errorf("ITF: odd number of digits", digits)
	}
	if !allDigits(digits) {
		return nil, errorf("ITF: non-digit", digits)
	}
	out := make([]bool, 0, 4+(6+4*wide)*len(digits)/2+wide+2)
	out = append(out, itfStartMods...)
	for i := 0; i < len(digits); i += 2 {
		out = append(out, itfPairs[wide-2][digits[i]-'0'][digits[i+1]-'0']...)
	}
	return append(out, itfStopMods[wide-2]...), nil
}
