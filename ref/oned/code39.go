package oned

// ---------------------------------------------------------------------------
// Code 39 (ISO/IEC 16388)
//
// Every character is 5 bars and 4 spaces, exactly 3 of the 9 elements wide.
// The 40 "regular" characters have 2 wide bars out of 5 (the same 2-of-5
// code as ITF, keyed by the digit 1..9,0) and 1 wide space whose position
// selects the column group; the 4 special characters $ / + % have no wide
// bar and 3 wide spaces.
// ---------------------------------------------------------------------------

// Code39Alphabet lists the 43 data characters in check-value order.
// '*' (start/stop) is not a data character.
const Code39Alphabet = "0123456789ABCDEFGHIJKLMNOPQRSTUVWXYZ-. $/+%"

// code39Patterns: upper case = bar, lower case = space, N/n narrow, W/w wide.
// Index = value in Code39Alphabet; index 43 = '*'.
var code39Patterns = [44]string{
	"NnNwWnWnN", // 0
	"WnNwNnNnW", // 1
	"NnWwNnNnW", // 2
	"WnWwNnNnN", // 3
	"NnNwWnNnW", // 4
	"WnNwWnNnN", // 5
	"NnWwWnNnN", // 6
	"NnNwNnWnW", // 7
	"WnNwNnWnN", // 8
	"NnWwNnWnN", // 9
	"WnNnNwNnW", // A
	"NnWnNwNnW", // B
	"WnWnNwNnN", // C
	"NnNnWwNnW", // D
	"WnNnWwNnN", // E
	"NnWnWwNnN", // F
	"NnNnNwWnW", // G
	"WnNnNwWnN", // H
	"NnWnNwWnN", // I
	"NnNnWwWnN", // J
	"WnNnNnNwW", // K
	"NnWnNnNwW", // L
	"WnWnNnNwN", // M
	"NnNnWnNwW", // N
	"WnNnWnNwN", // O
	"NnWnWnNwN", // P
	"NnNnNnWwW", // Q
	"WnNnNnWwN", // R
	"NnWnNnWwN", // S
	"NnNnWnWwN", // T
	"WwNnNnNnW", // U
	"NwWnNnNnW", // V
	"WwWnNnNnN", // W
	"NwNnWnNnW", // X
	"WwNnWnNnN", // Y
	"NwWnWnNnN", // Z
	"NwNnNnWnW", // -
	"WwNnNnWnN", // .
	"NwWnNnWnN", // space
	"NwNwNwNnN", // $
	"NwNwNnNwN", // /
	"NwNnNwNwN", // +
	"NnNwNwNwN", // %
	"NwNnWnWnN", // *
}

const code39Star = 43

// twoOfFiveBars: the 2-of-5 wide-bar code shared by Code 39 and ITF; index =
// digit.  (Weights 1,2,4,7,parity; 0 is coded as 4+7.)
var twoOfFive = [10]string{
	"NNWWN", // 0
	"WNNNW", // 1
	"NWNNW", // 2
	"WWNNN", // 3
	"NNWNW", // 4
	"WNWNN", // 5
	"NWWNN", // 6
	"NNNWW", // 7
	"WNNWN", // 8
	"NWNWN", // 9
}

var (
	code39Mods [2][44][]bool // [wide-2][value]
	// code39Index: byte -> value, -1 if not encodable; '*' -> 43.  Built by a
	// variable initializer (not init) so that other files' init functions
	// may rely on it regardless of file order.
	code39Index = buildCode39Index()
)

func buildCode39Index() (t [256]int8) {
	for i := range t {
		t[i] = -1
	}
	for i := 0; i < len(Code39Alphabet); i++ {
		t[Code39Alphabet[i]] = int8(i)
	}
	t['*'] = code39Star
	return t
}

func init() {
	// 2-of-5 table: weights 1,2,4,7 + even parity bar; value 11 stands for 0
	for d, p := range twoOfFive {
		if len(p) != 5 || countByte(p, 'W') != 2 || countByte(p, 'N') != 3 {
			panicf("2-of-5 pattern", p)
		}
		w := [4]int{1, 2, 4, 7}
		v := 0
		for i := 0; i < 4; i++ {
			if p[i] == 'W' {
				v += w[i]
			}
		}
		if v == 11 {
			v = 0
		}
		if v != d {
			panicf("2-of-5 pattern does not have weighted value of its digit", p)
		}
	}

	for v, p := range code39Patterns {
		if len(p) != 9 {
			panicf("Code 39 pattern length", p)
		}
		wide := 0
		for i := 0; i < 9; i++ {
			isBar := i%2 == 0
			c := p[i]
			if isBar && c != 'N' && c != 'W' || !isBar && c != 'n' && c != 'w' {
				panicf("Code 39 pattern bar/space case", p)
			}
			if c == 'W' || c == 'w' {
				wide++
			}
		}
		if wide != 3 {
			panicf("Code 39 pattern must have exactly 3 wide elements", p)
		}
		for u := 0; u < v; u++ {
			if code39Patterns[u] == p {
				panicf("Code 39 patterns not distinct", p)
			}
		}
		code39Mods[0][v] = nwToModules(p, 2)
		code39Mods[1][v] = nwToModules(p, 3)
	}

	// Structural re-derivation of the 40 regular characters: column digit
	// (1..9,0) gives the bars, the row gives the position of the wide space.
	rows := [4]struct {
		chars  string // in column order 1,2,...,9,0
		spaces string
	}{
		{"1234567890", "nwnn"},
		{"ABCDEFGHIJ", "nnwn"},
		{"KLMNOPQRST", "nnnw"},
		{"UVWXYZ-. *", "wnnn"},
	}
	for _, r := range rows {
		for col := 0; col < 10; col++ {
			bars := twoOfFive[(col+1)%10]
			want := make([]byte, 0, 9)
			for i := 0; i < 5; i++ {
				want = append(want, bars[i])
				if i < 4 {
					want = append(want, r.spaces[i])
				}
			}
			got := code39Patterns[code39Index[r.chars[col]]]
			if got != string(want) {
				panicf("Code 39 pattern does not match its 2-of-5 bars + group space", got)
			}
		}
	}
	// the 4 specials: all bars narrow, the single narrow space at position
	// 4,3,2,1 for $ / + %
	for i, c := range []byte("$/+%") {
		sp := []byte("wwww")
		sp[3-i] = 'n'
		want := "N" + string(sp[0]) + "N" + string(sp[1]) + "N" + string(sp[2]) + "N" + string(sp[3]) + "N"
		if code39Patterns[code39Index[c]] != want {
			panicf("Code 39 special pattern", want)
		}
	}
}

// Code39 draws '*' + data + '*'.  Narrow elements are 1 module, wide
// elements are `wide` modules (2 or 3), characters are separated by one
// narrow light module.  No check character is added (append Code39Check
// yourself).  A '*' inside data is an error.
func Code39(data string, wide int) ([]bool, error) {
	if wide != 2 && wide != 3 {
		return nil, errorf("Code39: wide must be 2 or 3", itoa(wide))
	}
	for i := 0; i < len(data); i++ {
		if v := code39Index[data[i]]; v < 0 || v == code39Star {
			return nil, errorf("Code39: character not in the Code 39 alphabet", data[i:i+1])
		}
	}
	tab := &code39Mods[wide-2]
	per := 6 + 3*wide + 1
	out := make([]bool, 0, per*(len(data)+2)-1)
	out = append(out, tab[code39Star]...)
	for i := 0; i < len(data); i++ {
		out = append(out, false)
		out = append(out, tab[code39Index[data[i]]]...)
	}
	out = append(out, false)
	return append(out, tab[code39Star]...), nil
}

// Code39Check returns the optional modulo-43 check character of data.
// Panics if data contains a character outside Code39Alphabet.
func Code39Check(data string) byte {
	sum := 0
	for i := 0; i < len(data); i++ {
		v := code39Index[data[i]]
		if v < 0 || v == code39Star {
			panicf("Code39Check: character not in the Code 39 alphabet", data)
		}
		sum += int(v)
	}
	return Code39Alphabet[sum%43]
}

// ---- full ASCII ("extended") Code 39, ISO/IEC 16388 Annex A ---------------

// code39Ext[c] is the Code 39 character sequence for ASCII character c.
var code39Ext [128]string

func init() {
	set := func(c int, s string) {
		if code39Ext[c] != "" {
			panicf("Code 39 full ASCII table: duplicate assignment", s)
		}
		code39Ext[c] = s
	}
	pair := func(shift byte, first byte, from, to int) {
		for c := from; c <= to; c++ {
			set(c, string([]byte{shift, first + byte(c-from)}))
		}
	}
	set(0, "%U")
	pair('$', 'A', 1, 26)  // SOH..SUB
	pair('%', 'A', 27, 31) // ESC FS GS RS US
	set(' ', " ")
	pair('/', 'A', '!', ',') // ! " # $ % & ' ( ) * + ,  -> /A../L
	set('-', "-")            // (/M is not used)
	set('.', ".")            // (/N is not used)
	set('/', "/O")
	for c := '0'; c <= '9'; c++ {
		set(int(c), string(rune(c)))
	}
	set(':', "/Z")
	pair('%', 'F', ';', '?') // ; < = > ?
	set('@', "%V")
	for c := 'A'; c <= 'Z'; c++ {
		set(int(c), string(rune(c)))
	}
	pair('%', 'K', '[', '_') // [ \ ] ^ _
	set('`', "%W")
	pair('+', 'A', 'a', 'z')
	pair('%', 'P', '{', '~') // { | } ~
	set(127, "%T")

	// every entry present, made of Code 39 data characters, and uniquely
	// decodable
	seen := map[string]int{}
	for c, s := range code39Ext {
		if s == "" {
			panicf("Code 39 full ASCII table: missing entry", itoa(c))
		}
		for i := 0; i < len(s); i++ {
			if v := code39Index[s[i]]; v < 0 || v == code39Star {
				panicf("Code 39 full ASCII table: not Code 39 characters", s)
			}
		}
		if len(s) == 2 && (s[1] < 'A' || s[1] > 'Z') {
			panicf("Code 39 full ASCII table: shift not followed by a letter", s)
		}
		if len(s) == 1 && (s[0] == '$' || s[0] == '%' || s[0] == '/' || s[0] == '+') {
			panicf("Code 39 full ASCII table: bare shift character", s)
		}
		if _, dup := seen[s]; dup {
			panicf("Code 39 full ASCII table: ambiguous entry", s)
		}
		seen[s] = c
	}
	if len(seen) != 128 {
		panicf("Code 39 full ASCII table size", itoa(len(seen)))
	}
}

// Code39ExtendedEncode maps 7-bit ASCII to the Code 39 character sequence of
// full-ASCII mode: NUL=%U, SOH..SUB=$A..$Z, ESC..US=%A..%E, space, !../ =
// /A../O except '-' and '.' which stay single, digits, ':'=/Z, ;<=>? =
// %F..%J, @=%V, A..Z, [\]^_ = %K..%O, `=%W, a..z=+A..+Z, {|}~ = %P..%S,
// DEL=%T.  Note that in full-ASCII mode '$', '%', '/' and '+' themselves are
// always encoded as /D, /E, /O and /K.
func Code39ExtendedEncode(ascii string) (string, error) {
	out := make([]byte, 0, 2*len(ascii))
	for i := 0; i < len(ascii); i++ {
		c := ascii[i]
		if c > 127 {
			return "", errorf("Code39ExtendedEncode: not 7-bit ASCII", ascii[i:i+1])
		}
		out = append(out, code39Ext[c]...)
	}
	return string(out), nil
}

// Code39ExtendedDecode is the inverse of Code39ExtendedEncode.  Besides the
// sequences Code39ExtendedEncode produces it accepts the standard's
// alternatives /M ('-'), /N ('.') and %X, %Y, %Z (DEL).  A shift character
// ($ % / +) that is last or not followed by a letter it can combine with
// (e.g. "/P", "$1") is an error, as is any character outside Code39Alphabet.
func Code39ExtendedDecode(enc string) (string, error) {
	out := make([]byte, 0, len(enc))
	for i := 0; i < len(enc); i++ {
		c := enc[i]
		if v := code39Index[c]; v < 0 || v == code39Star {
			return "", errorf("Code39ExtendedDecode: not a Code 39 data character", enc[i:i+1])
		}
		if c != '$' && c != '%' && c != '/' && c != '+' {
			out = append(out, c)
			continue
		}
		if i+1 >= len(enc) {
			return "", errorf("Code39ExtendedDecode: shift character at end", enc)
		}
		n := enc[i+1]
		if n < 'A' || n > 'Z' {
			return "", errorf("Code39ExtendedDecode: shift character not followed by a letter", enc[i:i+2])
		}
		k := n - 'A'
		var r byte
		switch c {
		case '$':
			r = 1 + k
		case '+':
			r = 'a' + k
		case '/':
			switch {
			case n <= 'O':
				r = '!' + k
			case n == 'Z':
				r = ':'
			default:
				return "", errorf("Code39ExtendedDecode: undefined pair", enc[i:i+2])
			}
		case '%':
			switch {
			case n <= 'E':
				r = 27 + k
			case n <= 'J':
				r = ';' + (n - 'F')
			case n <= 'O':
				r = '[' + (n - 'K')
			case n <= 'S':
				r = '{' + (n - 'P')
			case n == 'T', n == 'X', n == 'Y', n == 'Z':
				r = 127
			case n == 'U':
				r = 0
			case n == 'V':
				r = '@'
			default: // 'W'
				r = '`'
			}
		}
		out = append(out, r)
		i++
	}
	return string(out), nil
}
