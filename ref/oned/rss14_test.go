package oned

// GS1 DataBar Omnidirectional (RSS-14): the reference encoder against
// (1) rows written down in the library's unit tests (a worked example of JIS
// X 0509 / ISO/IEC 24724 and a hand-computed one), (2) symbols printed by
// third-party software in the ZXing black-box corpus, (3) the library's
// reader, black box.

import (
	"fmt"
	"image"
	_ "image/png"
	"math/rand"
	"os"
	"sort"
	"strings"
	"testing"

	"github.com/makiuchi-d/gozxing"
	"github.com/makiuchi-d/gozxing/oned/rss"
)

func rss14Row(t *testing.T, v uint64) []bool {
	t.Helper()
	m, err := RSS14FromValue(v)
	if err != nil {
		t.Fatalf("RSS14FromValue(%d): %v", v, err)
	}
	return m
}

func TestRSS14Vectors(t *testing.T) {
	// /repo/oned/rss/rss14_reader_test.go, TestRSS14Reader_decodePair:
	// "JIS X 0509 Annex F.1"; left pair 2733309, right pair 1170097, finder
	// patterns 8 and 1.
	jis := "01" +
		"0001010111000111" + // 1: 31111333
		"011100000000010" + // check8: 13911
		"111010001001110" + // 2: 31131231 (rev)
		"101101111001100" + // 4: 11214222
		"101111100000111" + // check1: 11553 (rev)
		"0010011101110111" + // 3: 21231313 (rev)
		"01"
	v := uint64(4537077)*2733309 + 1170097
	if got := modString(rss14Row(t, v)); got != jis {
		t.Errorf("JIS X 0509 F.1 (value %d)\n got  %s\n want %s", v, got, jis)
	}
	lo, li, ro, ri, _ := RSS14Characters(v)
	_, cs, lf, rf, _ := RSS14Elements(lo, li, ro, ri)
	if lf != 8 || rf != 1 || 1597*lo+li != 2733309 || 1597*ro+ri != 1170097 {
		t.Errorf("JIS X 0509 F.1: characters %d %d %d %d checksum %d finders %d %d", lo, li, ro, ri, cs, lf, rf)
	}
	t.Logf("JIS X 0509 F.1: value %d text %s", v, RSS14Text(v))

	// TestRSS14Reader_DecodeRow: 0123456789050, characters 17, 61, 1830,
	// 1370, finder patterns 5 and 0, text 01234567890500.
	hand := "01" +
		"0100010001000001" + // Cout=17
		"001111100000010" + // pattern5
		"111011100111010" + //  Cin=61
		"111100110110100" + //  Cin=1370
		"101100000000111" + // pattern0
		"0001101001100111" + // Cout=1830
		"01"
	if got := modString(rss14Row(t, 123456789050)); got != hand {
		t.Errorf("0123456789050\n got  %s\n want %s", got, hand)
	}
	lo, li, ro, ri, _ = RSS14Characters(123456789050)
	if lo != 17 || li != 61 || ro != 1830 || ri != 1370 {
		t.Errorf("0123456789050: characters %d %d %d %d", lo, li, ro, ri)
	}
	if got := RSS14Text(123456789050); got != "01234567890500" {
		t.Errorf("RSS14Text(123456789050) = %q", got)
	}
	// TestRSS14Reader_decodeDataCharacter: outside 2315 = odd 1,2,2,1 even
	// 1,5,1,3; inside 842 = odd 1,2,3,1 even 3,1,1,3.
	if got := rss14Character(2315, true); got != [8]int{1, 1, 2, 5, 2, 1, 1, 3} {
		t.Errorf("outside 2315: %v", got)
	}
	if got := rss14Character(842, false); got != [8]int{1, 3, 2, 1, 3, 1, 1, 3} {
		t.Errorf("inside 842: %v", got)
	}

	for _, c := range []struct {
		v    uint64
		text string
	}{
		{0, "00000000000000"}, {1234567890, "00012345678905"}, {2001234567890, "20012345678909"},
		{441234567890, "04412345678909"}, {82193510642, "00821935106427"}, {7567816412, "00075678164125"},
		{3456789012, "00034567890125"}, {200123456789, "02001234567893"}, {2401234567890, "24012345678905"},
		{9999999999999, "99999999999997"},   // 9*(7*3+6) = 243
		{10000000000000, "100000000000009"}, // the 1 has weight 1
		{20585067703928, "205850677039284"}, // 24+2+27+3+0+7+21+6+0+5+24+5+0+2 = 126
	} {
		if got := RSS14Text(c.v); got != c.text {
			t.Errorf("RSS14Text(%d) = %q, want %q", c.v, got, c.text)
		}
	}
	for _, bad := range [][4]int{{-1, 0, 0, 0}, {2841, 0, 0, 0}, {0, 1597, 0, 0}, {0, 0, 2841, 0}, {0, 0, 0, 1597}, {0, 0, 0, -1}} {
		if _, err := RSS14FromCharacters(bad[0], bad[1], bad[2], bad[3]); err == nil {
			t.Errorf("RSS14FromCharacters(%v): no error", bad)
		}
	}
	if _, err := RSS14FromValue(RSS14ValueCount); err == nil {
		t.Errorf("RSS14FromValue(%d): no error", RSS14ValueCount)
	}
	if _, err := RSS14FromValue(RSS14ValueCount - 1); err != nil {
		t.Errorf("RSS14FromValue(%d): %v", RSS14ValueCount-1, err)
	}
}

// TestRSS14Characters: every character value gives a well-formed character,
// and distinct values give distinct characters.
func TestRSS14Characters(t *testing.T) {
	for _, outside := range []bool{true, false} {
		n, modules := rss14InsideCount, 15
		if outside {
			n, modules = rss14OutsideCount, 16
		}
		seen := map[[8]int]int{}
		for v := 0; v < n; v++ {
			w := rss14Character(v, outside)
			sum, odd := 0, 0
			for i, x := range w {
				if x < 1 || x > 8 {
					t.Fatalf("outside=%v value %d: width %d", outside, v, x)
				}
				sum += x
				if i%2 == 0 {
					odd += x
				}
			}
			// outside characters have an even, inside an odd number of odd modules
			if sum != modules || (odd%2 == 0) != outside {
				t.Fatalf("outside=%v value %d: widths %v", outside, v, w)
			}
			if p, dup := seen[w]; dup {
				t.Fatalf("outside=%v values %d and %d share widths %v", outside, p, v, w)
			}
			seen[w] = v
		}
	}
}

// imageModules reads the bar/space runs of pixel row y of a clean printed
// symbol and scales them to modules, first dark to last dark.
func imageModules(t *testing.T, file string, yNum, yDen, modules int) []bool {
	t.Helper()
	f, err := os.Open(file)
	if err != nil {
		t.Skipf("%v", err)
	}
	defer f.Close()
	img, _, err := image.Decode(f)
	if err != nil {
		t.Fatalf("%s: %v", file, err)
	}
	b := img.Bounds()
	y := b.Min.Y + b.Dy()*yNum/yDen
	px := make([]bool, b.Dx())
	for x := range px {
		r, g, bl, _ := img.At(b.Min.X+x, y).RGBA()
		px[x] = (r+g+bl)/3 < 0x8000
	}
	lo, hi := 0, len(px)-1
	for lo < hi && !px[lo] {
		lo++
	}
	for hi > lo && !px[hi] {
		hi--
	}
	runs := RunLengths(px[lo : hi+1])
	unit := float64(hi+1-lo) / float64(modules)
	var out []int
	for _, r := range runs {
		out = append(out, int(float64(r)/unit+0.5))
	}
	return FromRunLengths(out)
}

// TestRSS14PrintedSymbols compares with the linear (non-stacked) symbols of
// the ZXing black-box corpus rss14-1, which carry their content in print.
func TestRSS14PrintedSymbols(t *testing.T) {
	for _, c := range []struct {
		file string
		yNum int // the pixel row used is yNum/12 of the height down
		v    uint64
	}{
		{"1_1.png", 8, 441234567890},  // (01)04412345678909, the structure figure of the standard
		{"1_3.png", 6, 7567816412},    // (01)00075678164125
		{"1_4.png", 3, 2001234567890}, // (01)20012345678909
		{"1_6.png", 3, 1234567890},    // (01)00012345678905
	} {
		got := imageModules(t, "/repo/oned/rss/testdata/"+c.file, c.yNum, 12, 95)
		want := rss14Row(t, c.v)[1:] // the leading light guard module cannot be seen
		if !equalMods(got, want) {
			t.Errorf("%s (value %d)\n image %s\n ref   %s", c.file, c.v, modString(got), modString(want))
		}
	}
}

type rowDecoder interface {
	DecodeRow(rowNumber int, row *gozxing.BitArray, hints map[gozxing.DecodeHintType]interface{}) (*gozxing.Result, error)
}

// rss14LibRows shows the same pixel row three times to a fresh reader
// through DecodeRow; rss14LibImage decodes an 8 rows high image with a fresh
// reader.  A panic of the library is returned as an error text.
func rss14LibRows(mod []bool, scale int) (text string, err error) {
	defer func() {
		if p := recover(); p != nil {
			text, err = "", fmt.Errorf("PANIC: %v", p)
		}
	}()
	px := Row(mod, scale, 10, 10)
	row := gozxing.NewBitArray(len(px))
	for x, d := range px {
		if d {
			row.Set(x)
		}
	}
	rd := rss.NewRSS14Reader().(rowDecoder)
	var res *gozxing.Result
	for i := 0; i < 3; i++ {
		res, err = rd.DecodeRow(i, row, nil)
	}
	if err != nil {
		return "", err
	}
	if res.GetBarcodeFormat() != gozxing.BarcodeFormat_RSS_14 {
		return "", fmt.Errorf("format %v", res.GetBarcodeFormat())
	}
	return res.GetText(), nil
}

func rss14LibImage(mod []bool, scale int) (text string, err error) {
	defer func() {
		if p := recover(); p != nil {
			text, err = "", fmt.Errorf("PANIC: %v", p)
		}
	}()
	bmp, err := gozxing.NewBinaryBitmapFromImage(Image(mod, scale, 10, 10, 8))
	if err != nil {
		return "", err
	}
	res, err := rss.NewRSS14Reader().Decode(bmp, nil)
	if err != nil {
		return "", err
	}
	if res.GetBarcodeFormat() != gozxing.BarcodeFormat_RSS_14 {
		return "", fmt.Errorf("format %v", res.GetBarcodeFormat())
	}
	return res.GetText(), nil
}

// rss14LibTextAbove is what the library is OBSERVED to return for values
// >= 10^13: the 14 digits and a check digit taken over the first 13 of them
// with weights 3,1,3,... from the LEFT (the fourteenth digit does not enter).
// It is used only to tell that known deviation from any other wrong answer.
func rss14LibTextAbove(v uint64) string {
	d := utoa(v)
	return d + string(rune('0'+Mod10Check(d[:13])))
}

func rss14TestValues() []uint64 {
	rng := rand.New(rand.NewSource(14))
	val := func(lo, li, ro, ri int) uint64 {
		return uint64(rss14PairCount)*uint64(1597*lo+li) + uint64(1597*ro+ri)
	}
	last := func(tab []rss14Group, i, n int) int {
		if i+1 < len(tab) {
			return tab[i+1].first - 1
		}
		return n - 1
	}
	set := map[uint64]bool{}
	// every combination of the four groups: all-first, all-last, mixed
	// first/last, and one random member of each group
	for a, ga := range rss14Outside {
		for b, gb := range rss14Inside {
			for c, gc := range rss14Outside {
				for d, gd := range rss14Inside {
					f := [4]int{ga.first, gb.first, gc.first, gd.first}
					l := [4]int{last(rss14Outside, a, 2841), last(rss14Inside, b, 1597), last(rss14Outside, c, 2841), last(rss14Inside, d, 1597)}
					set[val(f[0], f[1], f[2], f[3])] = true
					set[val(l[0], l[1], l[2], l[3])] = true
					set[val(f[0], l[1], f[2], l[3])] = true
					set[val(l[0], f[1], l[2], f[3])] = true
					r := [4]int{}
					for i := range r {
						r[i] = f[i] + rng.Intn(l[i]-f[i]+1)
					}
					set[val(r[0], r[1], r[2], r[3])] = true
				}
			}
		}
	}
	for _, v := range []uint64{0, 1, 4537076, 4537077, 9999999999999, 10000000000000, 10000000000001,
		19999999999999, 20000000000000, RSS14ValueCount - 1, 1234567890, 2001234567890, 123456789050} {
		set[v] = true
	}
	for i := 0; i < 300; i++ {
		set[uint64(rng.Int63n(int64(RSS14ValueCount)))] = true
	}
	out := make([]uint64, 0, len(set))
	for v := range set {
		out = append(out, v)
	}
	sort.Slice(out, func(i, j int) bool { return out[i] < out[j] })
	return out
}

// rss14StrictLibrary = true turns the two explained deviations of the
// library (see TestRSS14LibraryReads) into test failures.
const rss14StrictLibrary = false

// rss14EarlyFinder models the one reason the library is OBSERVED not to read
// a clean symbol: its finder search walks windows of four elements (bar
// first in the left half; in the right half, seen mirrored, space first and
// beginning with the quiet zone), takes the FIRST window that passes the
// ratio test of the standard, (e1+e2)/(e1+..+e4) within 9.5/12 .. 12.5/14
// and widest < 10 * narrowest, and gives the half up when that window turns
// out not to be a finder pattern - it never looks at the later windows.  The
// function reports whether such a window precedes finder elements 2..5 in
// the left / right half.  It is used only to tell this known limitation from
// any other failure to read.
func rss14EarlyFinder(el []int, quiet int) (left, right bool) {
	early := func(seq []int, finderAt int) bool {
		for i := 0; i < finderAt; i += 2 {
			c := seq[i : i+4]
			sum, lo, hi := 0, c[0], c[0]
			for _, x := range c {
				sum += x
				if x < lo {
					lo = x
				}
				if x > hi {
					hi = x
				}
			}
			r := float64(c[0]+c[1]) / float64(sum)
			if r >= 9.5/12 && r <= 12.5/14 && hi < 10*lo {
				return true
			}
		}
		return false
	}
	// left: guard bar, 8 elements of character 1, finder element 1, then 2..5
	left = early(el[1:], 10)
	// right, mirrored: quiet zone, guard bar, guard space, 8 elements of
	// character 3, finder element 1, then 2..5
	seq := []int{quiet}
	for i := len(el) - 1; i >= 0; i-- {
		seq = append(seq, el[i])
	}
	right = early(seq, 12)
	return left, right
}

// TestRSS14LibraryReads: the library's reader must read every reference
// symbol as RSS14Text(v), at 1 and 2 pixels per module, both through
// DecodeRow (same row three times) and through Decode on an image.  Two
// deviations of the library are explained, counted and logged instead of
// failed (unless rss14StrictLibrary): the text of values >= 10^13
// (rss14LibTextAbove) and symbols with an early finder candidate
// (rss14EarlyFinder), which it cannot read.  Anything else fails.
func TestRSS14LibraryReads(t *testing.T) {
	const tenTo13 = 10000000000000
	values := rss14TestValues()
	type way struct {
		name  string
		scale int
		read  func([]bool, int) (string, error)
	}
	ways := []way{{"rows x1", 1, rss14LibRows}, {"rows x2", 2, rss14LibRows}, {"image x1", 1, rss14LibImage}, {"image x2", 2, rss14LibImage}}
	var early []string
	knownText, nAbove, nRead := 0, 0, 0
	for _, v := range values {
		if v >= tenTo13 {
			nAbove++
		}
		lo, li, ro, ri, _ := RSS14Characters(v)
		el, _, _, _, _ := RSS14Elements(lo, li, ro, ri)
		el1, el2 := rss14EarlyFinder(el, 10)
		mod := rss14Row(t, v)
		want := RSS14Text(v)
		var failed []string
		for _, w := range ways {
			got, err := w.read(mod, w.scale)
			switch {
			case err != nil && strings.HasPrefix(err.Error(), "PANIC"):
				t.Errorf("value %d, %s: library %v", v, w.name, err)
			case err != nil:
				failed = append(failed, w.name)
			case got == want:
				nRead++
			case v >= tenTo13 && got == rss14LibTextAbove(v):
				knownText++
				if rss14StrictLibrary {
					t.Errorf("value %d, %s: library read %q, want %q", v, w.name, got, want)
				}
			default:
				t.Errorf("value %d, %s: library read %q, want %q", v, w.name, got, want)
			}
		}
		desc := fmt.Sprintf("value %d (characters %d %d %d %d, early finder candidate left %v right %v)", v, lo, li, ro, ri, el1, el2)
		switch {
		case len(failed) == 0 && (el1 || el2):
			t.Errorf("%s: read although the model of the library's finder search says it cannot be", desc)
		case len(failed) == 0:
		case len(failed) == len(ways) && (el1 || el2):
			early = append(early, fmt.Sprint(v))
			if rss14StrictLibrary {
				t.Errorf("%s not read by the library\n %s", desc, modString(mod))
			}
		default:
			t.Errorf("%s not read by the library: %v\n %s", desc, failed, modString(mod))
		}
	}
	t.Logf("%d values (%d of them >= 10^13), %d ways each, %d reads equal to RSS14Text", len(values), nAbove, len(ways), nRead)
	if knownText > 0 {
		t.Logf("KNOWN LIBRARY DEVIATION: %d reads of values >= 10^13 returned the 14 digits + the check digit of the first 13 of them (weights from the left) instead of RSS14Text", knownText)
	}
	if len(early) > 0 {
		t.Logf("KNOWN LIBRARY LIMITATION: %d values not read in any way because a window of data elements passes the finder ratio test before the finder pattern: %s", len(early), strings.Join(early, " "))
	}
}
