package oned

import (
	"testing"

	"github.com/makiuchi-d/gozxing"
	liboned "github.com/makiuchi-d/gozxing/oned"
)

func TestProbe(t *testing.T) {
	// minimal quiet zones
	type c struct {
		name string
		r    gozxing.Reader
		m    []bool
	}
	c39, _ := Code39("CODE 39", 2)
	c93, _ := Code93("TEST93")
	v, _ := Code128Auto("Code128")
	itf, _ := ITF("00123456", 3)
	cb, _ := Codabar("A1234B", 2)
	for _, x := range []c{
		{"ean13", liboned.NewEAN13Reader(), EAN13("5901234123457")},
		{"ean8", liboned.NewEAN8Reader(), EAN8("96385074")},
		{"upca", liboned.NewUPCAReader(), UPCA("036000291452")},
		{"upce", liboned.NewUPCEReader(), UPCE("04252614")},
		{"c39", liboned.NewCode39Reader(), c39},
		{"c93", liboned.NewCode93Reader(), c93},
		{"c128", liboned.NewCode128Reader(), Code128(v)},
		{"itf", liboned.NewITFReader(), itf},
		{"codabar", liboned.NewCodaBarReader(), cb},
	} {
		minL, minR := -1, -1
		for q := 0; q <= 20; q++ {
			if _, err := libReadQuiet(x.r, x.m, q, 20, nil); err == nil {
				minL = q
				break
			}
		}
		for q := 0; q <= 20; q++ {
			if _, err := libReadQuiet(x.r, x.m, 20, q, nil); err == nil {
				minR = q
				break
			}
		}
		t.Logf("%s: min quiet left %d right %d (modules, scale 2)", x.name, minL, minR)
	}
	// UPC-E writer with 7 digits
	w := liboned.NewUPCEWriter()
	for _, u7 := range []string{"0425261", "0123455", "1123459", "0000000", "0100003"} {
		want := u7 + string(rune('0'+Mod10Check(UPCEExpand(u7))))
		lm := libModules(t, w, u7, gozxing.BarcodeFormat_UPC_E)
		naive := u7 + string(rune('0'+Mod10Check(u7)))
		t.Logf("UPC-E writer 7 digits %s: correct=%v (want %s) naiveCheckOnUnexpanded=%v (%s)", u7, equalMods(lm, UPCE(want)), want, equalMods(lm, UPCE(naive)), naive)
	}
	// writer default margins
	bm, _ := w.Encode("04252614", gozxing.BarcodeFormat_UPC_E, 0, 0, nil)
	t.Logf("UPC-E writer width %d (51 modules + margins)", bm.GetWidth())
	bmp, _ := gozxing.NewBinaryBitmapFromImage(bm)
	_, err := liboned.NewUPCEReader().Decode(bmp, nil)
	t.Logf("UPC-E reader on writer output: %v", err)
	// short ITF / codabar
	for _, s := range []string{"12", "1234", "123456"} {
		m, _ := ITF(s, 3)
		_, err := libRead(liboned.NewITFReader(), m, nil)
		t.Logf("ITF %s: %v", s, err)
	}
	for _, s := range []string{"AB", "A1B", "A12B", "A123B"} {
		m, _ := Codabar(s, 2)
		_, err := libRead(liboned.NewCodaBarReader(), m, nil)
		t.Logf("Codabar %s: %v", s, err)
	}
	for _, s := range []string{"", "A"} {
		m, _ := Code39(s, 2)
		res, err := libRead(liboned.NewCode39Reader(), m, nil)
		t.Logf("Code39 %q: %v %v", s, res, err)
		m, _ = Code93(s)
		res, err = libRead(liboned.NewCode93Reader(), m, nil)
		t.Logf("Code93 %q: %v %v", s, res, err)
	}
	// non-canonical UPC-E
	for _, u7 := range []string{"0120453", "0123054", "0123405"} {
		full := u7 + string(rune('0'+Mod10Check(UPCEExpand(u7))))
		res, err := libRead(liboned.NewUPCEReader(), UPCE(full), nil)
		t.Logf("non-canonical UPC-E %s: %v %v", full, res, err)
		_, err = w.Encode(full, gozxing.BarcodeFormat_UPC_E, 0, 0, nil)
		t.Logf("  writer: %v", err)
	}
	// multi-format reader on UPC-A
	mr := liboned.NewMultiFormatUPCEANReader(nil)
	res, err := libRead(mr, UPCA("036000291452"), nil)
	t.Logf("multi UPC-A: %v %v %v", res, res.GetBarcodeFormat(), err)
	res, err = libRead(mr, UPCE("04252614"), nil)
	t.Logf("multi UPC-E: %v %v", res, err)
}
