package aztec

import (
	"fmt"
	"image"
	_ "image/png"
	"math/rand"
	"os"
	"path/filepath"
	"sort"
	"strings"
	"sync"
	"testing"
	"time"

	"github.com/makiuchi-d/gozxing"
	gzaztec "github.com/makiuchi-d/gozxing/aztec"
	"github.com/makiuchi-d/gozxing/aztec/decoder"
	"github.com/makiuchi-d/gozxing/aztec/detector"
)

// ---------------------------------------------------------------------------
// helpers

type shape struct {
	compact bool
	layers  int
}

func (s shape) String() string {
	if s.compact {
		return fmt.Sprintf("compact-%d", s.layers)
	}
	return fmt.Sprintf("full-%d", s.layers)
}

func allShapes() []shape {
	var out []shape
	for l := 1; l <= 4; l++ {
		out = append(out, shape{true, l})
	}
	for l := 1; l <= 32; l++ {
		out = append(out, shape{false, l})
	}
	return out
}

func toBitMatrix(m [][]bool) *gozxing.BitMatrix {
	bm, _ := gozxing.NewBitMatrix(len(m), len(m))
	for r := range m {
		for c := range m[r] {
			if m[r][c] {
				bm.Set(c, r)
			}
		}
	}
	return bm
}

// libDecodeMatrix feeds the module matrix straight to the library's decoder.
func libDecodeMatrix(m [][]bool, compact bool, dataWords, layers int) (text string, err error) {
	defer func() {
		if r := recover(); r != nil {
			err = fmt.Errorf("PANIC: %v", r)
		}
	}()
	pts := []gozxing.ResultPoint{
		gozxing.NewResultPoint(0, 0), gozxing.NewResultPoint(1, 0),
		gozxing.NewResultPoint(1, 1), gozxing.NewResultPoint(0, 1),
	}
	res, e := decoder.NewDecoder().Decode(detector.NewAztecDetectorResult(toBitMatrix(m), pts, compact, dataWords, layers))
	if e != nil {
		return "", e
	}
	return res.GetText(), nil
}

// libReadImage runs the complete reader (binariser, detector, decoder).
func libReadImage(img image.Image) (text string, err error) {
	defer func() {
		if r := recover(); r != nil {
			err = fmt.Errorf("PANIC: %v", r)
		}
	}()
	bmp, e := gozxing.NewBinaryBitmapFromImage(img)
	if e != nil {
		return "", e
	}
	res, e := gzaztec.NewAztecReader().Decode(bmp, nil)
	if e != nil {
		return "", e
	}
	return res.GetText(), nil
}

func libHighLevel(bits []bool) (text string, err error) {
	defer func() {
		if r := recover(); r != nil {
			err = fmt.Errorf("PANIC: %v", r)
		}
	}()
	return decoder.NewDecoder().HighLevelDecode(bits)
}

// refDecode is a strict test-only high-level decoder written from Table 2 of
// the standard, using only CodeOf/CharOf and the control code constants.  It
// stops silently when the remaining bits cannot hold the next element (pad).
func refDecode(bits []bool) ([]byte, error) {
	pos := 0
	read := func(n int) (int, bool) {
		if pos+n > len(bits) {
			pos = len(bits)
			return 0, false
		}
		v := 0
		for i := 0; i < n; i++ {
			v <<= 1
			if bits[pos+i] {
				v |= 1
			}
		}
		pos += n
		return v, true
	}
	var out []byte
	// punct handles one Punct-table code; shifted says whether it came via P/S.
	punct := func(code int, shifted bool, latch *Table) error {
		switch {
		case code == punctFLG:
			n, ok := read(3)
			if !ok {
				return nil
			}
			switch {
			case n == 0:
				out = append(out, 0x1D)
			case n == 7:
				return fmt.Errorf("FLG(7)")
			default:
				for i := 0; i < n; i++ {
					d, ok := read(4)
					if !ok {
						return nil
					}
					if d < 2 || d > 11 {
						return fmt.Errorf("bad ECI digit code %d", d)
					}
				}
			}
		case code >= 2 && code <= 5:
			out = append(out, pairText[code]...)
		case code == punctUL:
			if shifted {
				return fmt.Errorf("U/L after P/S")
			}
			*latch = Upper
		default:
			c, ok := CharOf(Punct, code)
			if !ok {
				return fmt.Errorf("bad punct code %d", code)
			}
			out = append(out, c)
		}
		return nil
	}
	latch := Upper
	for {
		code, ok := read(latch.Width())
		if !ok {
			break
		}
		if latch == Punct {
			if err := punct(code, false, &latch); err != nil {
				return out, err
			}
			continue
		}
		if c, ok := CharOf(latch, code); ok {
			out = append(out, c)
			continue
		}
		if code == codePS {
			p, ok := read(5)
			if !ok {
				break
			}
			if err := punct(p, true, &latch); err != nil {
				return out, err
			}
			continue
		}
		isBS := (latch == Upper && code == upperBS) || (latch == Lower && code == lowerBS) || (latch == Mixed && code == mixedBS)
		isUS := (latch == Lower && code == lowerUS) || (latch == Digit && code == digitUS)
		// NB: a failed read() moves pos to the end, so the plain `break`s below
		// (which only leave the switch) still terminate the outer loop.
		binary := func() {
			n, ok := read(5)
			if !ok {
				return
			}
			if n == 0 {
				n, ok = read(11)
				if !ok {
					return
				}
				n += 31
			}
			for i := 0; i < n; i++ {
				b, ok := read(8)
				if !ok {
					return
				}
				out = append(out, byte(b))
			}
		}
		switch {
		case isBS:
			binary()
		case isUS:
			u, ok := read(5)
			if !ok {
				break
			}
			if u == upperBS {
				// "U/S B/S": a binary shift invoked from the shifted Upper
				// table.  The standard ends a shift sequence in the mode from
				// which it was invoked, here Upper, which thereby stays in
				// force (sample aztec-1/dlusbs.png relies on this: D/L 3333
				// U/S B/S(5) h3i3j then ITIT in Upper codes).
				binary()
				latch = Upper
				continue
			}
			c, ok := CharOf(Upper, u)
			if !ok {
				return out, fmt.Errorf("control code %d after U/S", u)
			}
			out = append(out, c)
		default:
			to := Table(-1)
			for t := Upper; t <= Digit; t++ {
				if directLatch[latch][t] == code {
					to = t
				}
			}
			if to < 0 {
				return out, fmt.Errorf("unknown code %d in %v", code, latch)
			}
			latch = to
		}
	}
	return out, nil
}

// sampleText is a long deterministic text touching all five tables and bytes
// outside every table.
func sampleText(n int) []byte {
	unit := "Aztec Code ISO/IEC 24778: Layer 12, full-range [151x151] #42 ~ok~ \x01\x1b@ caf\xe9 3.14, 2,5. END\r\nNext: line. "
	var b []byte
	for len(b) < n {
		b = append(b, unit...)
	}
	return b[:n]
}

// fitText returns the longest prefix of sampleText whose stuffed AutoEncode
// output uses at most maxWords codewords in the shape.
func fitText(sh shape, maxWords int) []byte {
	w := WordSizeFor(sh.layers)
	full := sampleText(maxWords*w/4 + 8)
	lo, hi := 1, len(full)
	for lo < hi { // longest n with words(n) <= maxWords (monotone up to stuffing noise)
		mid := (lo + hi + 1) / 2
		if len(Stuff(AutoEncode(full[:mid]), w)) <= maxWords {
			lo = mid
		} else {
			hi = mid - 1
		}
	}
	for lo > 1 && len(Stuff(AutoEncode(full[:lo]), w)) > maxWords {
		lo--
	}
	return full[:lo]
}

// scriptOps is a cyclic list of operations that together exercise every latch
// edge, every shift and both binary-shift length forms.
func scriptOps() []func(s *Script) error {
	seq := func(fs ...func(s *Script) error) func(s *Script) error {
		return func(s *Script) error {
			for _, f := range fs {
				if err := f(s); err != nil {
					return err
				}
			}
			return nil
		}
	}
	latch := func(t Table) func(s *Script) error { return func(s *Script) error { return s.Latch(t) } }
	text := func(x string) func(s *Script) error { return func(s *Script) error { return s.Text(x) } }
	bin := func(x string) func(s *Script) error { return func(s *Script) error { return s.Binary([]byte(x)) } }
	return []func(s *Script) error{
		seq(latch(Upper), text("AZ")),
		seq(latch(Lower), text("az ")),                                                             // U->L
		func(s *Script) error { return s.ShiftUpper('Q') },                                         // L U/S
		func(s *Script) error { return s.ShiftPunct('!') },                                         // L P/S
		seq(latch(Mixed), text("\x01@\x7f\x1b\\^_`|~\x0d\x1f")),                                    // L->M
		func(s *Script) error { return s.ShiftPunctPair(PairCRLF) },                                // M P/S pair
		seq(latch(Punct), text("{}"), func(s *Script) error { return s.PunctPair(PairDotSpace) }),  // M->P
		seq(latch(Digit), text("09,. ")),                                                           // P->U->D
		func(s *Script) error { return s.ShiftUpper('M') },                                         // D U/S
		func(s *Script) error { return s.ShiftPunct('?') },                                         // D P/S
		func(s *Script) error { return s.ShiftPunctPair(PairCommaSpace) },                          // D P/S pair
		seq(latch(Lower), text("q")),                                                               // D->U->L
		seq(latch(Upper), bin("\x00\xff~"), text("B ")),                                            // L->D->U, U B/S
		func(s *Script) error { return s.ShiftPunct(':') },                                         // U P/S
		seq(latch(Mixed), bin("bin[mixed]"), text(" ")),                                            // U->M, M B/S
		seq(latch(Digit), text("7")),                                                               // M->U->D
		seq(latch(Punct), text("]"), func(s *Script) error { return s.PunctPair(PairColonSpace) }), // D->U->M->P
		seq(latch(Lower), bin("0123456789abcdefghijklmnopqrstuvwxyz"), text("z")),                  // P->U->L, long B/S (36)
		seq(latch(Digit), text("1")),                                                               // L->D
		seq(latch(Mixed), text("\x02")),                                                            // D->U->M
		seq(latch(Lower), text("m")),                                                               // M->L
		seq(latch(Punct), text("\r("), func(s *Script) error { return s.PunctPair(PairCRLF) }, func(s *Script) error { return s.PunctPair(PairCommaSpace) }), // L->M->P
		seq(latch(Mixed), text("~")), // P->U->M
		seq(latch(Upper), text("K")), // M->U
		seq(latch(Digit), text("5")), // U->D
		seq(latch(Upper), text("W")), // D->U
		seq(latch(Punct), text(")")), // U->M->P
		seq(latch(Upper), text("Y")), // P->U
	}
}

// fitScript builds the longest op-sequence script fitting maxWords codewords.
func fitScript(sh shape, maxWords int) *Script {
	w := WordSizeFor(sh.layers)
	ops := scriptOps()
	build := func(n int) *Script {
		s := NewScript()
		for i := 0; i < n; i++ {
			if err := ops[i%len(ops)](s); err != nil {
				panic(err)
			}
		}
		return s
	}
	n := 1
	for len(Stuff(build(n+1).Bits(), w)) <= maxWords {
		n++
		if n > 4000 {
			break
		}
	}
	return build(n)
}

// ---------------------------------------------------------------------------
// tables and high-level encoding

func TestTables(t *testing.T) {
	// Written out literally from ISO/IEC 24778 Table 2; "\x00" marks control
	// codes and two-character codes.
	want := map[Table]string{
		Upper: "\x00 ABCDEFGHIJKLMNOPQRSTUVWXYZ\x00\x00\x00\x00",
		Lower: "\x00 abcdefghijklmnopqrstuvwxyz\x00\x00\x00\x00",
		Mixed: "\x00 \x01\x02\x03\x04\x05\x06\x07\x08\x09\x0a\x0b\x0c\x0d\x1b\x1c\x1d\x1e\x1f@\\^_`|~\x7f\x00\x00\x00\x00",
		Punct: "\x00\r\x00\x00\x00\x00!\"#$%&'()*+,-./:;<=>?[]{}\x00",
		Digit: "\x00 0123456789,.\x00\x00",
	}
	for tab, str := range want {
		if len(str) != 1<<uint(tab.Width()) {
			t.Fatalf("%v: literal has %d entries", tab, len(str))
		}
		for code := 0; code < len(str); code++ {
			c, ok := CharOf(tab, code)
			if str[code] == 0 {
				if ok {
					t.Errorf("%v code %d: want control, got %q", tab, code, c)
				}
				continue
			}
			if !ok || c != str[code] {
				t.Errorf("%v code %d: got %q,%v want %q", tab, code, c, ok, str[code])
			}
			if v, ok := CodeOf(tab, str[code]); !ok || v != code {
				t.Errorf("CodeOf(%v,%q) = %d,%v want %d", tab, str[code], v, ok, code)
			}
		}
		n := 0
		for c := 0; c < 256; c++ {
			if _, ok := CodeOf(tab, byte(c)); ok {
				n++
			}
		}
		if n != len(strings.ReplaceAll(str, "\x00", "")) {
			t.Errorf("%v: %d characters mapped, want %d", tab, n, len(strings.ReplaceAll(str, "\x00", "")))
		}
	}
	// Control codes.
	checks := []struct {
		name      string
		got, want int
	}{
		{"U L/L", upperLL, 28}, {"U M/L", upperML, 29}, {"U D/L", upperDL, 30}, {"U B/S", upperBS, 31},
		{"L U/S", lowerUS, 28}, {"L M/L", lowerML, 29}, {"L D/L", lowerDL, 30}, {"L B/S", lowerBS, 31},
		{"M L/L", mixedLL, 28}, {"M U/L", mixedUL, 29}, {"M P/L", mixedPL, 30}, {"M B/S", mixedBS, 31},
		{"P FLG", punctFLG, 0}, {"P U/L", punctUL, 31}, {"D U/L", digitUL, 14}, {"D U/S", digitUS, 15}, {"P/S", codePS, 0},
	}
	for _, c := range checks {
		if c.got != c.want {
			t.Errorf("%s = %d want %d", c.name, c.got, c.want)
		}
	}
}

func TestLatchShortest(t *testing.T) {
	// Exhaustive search over latch sequences of up to 4 steps.
	for from := Upper; from <= Digit; from++ {
		best := map[Table]int{from: 0}
		var walk func(cur Table, bits, depth int)
		walk = func(cur Table, bits, depth int) {
			if b, ok := best[cur]; !ok || bits < b {
				best[cur] = bits
			}
			if depth == 4 {
				return
			}
			for to := Upper; to <= Digit; to++ {
				if directLatch[cur][to] >= 0 {
					walk(to, bits+cur.Width(), depth+1)
				}
			}
		}
		walk(from, 0, 0)
		for to := Upper; to <= Digit; to++ {
			s := NewScript()
			s.SetCur(from)
			if err := s.Latch(to); err != nil {
				t.Fatal(err)
			}
			if s.Cur() != to {
				t.Errorf("%v->%v ended in %v", from, to, s.Cur())
			}
			if got := len(s.Bits()); got != best[to] {
				t.Errorf("%v->%v uses %d bits, shortest is %d", from, to, got, best[to])
			}
		}
	}
	// A few literal sequences.
	bitsStr := func(s *Script) string {
		var sb strings.Builder
		for _, b := range s.Bits() {
			if b {
				sb.WriteByte('1')
			} else {
				sb.WriteByte('0')
			}
		}
		return sb.String()
	}
	s := NewScript()
	s.Latch(Punct) // M/L (29) P/L (30)
	if got := bitsStr(s); got != "1110111110" {
		t.Errorf("Upper->Punct = %s", got)
	}
	s = NewScript()
	s.SetCur(Digit)
	s.Latch(Lower) // U/L (14, 4 bits) L/L (28)
	if got := bitsStr(s); got != "111011100" {
		t.Errorf("Digit->Lower = %s", got)
	}
	s = NewScript()
	s.SetCur(Lower)
	s.Latch(Upper) // D/L (30) U/L (14, 4 bits)
	if got := bitsStr(s); got != "111101110" {
		t.Errorf("Lower->Upper = %s", got)
	}
}

func TestScriptErrors(t *testing.T) {
	s := NewScript()
	if s.Char('a') == nil {
		t.Error("Char('a') in Upper must fail")
	}
	if s.ShiftUpper('A') == nil {
		t.Error("U/S from Upper must fail")
	}
	if s.PunctPair(PairCRLF) == nil {
		t.Error("PunctPair in Upper must fail")
	}
	if s.Binary(nil) == nil || s.Binary(make([]byte, MaxBinaryShift+1)) == nil {
		t.Error("Binary length limits")
	}
	s.Latch(Punct)
	if s.Binary([]byte("x")) == nil || s.ShiftPunct('!') == nil || s.ShiftPunctPair(PairCRLF) == nil {
		t.Error("B/S and P/S from Punct must fail")
	}
	if s.PunctPair(6) == nil {
		t.Error("PunctPair(6) must fail")
	}
	s.Latch(Digit)
	if s.Binary([]byte("x")) == nil {
		t.Error("B/S from Digit must fail")
	}
	if len(s.Bits()) != 10+5+5 { // M/L P/L, U/L D/L only: failed calls emit nothing
		t.Errorf("failed calls emitted bits: %d", len(s.Bits()))
	}
}

func TestBinaryLengthForms(t *testing.T) {
	for _, n := range []int{1, 2, 30, 31, 32, 33, 62, 63, 64, 255, 2047, 2048, 2078} {
		data := make([]byte, n)
		for i := range data {
			data[i] = byte('a' + i%26)
		}
		s := NewScript()
		s.Char('X')
		if err := s.Binary(data); err != nil {
			t.Fatal(err)
		}
		s.Char('Y')
		wantBits := 5 + 5 + 5 + 8*n + 5
		if n > 31 {
			wantBits += 11
		}
		if len(s.Bits()) != wantBits {
			t.Errorf("n=%d: %d bits want %d", n, len(s.Bits()), wantBits)
		}
		got, err := libHighLevel(s.Bits())
		if err != nil || got != s.Expected() {
			t.Errorf("library: binary length %d: err=%v got %d chars want %d", n, err, len(got), len(s.Expected()))
		}
		ref, err := refDecode(s.Bits())
		if err != nil || string(ref) != string(s.ExpectedBytes()) {
			t.Errorf("refDecode: binary length %d: err=%v", n, err)
		}
	}
}

func TestScriptEdgesHighLevel(t *testing.T) {
	ops := scriptOps()
	s := NewScript()
	for rep := 0; rep < 2; rep++ {
		for i, op := range ops {
			if err := op(s); err != nil {
				t.Fatalf("op %d: %v", i, err)
			}
			got, err := libHighLevel(s.Bits())
			if err != nil || got != s.Expected() {
				t.Fatalf("library after op %d (rep %d): err=%v\n got %q\nwant %q", i, rep, err, got, s.Expected())
			}
			ref, err := refDecode(s.Bits())
			if err != nil || string(ref) != string(s.ExpectedBytes()) {
				t.Fatalf("refDecode after op %d: err=%v\n got %q\nwant %q", i, err, ref, s.ExpectedBytes())
			}
		}
	}
	// FLG(0) in Punct and through P/S from each table that has P/S.
	for _, tab := range []Table{Upper, Lower, Mixed, Punct, Digit} {
		s := NewScript()
		s.Char('A')
		s.Latch(tab)
		if err := s.FLG0(); err != nil {
			t.Fatal(err)
		}
		s.Latch(Upper)
		s.Char('Z')
		got, err := libHighLevel(s.Bits())
		if err != nil || got != "A\x1dZ" {
			t.Errorf("library: FLG(0) from %v: %q %v", tab, got, err)
		}
	}
	// every single character of every table, directly and via shift
	for tab := Upper; tab <= Digit; tab++ {
		s := NewScript()
		s.Latch(tab)
		for code := 0; code < 32; code++ {
			if c, ok := CharOf(tab, code); ok {
				s.Char(c)
			}
		}
		if tab == Punct {
			for code := 2; code <= 5; code++ {
				s.PunctPair(code)
			}
		}
		got, err := libHighLevel(s.Bits())
		if err != nil || got != s.Expected() {
			t.Errorf("library: all chars of %v: err=%v\n got %q\nwant %q", tab, err, got, s.Expected())
		}
	}
	for _, from := range []Table{Upper, Lower, Mixed, Digit} {
		s := NewScript()
		s.Latch(from)
		for code := 1; code <= 30; code++ {
			if c, ok := CharOf(Punct, code); ok {
				s.ShiftPunct(c)
			} else {
				s.ShiftPunctPair(code)
			}
		}
		if from == Lower || from == Digit {
			for code := 1; code <= 27; code++ {
				c, _ := CharOf(Upper, code)
				s.ShiftUpper(c)
			}
		}
		got, err := libHighLevel(s.Bits())
		if err != nil || got != s.Expected() {
			t.Errorf("library: shifts from %v: err=%v\n got %q\nwant %q", from, err, got, s.Expected())
		}
	}
}

// TestShiftUpperBinary rebuilds the bit stream of the third-party sample
// aztec-1/dlusbs.png (literal below = its unstuffed data bits as read by this
// package's own layout code) with the Script API.
func TestShiftUpperBinary(t *testing.T) {
	const sampleBits = "11110010101010101010111111111100101011010000011001101101001001100110110101001010101010101010101"
	s := NewScript()
	s.Latch(Digit)
	s.Text("3333")
	if err := s.ShiftUpperBinary([]byte("h3i3j")); err != nil {
		t.Fatal(err)
	}
	if s.Cur() != Upper {
		t.Fatalf("cur=%v", s.Cur())
	}
	s.Text("ITIT")
	want := parseBits(sampleBits)
	got := s.Bits()
	if len(got) > len(want) || fmt.Sprint(got) != fmt.Sprint(want[:len(got)]) {
		t.Errorf("script bits differ from the sample's")
	}
	for _, b := range want[len(got):] {
		if !b {
			t.Errorf("sample tail is not 1-padding")
		}
	}
	txt, err := libHighLevel(got)
	if err != nil || txt != "3333h3i3jITIT" || s.Expected() != txt {
		t.Errorf("library: U/S B/S from Digit: %q %v", txt, err)
	}
	ref, err := refDecode(got)
	if err != nil || string(ref) != "3333h3i3jITIT" {
		t.Errorf("refDecode: %q %v", ref, err)
	}
	s = NewScript()
	s.Latch(Lower)
	s.Char('a')
	s.ShiftUpperBinary([]byte{0xe9})
	s.Char('B')
	txt, err = libHighLevel(s.Bits())
	if err != nil || txt != s.Expected() {
		t.Errorf("library: U/S B/S from Lower: %q %v want %q", txt, err, s.Expected())
	}
	if NewScript().ShiftUpperBinary([]byte("x")) == nil {
		t.Error("U/S B/S from Upper must fail")
	}
}

func TestAutoEncodeRandom(t *testing.T) {
	rng := rand.New(rand.NewSource(24778))
	alphabets := []string{
		"ABC xyz 0189,.!?\r\n:;[]{}@\\^_`|~\x01\x0d\x1b\x7f\x80\xe9\xff\x00\x0e",
		"AB ab 12",
		". , : \r\n",
		"\x80\x90\xa0A",
	}
	for iter := 0; iter < 3000; iter++ {
		al := alphabets[iter%len(alphabets)]
		n := 1 + rng.Intn(40)
		text := make([]byte, n)
		for i := range text {
			if rng.Intn(8) == 0 {
				text[i] = byte(rng.Intn(256))
			} else {
				text[i] = al[rng.Intn(len(al))]
			}
		}
		s := AutoScript(text)
		if string(s.ExpectedBytes()) != string(text) {
			t.Fatalf("AutoScript expected %q for %q", s.ExpectedBytes(), text)
		}
		ref, err := refDecode(s.Bits())
		if err != nil || string(ref) != string(text) {
			t.Fatalf("refDecode(%q) = %q, %v", text, ref, err)
		}
		got, err := libHighLevel(s.Bits())
		if err != nil || got != Latin1(text) {
			t.Fatalf("library HighLevelDecode of AutoEncode(%q) = %q, %v", text, got, err)
		}
	}
	// a long run of out-of-table bytes (two binary shifts)
	long := make([]byte, MaxBinaryShift+100)
	for i := range long {
		long[i] = byte(0x80 + i%100)
	}
	s := AutoScript(long)
	got, err := libHighLevel(s.Bits())
	if err != nil || got != Latin1(long) {
		t.Errorf("library: long binary run: err=%v len %d", err, len(got))
	}
	if len(AutoEncode(nil)) != 0 {
		t.Error("AutoEncode(nil) must be empty")
	}
}

// ---------------------------------------------------------------------------
// stuffing, RS, mode message, geometry

func parseBits(s string) []bool {
	var out []bool
	for _, c := range s {
		switch c {
		case '1', 'X':
			out = append(out, true)
		case '0', '.':
			out = append(out, false)
		}
	}
	return out
}

func TestStuff(t *testing.T) {
	cases := []struct {
		w    int
		in   string
		want []int
	}{
		{6, "010101 101010", []int{0x15, 0x2A}},
		{6, "000000", []int{0x01, 0x1F}},                          // 00000|1 then 0 + pad 11111 -> 011111
		{6, "111111", []int{0x3E, 0x3E}},                          // 11111|0 then 1 + pad -> 11111|0
		{6, "00000", []int{0x01}},                                 // exactly w-1 zeros
		{6, "11111", []int{0x3E}},                                 // exactly w-1 ones
		{6, "000001", []int{0x01, 0x3E}},                          // 00000|1(stuffed) then real 1 + pad
		{6, "0", []int{0x1F}},                                     // 0 11111
		{6, "1", []int{0x3E}},                                     // pad makes all ones -> last bit 0
		{6, "0000000000 1", []int{0x01, 0x01, 0x3E}},              // two zero runs then the 1
		{8, "1111111 1 0000000 0", []int{0xFE, 0x80, 0x01, 0x7F}}, // 1111111|0, 1 0000000, 0000000|1?? see below
		{4, "0000 1111 0101", []int{0x1, 0x7, 0xA, 0xE}},          // 000|1, 0111, 1010, 1+pad 11 -> 111|0,
	}
	// recompute the hand-derived w=8 case properly: bits 11111111 00000000
	// word1: 1111111|0(stuffed)  consumed 7
	// word2: 1 0000000            -> 0x80 consumed 8 (total 15)
	// word3: 0 + pad 1111111      -> 0x7F
	cases[9].want = []int{0xFE, 0x80, 0x7F}
	for _, c := range cases {
		got := Stuff(parseBits(c.in), c.w)
		if fmt.Sprint(got) != fmt.Sprint(c.want) {
			t.Errorf("Stuff(%q,%d) = %x want %x", c.in, c.w, got, c.want)
		}
	}
	rng := rand.New(rand.NewSource(1))
	for iter := 0; iter < 2000; iter++ {
		w := []int{6, 8, 10, 12}[iter%4]
		n := rng.Intn(200)
		bits := make([]bool, n)
		p := []int{2, 10, 50}[rng.Intn(3)] // skewed densities give long runs
		for i := range bits {
			bits[i] = rng.Intn(100) < p
		}
		if rng.Intn(2) == 0 {
			for i := range bits {
				bits[i] = !bits[i]
			}
		}
		words := Stuff(bits, w)
		for _, x := range words {
			if x == 0 || x == 1<<uint(w)-1 {
				t.Fatalf("illegal word %x", x)
			}
		}
		back, err := Unstuff(words, w)
		if err != nil {
			t.Fatal(err)
		}
		if len(back) < n || len(back) >= n+w {
			t.Fatalf("w=%d n=%d: unstuffed length %d", w, n, len(back))
		}
		for i := range back {
			want := true // pad
			if i < n {
				want = bits[i]
			}
			// the very last bit may be a 0 forced by an all-ones final word
			if back[i] != want && !(i >= n && i == len(back)-1) {
				t.Fatalf("w=%d n=%d: bit %d differs", w, n, i)
			}
		}
	}
}

func TestReedSolomon(t *testing.T) {
	rng := rand.New(rand.NewSource(2))
	for _, w := range []int{4, 6, 8, 10, 12} {
		f := fieldForWordSize(w)
		// field sanity: a is primitive
		seen := map[int]bool{}
		for i := 0; i < f.size-1; i++ {
			seen[f.exp[i]] = true
		}
		if len(seen) != f.size-1 || seen[0] {
			t.Fatalf("GF(2^%d): generator not primitive", w)
		}
		for iter := 0; iter < 20; iter++ {
			max := f.size - 1
			if max > 300 {
				max = 300
			}
			total := 2 + rng.Intn(max-1)
			n := rng.Intn(total)
			data := make([]int, total-n)
			for i := range data {
				data[i] = rng.Intn(f.size)
			}
			chk := RSCheckWords(data, n, w)
			if len(chk) != n {
				t.Fatalf("len(chk)=%d want %d", len(chk), n)
			}
			all := append(append([]int{}, data...), chk...)
			if !RSSyndromesZero(all, n, w) {
				t.Fatalf("w=%d: syndromes not zero", w)
			}
			if n > 0 {
				all[rng.Intn(len(all))] ^= 1
				if RSSyndromesZero(all, n, w) {
					t.Fatalf("w=%d: corrupted word passes", w)
				}
			}
		}
	}
}

func TestModeMessage(t *testing.T) {
	// Vectors as published in ZXing's EncoderTest.testModeMessage (recalled
	// from the Java project, not from the repository under test).
	cases := []struct {
		compact   bool
		layers, n int
		want      string
	}{
		{true, 2, 29, ".X .XXX.. ...X XX.. ..X. XX.. XX.X"},
		{true, 4, 64, "XX XXXXXX .X.. ...X ..XX .X.. XX.."},
		{false, 21, 660, "X.X.. .X.X..X..XX .XXX ..X. ..XX X..X .... .XXX"},
		{false, 32, 4096, "XXXXX XXXXXXXXXXX X.X. .... .XXX .X.. X..X .XXX"},
	}
	for _, c := range cases {
		got := ModeMessage(c.compact, c.layers, c.n)
		if fmt.Sprint(got) != fmt.Sprint(parseBits(c.want)) {
			t.Errorf("ModeMessage(%v,%d,%d) mismatch", c.compact, c.layers, c.n)
		}
	}
	for _, sh := range allShapes() {
		for _, n := range []int{1, 2, 17, 64, 65, 1000, 2048} {
			if sh.compact && n > 64 {
				continue
			}
			mm := ModeMessage(sh.compact, sh.layers, n)
			want, nc := 28, 5
			if !sh.compact {
				want, nc = 40, 6
			}
			if len(mm) != want {
				t.Fatalf("len=%d", len(mm))
			}
			words := make([]int, want/4)
			for i := range words {
				for b := 0; b < 4; b++ {
					words[i] <<= 1
					if mm[4*i+b] {
						words[i] |= 1
					}
				}
			}
			if !RSSyndromesZero(words, nc, 4) {
				t.Fatalf("mode message RS invalid")
			}
		}
	}
}

func TestShapeTables(t *testing.T) {
	// Sizes from ISO/IEC 24778 Table 1 (symbol size per layer count).
	fullSizes := []int{19, 23, 27, 31, 37, 41, 45, 49, 53, 57, 61, 67, 71, 75, 79, 83, 87, 91, 95, 101, 105, 109, 113, 117, 121, 125, 131, 135, 139, 143, 147, 151}
	for l := 1; l <= 32; l++ {
		if got := SizeFor(false, l); got != fullSizes[l-1] {
			t.Errorf("full-%d size %d want %d", l, got, fullSizes[l-1])
		}
	}
	for l, want := range []int{15, 19, 23, 27} {
		if got := SizeFor(true, l+1); got != want {
			t.Errorf("compact-%d size %d want %d", l+1, got, want)
		}
	}
	// Codeword capacities from Table 1 (a few rows, by memory of the standard:
	// compact 17/40/51/76; full-1 21, full-2 48, full-3 60, full-4 88,
	// full-8 240, full-9 230 (10 bit), full-22 (10 bit) 1020, full-23 920, full-32 1664).
	caps := map[shape]int{
		{true, 1}: 17, {true, 2}: 40, {true, 3}: 51, {true, 4}: 76,
		{false, 1}: 21, {false, 2}: 48, {false, 3}: 60, {false, 4}: 88, {false, 8}: 240,
		{false, 9}: 230, {false, 22}: 1020, {false, 23}: 920, {false, 32}: 1664,
	}
	for sh, want := range caps {
		if got := TotalBits(sh.compact, sh.layers) / WordSizeFor(sh.layers); got != want {
			t.Errorf("%v: %d codewords want %d", sh, got, want)
		}
	}
	for _, bad := range []shape{{true, 0}, {true, 5}, {false, 0}, {false, 33}} {
		if _, err := Encode([]int{2}, bad.compact, bad.layers); err == nil {
			t.Errorf("%v accepted", bad)
		}
	}
	if _, err := Encode(nil, true, 1); err == nil {
		t.Error("zero data words accepted")
	}
	if _, err := Encode(make([]int, 18), true, 1); err == nil {
		t.Error("18 words in compact-1 accepted")
	}
	if _, err := Encode(make([]int, 65), true, 4); err == nil {
		t.Error("65 data words in compact-4 accepted")
	}
}

func TestGeometryPartition(t *testing.T) {
	for _, sh := range allShapes() {
		words := []int{2}
		sym, err := Encode(words, sh.compact, sh.layers)
		if err != nil {
			t.Fatal(err)
		}
		n := sym.Size
		if len(sym.Matrix) != n || len(sym.Matrix[0]) != n {
			t.Fatalf("%v: matrix size", sh)
		}
		count := newCount(n)
		for r, row := range FunctionMask(sh.compact, sh.layers) {
			for c, v := range row {
				if v {
					count[r][c]++
				}
			}
		}
		for _, p := range ModeModules(sh.compact, sh.layers) {
			count[p[0]][p[1]]++
		}
		for _, p := range sym.PadModules() {
			count[p[0]][p[1]]++
			if sym.Matrix[p[0]][p[1]] {
				t.Errorf("%v: pad module dark", sh)
			}
		}
		wm := sym.WordModules()
		if len(wm) != sym.TotalWords || sym.TotalWords != len(sym.Words) || sym.DataWords+sym.CheckWords != sym.TotalWords {
			t.Fatalf("%v: word counts", sh)
		}
		for _, w := range wm {
			if len(w) != sym.WordSize {
				t.Fatalf("%v: word module count", sh)
			}
			for _, p := range w {
				count[p[0]][p[1]]++
			}
		}
		for r := range count {
			for c := range count[r] {
				if count[r][c] != 1 {
					t.Fatalf("%v: module (%d,%d) claimed %d times", sh, r, c, count[r][c])
				}
			}
		}
		if got := sym.ReadWords(sym.Matrix); fmt.Sprint(got) != fmt.Sprint(sym.Words) {
			t.Fatalf("%v: ReadWords mismatch", sh)
		}
		if !RSSyndromesZero(sym.Words, sym.CheckWords, sym.WordSize) {
			t.Fatalf("%v: RS", sh)
		}
		m2 := sym.WithWord(0, 5)
		if sym.ReadWords(m2)[0] != 5 || sym.ReadWords(sym.Matrix)[0] != 2 {
			t.Fatalf("%v: WithWord", sh)
		}
	}
}

func newCount(n int) [][]int {
	c := make([][]int, n)
	for i := range c {
		c[i] = make([]int, n)
	}
	return c
}

func TestDrawingLiteral(t *testing.T) {
	// Compact 1-layer symbol, centre 11x11 written out from Figure 1/5 of the
	// standard (bull's-eye, orientation marks); 'm' = mode message module.
	want := []string{
		"XXmmmmmmm.X",
		"XXXXXXXXXXX",
		"mX.......Xm",
		"mX.XXXXX.Xm",
		"mX.X...X.Xm",
		"mX.X.X.X.Xm",
		"mX.X...X.Xm",
		"mX.XXXXX.Xm",
		"mX.......Xm",
		".XXXXXXXXXX",
		"..mmmmmmm..",
	}
	sym, _ := Encode([]int{2}, true, 1)
	for r, line := range want {
		for c, ch := range line {
			got := sym.Matrix[2+r][2+c]
			if ch == 'X' && !got || ch == '.' && got {
				t.Errorf("compact centre (%d,%d): dark=%v want %c", r, c, got, ch)
			}
		}
	}
	// Full-range: 15x15 centre; 'g' rows/cols are the reference grid through
	// the centre (dark at even distance).
	wantFull := []string{
		"XXmmmmm.mmmmm.X",
		"XXXXXXXXXXXXXXX",
		"mX...........Xm",
		"mX.XXXXXXXXX.Xm",
		"mX.X.......X.Xm",
		"mX.X.XXXXX.X.Xm",
		"mX.X.X...X.X.Xm",
		".X.X.X.X.X.X.X.",
		"mX.X.X...X.X.Xm",
		"mX.X.XXXXX.X.Xm",
		"mX.X.......X.Xm",
		"mX.XXXXXXXXX.Xm",
		"mX...........Xm",
		".XXXXXXXXXXXXXX",
		"..mmmmm.mmmmm..",
	}
	sym, _ = Encode([]int{2}, false, 1)
	for r, line := range wantFull {
		for c, ch := range line {
			got := sym.Matrix[2+r][2+c]
			if ch == 'X' && !got || ch == '.' && got {
				t.Errorf("full centre (%d,%d): dark=%v want %c", r, c, got, ch)
			}
		}
	}
	// Reference grid of a 151x151 symbol: lines at centre +-16k.
	sym, _ = Encode([]int{2}, false, 32)
	mask := FunctionMask(false, 32)
	c := 75
	for i := 0; i < 151; i++ {
		for j := 0; j < 151; j++ {
			onGrid := (i-c)%16 == 0 || (j-c)%16 == 0
			inEye := abs(i-c) <= 7 && abs(j-c) <= 7
			if onGrid && !inEye {
				if !mask[i][j] {
					t.Fatalf("grid module (%d,%d) not in mask", i, j)
				}
				var want bool
				if (i-c)%16 == 0 {
					want = (j-c)%2 == 0
				} else {
					want = (i-c)%2 == 0
				}
				if sym.Matrix[i][j] != want {
					t.Fatalf("grid module (%d,%d) = %v", i, j, sym.Matrix[i][j])
				}
			}
			if !onGrid && !inEye && mask[i][j] {
				t.Fatalf("non-grid module (%d,%d) in mask", i, j)
			}
		}
	}
}

func TestRender(t *testing.T) {
	m := [][]bool{{true, false, false}, {false, false, false}, {false, false, true}}
	m[0][1] = true // top row: X X .
	img := Render(m, 2, 1, 0)
	if img.Bounds().Dx() != 10 || img.Bounds().Dy() != 10 {
		t.Fatalf("size %v", img.Bounds())
	}
	at := func(img *image.Gray, r, c int) bool { return img.GrayAt(2+2*c, 2+2*r).Y == 0 }
	if !at(img, 0, 0) || !at(img, 0, 1) || at(img, 0, 2) || !at(img, 2, 2) || img.GrayAt(0, 0).Y != 255 {
		t.Error("rot 0")
	}
	// 90 degrees clockwise: top row becomes right column (top to bottom)
	img = Render(m, 2, 1, 1)
	if !at(img, 0, 2) || !at(img, 1, 2) || at(img, 2, 2) || !at(img, 2, 0) {
		t.Error("rot 1")
	}
	img = Render(m, 2, 1, 2)
	if !at(img, 2, 2) || !at(img, 2, 1) || at(img, 2, 0) || !at(img, 0, 0) {
		t.Error("rot 2")
	}
	img = Render(m, 2, 1, 3)
	if !at(img, 2, 0) || !at(img, 1, 0) || at(img, 0, 0) || !at(img, 0, 2) {
		t.Error("rot 3")
	}
	for rot := -4; rot < 8; rot++ {
		a := Rotate(Rotate(m, rot), -rot)
		if fmt.Sprint(a) != fmt.Sprint(m) {
			t.Errorf("Rotate(%d) not inverted by Rotate(%d)", rot, -rot)
		}
	}
}

// ---------------------------------------------------------------------------
// acceptance: the library as a black box

func TestAllShapesReadBack(t *testing.T) {
	var mu sync.Mutex
	okCount, total := 0, 0
	var failures []string
	for _, sh := range allShapes() {
		sh := sh
		t.Run(sh.String(), func(t *testing.T) {
			t.Parallel()
			w := WordSizeFor(sh.layers)
			totalWords := TotalBits(sh.compact, sh.layers) / w
			maxWords := totalWords * 60 / 100
			if sh.compact && maxWords > 64 {
				maxWords = 64
			}
			type job struct {
				name string
				bits []bool
				want string
			}
			text := fitText(sh, maxWords)
			as := AutoScript(text)
			sc := fitScript(sh, maxWords)
			jobs := []job{
				{"auto", as.Bits(), Latin1(text)},
				{"script", sc.Bits(), sc.Expected()},
			}
			for _, j := range jobs {
				sym, err := EncodeBits(j.bits, sh.compact, sh.layers)
				if err != nil {
					t.Fatalf("%s: %v", j.name, err)
				}
				if sym.CheckWords < 3 {
					t.Fatalf("%s: only %d check words", j.name, sym.CheckWords)
				}
				got, err := libDecodeMatrix(sym.Matrix, sh.compact, sym.DataWords, sh.layers)
				if err != nil || got != j.want {
					t.Errorf("%v %s direct decode: err=%v\n got %q\nwant %q", sh, j.name, err, clip(got), clip(j.want))
				}
				for rot := 0; rot < 4; rot++ {
					img := Render(sym.Matrix, 4, 2, rot)
					got, err := libReadImage(img)
					mu.Lock()
					total++
					if err == nil && got == j.want {
						okCount++
					} else {
						failures = append(failures, fmt.Sprintf("%v %s rot=%d scale=4 quiet=2: err=%v got=%q", sh, j.name, rot, err, clip(got)))
					}
					mu.Unlock()
					if err != nil || got != j.want {
						t.Errorf("%v %s rot=%d reader: err=%v\n got %q\nwant %q", sh, j.name, rot, err, clip(got), clip(j.want))
					}
				}
			}
		})
	}
	t.Cleanup(func() {
		sort.Strings(failures)
		t.Logf("reader round trips: %d of %d OK", okCount, total)
		for _, f := range failures {
			t.Log("FAILED: " + f)
		}
	})
}

func clip(s string) string {
	if len(s) > 80 {
		return s[:80] + "..."
	}
	return s
}

// TestPaddingTails: the text ends in each table with every possible amount of
// 1-padding in the last codeword; the decoder must return exactly the text.
func TestPaddingTails(t *testing.T) {
	tails := map[Table]string{Upper: "ABCDEFGHIJKLM", Lower: "abcdefghijklm", Mixed: "\x01\x02@\\^_`|~\x7f\x1b\x1c\x1d", Punct: "!#$%&()*+-/;<", Digit: "0123456789012"}
	for _, layers := range []int{1, 3, 9, 23} {
		for tab, str := range tails {
			for n := 1; n <= len(str); n++ {
				s := NewScript()
				s.Char('A')
				s.Latch(tab)
				s.Text(str[:n])
				sym, err := EncodeBits(s.Bits(), false, layers)
				if err != nil {
					t.Fatal(err)
				}
				got, err := libDecodeMatrix(sym.Matrix, false, sym.DataWords, layers)
				if err != nil || got != s.Expected() {
					pad := sym.DataWords*sym.WordSize - len(s.Bits())
					t.Errorf("library: full-%d tail in %v, %d chars (~%d pad bits): err=%v got %q want %q", layers, tab, n, pad, err, got, s.Expected())
				}
			}
		}
	}
}

func TestEncodeAuto(t *testing.T) {
	for _, n := range []int{1, 5, 12, 13, 30, 60, 100, 200, 400, 800, 1500, 2000} {
		text := sampleText(n)
		bits := AutoEncode(text)
		for _, pct := range []int{0, 23, 33, 50} {
			sym, err := EncodeAuto(bits, pct)
			if err != nil {
				t.Fatalf("n=%d: %v", n, err)
			}
			eccBits := len(bits)*pct/100 + 11
			if sym.CheckWords*sym.WordSize < eccBits {
				t.Errorf("n=%d pct=%d: %d check words of %d bits < %d bits", n, pct, sym.CheckWords, sym.WordSize, eccBits)
			}
			if sym.CheckWords < 3 {
				t.Errorf("n=%d pct=%d: %d check words", n, pct, sym.CheckWords)
			}
			got, err := libReadImage(Render(sym.Matrix, 3, 4, n%4))
			if err != nil || got != Latin1(text) {
				t.Errorf("library: EncodeAuto n=%d pct=%d (%v layers=%d): err=%v", n, pct, sym.Compact, sym.Layers, err)
			}
		}
	}
	if _, err := EncodeAuto(make([]bool, 20000), 23); err == nil {
		t.Error("oversized data accepted")
	}
	if _, err := EncodeAuto(nil, 23); err == nil {
		t.Error("empty data accepted")
	}
}

func TestDamage(t *testing.T) {
	rng := rand.New(rand.NewSource(3))
	for _, sh := range allShapes() {
		w := WordSizeFor(sh.layers)
		totalWords := TotalBits(sh.compact, sh.layers) / w
		maxWords := totalWords * 60 / 100
		if sh.compact && maxWords > 64 {
			maxWords = 64
		}
		text := fitText(sh, maxWords)
		sym, err := EncodeBits(AutoEncode(text), sh.compact, sh.layers)
		if err != nil {
			t.Fatal(err)
		}
		damage := func(k int) [][]bool {
			m := copyMatrix(sym.Matrix)
			perm := rng.Perm(sym.TotalWords)[:k]
			for _, i := range perm {
				v := sym.Words[i] ^ (1 + rng.Intn(1<<uint(w)-1))
				tmp := &Symbol{Compact: sym.Compact, Layers: sym.Layers, WordSize: w, TotalWords: sym.TotalWords, PadBits: sym.PadBits, Matrix: m}
				m = tmp.WithWord(i, v)
			}
			return m
		}
		k := sym.CheckWords / 2
		m := damage(k)
		if diff := countDiffWords(sym, m); diff != k {
			t.Fatalf("%v: damaged %d words, want %d", sh, diff, k)
		}
		got, err := libDecodeMatrix(m, sh.compact, sym.DataWords, sh.layers)
		if err != nil || got != Latin1(text) {
			t.Errorf("library: %v with %d of %d check words' worth of errors (direct): err=%v", sh, k, sym.CheckWords, err)
		}
		got, err = libReadImage(Render(m, 4, 2, sh.layers%4))
		if err != nil || got != Latin1(text) {
			t.Errorf("library: %v with %d damaged words (reader, rot %d): err=%v", sh, k, sh.layers%4, err)
		}
		// one more error than correctable: must not silently return the right
		// or a wrong text (miscorrection is theoretically possible but rare)
		m = damage(k + 1)
		got, err = libDecodeMatrix(m, sh.compact, sym.DataWords, sh.layers)
		if err == nil {
			t.Logf("note: %v with %d errors (capacity %d) decoded without error; text correct=%v", sh, k+1, k, got == Latin1(text))
		}
	}
}

func countDiffWords(sym *Symbol, m [][]bool) int {
	n := 0
	for i, v := range sym.ReadWords(m) {
		if v != sym.Words[i] {
			n++
		}
	}
	return n
}

// ---------------------------------------------------------------------------
// third-party sample symbols

func loadImage(t *testing.T, path string) image.Image {
	f, err := os.Open(path)
	if err != nil {
		t.Fatal(err)
	}
	defer f.Close()
	img, _, err := image.Decode(f)
	if err != nil {
		t.Fatalf("%s: %v", path, err)
	}
	return img
}

func TestSampleSymbols(t *testing.T) {
	for _, dir := range []string{"aztec-1", "aztec-2"} {
		files, _ := filepath.Glob(filepath.Join("/repo/aztec/testdata", dir, "*.png"))
		if len(files) == 0 {
			t.Skipf("no samples in %s", dir)
		}
		sort.Strings(files)
		detected, structOK, exact := 0, 0, 0
		for _, path := range files {
			name := dir + "/" + filepath.Base(path)
			img := loadImage(t, path)
			bmp, err := gozxing.NewBinaryBitmapFromImage(img)
			if err != nil {
				t.Fatal(err)
			}
			black, err := bmp.GetBlackMatrix()
			if err != nil {
				t.Logf("%s: binariser: %v", name, err)
				continue
			}
			det, err := detector.NewDetector(black).Detect(false)
			if err != nil {
				t.Logf("%s: not detected: %v", name, err)
				continue
			}
			detected++
			compact, layers, nData := det.IsCompact(), det.GetNbLayers(), det.GetNbDatablocks()
			bits := det.GetBits()
			size := SizeFor(compact, layers)
			if bits.GetWidth() != size || bits.GetHeight() != size {
				t.Errorf("%s: sampled grid %dx%d but SizeFor(%v,%d) = %d", name, bits.GetWidth(), bits.GetHeight(), compact, layers, size)
				continue
			}
			sample := newMatrix(size)
			for r := 0; r < size; r++ {
				for c := 0; c < size; c++ {
					sample[r][c] = bits.Get(c, r)
				}
			}
			libText, libErr := libDecodeMatrix(sample, compact, nData, layers)

			// Structure: bull's-eye, orientation, reference grid, mode message.
			shell, err := Encode(make([]int, nData), compact, layers) // all-zero words are illegal data but fine as a scaffold
			if err != nil {
				t.Errorf("%s: %v", name, err)
				continue
			}
			bad := 0
			for r, row := range FunctionMask(compact, layers) {
				for c, v := range row {
					if v && sample[r][c] != shell.Matrix[r][c] {
						bad++
					}
				}
			}
			modeBad := 0
			for _, p := range ModeModules(compact, layers) {
				if sample[p[0]][p[1]] != shell.Matrix[p[0]][p[1]] {
					modeBad++
				}
			}
			clean := dir == "aztec-1"
			if bad == 0 && modeBad == 0 {
				structOK++
			} else if clean {
				t.Errorf("%s: %d function modules and %d mode-message modules differ from the reference drawing", name, bad, modeBad)
			} else {
				t.Logf("%s (photo): %d function / %d mode modules differ", name, bad, modeBad)
			}

			// Codewords: read with my layout, check RS with my field, re-encode.
			words := shell.ReadWords(sample)
			rsOK := RSSyndromesZero(words, shell.CheckWords, shell.WordSize)
			same := false
			var refText []byte
			var refErr error
			if rsOK {
				re, err := Encode(words[:nData], compact, layers)
				if err != nil {
					t.Errorf("%s: re-encode: %v", name, err)
				} else {
					same = fmt.Sprint(re.Matrix) == fmt.Sprint(sample)
				}
				var raw []bool
				raw, refErr = Unstuff(words[:nData], shell.WordSize)
				if refErr == nil {
					refText, refErr = refDecode(raw)
				}
				if libErr == nil && (refErr != nil || Latin1(refText) != libText) {
					t.Errorf("%s: refDecode differs from library: err=%v ref=%q lib=%q", name, refErr, clip(string(refText)), clip(libText))
				}
			}
			if same {
				exact++
			}
			if clean && !same {
				t.Errorf("%s: re-encoding the sample's data words does not reproduce the sample (rs=%v)", name, rsOK)
			}

			// What would EncodeAuto pick for the same text?
			pick := ""
			if libErr == nil && refErr == nil && rsOK {
				for _, pct := range []int{23, 33} {
					if sym, err := EncodeAuto(AutoEncode(refText), pct); err == nil {
						pick += fmt.Sprintf(" auto%d%%=%v", pct, shape{sym.Compact, sym.Layers})
					}
				}
			}
			t.Logf("%s: %v data=%d/%d rsClean=%v identicalReencode=%v libErr=%v text=%q%s", name, shape{compact, layers}, nData, shell.TotalWords, rsOK, same, libErr, clip(libText), pick)
		}
		t.Logf("%s: %d files, %d detected, %d structure-identical, %d identical after re-encoding their data words", dir, len(files), detected, structOK, exact)
		if dir == "aztec-1" && (detected != len(files) || exact != len(files)) {
			t.Errorf("aztec-1: expected all %d clean samples to be reproduced exactly (detected %d, exact %d)", len(files), detected, exact)
		}
	}
}

// ---------------------------------------------------------------------------
// quality bar

func TestEncodeSpeedAndConcurrency(t *testing.T) {
	bits := AutoEncode(sampleText(1500))
	words := Stuff(bits, 12)
	if _, err := Encode(words, false, 32); err != nil { // warm up
		t.Fatal(err)
	}
	best := time.Hour
	for i := 0; i < 5; i++ {
		start := time.Now()
		if _, err := Encode(words, false, 32); err != nil {
			t.Fatal(err)
		}
		if d := time.Since(start); d < best {
			best = d
		}
	}
	t.Logf("Encode(full-32, %d data words): %v", len(words), best)
	if best > 20*time.Millisecond && !raceEnabled { // the race detector slows this ~20x
		t.Errorf("Encode of a 32-layer symbol took %v (> 20ms)", best)
	}
	ref, _ := Encode(words, false, 32)
	var wg sync.WaitGroup
	for g := 0; g < 8; g++ {
		wg.Add(1)
		go func() {
			defer wg.Done()
			for i := 0; i < 5; i++ {
				s, err := Encode(words, false, 32)
				if err != nil || fmt.Sprint(s.Words) != fmt.Sprint(ref.Words) {
					t.Error("concurrent Encode differs")
				}
				_ = AutoEncode(sampleText(200))
				_ = Render(s.Matrix, 1, 0, 1)
			}
		}()
	}
	wg.Wait()
}
