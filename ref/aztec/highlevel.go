// Package aztec is an independent reference Aztec Code encoder
// (ISO/IEC 24778:2008) used to produce symbols for verifying an Aztec reader.
//
// It was written from the standard (character tables of clause 7.1 / Table 2,
// bit stuffing and Reed-Solomon of 7.2, mode message and symbol structure of
// 7.3) and does not share any table or code with the library under test.
//
// Everything here is pure: the only package-level data are lookup tables built
// during package initialisation and never written again, so all functions are
// safe for concurrent use.
package aztec

import (
	"errors"
	"fmt"
)

// Table identifies one of the five character code tables.
type Table int

const (
	Upper Table = iota
	Lower
	Mixed
	Punct
	Digit
)

func (t Table) String() string {
	switch t {
	case Upper:
		return "Upper"
	case Lower:
		return "Lower"
	case Mixed:
		return "Mixed"
	case Punct:
		return "Punct"
	case Digit:
		return "Digit"
	}
	return fmt.Sprintf("Table(%d)", int(t))
}

// Width is the number of bits of one code in table t (4 for Digit, else 5).
func (t Table) Width() int {
	if t == Digit {
		return 4
	}
	return 5
}

// Control codes (ISO/IEC 24778 Table 2).
const (
	codePS = 0 // P/S in Upper, Lower, Mixed, Digit;  FLG(n) in Punct

	upperLL = 28
	upperML = 29
	upperDL = 30
	upperBS = 31

	lowerUS = 28
	lowerML = 29
	lowerDL = 30
	lowerBS = 31

	mixedLL = 28
	mixedUL = 29
	mixedPL = 30
	mixedBS = 31

	punctFLG = 0
	punctUL  = 31

	digitUL = 14
	digitUS = 15
)

// Punct table two-character codes.
const (
	PairCRLF       = 2 // "\r\n"
	PairDotSpace   = 3 // ". "
	PairCommaSpace = 4 // ", "
	PairColonSpace = 5 // ": "
)

var pairText = map[int]string{
	PairCRLF:       "\r\n",
	PairDotSpace:   ". ",
	PairCommaSpace: ", ",
	PairColonSpace: ": ",
}

// codeOf[t][c] is the code of the single character c in table t, or -1.
// charOf[t][code] is the character of a single-character code, ok=false for
// control codes and two-character codes.
var (
	codeOf [5][256]int
	charOf [5][32]struct {
		c  byte
		ok bool
	}
)

func init() {
	for t := 0; t < 5; t++ {
		for c := 0; c < 256; c++ {
			codeOf[t][c] = -1
		}
	}
	set := func(t Table, code int, c byte) {
		if codeOf[t][c] != -1 || charOf[t][code].ok {
			panic("aztec: duplicate table entry")
		}
		codeOf[t][c] = code
		charOf[t][code].c = c
		charOf[t][code].ok = true
	}
	// Upper: 1 = SP, 2..27 = A..Z
	set(Upper, 1, ' ')
	for i := 0; i < 26; i++ {
		set(Upper, 2+i, byte('A'+i))
	}
	// Lower: 1 = SP, 2..27 = a..z
	set(Lower, 1, ' ')
	for i := 0; i < 26; i++ {
		set(Lower, 2+i, byte('a'+i))
	}
	// Mixed: 1 = SP, 2..14 = ^A..^M, 15..19 = ESC FS GS RS US,
	// 20 @ 21 \ 22 ^ 23 _ 24 ` 25 | 26 ~ 27 DEL
	set(Mixed, 1, ' ')
	for i := 1; i <= 13; i++ {
		set(Mixed, 1+i, byte(i))
	}
	for i := 0; i < 5; i++ {
		set(Mixed, 15+i, byte(27+i))
	}
	for i, c := range []byte{'@', '\\', '^', '_', '`', '|', '~', 127} {
		set(Mixed, 20+i, c)
	}
	// Punct: 1 = CR, (2..5 are pairs), 6..30 = ! " # $ % & ' ( ) * + , - . / : ; < = > ? [ ] { }
	set(Punct, 1, '\r')
	for i, c := range []byte("!\"#$%&'()*+,-./:;<=>?[]{}") {
		set(Punct, 6+i, c)
	}
	// Digit: 1 = SP, 2..11 = 0..9, 12 = ',', 13 = '.'
	set(Digit, 1, ' ')
	for i := 0; i < 10; i++ {
		set(Digit, 2+i, byte('0'+i))
	}
	set(Digit, 12, ',')
	set(Digit, 13, '.')
}

// CodeOf returns the code of single character c in table t (ok=false if the
// table has no single-character code for c).
func CodeOf(t Table, c byte) (code int, ok bool) {
	v := codeOf[t][c]
	return v, v >= 0
}

// CharOf returns the character encoded by a single-character code of table t.
func CharOf(t Table, code int) (c byte, ok bool) {
	if code < 0 || code >= 1<<uint(t.Width()) {
		return 0, false
	}
	e := charOf[t][code]
	return e.c, e.ok
}

// directLatch[from][to] is the code that latches from -> to in one step, or -1.
var directLatch = [5][5]int{
	Upper: {Upper: -1, Lower: upperLL, Mixed: upperML, Punct: -1, Digit: upperDL},
	Lower: {Upper: -1, Lower: -1, Mixed: lowerML, Punct: -1, Digit: lowerDL},
	Mixed: {Upper: mixedUL, Lower: mixedLL, Mixed: -1, Punct: mixedPL, Digit: -1},
	Punct: {Upper: punctUL, Lower: -1, Mixed: -1, Punct: -1, Digit: -1},
	Digit: {Upper: digitUL, Lower: -1, Mixed: -1, Punct: -1, Digit: -1},
}

// latchPath[from][to] lists the intermediate+final tables of the shortest (in
// bits) latch sequence.  Ties / choices:
//
//	Lower->Upper  uses D/L,U/L (5+4 = 9 bits) rather than M/L,U/L (10 bits).
//	Mixed->Digit  uses U/L,D/L (10 bits); there is no alternative.
//	Digit->Punct  uses U/L,M/L,P/L (4+5+5 = 14 bits).
//
// TestLatchShortest checks every entry against an exhaustive search.
var latchPath = [5][5][]Table{
	Upper: {Upper: {}, Lower: {Lower}, Mixed: {Mixed}, Punct: {Mixed, Punct}, Digit: {Digit}},
	Lower: {Upper: {Digit, Upper}, Lower: {}, Mixed: {Mixed}, Punct: {Mixed, Punct}, Digit: {Digit}},
	Mixed: {Upper: {Upper}, Lower: {Lower}, Mixed: {}, Punct: {Punct}, Digit: {Upper, Digit}},
	Punct: {Upper: {Upper}, Lower: {Upper, Lower}, Mixed: {Upper, Mixed}, Punct: {}, Digit: {Upper, Digit}},
	Digit: {Upper: {Upper}, Lower: {Upper, Lower}, Mixed: {Upper, Mixed}, Punct: {Upper, Mixed, Punct}, Digit: {}},
}

// Script is a hand-driven high-level encoder: the caller chooses every latch
// and shift, the Script emits the bits and keeps track of the text a
// conforming decoder must produce.  The zero value is not usable; call
// NewScript.  A Script is not safe for concurrent use (separate Scripts are).
type Script struct {
	cur  Table
	bits []bool
	exp  []byte
}

// NewScript returns an empty script in the initial (Upper) table.
func NewScript() *Script { return &Script{cur: Upper} }

// Cur is the table in force for the next code.
func (s *Script) Cur() Table { return s.cur }

// Raw appends the n low bits of v, most significant first, without any
// interpretation (escape hatch for deliberately malformed streams).
func (s *Script) Raw(v, n int) {
	for i := n - 1; i >= 0; i-- {
		s.bits = append(s.bits, (v>>uint(i))&1 == 1)
	}
}

// Expect appends bytes to the expected output without emitting bits
// (companion of Raw).
func (s *Script) Expect(b ...byte) { s.exp = append(s.exp, b...) }

// SetCur overrides the tracked table (companion of Raw).
func (s *Script) SetCur(t Table) { s.cur = t }

func (s *Script) code(v int) { s.Raw(v, s.cur.Width()) }

// Latch emits the shortest standard latch sequence from the current table to t.
// Latching to the current table emits nothing.
func (s *Script) Latch(t Table) error {
	if t < Upper || t > Digit {
		return fmt.Errorf("aztec: bad table %d", int(t))
	}
	for _, step := range latchPath[s.cur][t] {
		c := directLatch[s.cur][step]
		if c < 0 {
			return fmt.Errorf("aztec: internal: no latch %v->%v", s.cur, step)
		}
		s.code(c)
		s.cur = step
	}
	return nil
}

// LatchDirect emits code (in the current table's width) and sets the current
// table to `to`, without checking that code really is that latch.
func (s *Script) LatchDirect(code int, to Table) {
	s.code(code)
	s.cur = to
}

// Char emits the single-character code of c in the current table.
func (s *Script) Char(c byte) error {
	v := codeOf[s.cur][c]
	if v < 0 {
		return fmt.Errorf("aztec: %q is not in table %v", c, s.cur)
	}
	s.code(v)
	s.exp = append(s.exp, c)
	return nil
}

// Text emits every byte of str with Char.
func (s *Script) Text(str string) error {
	for i := 0; i < len(str); i++ {
		if err := s.Char(str[i]); err != nil {
			return err
		}
	}
	return nil
}

// PunctPair emits one of the two-character Punct codes 2..5 (current table
// must be Punct).
func (s *Script) PunctPair(code int) error {
	if s.cur != Punct {
		return fmt.Errorf("aztec: PunctPair in table %v", s.cur)
	}
	txt, ok := pairText[code]
	if !ok {
		return fmt.Errorf("aztec: %d is not a pair code", code)
	}
	s.code(code)
	s.exp = append(s.exp, txt...)
	return nil
}

func (s *Script) punctShift() error {
	if s.cur == Punct {
		return errors.New("aztec: no P/S in the Punct table")
	}
	s.code(codePS)
	return nil
}

// ShiftPunct emits P/S (from Upper, Lower, Mixed or Digit) and the Punct code
// of the single character c.  The current table is unchanged.
func (s *Script) ShiftPunct(c byte) error {
	v := codeOf[Punct][c]
	if v < 0 {
		return fmt.Errorf("aztec: %q is not in table Punct", c)
	}
	if err := s.punctShift(); err != nil {
		return err
	}
	s.Raw(v, 5)
	s.exp = append(s.exp, c)
	return nil
}

// ShiftPunctPair emits P/S and one of the two-character Punct codes 2..5.
func (s *Script) ShiftPunctPair(code int) error {
	txt, ok := pairText[code]
	if !ok {
		return fmt.Errorf("aztec: %d is not a pair code", code)
	}
	if err := s.punctShift(); err != nil {
		return err
	}
	s.Raw(code, 5)
	s.exp = append(s.exp, txt...)
	return nil
}

// ShiftUpper emits U/S (from Lower or Digit) and the Upper code of c.
func (s *Script) ShiftUpper(c byte) error {
	v := codeOf[Upper][c]
	if v < 0 {
		return fmt.Errorf("aztec: %q is not in table Upper", c)
	}
	switch s.cur {
	case Lower:
		s.code(lowerUS)
	case Digit:
		s.code(digitUS)
	default:
		return fmt.Errorf("aztec: no U/S in table %v", s.cur)
	}
	s.Raw(v, 5)
	s.exp = append(s.exp, c)
	return nil
}

// MaxBinaryShift is the longest byte run of one B/S: 31 + 2047.
const MaxBinaryShift = 31 + 2047

// Binary emits B/S (from Upper, Lower or Mixed; Punct and Digit have none),
// the length (1..31 in 5 bits, or 00000 followed by length-31 in 11 bits for
// 32..2078) and the bytes, 8 bits each.  The table is unchanged afterwards.
func (s *Script) Binary(data []byte) error {
	n := len(data)
	if n < 1 || n > MaxBinaryShift {
		return fmt.Errorf("aztec: binary shift length %d out of range 1..%d", n, MaxBinaryShift)
	}
	switch s.cur {
	case Upper:
		s.code(upperBS)
	case Lower:
		s.code(lowerBS)
	case Mixed:
		s.code(mixedBS)
	default:
		return fmt.Errorf("aztec: no B/S in table %v", s.cur)
	}
	if n <= 31 {
		s.Raw(n, 5)
	} else {
		s.Raw(0, 5)
		s.Raw(n-31, 11)
	}
	for _, b := range data {
		s.Raw(int(b), 8)
	}
	s.exp = append(s.exp, data...)
	return nil
}

// ShiftUpperBinary emits "U/S B/S": from Lower or Digit, U/S followed by the
// Upper table's B/S code, the length and the bytes.  This is how encoders reach
// binary shift from Digit without latching first.  ISO/IEC 24778 ends a shift
// sequence in the mode from which it was invoked -- for the B/S that is the
// (shifted) Upper table -- so the Script continues in Upper afterwards.  That
// reading is the one embodied by the real-world sample aztec-1/dlusbs.png
// (D/L "3333" U/S B/S "h3i3j" followed by the Upper codes of "ITIT").
// It is an exotic construction: never used by AutoEncode.
func (s *Script) ShiftUpperBinary(data []byte) error {
	n := len(data)
	if n < 1 || n > MaxBinaryShift {
		return fmt.Errorf("aztec: binary shift length %d out of range 1..%d", n, MaxBinaryShift)
	}
	switch s.cur {
	case Lower:
		s.code(lowerUS)
	case Digit:
		s.code(digitUS)
	default:
		return fmt.Errorf("aztec: no U/S in table %v", s.cur)
	}
	s.cur = Upper
	return s.Binary(data)
}

// FLGn emits FLG(n) (Punct code 0, via P/S when not in Punct) followed by the
// 3-bit n and, for n = 1..6, n ECI digits in Digit-table coding (4 bits each,
// digit d -> code d+2).  Nothing is added to the expected text: FLG(1..6) is an
// ECI escape, FLG(7) is reserved.  For n = 0 use FLG0.
func (s *Script) FLGn(n int, digits []int) error {
	if n < 0 || n > 7 {
		return fmt.Errorf("aztec: FLG(%d)", n)
	}
	if s.cur != Punct {
		if err := s.punctShift(); err != nil {
			return err
		}
	}
	s.Raw(punctFLG, 5)
	s.Raw(n, 3)
	for _, d := range digits {
		s.Raw(d+2, 4)
	}
	return nil
}

// FLG0 emits FLG(0) = FNC1.  ISO/IEC 24778 7.1.4: FNC1 not in first position is
// transmitted as the GS character, so 0x1D is what is recorded as expected.
func (s *Script) FLG0() error {
	if err := s.FLGn(0, nil); err != nil {
		return err
	}
	s.exp = append(s.exp, 0x1D)
	return nil
}

// ECI emits the FLG(n) escape for ECI assignment number v (0..999999) using
// the minimal number of digits.
func (s *Script) ECI(v int) error {
	if v < 0 || v > 999999 {
		return fmt.Errorf("aztec: ECI %d out of range", v)
	}
	str := fmt.Sprintf("%d", v)
	digits := make([]int, len(str))
	for i := range str {
		digits[i] = int(str[i] - '0')
	}
	return s.FLGn(len(digits), digits)
}

// Bits returns a copy of the bit stream so far.
func (s *Script) Bits() []bool { return append([]bool(nil), s.bits...) }

// ExpectedBytes returns a copy of the bytes a conforming decoder must output.
func (s *Script) ExpectedBytes() []byte { return append([]byte(nil), s.exp...) }

// Expected is ExpectedBytes interpreted as ISO-8859-1 (the default
// interpretation, ECI 000003) and returned as a UTF-8 Go string.
func (s *Script) Expected() string { return Latin1(s.exp) }

// Latin1 converts ISO-8859-1 bytes to a (UTF-8) Go string.
func Latin1(b []byte) string {
	r := make([]rune, len(b))
	for i, c := range b {
		r[i] = rune(c)
	}
	return string(r)
}

// ---------------------------------------------------------------------------

func inAnyTable(c byte) bool {
	for t := Upper; t <= Digit; t++ {
		if codeOf[t][c] >= 0 {
			return true
		}
	}
	return false
}

// pairAt returns the Punct pair code for text[i:i+2], or 0.
func pairAt(text []byte, i int) int {
	if i+1 >= len(text) {
		return 0
	}
	for code, p := range pairText {
		if text[i] == p[0] && text[i+1] == p[1] {
			return code
		}
	}
	return 0
}

// AutoScript is the automatic encoder behind AutoEncode; it returns the Script
// so that callers can get the bits and the expected text.
//
// Strategy (simple, valid, not optimal):
//   - a byte of the current table is emitted directly (in Punct the two-char
//     codes are used when they match);
//   - a byte found in no table starts a binary shift covering the whole run of
//     such bytes (from Punct/Digit the encoder first latches to Upper);
//   - a lone Punct character (or pair) is emitted with P/S, a lone upper-case
//     letter from Lower/Digit with U/S;
//   - otherwise the encoder latches to the first of Upper, Lower, Digit, Mixed,
//     Punct that contains the byte.
func AutoScript(text []byte) *Script {
	s := NewScript()
	must := func(err error) {
		if err != nil {
			panic("aztec: AutoScript internal error: " + err.Error())
		}
	}
	in := func(t Table, i int) bool { return i < len(text) && codeOf[t][text[i]] >= 0 }
	i := 0
	for i < len(text) {
		c := text[i]
		pair := pairAt(text, i)

		if s.cur == Punct && pair != 0 {
			must(s.PunctPair(pair))
			i += 2
			continue
		}
		if codeOf[s.cur][c] >= 0 {
			must(s.Char(c))
			i++
			continue
		}
		if !inAnyTable(c) {
			j := i
			for j < len(text) && !inAnyTable(text[j]) && j-i < MaxBinaryShift {
				j++
			}
			if s.cur == Punct || s.cur == Digit {
				must(s.Latch(Upper))
			}
			must(s.Binary(text[i:j]))
			i = j
			continue
		}
		// c is in some table other than the current one.
		if s.cur != Punct && pair != 0 && !in(Punct, i+2) {
			must(s.ShiftPunctPair(pair))
			i += 2
			continue
		}
		if s.cur != Punct && codeOf[Punct][c] >= 0 && !in(Punct, i+1) {
			must(s.ShiftPunct(c))
			i++
			continue
		}
		if (s.cur == Lower || s.cur == Digit) && codeOf[Upper][c] >= 0 && !in(Upper, i+1) {
			must(s.ShiftUpper(c))
			i++
			continue
		}
		target := Upper
		for _, t := range []Table{Upper, Lower, Digit, Mixed, Punct} {
			if codeOf[t][c] >= 0 {
				target = t
				break
			}
		}
		must(s.Latch(target))
		// the byte itself is emitted by the next iteration (it is now in cur)
	}
	return s
}

// AutoEncode encodes arbitrary bytes into a valid Aztec high-level bit stream.
// A conforming decoder returns exactly text (as ISO-8859-1).
func AutoEncode(text []byte) []bool { return AutoScript(text).Bits() }
