package aztec

// Galois fields and Reed-Solomon check-word generation for Aztec Code
// (ISO/IEC 24778 clause 7.2 / Annex B).
//
//   mode message     GF(16)    x^4 + x + 1                       0x13
//   6-bit codewords  GF(64)    x^6 + x + 1                       0x43
//   8-bit codewords  GF(256)   x^8 + x^5 + x^3 + x^2 + 1         0x12D
//   10-bit codewords GF(1024)  x^10 + x^3 + 1                    0x409
//   12-bit codewords GF(4096)  x^12 + x^6 + x^5 + x^3 + 1        0x1069
//
// The generator polynomial of degree n is (x-a^1)(x-a^2)...(x-a^n), a = 2.

type field struct {
	bits int
	size int
	exp  []int // exp[i] = a^i, doubled so that log sums need no modulo
	log  []int
}

func newField(bits, poly int) *field {
	size := 1 << uint(bits)
	f := &field{bits: bits, size: size, exp: make([]int, 2*size), log: make([]int, size)}
	x := 1
	for i := 0; i < size-1; i++ {
		f.exp[i] = x
		f.log[x] = i
		x <<= 1
		if x >= size {
			x ^= poly
		}
	}
	for i := size - 1; i < 2*size; i++ {
		f.exp[i] = f.exp[i-(size-1)]
	}
	return f
}

func (f *field) mul(a, b int) int {
	if a == 0 || b == 0 {
		return 0
	}
	return f.exp[f.log[a]+f.log[b]]
}

// The five fields are built once at package initialisation and never
// modified afterwards, so they may be shared between goroutines.
var (
	gf16   = newField(4, 0x13)
	gf64   = newField(6, 0x43)
	gf256  = newField(8, 0x12D)
	gf1024 = newField(10, 0x409)
	gf4096 = newField(12, 0x1069)
)

func fieldForWordSize(w int) *field {
	switch w {
	case 4:
		return gf16
	case 6:
		return gf64
	case 8:
		return gf256
	case 10:
		return gf1024
	case 12:
		return gf4096
	}
	return nil
}

// rsGenerator returns the coefficients of prod_{i=1..n}(x - a^i), highest
// degree first (g[0] == 1, len n+1).
func rsGenerator(f *field, n int) []int {
	g := []int{1}
	for i := 1; i <= n; i++ {
		root := f.exp[i]
		next := make([]int, len(g)+1)
		for j := 0; j < len(g); j++ {
			next[j] ^= g[j]                // g * x
			next[j+1] ^= f.mul(g[j], root) // g * a^i   (minus == plus in GF(2^m))
		}
		g = next
	}
	return g
}

// RSCheckWords returns the n Reed-Solomon check words for data (first word
// is the coefficient of the highest power) over the field used for
// wordSize-bit codewords (4, 6, 8, 10 or 12).
func RSCheckWords(data []int, n, wordSize int) []int {
	f := fieldForWordSize(wordSize)
	if f == nil {
		panic("aztec: no field for that word size")
	}
	if n <= 0 {
		return []int{}
	}
	g := rsGenerator(f, n)
	rem := make([]int, n)
	for _, d := range data {
		fb := d ^ rem[0]
		copy(rem, rem[1:])
		rem[n-1] = 0
		if fb != 0 {
			for j := 0; j < n; j++ {
				rem[j] ^= f.mul(fb, g[j+1])
			}
		}
	}
	return rem
}

// RSSyndromesZero reports whether words (data followed by n check words)
// evaluates to zero at a^1..a^n, i.e. is a valid RS codeword.  It is an
// independent cross-check of RSCheckWords (Horner evaluation, no generator).
func RSSyndromesZero(words []int, n, wordSize int) bool {
	f := fieldForWordSize(wordSize)
	for i := 1; i <= n; i++ {
		x := f.exp[i]
		acc := 0
		for _, w := range words {
			acc = f.mul(acc, x) ^ w
		}
		if acc != 0 {
			return false
		}
	}
	return true
}
