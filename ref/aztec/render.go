package aztec

import "image"

// Rotate returns m rotated by rot*90 degrees clockwise (rot may be any integer).
func Rotate(m [][]bool, rot int) [][]bool {
	n := len(m)
	rot = ((rot % 4) + 4) % 4
	out := newMatrix(n)
	for r := 0; r < n; r++ {
		for c := 0; c < n; c++ {
			var v bool
			switch rot {
			case 0:
				v = m[r][c]
			case 1: // 90 cw: the old left column becomes the new top row
				v = m[n-1-c][r]
			case 2:
				v = m[n-1-r][n-1-c]
			case 3:
				v = m[c][n-1-r]
			}
			out[r][c] = v
		}
	}
	return out
}

// Mirror returns m flipped left-to-right.
func Mirror(m [][]bool) [][]bool {
	n := len(m)
	out := newMatrix(n)
	for r := 0; r < n; r++ {
		for c := 0; c < n; c++ {
			out[r][c] = m[r][n-1-c]
		}
	}
	return out
}

// Render draws m as an 8-bit grayscale image: dark = 0, light = 255, scale
// pixels per module, quiet light modules on every side, rotated by rot*90
// degrees clockwise.
func Render(m [][]bool, scale, quiet, rot int) *image.Gray {
	if scale < 1 {
		scale = 1
	}
	if quiet < 0 {
		quiet = 0
	}
	m = Rotate(m, rot)
	n := len(m)
	side := (n + 2*quiet) * scale
	img := image.NewGray(image.Rect(0, 0, side, side))
	for i := range img.Pix {
		img.Pix[i] = 255
	}
	for r := 0; r < n; r++ {
		for c := 0; c < n; c++ {
			if !m[r][c] {
				continue
			}
			y0 := (r + quiet) * scale
			x0 := (c + quiet) * scale
			for y := y0; y < y0+scale; y++ {
				row := img.Pix[y*img.Stride+x0 : y*img.Stride+x0+scale]
				for i := range row {
					row[i] = 0
				}
			}
		}
	}
	return img
}
