//go:build race

package aztec

const raceEnabled = true
