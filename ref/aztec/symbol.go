package aztec

import (
	"errors"
	"fmt"
)

// Symbol is a fully drawn Aztec Code symbol.
type Symbol struct {
	Compact    bool
	Layers     int
	Size       int // modules per side, including the reference grid
	WordSize   int // 6, 8, 10 or 12
	TotalWords int // TotalBits / WordSize
	DataWords  int
	CheckWords int      // TotalWords - DataWords
	PadBits    int      // TotalBits % WordSize: zero bits in front of the first codeword
	Words      []int    // data words then check words
	Matrix     [][]bool // [row][col], true = dark
}

// WordSizeFor returns the codeword size in bits for a symbol of the given
// number of layers: 6 (1-2), 8 (3-8), 10 (9-22), 12 (23-32).
func WordSizeFor(layers int) int {
	switch {
	case layers <= 2:
		return 6
	case layers <= 8:
		return 8
	case layers <= 22:
		return 10
	}
	return 12
}

// TotalBits is the number of modules in the data layers.
// Layer l (1 = innermost) of a compact symbol is a two-module-wide ring whose
// outer side is 11+4l modules: 8*(9+4l) modules; full range: 8*(12+4l).
// Summed over l = 1..L this is (88+16L)L resp. (112+16L)L.
func TotalBits(compact bool, layers int) int {
	if compact {
		return (88 + 16*layers) * layers
	}
	return (112 + 16*layers) * layers
}

// baseSize is the side length without reference grid lines.
func baseSize(compact bool, layers int) int {
	if compact {
		return 11 + 4*layers
	}
	return 14 + 4*layers
}

// SizeFor returns the side length in modules.
func SizeFor(compact bool, layers int) int {
	base := baseSize(compact, layers)
	if compact {
		return base
	}
	// One centre grid line plus one more on each side for every complete
	// group of 15 non-grid modules between the centre and the edge.
	return base + 1 + 2*((base/2-1)/15)
}

func checkShape(compact bool, layers int) error {
	max := 32
	if compact {
		max = 4
	}
	if layers < 1 || layers > max {
		return fmt.Errorf("aztec: %d layers (compact=%v) out of range 1..%d", layers, compact, max)
	}
	return nil
}

// coordMap maps a "base" coordinate (0..base-1, reference grid removed) to the
// real matrix coordinate.  In a full-range symbol the grid lines sit at the
// centre and every 16 modules from it, so the k-th non-grid line away from the
// centre (k = 0,1,2...) is at distance k + 1 + k/15.
func coordMap(compact bool, layers int) []int {
	base := baseSize(compact, layers)
	m := make([]int, base)
	if compact {
		for i := range m {
			m[i] = i
		}
		return m
	}
	half := base / 2
	centre := SizeFor(compact, layers) / 2
	for k := 0; k < half; k++ {
		d := k + 1 + k/15
		m[half+k] = centre + d
		m[half-1-k] = centre - d
	}
	return m
}

// bitModules returns, for every message bit position 0..TotalBits-1 (position 0
// is the first padding bit, or the MSB of the first codeword when there is no
// padding), the [row, col] of its module.
//
// ISO/IEC 24778 7.3.4 describes the placement backwards: the last bit of the
// last check word sits in the innermost layer next to the mode message and the
// codewords spiral outwards, so that the *first* codeword (and any unused
// leading bits) end in the top-left corner of the outermost layer.  Read
// forwards this is: start in the top-left corner of the outermost layer, run
// counter-clockwise (down the left side, right along the bottom, up the right
// side, left along the top) in two-module "dominoes", outer module first; each
// side stops two dominoes short of the next corner; then continue with the
// next layer inwards.
func bitModules(compact bool, layers int) [][2]int {
	base := baseSize(compact, layers)
	cm := coordMap(compact, layers)
	out := make([][2]int, 0, TotalBits(compact, layers))
	for l := layers; l >= 1; l-- {
		low := 2 * (layers - l)
		high := base - 1 - low
		side := high - low + 1 - 2 // dominoes per side
		type leg struct{ col, row, dcol, drow, icol, irow int }
		legs := [4]leg{
			{low, low, 0, 1, 1, 0},     // left side, downwards, inwards = right
			{low, high, 1, 0, 0, -1},   // bottom, rightwards, inwards = up
			{high, high, 0, -1, -1, 0}, // right side, upwards, inwards = left
			{high, low, -1, 0, 0, 1},   // top, leftwards, inwards = down
		}
		for _, g := range legs {
			for j := 0; j < side; j++ {
				for k := 0; k < 2; k++ {
					col := g.col + j*g.dcol + k*g.icol
					row := g.row + j*g.drow + k*g.irow
					out = append(out, [2]int{cm[row], cm[col]})
				}
			}
		}
	}
	return out
}

// Stuff splits bits into wordSize-bit codewords with Aztec bit stuffing: when
// the first wordSize-1 bits of a word are all 0 a 1 is inserted as last bit,
// when they are all 1 a 0 is inserted.  A final partial word is padded with 1s
// (which, if that gives all ones, ends in the stuffed 0).
func Stuff(bits []bool, wordSize int) []int {
	var out []int
	n := len(bits)
	at := func(i int) int {
		if i >= n || bits[i] {
			return 1
		}
		return 0
	}
	ones := 1<<uint(wordSize-1) - 1
	for i := 0; i < n; {
		head := 0
		for j := 0; j < wordSize-1; j++ {
			head = head<<1 | at(i+j)
		}
		switch head {
		case 0:
			out = append(out, 1)
			i += wordSize - 1
		case ones:
			out = append(out, ones<<1)
			i += wordSize - 1
		default:
			out = append(out, head<<1|at(i+wordSize-1))
			i += wordSize
		}
	}
	return out
}

// Unstuff is the inverse of Stuff (reference for tests): it returns the bits
// carried by the words, including any trailing pad bits.
func Unstuff(words []int, wordSize int) ([]bool, error) {
	var out []bool
	ones := 1<<uint(wordSize) - 1
	for _, w := range words {
		n := wordSize
		switch w {
		case 0, ones:
			return nil, fmt.Errorf("aztec: illegal codeword %#x", w)
		case 1, ones - 1:
			n = wordSize - 1
		}
		for b := 0; b < n; b++ {
			out = append(out, (w>>uint(wordSize-1-b))&1 == 1)
		}
	}
	return out, nil
}

func bitsOf(words []int, wordSize int) []bool {
	out := make([]bool, 0, len(words)*wordSize)
	for _, w := range words {
		for b := wordSize - 1; b >= 0; b-- {
			out = append(out, (w>>uint(b))&1 == 1)
		}
	}
	return out
}

// ModeMessage returns the 28 (compact) or 40 (full-range) mode message bits:
// layers-1 and dataWords-1 packed into 2 resp. 4 four-bit words, followed by 5
// resp. 6 Reed-Solomon check words over GF(16).
func ModeMessage(compact bool, layers, dataWords int) []bool {
	var v, nData, nCheck int
	if compact {
		v = ((layers-1)&0x3)<<6 | ((dataWords - 1) & 0x3F)
		nData, nCheck = 2, 5
	} else {
		v = ((layers-1)&0x1F)<<11 | ((dataWords - 1) & 0x7FF)
		nData, nCheck = 4, 6
	}
	words := make([]int, nData)
	for i := 0; i < nData; i++ {
		words[i] = (v >> uint(4*(nData-1-i))) & 0xF
	}
	words = append(words, RSCheckWords(words, nCheck, 4)...)
	return bitsOf(words, 4)
}

// modeModules returns the [row, col] of every mode message bit.  The message
// runs clockwise round the bull's-eye starting just right of the top-left
// orientation corner.  Full-range: each side carries 10 bits, split 5+5 around
// the reference grid module in the middle of the side.
func modeModules(compact bool, layers int) [][2]int {
	c := SizeFor(compact, layers) / 2
	r := 5 // ring distance from the centre
	per := 7
	if !compact {
		r, per = 7, 10
	}
	// offsets along a side, in reading order for the top side (left to right)
	offs := make([]int, per)
	for i := 0; i < per; i++ {
		if compact {
			offs[i] = i - 3
		} else if i < 5 {
			offs[i] = i - 5
		} else {
			offs[i] = i - 4
		}
	}
	out := make([][2]int, 0, 4*per)
	for _, o := range offs { // top, left -> right
		out = append(out, [2]int{c - r, c + o})
	}
	for _, o := range offs { // right, top -> bottom
		out = append(out, [2]int{c + o, c + r})
	}
	for _, o := range offs { // bottom, right -> left
		out = append(out, [2]int{c + r, c - o})
	}
	for _, o := range offs { // left, bottom -> top
		out = append(out, [2]int{c - o, c - r})
	}
	return out
}

func newMatrix(n int) [][]bool {
	m := make([][]bool, n)
	cells := make([]bool, n*n)
	for i := range m {
		m[i] = cells[i*n : (i+1)*n : (i+1)*n]
	}
	return m
}

func copyMatrix(src [][]bool) [][]bool {
	m := newMatrix(len(src))
	for i := range src {
		copy(m[i], src[i])
	}
	return m
}

func abs(x int) int {
	if x < 0 {
		return -x
	}
	return x
}

// drawFunctionPatterns draws bull's-eye, orientation marks and (full range)
// the reference grid into m and marks the touched modules in mask (if non-nil).
func drawFunctionPatterns(m, mask [][]bool, compact bool, layers int) {
	n := len(m)
	c := n / 2
	r := 5 // distance of the mode message / orientation ring
	if !compact {
		r = 7
	}
	put := func(row, col int, dark bool) {
		m[row][col] = dark
		if mask != nil {
			mask[row][col] = true
		}
	}
	// Reference grid first (the bull's-eye agrees with it where they overlap).
	if !compact {
		for d := 0; c+d < n; d += 16 {
			for k := 0; k < n; k++ {
				dark := (k-c)%2 == 0
				put(c-d, k, dark)
				put(c+d, k, dark)
				put(k, c-d, dark)
				put(k, c+d, dark)
			}
		}
	}
	// Bull's-eye: concentric square rings, dark at even Chebyshev distance.
	for row := c - (r - 1); row <= c+(r-1); row++ {
		for col := c - (r - 1); col <= c+(r-1); col++ {
			d := abs(row - c)
			if abs(col-c) > d {
				d = abs(col - c)
			}
			put(row, col, d%2 == 0)
		}
	}
	// Orientation marks at the corners of the mode-message ring:
	// top-left 3 dark, top-right 2 dark, bottom-right 1 dark, bottom-left none.
	put(c-r, c-r, true)
	put(c-r, c-r+1, true)
	put(c-r+1, c-r, true)
	put(c-r, c+r, true)
	put(c-r+1, c+r, true)
	put(c-r, c+r-1, false)
	put(c+r-1, c+r, true)
	put(c+r, c+r, false)
	put(c+r, c+r-1, false)
	put(c+r, c-r, false)
	put(c+r, c-r+1, false)
	put(c+r-1, c-r, false)
}

// FunctionMask returns a matrix that is true at every module belonging to the
// bull's-eye, the orientation marks and the reference grid (not the mode
// message, not the data layers).
func FunctionMask(compact bool, layers int) [][]bool {
	n := SizeFor(compact, layers)
	m, mask := newMatrix(n), newMatrix(n)
	drawFunctionPatterns(m, mask, compact, layers)
	return mask
}

// ModeModules returns the [row, col] of each mode message bit, in order.
func ModeModules(compact bool, layers int) [][2]int { return modeModules(compact, layers) }

// Encode builds a symbol of exactly the given shape.  dataWords are the
// (already stuffed) data codewords; the remaining TotalWords-len(dataWords)
// codewords are Reed-Solomon check words.  The standard recommends at least 3
// check words (plus 23%); Encode accepts any number >= 0 and reports it in
// Symbol.CheckWords.
func Encode(dataWords []int, compact bool, layers int) (*Symbol, error) {
	if err := checkShape(compact, layers); err != nil {
		return nil, err
	}
	w := WordSizeFor(layers)
	total := TotalBits(compact, layers)
	totalWords := total / w
	nd := len(dataWords)
	if nd < 1 {
		return nil, errors.New("aztec: at least one data word is needed (mode message stores count-1)")
	}
	if nd > totalWords {
		return nil, fmt.Errorf("aztec: %d data words do not fit in %d codewords", nd, totalWords)
	}
	if compact && nd > 64 {
		return nil, fmt.Errorf("aztec: %d data words exceed the compact mode message limit of 64", nd)
	}
	if !compact && nd > 2048 {
		return nil, fmt.Errorf("aztec: %d data words exceed the mode message limit of 2048", nd)
	}
	for i, d := range dataWords {
		if d < 0 || d >= 1<<uint(w) {
			return nil, fmt.Errorf("aztec: data word %d = %#x does not fit in %d bits", i, d, w)
		}
	}
	words := make([]int, 0, totalWords)
	words = append(words, dataWords...)
	words = append(words, RSCheckWords(dataWords, totalWords-nd, w)...)

	s := &Symbol{
		Compact:    compact,
		Layers:     layers,
		Size:       SizeFor(compact, layers),
		WordSize:   w,
		TotalWords: totalWords,
		DataWords:  nd,
		CheckWords: totalWords - nd,
		PadBits:    total % w,
		Words:      words,
	}
	m := newMatrix(s.Size)
	pos := bitModules(compact, layers)
	msg := bitsOf(words, w)
	for i, b := range msg {
		p := pos[s.PadBits+i]
		m[p[0]][p[1]] = b
	}
	mm := ModeMessage(compact, layers, nd)
	for i, p := range modeModules(compact, layers) {
		m[p[0]][p[1]] = mm[i]
	}
	drawFunctionPatterns(m, nil, compact, layers)
	s.Matrix = m
	return s, nil
}

// EncodeBits stuffs bits for the given shape and encodes them.
func EncodeBits(bits []bool, compact bool, layers int) (*Symbol, error) {
	return Encode(Stuff(bits, WordSizeFor(layers)), compact, layers)
}

// EncodeAuto picks the smallest symbol (compact 1..4, then full 1..32; a full
// symbol is only considered after the four compact ones, in order of layers)
// that holds bits plus minECPercent % + 11 bits of error correction, the rule
// used by ZXing's encoder (11 bits ~ the 3 extra check words recommended by
// the standard).  In addition (stricter than ZXing, which can end up with 2
// check words when minECPercent is tiny) at least 3 check words are required,
// as the standard demands.
func EncodeAuto(bits []bool, minECPercent int) (*Symbol, error) {
	eccBits := len(bits)*minECPercent/100 + 11
	need := len(bits) + eccBits
	type shape struct {
		compact bool
		layers  int
	}
	var shapes []shape
	for l := 1; l <= 4; l++ {
		shapes = append(shapes, shape{true, l})
	}
	for l := 4; l <= 32; l++ {
		// full-range symbols with 1..3 layers are never smaller than the
		// compact symbol with the same capacity class; ZXing skips them too.
		shapes = append(shapes, shape{false, l})
	}
	for _, sh := range shapes {
		total := TotalBits(sh.compact, sh.layers)
		if need > total {
			continue
		}
		w := WordSizeFor(sh.layers)
		stuffed := Stuff(bits, w)
		if len(stuffed) == 0 {
			return nil, errors.New("aztec: nothing to encode")
		}
		if sh.compact && len(stuffed) > 64 {
			continue
		}
		usable := total - total%w
		if len(stuffed)*w+eccBits <= usable && total/w-len(stuffed) >= 3 {
			return Encode(stuffed, sh.compact, sh.layers)
		}
	}
	return nil, errors.New("aztec: data too large for an Aztec symbol")
}

// WordModules returns, for each codeword index (0 = first data word) and each
// bit (MSB first), the [row, col] of the module carrying it.
func (s *Symbol) WordModules() [][][2]int {
	pos := bitModules(s.Compact, s.Layers)
	out := make([][][2]int, s.TotalWords)
	for i := range out {
		start := s.PadBits + i*s.WordSize
		out[i] = append([][2]int(nil), pos[start:start+s.WordSize]...)
	}
	return out
}

// PadModules returns the modules of the PadBits unused leading bits.
func (s *Symbol) PadModules() [][2]int {
	pos := bitModules(s.Compact, s.Layers)
	return append([][2]int(nil), pos[:s.PadBits]...)
}

// WithWord returns a copy of the matrix in which codeword i reads as v.
func (s *Symbol) WithWord(i int, v int) [][]bool {
	m := copyMatrix(s.Matrix)
	mods := s.WordModules()[i]
	for b, p := range mods {
		m[p[0]][p[1]] = (v>>uint(s.WordSize-1-b))&1 == 1
	}
	return m
}

// ReadWords reads all TotalWords codewords back from an arbitrary matrix of
// this symbol's shape (useful for checking third-party symbols).
func (s *Symbol) ReadWords(m [][]bool) []int {
	out := make([]int, s.TotalWords)
	for i, mods := range s.WordModules() {
		v := 0
		for _, p := range mods {
			v <<= 1
			if m[p[0]][p[1]] {
				v |= 1
			}
		}
		out[i] = v
	}
	return out
}
