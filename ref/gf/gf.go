// Package gf is a deliberately naive GF(2^m) reference: carry-less multiplication modulo the
// primitive polynomial, inverse by exhaustive search, powers by repeated multiplication.
// It shares no code and no tables with the library.
package gf

type Field struct {
	Poly int // primitive polynomial including the x^m term
	Size int // 2^m
}

// Mul multiplies a and b as polynomials over GF(2) and reduces modulo Poly.
func (f Field) Mul(a, b int) int {
	r := 0
	for b != 0 {
		if b&1 != 0 {
			r ^= a
		}
		b >>= 1
		a <<= 1
		if a&f.Size != 0 {
			a ^= f.Poly
		}
	}
	return r
}

// Pow returns a^n by repeated multiplication.
func (f Field) Pow(a, n int) int {
	r := 1
	for i := 0; i < n; i++ {
		r = f.Mul(r, a)
	}
	return r
}

// Inv returns the multiplicative inverse by exhaustive search (0 if none).
func (f Field) Inv(a int) int {
	for b := 1; b < f.Size; b++ {
		if f.Mul(a, b) == 1 {
			return b
		}
	}
	return 0
}

// Alpha is the element x (i.e. 2).
const Alpha = 2

// Eval evaluates the polynomial with coefficients c (highest degree first) at x by Horner.
func (f Field) Eval(c []int, x int) int {
	r := 0
	for _, v := range c {
		r = f.Mul(r, x) ^ v
	}
	return r
}

// Generator returns prod_{i=0}^{r-1} (x - alpha^(i+base)), highest degree first.
func (f Field) Generator(r, base int) []int {
	g := []int{1}
	root := f.Pow(Alpha, base)
	for i := 0; i < r; i++ {
		n := make([]int, len(g)+1)
		for j, c := range g {
			n[j] ^= c
			n[j+1] ^= f.Mul(c, root)
		}
		g = n
		root = f.Mul(root, Alpha)
	}
	return g
}

// Parity returns the r parity symbols of the systematic RS code: remainder of data*x^r by g.
func (f Field) Parity(data []int, r, base int) []int {
	g := f.Generator(r, base)
	rem := make([]int, r)
	for _, d := range data {
		fb := d ^ rem[0]
		copy(rem, rem[1:])
		rem[r-1] = 0
		if fb != 0 {
			for j := 0; j < r; j++ {
				rem[j] ^= f.Mul(g[j+1], fb)
			}
		}
	}
	return rem
}

// Solve returns x with A x = b over the field (A is n x n, row-major; ok=false if singular).
// Plain Gaussian elimination; addition is XOR.
func (f Field) Solve(A [][]int, b []int) (x []int, ok bool) {
	n := len(b)
	m := make([][]int, n)
	for i := range m {
		m[i] = append(append([]int{}, A[i]...), b[i])
	}
	for c := 0; c < n; c++ {
		p := -1
		for r := c; r < n; r++ {
			if m[r][c] != 0 {
				p = r
				break
			}
		}
		if p < 0 {
			return nil, false
		}
		m[c], m[p] = m[p], m[c]
		inv := f.Inv(m[c][c])
		for k := c; k <= n; k++ {
			m[c][k] = f.Mul(m[c][k], inv)
		}
		for r := 0; r < n; r++ {
			if r != c && m[r][c] != 0 {
				q := m[r][c]
				for k := c; k <= n; k++ {
					m[r][k] ^= f.Mul(q, m[c][k])
				}
			}
		}
	}
	x = make([]int, n)
	for i := range x {
		x[i] = m[i][n]
	}
	return x, true
}

// TailForParity returns the r symbols u such that Parity(prefix || u, r, base) == target: the
// division register of a systematic encoder is in state target after it has consumed prefix || u.
// (Parity is linear in the data and the map u -> parity contribution is a bijection.)
func (f Field) TailForParity(prefix []int, r, base int, target []int) []int {
	p := len(prefix) + r
	zero := make([]int, p)
	copy(zero, prefix)
	b := f.Parity(zero, r, base)
	for i := range b {
		b[i] ^= target[i]
	}
	A := make([][]int, r)
	for i := range A {
		A[i] = make([]int, r)
	}
	for j := 0; j < r; j++ {
		e := make([]int, p)
		e[len(prefix)+j] = 1
		col := f.Parity(e, r, base)
		for i := 0; i < r; i++ {
			A[i][j] = col[i]
		}
	}
	u, ok := f.Solve(A, b)
	if !ok {
		panic("gf: TailForParity: singular system (cannot happen for a generator with non-zero constant term)")
	}
	return u
}

// KernelErrors returns error magnitudes e (one per locator position, not all zero) such that
// the syndromes S_i = sum_k e_k * X_k^(i+base), i in rows, all vanish, where X_k = Alpha^(n-1-pos_k)
// for a word of length n. len(rows) must be len(pos)-1 (the kernel is then one-dimensional for
// distinct locators); the last magnitude is normalised to 1.
func (f Field) KernelErrors(n int, pos []int, rows []int, base int) []int {
	t := len(pos)
	if len(rows) != t-1 {
		panic("gf: KernelErrors needs len(rows) == len(pos)-1")
	}
	X := make([]int, t)
	for k, p := range pos {
		X[k] = f.Pow(Alpha, n-1-p)
	}
	A := make([][]int, t-1)
	b := make([]int, t-1)
	for i, row := range rows {
		A[i] = make([]int, t-1)
		for k := 0; k < t-1; k++ {
			A[i][k] = f.Pow(X[k], row+base)
		}
		b[i] = f.Pow(X[t-1], row+base) // moves the last unknown (fixed to 1) to the right-hand side
	}
	e, ok := f.Solve(A, b)
	if !ok {
		return nil
	}
	return append(e, 1)
}
