// Package gf is a deliberately naive GF(2^m) reference: carry-less multiplication modulo the
// primitive polynomial, inverse by exhaustive search, powers by repeated multiplication.
// It shares no code and no tables with the library.
package gf

type Field struct {
	Poly int // primitive polynomial including the x^m term
	Size int // 2^m
}

// Mul multiplies a and b as polynomials over GF(2) and reduces modulo Poly.
func (f Field) Mul(a, b int) int {
	r := 0
	for b != 0 {
		if b&1 != 0 {
			r ^= a
		}
		b >>= 1
		a <<= 1
		if a&f.Size != 0 {
			a ^= f.Poly
		}
	}
	return r
}

// Pow returns a^n by repeated multiplication.
func (f Field) Pow(a, n int) int {
	r := 1
	for i := 0; i < n; i++ {
		r = f.Mul(r, a)
	}
	return r
}

// Inv returns the multiplicative inverse by exhaustive search (0 if none).
func (f Field) Inv(a int) int {
	for b := 1; b < f.Size; b++ {
		if f.Mul(a, b) == 1 {
			return b
		}
	}
	return 0
}

// Alpha is the element x (i.e. 2).
const Alpha = 2

// Eval evaluates the polynomial with coefficients c (highest degree first) at x by Horner.
func (f Field) Eval(c []int, x int) int {
	r := 0
	for _, v := range c {
		r = f.Mul(r, x) ^ v
	}
	return r
}

// Generator returns prod_{i=0}^{r-1} (x - alpha^(i+base)), highest degree first.
func (f Field) Generator(r, base int) []int {
	g := []int{1}
	root := f.Pow(Alpha, base)
	for i := 0; i < r; i++ {
		n := make([]int, len(g)+1)
		for j, c := range g {
			n[j] ^= c
			n[j+1] ^= f.Mul(c, root)
		}
		g = n
		root = f.Mul(root, Alpha)
	}
	return g
}

// Parity returns the r parity symbols of the systematic RS code: remainder of data*x^r by g.
func (f Field) Parity(data []int, r, base int) []int {
	g := f.Generator(r, base)
	rem := make([]int, r)
	for _, d := range data {
		fb := d ^ rem[0]
		copy(rem, rem[1:])
		rem[r-1] = 0
		if fb != 0 {
			for j := 0; j < r; j++ {
				rem[j] ^= f.Mul(g[j+1], fb)
			}
		}
	}
	return rem
}
