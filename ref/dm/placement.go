package dm

import "sync"

// Module placement of ISO/IEC 16022 Annex F on the mapping matrix (the data
// regions joined together with finder/clock borders removed).

type cell = [2]int // (row, col)

// The standard "utah" shape relative to its anchor, the module holding the
// least significant bit.  Entry k is where the bit with value 128>>k goes:
//
//	    | 1 | 2 |
//	| 3 | 4 | 5 |
//	| 6 | 7 | 8 |   <- anchor is module 8
var utahShape = [8]cell{
	{-2, -2}, {-2, -1},
	{-1, -2}, {-1, -1}, {-1, 0},
	{0, -2}, {0, -1}, {0, 0},
}

// placer carries the state of one run of the Annex F algorithm.
type placer struct {
	rows, cols int
	taken      []bool // rows*cols, true once a module is assigned
	out        [][8][2]int
}

func (p *placer) isTaken(r, c int) bool { return p.taken[r*p.cols+c] }

// wrap applies the Annex F wrap-around rule for modules of a utah shape that
// fall off the top or the left edge of the mapping matrix.
func (p *placer) wrap(r, c int) (int, int) {
	if r < 0 {
		r += p.rows
		c += 4 - (p.rows+4)%8
	}
	if c < 0 {
		c += p.cols
		r += 4 - (p.cols+4)%8
	}
	return r, c
}

// put assigns the next codeword to the eight given modules (MSB first).
func (p *placer) put(shape [8]cell) {
	var cw [8][2]int
	for k, m := range shape {
		r, c := p.wrap(m[0], m[1])
		if r < 0 || r >= p.rows || c < 0 || c >= p.cols {
			panic("dm: placement ran outside the mapping matrix")
		}
		if p.isTaken(r, c) {
			panic("dm: placement assigned a module twice")
		}
		p.taken[r*p.cols+c] = true
		cw[k] = [2]int{r, c}
	}
	p.out = append(p.out, cw)
}

func (p *placer) utah(r, c int) {
	var shape [8]cell
	for k, d := range utahShape {
		shape[k] = cell{r + d[0], c + d[1]}
	}
	p.put(shape)
}

// The four special corner arrangements (Annex F figures F.3 - F.6), written
// with R = last row, C = last column of the mapping matrix.
func (p *placer) corner(which int) {
	R, C := p.rows-1, p.cols-1
	var shape [8]cell
	switch which {
	case 1:
		shape = [8]cell{{R, 0}, {R, 1}, {R, 2}, {0, C - 1}, {0, C}, {1, C}, {2, C}, {3, C}}
	case 2:
		shape = [8]cell{{R - 2, 0}, {R - 1, 0}, {R, 0}, {0, C - 3}, {0, C - 2}, {0, C - 1}, {0, C}, {1, C}}
	case 3:
		shape = [8]cell{{R - 2, 0}, {R - 1, 0}, {R, 0}, {0, C - 1}, {0, C}, {1, C}, {2, C}, {3, C}}
	case 4:
		shape = [8]cell{{R, 0}, {R, C}, {0, C - 2}, {0, C - 1}, {0, C}, {1, C - 2}, {1, C - 1}, {1, C}}
	default:
		panic("dm: no such corner case")
	}
	p.put(shape)
}

func runPlacement(rows, cols int) (cw [][8][2]int, fixedDark [][2]int) {
	p := &placer{rows: rows, cols: cols, taken: make([]bool, rows*cols)}
	r, c := 4, 0
	for {
		// corner cases are triggered at specific anchor positions
		if r == rows && c == 0 {
			p.corner(1)
		}
		if r == rows-2 && c == 0 && cols%4 != 0 {
			p.corner(2)
		}
		if r == rows-2 && c == 0 && cols%8 == 4 {
			p.corner(3)
		}
		if r == rows+4 && c == 2 && cols%8 == 0 {
			p.corner(4)
		}
		// sweep diagonally up and to the right
		for {
			if r < rows && c >= 0 && !p.isTaken(r, c) {
				p.utah(r, c)
			}
			r -= 2
			c += 2
			if r < 0 || c >= cols {
				break
			}
		}
		r += 1
		c += 3
		// sweep diagonally down and to the left
		for {
			if r >= 0 && c < cols && !p.isTaken(r, c) {
				p.utah(r, c)
			}
			r += 2
			c -= 2
			if r >= rows || c < 0 {
				break
			}
		}
		r += 3
		c += 1
		if r >= rows && c >= cols {
			break
		}
	}
	// If the bottom right corner is still free, the 2x2 there is a fixed
	// pattern: its main diagonal dark, the other two modules light.
	if !p.isTaken(rows-1, cols-1) {
		fixedDark = [][2]int{{rows - 1, cols - 1}, {rows - 2, cols - 2}}
	}
	return p.out, fixedDark
}

type placementResult struct {
	cw        [][8][2]int
	fixedDark [][2]int
}

// Two-level cache: the mapping matrices of the 30 standard symbols are
// computed once and then read without locking; any other size goes through a
// mutex-protected map.
var (
	stdPlacementOnce sync.Once
	stdPlacement     map[[2]int]placementResult // read-only after the Once

	placementMu    sync.Mutex
	placementCache = map[[2]int]placementResult{}
)

func buildStdPlacement() {
	stdPlacement = map[[2]int]placementResult{}
	for _, s := range table7 {
		key := [2]int{s.rows - 2*s.vreg, s.cols - 2*s.hreg}
		if _, ok := stdPlacement[key]; !ok {
			var res placementResult
			res.cw, res.fixedDark = runPlacement(key[0], key[1])
			stdPlacement[key] = res
		}
	}
}

// PlacementMap runs Annex F for a mapping matrix of the given size.  cw[i][k]
// is the (row, col) in the mapping matrix of the bit with value 128>>k of
// codeword i (0-based).  fixedDark lists the two dark modules of the fixed
// 2x2 pattern in the bottom right corner for sizes where those four modules
// carry no codeword (the other two, (rows-1,cols-2) and (rows-2,cols-1), are
// light); it is nil otherwise.
//
// Results are cached and shared: callers must not modify them.
func PlacementMap(mappingRows, mappingCols int) (cw [][8][2]int, fixedDark [][2]int) {
	key := [2]int{mappingRows, mappingCols}
	stdPlacementOnce.Do(buildStdPlacement)
	if res, ok := stdPlacement[key]; ok {
		return res.cw, res.fixedDark
	}
	if mappingRows < 6 || mappingCols < 6 || mappingRows%2 != 0 || mappingCols%2 != 0 {
		panic("dm: PlacementMap: mapping matrix must be even and at least 6x6")
	}
	placementMu.Lock()
	defer placementMu.Unlock()
	res, ok := placementCache[key]
	if !ok {
		res.cw, res.fixedDark = runPlacement(mappingRows, mappingCols)
		placementCache[key] = res
	}
	return res.cw, res.fixedDark
}
