package dm

import (
	"math/rand"
	"testing"
)

func TestScratchFuzz(t *testing.T) {
	classes := []string{
		"0123456789",
		"ABCDEFGHIJKLMNOPQRSTUVWXYZ 0123456789",
		"abcdefghijklmnopqrstuvwxyz 0123456789",
		"ABCXYZ019*>\r ",
		"@ABCXYZ[\\]^ !\"#/0189:;<=>?",
		"\x00\x01\x7f\u0080\u0081éñÿ~{}`",
		"ÿ",
		"aA",
		"\x1d",
	}
	for seed := int64(100); seed < 108; seed++ {
		rng := rand.New(rand.NewSource(seed))
		bad, c, d := 0, 0, 0
		shortD := ""
		for iter := 0; iter < 100000; iter++ {
			var msg []rune
			for runs := 1 + rng.Intn(5); runs > 0; runs-- {
				cl := []rune(classes[rng.Intn(len(classes))])
				for k := 1 + rng.Intn(10); k > 0; k-- {
					msg = append(msg, cl[rng.Intn(len(cl))])
				}
			}
			m := string(msg)
			if x := checkHighLevel(m); x != "" {
				switch {
				case isBase256ExactFill(m):
					c++
				case isEdifactEarlyEnd(m):
					d++
					if shortD == "" || len(msg) < len([]rune(shortD)) {
						shortD = m
					}
				default:
					bad++
					if bad < 6 {
						t.Errorf("%q: %s", m, x)
					}
				}
			}
		}
		t.Logf("seed %d: bad %d, (c) %d, (d) %d shortest %q", seed, bad, c, d, shortD)
	}
}
