package dm

import (
	"errors"
	"fmt"
	"sync"
)

type symbolLayout struct {
	pos       [][8][2]int
	fixedDark [][2]int
}

// Layouts of the 30 standard symbols are built once and read lock-free;
// hand-made Symbol values go through a mutex-protected map.
var (
	stdLayoutOnce sync.Once
	stdLayout     map[Symbol]*symbolLayout // read-only after the Once

	layoutMu    sync.Mutex
	layoutCache = map[Symbol]*symbolLayout{}
)

// toFull converts mapping-matrix coordinates to full-symbol coordinates: every
// data region before (and including) the one containing the module adds its
// two border lines, of which one lies before the module.
func (s Symbol) toFull(r, c int) (int, int) {
	return r + 2*(r/s.RegionRows) + 1, c + 2*(c/s.RegionCols) + 1
}

func layoutOf(s Symbol) *symbolLayout {
	stdLayoutOnce.Do(func() {
		stdLayout = map[Symbol]*symbolLayout{}
		for _, std := range buildSymbols() {
			stdLayout[std] = computeLayout(std)
		}
	})
	if l, ok := stdLayout[s]; ok {
		return l
	}
	layoutMu.Lock()
	defer layoutMu.Unlock()
	l, ok := layoutCache[s]
	if !ok {
		l = computeLayout(s)
		layoutCache[s] = l
	}
	return l
}

func computeLayout(s Symbol) *symbolLayout {
	cw, fixed := PlacementMap(s.MappingRows(), s.MappingCols())
	l := &symbolLayout{pos: make([][8][2]int, len(cw))}
	for i := range cw {
		for k := 0; k < 8; k++ {
			r, c := s.toFull(cw[i][k][0], cw[i][k][1])
			l.pos[i][k] = [2]int{r, c}
		}
	}
	for _, m := range fixed {
		r, c := s.toFull(m[0], m[1])
		l.fixedDark = append(l.fixedDark, [2]int{r, c})
	}
	return l
}

// ModulePositions maps codeword index -> the 8 (row, col) positions of its
// bits in the FULL symbol matrix (finder/clock borders included); element
// [k] is the module of the bit with value 128>>k.  The result is cached and
// shared: callers must not modify it.
func ModulePositions(s Symbol) [][8][2]int {
	return layoutOf(s).pos
}

// FixedDarkModules returns the full-symbol positions of the two dark modules
// of the unused bottom-right 2x2 corner, or nil when the size has none.
// Shared: do not modify.
func FixedDarkModules(s Symbol) [][2]int {
	return layoutOf(s).fixedDark
}

// IsBorder reports whether (row, col) of the full symbol belongs to a
// finder or clock line and, if so, whether it is dark.
//
// Every data region is framed by: a solid dark left column and bottom row
// (the "L"), a top row alternating dark/light starting dark at the region's
// left end, and a right column alternating dark/light starting dark at the
// region's bottom end.  (So the top right corner of every region is light.)
func (s Symbol) IsBorder(row, col int) (border, dark bool) {
	h, w := s.RegionRows+2, s.RegionCols+2
	r, c := row%h, col%w // position inside the framed region
	switch {
	case c == 0 || r == h-1:
		return true, true
	case r == 0:
		return true, c%2 == 0
	case c == w-1:
		return true, (h-1-r)%2 == 0
	}
	return false, false
}

// Build draws the full symbol from ALL codewords (data then ecc,
// len == DataCW+ECCW; it panics otherwise).  Result is [row][col], true = dark,
// row 0 at the top, no quiet zone.
func Build(codewords []byte, s Symbol) [][]bool {
	if len(codewords) != s.DataCW+s.ECCW {
		panic(fmt.Sprintf("dm: Build: got %d codewords, %v needs %d", len(codewords), s, s.DataCW+s.ECCW))
	}
	m := make([][]bool, s.Rows)
	for r := range m {
		m[r] = make([]bool, s.Cols)
		for c := range m[r] {
			_, m[r][c] = s.IsBorder(r, c)
		}
	}
	l := layoutOf(s)
	if len(l.pos) != len(codewords) {
		panic("dm: Build: placement does not match codeword count")
	}
	for i, v := range codewords {
		for k := 0; k < 8; k++ {
			p := l.pos[i][k]
			m[p[0]][p[1]] = v&(0x80>>uint(k)) != 0
		}
	}
	for _, p := range l.fixedDark {
		m[p[0]][p[1]] = true
	}
	return m
}

// ReadCodewords is the inverse of Build: it identifies the symbol from the
// matrix dimensions and extracts all DataCW+ECCW codewords.  No error
// correction is applied and the borders are not inspected (see CheckBorders).
func ReadCodewords(m [][]bool) ([]byte, Symbol, error) {
	if len(m) == 0 {
		return nil, Symbol{}, errors.New("dm: empty matrix")
	}
	for _, row := range m {
		if len(row) != len(m[0]) {
			return nil, Symbol{}, errors.New("dm: ragged matrix")
		}
	}
	s, ok := SymbolBySize(len(m), len(m[0]))
	if !ok {
		return nil, Symbol{}, fmt.Errorf("dm: %dx%d is not an ECC 200 symbol size", len(m), len(m[0]))
	}
	pos := ModulePositions(s)
	out := make([]byte, len(pos))
	for i := range pos {
		var v byte
		for k := 0; k < 8; k++ {
			v <<= 1
			if m[pos[i][k][0]][pos[i][k][1]] {
				v |= 1
			}
		}
		out[i] = v
	}
	return out, s, nil
}

// CheckBorders verifies every finder/clock module and the fixed corner
// pattern of a matrix whose size is that of s.
func CheckBorders(m [][]bool, s Symbol) error {
	if len(m) != s.Rows {
		return fmt.Errorf("dm: matrix has %d rows, want %d", len(m), s.Rows)
	}
	for r := range m {
		if len(m[r]) != s.Cols {
			return fmt.Errorf("dm: row %d has %d cols, want %d", r, len(m[r]), s.Cols)
		}
		for c := range m[r] {
			if border, dark := s.IsBorder(r, c); border && m[r][c] != dark {
				return fmt.Errorf("dm: border module (%d,%d) is %v, want %v", r, c, m[r][c], dark)
			}
		}
	}
	if fd := FixedDarkModules(s); fd != nil {
		br := fd[0] // bottom right module of the 2x2
		want := [2][2]bool{{true, false}, {false, true}}
		for dr := 0; dr < 2; dr++ {
			for dc := 0; dc < 2; dc++ {
				r, c := br[0]-1+dr, br[1]-1+dc
				if m[r][c] != want[dr][dc] {
					return fmt.Errorf("dm: fixed corner module (%d,%d) is %v", r, c, m[r][c])
				}
			}
		}
	}
	return nil
}
