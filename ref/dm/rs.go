package dm

import "sync"

// Reed-Solomon over GF(2^8) with field polynomial x^8+x^5+x^3+x^2+1 (0x12D).
// Nothing here is a copied table: products are computed by shift-and-add
// ("Russian peasant") multiplication, generators by multiplying out
// (x-2^1)(x-2^2)...(x-2^n).

const fieldPoly = 0x12D

// gfMul multiplies two field elements: carry-less multiplication with the
// running multiplicand reduced modulo the field polynomial at every doubling.
func gfMul(a, b byte) byte {
	var acc int
	x := int(a)
	for y := int(b); y != 0; y >>= 1 {
		if y&1 != 0 {
			acc ^= x
		}
		x <<= 1
		if x&0x100 != 0 {
			x ^= fieldPoly
		}
	}
	return byte(acc)
}

var (
	genMu    sync.Mutex
	genCache = map[int][]byte{}
)

// Generator returns the generator polynomial g(x) = prod_{i=1..n} (x - 2^i)
// over GF(256)/0x12D.  The result has n entries, LOWEST degree first:
// out[k] is the coefficient of x^k for k = 0..n-1.  The leading coefficient
// (of x^n) is always 1 and is not included.  A fresh copy is returned.
func Generator(n int) []byte {
	if n < 0 {
		panic("dm: negative generator degree")
	}
	genMu.Lock()
	g, ok := genCache[n]
	if !ok {
		g = computeGenerator(n)
		genCache[n] = g
	}
	genMu.Unlock()
	return append([]byte(nil), g...)
}

func computeGenerator(n int) []byte {
	// poly[k] = coefficient of x^k, full length including the leading 1.
	poly := []byte{1}
	root := byte(1)
	for i := 1; i <= n; i++ {
		root = gfMul(root, 2) // 2^i
		// multiply poly by (x + root)   (minus == plus in characteristic 2)
		next := make([]byte, len(poly)+1)
		for k, c := range poly {
			next[k+1] ^= c            // c * x
			next[k] ^= gfMul(c, root) // c * root
		}
		poly = next
	}
	return poly[:n] // drop the monic leading coefficient
}

// RSParity returns the n error correction codewords of one block: the
// remainder of data(x)*x^n divided by Generator(n), where data[0] is the
// coefficient of the highest power.  The parity is returned highest power
// first, i.e. in the order in which it is appended to the block.
func RSParity(data []byte, n int) []byte {
	g := Generator(n)
	rem := make([]byte, n) // rem[k] = coefficient of x^k
	for _, d := range data {
		var fb byte
		if n > 0 {
			fb = d ^ rem[n-1]
		}
		for k := n - 1; k > 0; k-- {
			rem[k] = rem[k-1] ^ gfMul(fb, g[k])
		}
		if n > 0 {
			rem[0] = gfMul(fb, g[0])
		}
	}
	out := make([]byte, n)
	for k := 0; k < n; k++ {
		out[k] = rem[n-1-k]
	}
	return out
}

// Codewords returns data followed by the interleaved error correction
// codewords for symbol s.  len(data) must equal s.DataCW.  Block b consists
// of data codewords b, b+Blocks, b+2*Blocks, ...; its k-th parity codeword
// is stored at index DataCW + b + k*Blocks.
func Codewords(data []byte, s Symbol) []byte {
	return codewords(data, s, 0)
}

// CodewordsSkewed144 is Codewords except for 144x144, where the parity of
// block b is stored at interleave offset (b+2) mod 10, i.e. at indices
// DataCW + (b+2)%10 + k*10.  Equivalently a reader attributes ECC interleave
// offset j to block (j+8) mod 10: the block cycle simply continues after the
// last data codeword (index 1557, block 7) instead of restarting at block 0.
// This is the convention of ZXing's decoder, zint ("rotate ecc data") and
// libdmtx.
func CodewordsSkewed144(data []byte, s Symbol) []byte {
	if s.Rows == 144 && s.Cols == 144 {
		return codewords(data, s, 2)
	}
	return codewords(data, s, 0)
}

func codewords(data []byte, s Symbol, skew int) []byte {
	if len(data) != s.DataCW {
		panic("dm: Codewords: len(data) != DataCW")
	}
	nb := s.Blocks
	nec := s.ECPerBlock()
	out := make([]byte, s.DataCW+s.ECCW)
	copy(out, data)
	for b := 0; b < nb; b++ {
		var block []byte
		for i := b; i < s.DataCW; i += nb {
			block = append(block, data[i])
		}
		par := RSParity(block, nec)
		off := (b + skew) % nb
		for k, p := range par {
			out[s.DataCW+off+k*nb] = p
		}
	}
	return out
}

// Syndromes evaluates the received block (data followed by parity, highest
// power first) at 2^1..2^n.  All zero iff the block is a valid RS codeword.
// It is an independent check of RSParity (evaluation instead of division).
func Syndromes(block []byte, n int) []byte {
	out := make([]byte, n)
	root := byte(1)
	for i := 0; i < n; i++ {
		root = gfMul(root, 2)
		var acc byte
		for _, c := range block { // Horner
			acc = gfMul(acc, root) ^ c
		}
		out[i] = acc
	}
	return out
}
