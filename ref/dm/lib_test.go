package dm

// Black-box cross-checks of the reference model against the library under
// test.  Only exported library API is used.  Known library defects are
// logged, not failed (see the comments at each site).

import (
	"bytes"
	"errors"
	"fmt"
	"math/rand"
	"sort"
	"strings"
	"testing"
	"time"

	"github.com/makiuchi-d/gozxing"
	"github.com/makiuchi-d/gozxing/datamatrix"
	libdec "github.com/makiuchi-d/gozxing/datamatrix/decoder"
	libenc "github.com/makiuchi-d/gozxing/datamatrix/encoder"
)

func libSymbolInfo(t *testing.T, s Symbol) *libenc.SymbolInfo {
	t.Helper()
	shape := libenc.SymbolShapeHint_FORCE_SQUARE
	if s.Rect {
		shape = libenc.SymbolShapeHint_FORCE_RECTANGLE
	}
	si, err := libenc.SymbolInfo_Lookup(s.DataCW, shape, nil, nil, true)
	if err != nil {
		t.Fatalf("%v: lookup: %v", s, err)
	}
	return si
}

func toBitMatrix(t *testing.T, m [][]bool) *gozxing.BitMatrix {
	t.Helper()
	bm, err := gozxing.NewBitMatrix(len(m[0]), len(m))
	if err != nil {
		t.Fatal(err)
	}
	for r := range m {
		for c := range m[r] {
			if m[r][c] {
				bm.Set(c, r)
			}
		}
	}
	return bm
}

func fromBitMatrix(bm *gozxing.BitMatrix) [][]bool {
	m := make([][]bool, bm.GetHeight())
	for r := range m {
		m[r] = make([]bool, bm.GetWidth())
		for c := range m[r] {
			m[r][c] = bm.Get(c, r)
		}
	}
	return m
}

// latin1 is the byte string the library produces for characters >= 128
// (known issue (b): raw ISO 8859-1 bytes instead of UTF-8).
func latin1(s string) string {
	var b []byte
	for _, r := range s {
		b = append(b, byte(r))
	}
	return string(b)
}

func TestLibSymbolInfoAndECC(t *testing.T) {
	rng := rand.New(rand.NewSource(2))
	for _, s := range Symbols {
		si := libSymbolInfo(t, s)
		if si.GetSymbolWidth() != s.Cols || si.GetSymbolHeight() != s.Rows ||
			si.GetSymbolDataWidth() != s.MappingCols() || si.GetSymbolDataHeight() != s.MappingRows() ||
			si.GetMatrixWidth() != s.RegionCols || si.GetMatrixHeight() != s.RegionRows ||
			si.GetDataCapacity() != s.DataCW || si.GetErrorCodewords() != s.ECCW ||
			si.GetInterleavedBlockCount() != s.Blocks || si.GetCodewordCount() != s.TotalCW() {
			t.Errorf("%v: library symbol info differs: %v", s, si)
		}
		for b, n := range s.BlockDataSizes() {
			if si.GetDataLengthForInterleavedBlock(b+1) != n || si.GetErrorLengthForInterleavedBlock(b+1) != s.ECPerBlock() {
				t.Errorf("%v: block %d sizes: lib %d/%d", s, b, si.GetDataLengthForInterleavedBlock(b+1), si.GetErrorLengthForInterleavedBlock(b+1))
			}
		}
		for n := 0; n < 3; n++ {
			data := randomData(rng, s.DataCW)
			got, err := libenc.ErrorCorrection_EncodeECC200(data, si)
			if err != nil {
				t.Fatalf("%v: %v", s, err)
			}
			plain := Codewords(data, s)
			if !bytes.Equal(got, plain) {
				t.Errorf("%v: library ECC differs from plain interleave", s)
			}
			if s.Rows == 144 && n == 0 {
				// known issue (a): the library's encoder uses the plain rule
				// for 144x144 while its decoder expects the skewed one
				t.Logf("144x144: library encoder == plain rule: %v, == skewed rule: %v",
					bytes.Equal(got, plain), bytes.Equal(got, CodewordsSkewed144(data, s)))
			}
		}
	}
}

func TestLibPlacement(t *testing.T) {
	rng := rand.New(rand.NewSource(3))
	for _, s := range Symbols {
		R, C := s.MappingRows(), s.MappingCols()
		all := randomData(rng, s.TotalCW())
		p := libenc.NewDefaultPlacement(all, C, R)
		p.Place()
		cw, fixed := PlacementMap(R, C)
		want := make([][]bool, R)
		for r := range want {
			want[r] = make([]bool, C)
		}
		for i := range cw {
			for k := 0; k < 8; k++ {
				want[cw[i][k][0]][cw[i][k][1]] = all[i]&(0x80>>uint(k)) != 0
			}
		}
		for _, f := range fixed {
			want[f[0]][f[1]] = true
		}
		for r := 0; r < R; r++ {
			for c := 0; c < C; c++ {
				if p.GetBit(c, r) != want[r][c] {
					t.Fatalf("%v: placement differs at mapping (%d,%d)", s, r, c)
				}
			}
		}
	}
}

func TestLibWriter(t *testing.T) {
	w := datamatrix.NewDataMatrixWriter()
	covered := map[Symbol]int{}
	check := func(text string, hints map[gozxing.EncodeHintType]interface{}) {
		bm, err := w.Encode(text, gozxing.BarcodeFormat_DATA_MATRIX, 0, 0, hints)
		if err != nil {
			t.Errorf("writer(%q): %v", text, err)
			return
		}
		m := fromBitMatrix(bm)
		all, s, err := ReadCodewords(m)
		if err != nil {
			t.Errorf("writer(%q): %v", text, err)
			return
		}
		covered[s]++
		if err := CheckBorders(m, s); err != nil {
			t.Errorf("writer(%q) %v: %v", text, s, err)
		}
		data := all[:s.DataCW]
		if !bytes.Equal(all, Codewords(data, s)) {
			t.Errorf("writer(%q) %v: ecc differs from plain rule", text, s)
		}
		mine := Build(all, s)
		for r := range m {
			for c := range m[r] {
				if m[r][c] != mine[r][c] {
					t.Fatalf("writer(%q) %v: module (%d,%d) differs", text, s, r, c)
				}
			}
		}
		got, pad, err := DecodeStreamPad(data)
		if err != nil || got != text {
			t.Errorf("writer(%q) %v: data codewords %v decode to %q, %v", text, s, data, got, err)
		} else if !bytes.Equal(data, PadStream(data[:pad], len(data))) {
			t.Errorf("writer(%q) %v: bad padding in %v", text, s, data)
		}
	}
	// a text that stays in ASCII encodation: one codeword per character
	unit := "aB!c,D?e"
	for _, s := range Symbols {
		text := strings.Repeat(unit, s.DataCW/len(unit)+1)[:s.DataCW]
		shape := libenc.SymbolShapeHint_FORCE_SQUARE
		if s.Rect {
			shape = libenc.SymbolShapeHint_FORCE_RECTANGLE
		}
		check(text, map[gozxing.EncodeHintType]interface{}{gozxing.EncodeHintType_DATA_MATRIX_SHAPE: shape})
		check(text[:len(text)-1], nil)
	}
	check("123456", nil)
	check("Hello, World! 0123456789 ABCDEFGHIJKLMNOPQRSTUVWXYZ", nil)
	missing := []string{}
	for _, s := range Symbols {
		if covered[s] == 0 {
			missing = append(missing, s.String())
		}
	}
	if len(missing) > 0 {
		t.Errorf("writer never produced sizes %v", missing)
	}
}

func TestLibDecoderOnReferenceSymbols(t *testing.T) {
	rng := rand.New(rand.NewSource(4))
	dec := libdec.NewDecoder()
	for _, s := range Symbols {
		for n := 0; n < 4; n++ {
			// ASCII-only data: codeword v+1 is character v (0..127), but stay
			// printable so the expected text is obvious
			data := make([]byte, s.DataCW)
			want := make([]byte, s.DataCW)
			for i := range data {
				ch := byte('a' + rng.Intn(26))
				want[i] = ch
				data[i] = ch + 1
			}
			all := CodewordsSkewed144(data, s)
			m := Build(all, s)
			// corrupt up to floor(ec/2) codewords in every block
			if n > 0 {
				nb := s.Blocks
				for b := 0; b < nb; b++ {
					nerr := s.ECPerBlock() / 2
					if n == 1 {
						nerr = 1
					}
					// codeword indices belonging to block b under the skewed rule
					var idx []int
					for i := b; i < s.DataCW; i += nb {
						idx = append(idx, i)
					}
					off := b
					if s.Rows == 144 {
						off = (b + 2) % 10
					}
					for k := 0; k < s.ECPerBlock(); k++ {
						idx = append(idx, s.DataCW+off+k*nb)
					}
					rng.Shuffle(len(idx), func(i, j int) { idx[i], idx[j] = idx[j], idx[i] })
					for _, i := range idx[:nerr] {
						flip := byte(1 + rng.Intn(255))
						for k := 0; k < 8; k++ {
							if flip&(0x80>>uint(k)) != 0 {
								p := ModulePositions(s)[i][k]
								m[p[0]][p[1]] = !m[p[0]][p[1]]
							}
						}
					}
				}
			}
			res, err := dec.Decode(toBitMatrix(t, m))
			if err != nil {
				t.Errorf("%v (variant %d): library decoder failed on reference symbol: %v", s, n, err)
				continue
			}
			if res.GetText() != string(want) {
				t.Errorf("%v (variant %d): library decoded %q, want %q", s, n, res.GetText(), want)
			}
		}
	}
	// known issue (a), seen from the other side: a 144x144 symbol with the
	// plain ecc placement (what the library's own writer produces)
	s := Symbols[29]
	data := bytes.Repeat([]byte{'a' + 1}, s.DataCW)
	_, err := dec.Decode(toBitMatrix(t, Build(Codewords(data, s), s)))
	t.Logf("144x144 with plain (unskewed) ecc through the library decoder: err = %v", err)
	if err == nil {
		t.Logf("NOTE: library decoder now accepts the plain 144x144 layout")
	}
}

// libStream runs the library's stream decoder, converting panics to errors.
func libStream(cw []byte) (text string, err error) {
	defer func() {
		if r := recover(); r != nil {
			err = fmt.Errorf("PANIC: %v", r)
		}
	}()
	res, e := libdec.DecodedBitStreamParser_decode(append([]byte(nil), cw...))
	if e != nil {
		return "", e
	}
	return res.GetText(), nil
}

// sameText compares the reference text with the library's, tolerating known
// issue (b): the library emits some characters >= 128 as one raw Latin-1 byte
// instead of their UTF-8 encoding (and mixes both forms in one string).
func sameText(ref, lib string) (equal, onlyIssueB bool) {
	if ref == lib {
		return true, false
	}
	return matchLoose([]rune(ref), lib), true
}

func matchLoose(ref []rune, lib string) bool {
	if len(ref) == 0 {
		return lib == ""
	}
	r := ref[0]
	if u := string(r); strings.HasPrefix(lib, u) && matchLoose(ref[1:], lib[len(u):]) {
		return true
	}
	if r >= 128 && lib != "" && lib[0] == byte(r) {
		return matchLoose(ref[1:], lib[1:])
	}
	return false
}

// randomValidStream draws a structurally valid data codeword stream that
// fills a symbol of capacity n.
func randomValidStream(rng *rand.Rand, n int) []byte {
	var out []byte
	room := func() int { return n - len(out) }
	for room() > 0 {
		switch rng.Intn(10) {
		case 0, 1: // ASCII characters
			out = append(out, byte(1+rng.Intn(128)))
		case 2: // digit pair
			out = append(out, byte(130+rng.Intn(100)))
		case 3: // upper shift
			if room() >= 2 {
				out = append(out, 235, byte(1+rng.Intn(128)))
			}
		case 4, 5: // C40 / Text
			k := 1 + rng.Intn(3)
			if room() < 1+2*k+1 {
				continue
			}
			out = append(out, []byte{230, 239}[rng.Intn(2)])
			for ; k > 0; k-- {
				// three basic-set values, or shift + value, keeps it valid
				var v [3]int
				switch rng.Intn(4) {
				case 0:
					v = [3]int{3 + rng.Intn(37), 3 + rng.Intn(37), 3 + rng.Intn(37)}
				case 1:
					v = [3]int{0, rng.Intn(32), 3 + rng.Intn(37)}
				case 2:
					v = [3]int{3 + rng.Intn(37), 1, rng.Intn(27)}
				case 3:
					v = [3]int{2, rng.Intn(32), 3 + rng.Intn(37)}
				}
				x := 1600*v[0] + 40*v[1] + v[2] + 1
				out = append(out, byte(x>>8), byte(x))
			}
			if room() != 1 || rng.Intn(2) == 0 {
				if room() > 0 {
					out = append(out, 254)
				}
			}
		case 6: // X12
			k := 1 + rng.Intn(3)
			if room() < 1+2*k+1 {
				continue
			}
			out = append(out, 238)
			for ; k > 0; k-- {
				x := 1600*rng.Intn(40) + 40*rng.Intn(40) + rng.Intn(40) + 1
				out = append(out, byte(x>>8), byte(x))
			}
			if room() > 0 {
				out = append(out, 254)
			}
		case 7: // EDIFACT: some full triplets then an unlatch triplet
			k := rng.Intn(3)
			if room() < 1+3*k+3 {
				continue
			}
			out = append(out, 240)
			var vals []int
			for i := 0; i < 4*k; i++ {
				v := rng.Intn(64)
				if v == 31 {
					v = 32
				}
				vals = append(vals, v)
			}
			tail := rng.Intn(4) // values before the unlatch
			for i := 0; i < tail; i++ {
				v := rng.Intn(64)
				if v == 31 {
					v = 0
				}
				vals = append(vals, v)
			}
			vals = append(vals, 31)
			for len(vals)%4 != 0 {
				vals = append(vals, 0)
			}
			var packed []byte
			for i := 0; i < len(vals); i += 4 {
				x := vals[i]<<18 | vals[i+1]<<12 | vals[i+2]<<6 | vals[i+3]
				packed = append(packed, byte(x>>16), byte(x>>8), byte(x))
			}
			// after the unlatch ASCII resumes at the next codeword boundary
			used := 3*k + []int{1, 2, 3, 3}[tail]
			out = append(out, packed[:used]...)
		case 8: // Base 256 with explicit length
			k := 1 + rng.Intn(6)
			if room() < 2+k {
				continue
			}
			out = append(out, 231)
			out = append(out, Randomize255(byte(k), len(out)+1))
			for ; k > 0; k-- {
				out = append(out, Randomize255(byte(rng.Intn(256)), len(out)+1))
			}
		case 9: // pad out
			out = PadStream(out, n)
		}
	}
	return out
}

func TestLibStreamDecoderRandomValid(t *testing.T) {
	rng := rand.New(rand.NewSource(5))
	issueB, total, diffs := 0, 0, 0
	for iter := 0; iter < 60000; iter++ {
		s := Symbols[rng.Intn(12)]
		cw := randomValidStream(rng, s.DataCW)
		ref, err := DecodeStream(cw)
		if err != nil {
			t.Fatalf("generator produced a stream the model rejects: %v: %v", cw, err)
		}
		total++
		lib, lerr := libStream(cw)
		if lerr != nil {
			diffs++
			if diffs <= 15 {
				t.Errorf("stream %v: model %q, library error %v", cw, ref, lerr)
			}
			continue
		}
		eq, b := sameText(ref, lib)
		if b {
			issueB++
		}
		if !eq {
			diffs++
			if diffs <= 15 {
				t.Errorf("stream %v: model %q, library %q", cw, ref, lib)
			}
		}
	}
	t.Logf("%d valid streams, %d disagreements, %d agree only modulo known issue (b)", total, diffs, issueB)
}

func TestLibStreamDecoderRandomBytes(t *testing.T) {
	// Arbitrary byte strings: when the model accepts, the library must agree.
	// When the model rejects, only tally what the library does.
	rng := rand.New(rand.NewSource(6))
	interesting := []byte{0, 1, 66, 98, 128, 129, 130, 229, 230, 231, 232, 233, 234, 235, 236, 237, 238, 239, 240, 241, 242, 254, 255, 31, 124, 91, 11}
	tally := map[string]int{}
	example := map[string]string{}
	diffs := 0
	for iter := 0; iter < 200000; iter++ {
		n := 1 + rng.Intn(8)
		cw := make([]byte, n)
		for i := range cw {
			if rng.Intn(3) == 0 {
				cw[i] = byte(rng.Intn(256))
			} else {
				cw[i] = interesting[rng.Intn(len(interesting))]
			}
		}
		ref, err := DecodeStream(cw)
		lib, lerr := libStream(cw)
		switch {
		case err == nil && lerr == nil:
			eq, b := sameText(ref, lib)
			if !eq {
				diffs++
				if diffs <= 15 {
					t.Errorf("stream %v: model %q, library %q", cw, ref, lib)
				}
			} else if b {
				tally["agree modulo issue (b)"]++
			} else {
				tally["agree"]++
			}
		case err == nil:
			diffs++
			if diffs <= 15 {
				t.Errorf("stream %v: model %q, library error %v", cw, ref, lerr)
			}
		case lerr != nil && strings.HasPrefix(lerr.Error(), "PANIC"):
			tally["library PANIC on stream the model rejects"]++
			if tally["library PANIC on stream the model rejects"] <= 5 {
				t.Logf("library panic on %v: %v (model: %v)", cw, lerr, err)
			}
		case lerr != nil:
			tally["both reject"]++
		case errors.Is(err, ErrUnsupported):
			tally["model unsupported, library accepts"]++
		default:
			// group by the model's reason with the numbers removed
			reason := strings.TrimPrefix(err.Error(), ErrInvalid.Error()+": ")
			reason = strings.Map(func(r rune) rune {
				if r >= '0' && r <= '9' {
					return -1
				}
				return r
			}, reason)
			key := "model invalid, library accepts: " + reason
			tally[key]++
			if ex, ok := example[key]; !ok || len(cw) < len(ex) {
				example[key] = fmt.Sprintf("%v -> library %q", cw, lib)
			}
		}
	}
	keys := []string{}
	for k := range tally {
		keys = append(keys, k)
	}
	sort.Strings(keys)
	for _, k := range keys {
		t.Logf("%6d  %s", tally[k], k)
		if ex, ok := example[k]; ok {
			t.Logf("            e.g. %s", ex)
		}
	}
	if diffs > 0 {
		t.Logf("%d disagreements on streams the model accepts", diffs)
	}
}

// ---------------------------------------------------------------------------
// library high level encoder -> model stream decoder
// ---------------------------------------------------------------------------

// libHighLevel runs the library's EncodeHighLevel with a watchdog: some
// inputs make it loop forever (finding (e) below).  A hung call leaks a
// spinning goroutine, so callers stop fuzzing after the first few.
func libHighLevel(msg string) (cw []byte, err error) {
	type result struct {
		cw  []byte
		err error
	}
	ch := make(chan result, 1)
	go func() {
		defer func() {
			if r := recover(); r != nil {
				ch <- result{nil, fmt.Errorf("PANIC: %v", r)}
			}
		}()
		cw, err := libenc.EncodeHighLevel(msg, libenc.SymbolShapeHint_FORCE_NONE, nil, nil)
		ch <- result{cw, err}
	}()
	select {
	case r := <-ch:
		return r.cw, r.err
	case <-time.After(5 * time.Second):
		return nil, errHang
	}
}

var errHang = errors.New("HANG: EncodeHighLevel did not return within 5s")

// Outcome of encoding msg with the library and decoding with the model.
type hlOutcome int

const (
	hlOK           hlOutcome = iota
	hlEncoderError           // library returned an error / panicked / hung
	hlEncoderWrong           // output does not represent msg; the library's own stream decoder agrees with the model about that
	hlModelSuspect           // model and library stream decoder disagree about the output: suspect the model
)

// checkHighLevel encodes msg with the library and decodes the result with
// the model.  Whenever the model does not get msg back, the library's own
// stream decoder is consulted as a tie-breaker: if it reads the same (wrong)
// text as the model, the encoder is at fault, not the model.
func checkHighLevel(msg string) (hlOutcome, string) {
	cw, err := libHighLevel(msg)
	if err != nil {
		return hlEncoderError, fmt.Sprintf("encoder error: %v", err)
	}
	if _, ok := SmallestSymbol(len(cw), true, true); !ok || !isCapacity(len(cw)) {
		return hlEncoderWrong, fmt.Sprintf("%d codewords is no symbol capacity: %v", len(cw), cw)
	}
	got, pad, merr := DecodeStreamPad(cw)
	if merr == nil && got == msg {
		if !bytes.Equal(cw, PadStream(cw[:pad], len(cw))) {
			return hlEncoderWrong, fmt.Sprintf("codewords %v: bad padding from index %d", cw, pad)
		}
		return hlOK, ""
	}
	lib, lerr := libStream(cw)
	desc := fmt.Sprintf("codewords %v: model reads %q, %v; library decoder reads %q, %v", cw, got, merr, lib, lerr)
	if merr != nil && lerr != nil {
		return hlEncoderWrong, desc
	}
	if merr == nil && lerr == nil {
		if eq, _ := sameText(got, lib); eq {
			return hlEncoderWrong, desc
		}
	}
	return hlModelSuspect, desc
}

func isCapacity(n int) bool {
	for _, s := range Symbols {
		if s.DataCW == n {
			return true
		}
	}
	return false
}

// classifyEncoderDefect names the known signatures.
func classifyEncoderDefect(msg string) string {
	switch {
	case isBase256ExactFill(msg):
		return "(c) Base 256 exact fill"
	case isEdifactEarlyEnd(msg):
		return "(d) EDIFACT ended without unlatch"
	}
	return "(f) characters dropped / other"
}

type hlTally struct {
	t        *testing.T
	n        int
	byClass  map[string]int
	examples map[string]string
	suspects int
	hangs    int
}

func newTally(t *testing.T) *hlTally {
	return &hlTally{t: t, byClass: map[string]int{}, examples: map[string]string{}}
}

func (h *hlTally) add(msg string) {
	h.n++
	out, desc := checkHighLevel(msg)
	switch out {
	case hlOK:
	case hlModelSuspect:
		h.suspects++
		if h.suspects <= 20 {
			h.t.Errorf("MODEL SUSPECT %q: %s", msg, desc)
		}
	case hlEncoderError:
		class := "(e) encoder error/hang"
		if strings.Contains(desc, "HANG") {
			h.hangs++
		}
		h.byClass[class]++
		if ex, ok := h.examples[class]; !ok || len(msg) < len(ex) {
			h.examples[class] = msg
		}
	case hlEncoderWrong:
		class := classifyEncoderDefect(msg)
		h.byClass[class]++
		if ex, ok := h.examples[class]; !ok || len(msg) < len(ex) {
			h.examples[class] = msg
		}
	}
}

func (h *hlTally) report() {
	h.t.Logf("%d strings, %d model suspects", h.n, h.suspects)
	keys := []string{}
	for k := range h.byClass {
		keys = append(keys, k)
	}
	sort.Strings(keys)
	for _, k := range keys {
		ex := h.examples[k]
		_, desc := checkHighLevel(ex)
		h.t.Logf("library encoder defect %s: %d inputs, shortest %q: %s", k, h.byClass[k], ex, desc)
	}
}

func TestLibHighLevelEncoderShortStrings(t *testing.T) {
	// exhaustive over a small alphabet that reaches every encodation
	alphabet := []rune{'A', 'b', '7', ' ', '*', '\r', '!', '^', '\x00', 'é', 'ÿ', '\x80'}
	tally := newTally(t)
	var rec func(prefix []rune, depth int)
	rec = func(prefix []rune, depth int) {
		if len(prefix) > 0 {
			tally.add(string(prefix))
		}
		if depth == 0 {
			return
		}
		for _, r := range alphabet {
			rec(append(prefix, r), depth-1)
		}
	}
	rec(nil, 4)
	tally.report()
}

func TestLibHighLevelEncoderRuns(t *testing.T) {
	// longer strings made of runs that favour one encodation each
	classes := []string{
		"0123456789",
		"ABCDEFGHIJKLMNOPQRSTUVWXYZ 0123456789",
		"abcdefghijklmnopqrstuvwxyz 0123456789",
		"ABCXYZ019*>\r ",
		"@ABCXYZ[\\]^ !\"#/0189:;<=>?",
		"\x00\x01\x7f\u0080\u0081éñÿ~{}`",
	}
	rng := rand.New(rand.NewSource(7))
	tally := newTally(t)
	for iter := 0; iter < 20000 && tally.hangs < 2; iter++ {
		var msg []rune
		for runs := 1 + rng.Intn(4); runs > 0; runs-- {
			cl := []rune(classes[rng.Intn(len(classes))])
			for k := 1 + rng.Intn(14); k > 0; k-- {
				msg = append(msg, cl[rng.Intn(len(cl))])
			}
		}
		tally.add(string(msg))
	}
	tally.report()
}

// Concrete inputs for the library encoder defects found while validating the
// model; each is logged with what the library produces today.
func TestLibHighLevelEncoderFindings(t *testing.T) {
	for _, c := range []struct{ what, msg string }{
		{"(c) Base 256 exact fill (5 codewords would exactly fill 12x12)", "ééé"},
		{"(d) EDIFACT ended without unlatch, then 2-codeword character", "^1A/AB8Cÿ"},
		{"(f) X12: leading characters dropped", "C]Y XC\rB*9\r>I7"},
		{"(f) X12: characters before a non-X12 character dropped", "**>\r0A1Z9P7GITQ8S=9X0YA\r"},
		{"(f) Text: shift written, character and next one dropped", "mb tpkpuD7R\u0080"},
	} {
		out, desc := checkHighLevel(c.msg)
		if out == hlModelSuspect {
			t.Errorf("%s %q: MODEL SUSPECT: %s", c.what, c.msg, desc)
			continue
		}
		t.Logf("%s\n        %q: outcome %d %s", c.what, c.msg, out, desc)
	}
	// (e) these inputs make EncodeHighLevel loop forever; not executed by
	// default because a hung goroutine cannot be killed
	t.Logf("(e) EncodeHighLevel hangs (not run here) on %q and %q", "\\@^\\[=@/5q  :![0\"3", "A#Y#B1\\*0*Y\r0:C>/@")
}

// isEdifactEarlyEnd recognises finding (d): the library's encoder ended an
// EDIFACT segment without the unlatch value, relying on the "at most two
// codewords left in the symbol" rule, but the remaining characters then
// needed more codewords than that (extended ASCII needs two each), so a
// larger symbol was chosen and the rule no longer applies.  Signature: the
// stream contains an EDIFACT latch and decodes to msg once a single EDIFACT
// unlatch codeword (011111 00 = 0x7C) is inserted at some codeword boundary.
func isEdifactEarlyEnd(msg string) bool {
	cw, err := libHighLevel(msg)
	if err != nil {
		return false
	}
	latch := bytes.IndexByte(cw, 240)
	if latch < 0 {
		return false
	}
	for p := latch + 1; p < len(cw); p++ {
		fixed := append(append(append([]byte(nil), cw[:p]...), 0x7C), cw[p:]...)
		if got, err := DecodeStream(fixed); err == nil && got == msg {
			return true
		}
	}
	return false
}

// isBase256ExactFill recognises known issue (c) from its signature: the
// library wrote a Base 256 length field of 0 ("to the end of the symbol")
// followed by a spurious second length byte 0 and then moved to a larger
// symbol, so the model decodes msg with one extra NUL inserted where the
// Base 256 run starts, followed by the de-randomised padding as garbage.
func isBase256ExactFill(msg string) bool {
	cw, err := libHighLevel(msg)
	if err != nil {
		return false
	}
	got, err := DecodeStream(cw)
	if err != nil {
		return false
	}
	g, m := []rune(got), []rune(msg)
	if len(g) <= len(m)+1 {
		return false
	}
	for k := 0; k <= len(m); k++ {
		if string(g[:k]) == string(m[:k]) && g[k] == 0 && string(g[k+1:len(m)+1]) == string(m[k:]) {
			return true
		}
	}
	return false
}
