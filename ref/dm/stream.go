package dm

import (
	"errors"
	"fmt"
	"strings"
)

// Pad253 returns the pad codeword (129) randomised with the 253-state
// algorithm for the 1-based codeword position pos.  (The first pad codeword
// after the data is a plain 129; only the following ones are randomised.)
func Pad253(position int) byte {
	v := 129 + (149*position)%253 + 1
	if v > 254 {
		v -= 254
	}
	return byte(v)
}

// Randomize255 applies the 255-state randomising algorithm used for every
// Base 256 codeword after the latch (length field included); position is the
// 1-based position of the codeword in the data codeword stream.
func Randomize255(v byte, position int) byte {
	t := int(v) + (149*position)%255 + 1
	if t > 255 {
		t -= 256
	}
	return byte(t)
}

// UnRandomize255 inverts Randomize255.
func UnRandomize255(v byte, position int) byte {
	t := int(v) - ((149*position)%255 + 1)
	if t < 0 {
		t += 256
	}
	return byte(t)
}

// PadStream fills data up to capacity codewords the way an encoder must:
// first pad 129, the following ones Pad253(position).  It returns a new
// slice; data longer than capacity is returned unchanged (copied).
func PadStream(data []byte, capacity int) []byte {
	out := append([]byte(nil), data...)
	for len(out) < capacity {
		if len(out) == len(data) {
			out = append(out, 129)
		} else {
			out = append(out, Pad253(len(out)+1))
		}
	}
	return out
}

// Errors returned (wrapped) by DecodeStream.
var (
	// ErrUnsupported: the stream uses a feature this model deliberately does
	// not interpret (ECI, Structured Append, Reader Programming).
	ErrUnsupported = errors.New("dm: unsupported feature")
	// ErrInvalid: the stream is not a valid ECC 200 data codeword sequence.
	ErrInvalid = errors.New("dm: invalid codeword stream")
)

func invalid(format string, a ...interface{}) error {
	return fmt.Errorf("%w: %s", ErrInvalid, fmt.Sprintf(format, a...))
}

const (
	cwPad        = 129
	cwLatchC40   = 230
	cwLatchB256  = 231
	cwFNC1       = 232
	cwStructApp  = 233
	cwReaderProg = 234
	cwUpperShift = 235
	cwMacro05    = 236
	cwMacro06    = 237
	cwLatchX12   = 238
	cwLatchText  = 239
	cwLatchEdf   = 240
	cwECI        = 241
	cwUnlatch    = 254

	gs = 0x1D // what FNC1 is reported as
)

type streamDecoder struct {
	cw  []byte
	i   int    // index of the next codeword to read
	out []rune // decoded characters, each 0..255
}

func (d *streamDecoder) remaining() int { return len(d.cw) - d.i }

func (d *streamDecoder) emit(v int) {
	if v < 0 || v > 255 {
		panic("dm: character value out of range")
	}
	d.out = append(d.out, rune(v))
}

// DecodeStream is a decoder-side model of the data codeword stream of one
// symbol.  dataCodewords must be the COMPLETE data region of the symbol
// (length DataCW, padding included) because several rules depend on the
// distance to the end of the symbol.
//
// Output: each decoded Data Matrix character value 0..255 becomes the rune
// with that value (default interpretation ISO 8859-1 -> Unicode).  FNC1 is
// reported as GS (0x1D).  Macro 05/06 expand to their header and trailer.
//
// Strictness.  The model accepts exactly what the standard allows and
// reports everything else as ErrInvalid, in particular:
//   - codeword 0 and 242..255 in ASCII encodation (254 is only an unlatch
//     inside C40/Text/X12, where it is also accepted as the very last
//     codeword of the symbol; EDIFACT uses its own 6-bit unlatch);
//   - Upper Shift (235) not followed by a codeword 1..128, or pending at the
//     end of a C40/Text segment or of the stream;
//   - Macro codewords anywhere but in the first position;
//   - C40/Text/X12 pairs whose value is outside 1..64000, C40/Text shift
//     values without a character assignment;
//   - a Base 256 length that runs past the end of the symbol, or a two-byte
//     length field whose second byte is 250 or more.
//
// ECI (241), Structured Append (233) and Reader Programming (234) give
// ErrUnsupported.  What follows the first pad codeword is not examined.
// A dangling C40/Text shift at the end of a segment is accepted (encoders pad
// the last triplet with Shift 1).
func DecodeStream(dataCodewords []byte) (string, error) {
	text, _, err := DecodeStreamPad(dataCodewords)
	return text, err
}

// DecodeStreamPad is DecodeStream that additionally reports padStart, the
// index of the first pad codeword (129 read in ASCII encodation), or
// len(dataCodewords) if the data runs to the end of the symbol.  An encoder's
// output cw is correctly padded iff
// bytes.Equal(cw, PadStream(cw[:padStart], len(cw))).
func DecodeStreamPad(dataCodewords []byte) (text string, padStart int, err error) {
	d := &streamDecoder{cw: dataCodewords}
	trailer := ""
	padStart = len(dataCodewords)
	for d.remaining() > 0 {
		c := int(d.cw[d.i])
		d.i++
		var err error
		switch {
		case c == 0:
			err = invalid("codeword 0 at %d", d.i-1)
		case c <= 128:
			d.emit(c - 1)
		case c == cwPad:
			padStart = d.i - 1
			d.i = len(d.cw) // end of data
		case c <= 229:
			d.emit('0' + (c-130)/10)
			d.emit('0' + (c-130)%10)
		case c == cwLatchC40:
			err = d.c40(setC40)
		case c == cwLatchText:
			err = d.c40(setText)
		case c == cwLatchX12:
			err = d.c40(setX12)
		case c == cwLatchEdf:
			err = d.edifact()
		case c == cwLatchB256:
			err = d.base256()
		case c == cwFNC1:
			d.emit(gs)
		case c == cwUpperShift:
			if d.remaining() == 0 {
				err = invalid("upper shift at end of stream")
				break
			}
			n := int(d.cw[d.i])
			d.i++
			if n < 1 || n > 128 {
				err = invalid("upper shift followed by codeword %d", n)
				break
			}
			d.emit(n - 1 + 128)
		case c == cwMacro05 || c == cwMacro06:
			if d.i != 1 {
				err = invalid("macro codeword at position %d", d.i)
				break
			}
			for _, b := range []byte("[)>\x1E0") {
				d.emit(int(b))
			}
			d.emit('5' + c - cwMacro05)
			d.emit(gs)
			trailer = "\x1E\x04"
		case c == cwStructApp:
			err = fmt.Errorf("%w: structured append", ErrUnsupported)
		case c == cwReaderProg:
			err = fmt.Errorf("%w: reader programming", ErrUnsupported)
		case c == cwECI:
			err = fmt.Errorf("%w: ECI", ErrUnsupported)
		default: // 242..255
			err = invalid("codeword %d in ASCII encodation at %d", c, d.i-1)
		}
		if err != nil {
			return "", 0, err
		}
	}
	var sb strings.Builder
	for _, r := range d.out {
		sb.WriteRune(r)
	}
	sb.WriteString(trailer)
	return sb.String(), padStart, nil
}

type c40Set int

const (
	setC40 c40Set = iota
	setText
	setX12
)

// basicChar gives the character of a basic-set value 3..39 for C40 / Text.
func basicChar(set c40Set, v int) int {
	switch {
	case v == 3:
		return ' '
	case v <= 13:
		return '0' + v - 4
	case set == setC40:
		return 'A' + v - 14
	default:
		return 'a' + v - 14
	}
}

func x12Char(v int) int {
	switch {
	case v == 0:
		return '\r'
	case v == 1:
		return '*'
	case v == 2:
		return '>'
	case v == 3:
		return ' '
	case v <= 13:
		return '0' + v - 4
	default:
		return 'A' + v - 14
	}
}

// c40 decodes a C40, Text or ANSI X12 segment starting right after the latch
// and returns with d.i at the first codeword to be read in ASCII encodation.
func (d *streamDecoder) c40(set c40Set) error {
	shift := 0     // 0 = basic set, 1..3 = pending shift
	upper := false // pending upper shift
	leave := func() error {
		if upper {
			return invalid("upper shift pending at end of C40/Text segment")
		}
		return nil
	}
	for {
		if d.remaining() == 0 {
			return leave()
		}
		// An explicit unlatch.  This test comes before the "one codeword
		// left" rule on purpose: 254 has no meaning in ASCII encodation, so
		// a 254 in the very last position can only be an unlatch (encoders
		// following "in all other cases unlatch, then pad" emit it when the
		// data ends one codeword before the end of the symbol).
		if d.cw[d.i] == cwUnlatch {
			d.i++
			return leave()
		}
		if d.remaining() == 1 {
			// a single codeword left in the symbol is ASCII encoded,
			// no unlatch required
			return leave()
		}
		full := int(d.cw[d.i])<<8 | int(d.cw[d.i+1])
		d.i += 2
		if full < 1 || full > 64000 {
			return invalid("C40/Text/X12 pair value %d", full)
		}
		full--
		vals := [3]int{full / 1600, full / 40 % 40, full % 40}
		for _, v := range vals {
			if set == setX12 {
				d.emit(x12Char(v))
				continue
			}
			ch := -1 // character produced by this value, if any
			switch shift {
			case 0:
				if v < 3 {
					shift = v + 1
					continue
				}
				ch = basicChar(set, v)
			case 1:
				if v > 31 {
					return invalid("shift 1 value %d", v)
				}
				ch = v
			case 2:
				switch {
				case v <= 14:
					ch = '!' + v
				case v <= 21:
					ch = ':' + v - 15
				case v <= 26:
					ch = '[' + v - 22
				case v == 27:
					ch = gs // FNC1
				case v == 30:
					if upper {
						return invalid("two upper shifts in a row")
					}
					upper = true
				default:
					return invalid("shift 2 value %d", v)
				}
			case 3:
				if v > 31 {
					return invalid("shift 3 value %d", v)
				}
				ch = 96 + v
				if set == setText {
					// Text swaps the cases: shift 3 holds ` A-Z { | } ~ DEL
					if v >= 1 && v <= 26 {
						ch = 'A' + v - 1
					}
				}
			}
			shift = 0
			if ch >= 0 {
				if upper {
					ch += 128
					upper = false
				}
				d.emit(ch)
			}
		}
	}
}

// edifact decodes an EDIFACT segment: four 6-bit values per three codewords.
func (d *streamDecoder) edifact() error {
	for {
		// With fewer than three codewords left in the symbol, they are
		// ASCII encoded without an unlatch.
		if d.remaining() <= 2 {
			return nil
		}
		b0, b1, b2 := int(d.cw[d.i]), int(d.cw[d.i+1]), int(d.cw[d.i+2])
		vals := [4]int{b0 >> 2, (b0&3)<<4 | b1>>4, (b1&15)<<2 | b2>>6, b2 & 63}
		// number of codewords consumed when the unlatch is value k: ASCII
		// resumes at the next codeword boundary
		consumed := [4]int{1, 2, 3, 3}
		for k, v := range vals {
			if v == 0x1F {
				d.i += consumed[k]
				return nil
			}
			if v&0x20 == 0 {
				v |= 0x40 // 0..30 -> '@'..'^'
			}
			d.emit(v) // else 32..63 -> ' '..'?'
		}
		d.i += 3
	}
}

// base256 decodes a Base 256 segment; d.i is at the length field.
func (d *streamDecoder) base256() error {
	next := func() (int, error) {
		if d.remaining() == 0 {
			return 0, invalid("Base 256 field runs past the end of the symbol")
		}
		v := UnRandomize255(d.cw[d.i], d.i+1)
		d.i++
		return int(v), nil
	}
	d1, err := next()
	if err != nil {
		return err
	}
	var count int
	switch {
	case d1 == 0:
		count = d.remaining() // to the end of the symbol
	case d1 < 250:
		count = d1
	default:
		d2, err := next()
		if err != nil {
			return err
		}
		count = 250*(d1-249) + d2
		if d2 >= 250 {
			return invalid("Base 256 length field %d,%d", d1, d2)
		}
	}
	if count > d.remaining() {
		return invalid("Base 256 length %d but only %d codewords remain", count, d.remaining())
	}
	for k := 0; k < count; k++ {
		v, _ := next()
		d.emit(v)
	}
	return nil
}
