package dm

import (
	"bytes"
	"errors"
	"math/rand"
	"reflect"
	"sync"
	"testing"
)

// ---------------------------------------------------------------------------
// 1. table invariants
// ---------------------------------------------------------------------------

func TestSymbolTable(t *testing.T) {
	if len(Symbols) != 30 {
		t.Fatalf("got %d symbols", len(Symbols))
	}
	wantCaps := []int{3, 5, 5, 8, 10, 12, 16, 18, 22, 22, 30, 32, 36, 44, 49, 62, 86, 114, 144, 174, 204, 280, 368, 456, 576, 696, 816, 1050, 1304, 1558}
	// every legal ecc-per-block value of Table 7 (11 is 8x32, 62 is 132/144)
	okEC := map[int]bool{5: true, 7: true, 10: true, 11: true, 12: true, 14: true, 18: true, 20: true, 24: true, 28: true, 36: true, 42: true, 48: true, 56: true, 62: true, 68: true}
	okBlocks := map[int]bool{1: true, 2: true, 4: true, 6: true, 8: true, 10: true}
	nRect := 0
	for i, s := range Symbols {
		if s.DataCW != wantCaps[i] {
			t.Errorf("%v: capacity %d, want %d", s, s.DataCW, wantCaps[i])
		}
		if i > 0 {
			p := Symbols[i-1]
			if p.DataCW > s.DataCW || p.DataCW == s.DataCW && !(s.Rect && !p.Rect) {
				t.Errorf("%v after %v: bad order", s, p)
			}
		}
		if s.Rows != s.VRegions*(s.RegionRows+2) || s.Cols != s.HRegions*(s.RegionCols+2) {
			t.Errorf("%v: size does not match regions", s)
		}
		if s.Rect != (s.Rows != s.Cols) {
			t.Errorf("%v: Rect flag", s)
		}
		if s.Rect {
			nRect++
		}
		bits := s.MappingRows() * s.MappingCols()
		total := s.DataCW + s.ECCW
		if bits/8 != total {
			t.Errorf("%v: mapping holds %d codewords, table says %d", s, bits/8, total)
		}
		if rem := bits % 8; rem != 0 && rem != 4 {
			t.Errorf("%v: remainder %d bits", s, rem)
		}
		if !okBlocks[s.Blocks] || s.ECCW%s.Blocks != 0 || !okEC[s.ECCW/s.Blocks] {
			t.Errorf("%v: blocks=%d ecc=%d", s, s.Blocks, s.ECCW)
		}
		sum := 0
		for _, n := range s.BlockDataSizes() {
			sum += n
			if n+s.ECPerBlock() > 255 {
				t.Errorf("%v: block longer than 255", s)
			}
		}
		if sum != s.DataCW {
			t.Errorf("%v: block sizes sum to %d", s, sum)
		}
		if got, ok := SymbolBySize(s.Rows, s.Cols); !ok || got != s {
			t.Errorf("%v: SymbolBySize", s)
		}
	}
	if nRect != 6 {
		t.Errorf("%d rectangular symbols", nRect)
	}
	last := Symbols[29]
	if last.Rows != 144 || last.DataCW != 1558 || last.ECCW != 620 || last.Blocks != 10 {
		t.Errorf("144x144: %+v", last)
	}
	if got := last.BlockDataSizes(); !reflect.DeepEqual(got, []int{156, 156, 156, 156, 156, 156, 156, 156, 155, 155}) {
		t.Errorf("144x144 block sizes %v", got)
	}
	s32, _ := SymbolBySize(32, 32)
	if s32.RegionRows != 14 || s32.RegionCols != 14 || s32.HRegions != 2 || s32.VRegions != 2 {
		t.Errorf("32x32: %+v", s32)
	}
	s832, _ := SymbolBySize(8, 32)
	if s832.RegionRows != 6 || s832.RegionCols != 14 || s832.HRegions != 2 || s832.VRegions != 1 {
		t.Errorf("8x32: %+v", s832)
	}
}

// ---------------------------------------------------------------------------
// 2./3. Reed-Solomon
// ---------------------------------------------------------------------------

func TestGFBasics(t *testing.T) {
	// 2 generates the multiplicative group: order exactly 255
	x := byte(1)
	seen := map[byte]bool{}
	for i := 0; i < 255; i++ {
		if seen[x] {
			t.Fatalf("2^%d repeats", i)
		}
		seen[x] = true
		x = gfMul(x, 2)
	}
	if x != 1 {
		t.Fatalf("2^255 = %d", x)
	}
	if gfMul(0x80, 2) != 0x2D {
		t.Errorf("reduction: 0x80*2 = %#x", gfMul(0x80, 2))
	}
	// commutative, distributive, identities on a sample
	for a := 0; a < 256; a++ {
		if gfMul(byte(a), 1) != byte(a) || gfMul(byte(a), 0) != 0 {
			t.Fatalf("identity/zero for %d", a)
		}
		for b := 0; b < 256; b += 7 {
			if gfMul(byte(a), byte(b)) != gfMul(byte(b), byte(a)) {
				t.Fatalf("not commutative %d %d", a, b)
			}
			c := byte(a*31 + b)
			if gfMul(byte(a), byte(b)^c) != gfMul(byte(a), byte(b))^gfMul(byte(a), c) {
				t.Fatalf("not distributive %d %d", a, b)
			}
		}
	}
}

func TestGenerator(t *testing.T) {
	if got := Generator(5); !bytes.Equal(got, []byte{228, 48, 15, 111, 62}) {
		t.Errorf("Generator(5) = %v", got)
	}
	// x^7 + 254x^6 + 92x^5 + 240x^4 + 134x^3 + 144x^2 + 68x + 23
	if got := Generator(7); !bytes.Equal(got, []byte{23, 68, 144, 134, 240, 92, 254}) {
		t.Errorf("Generator(7) = %v", got)
	}
	// every generator vanishes at 2^1..2^n and nowhere else among 2^0, 2^(n+1)
	for _, n := range []int{5, 7, 10, 11, 12, 14, 18, 20, 24, 28, 36, 42, 48, 56, 62, 68} {
		g := Generator(n)
		if len(g) != n {
			t.Fatalf("Generator(%d) has %d coefficients", n, len(g))
		}
		// constant term = product of the roots = 2^(1+2+...+n);
		// x^(n-1) coefficient = sum of the roots
		prod, sum, r := byte(1), byte(0), byte(1)
		for i := 1; i <= n; i++ {
			r = gfMul(r, 2)
			prod = gfMul(prod, r)
			sum ^= r
		}
		if g[0] != prod || g[n-1] != sum {
			t.Errorf("Generator(%d): constant %d want %d, x^(n-1) %d want %d", n, g[0], prod, g[n-1], sum)
		}
		eval := func(x byte) byte {
			acc := byte(1) // monic
			for k := n - 1; k >= 0; k-- {
				acc = gfMul(acc, x) ^ g[k]
			}
			return acc
		}
		root := byte(1)
		if eval(root) == 0 {
			t.Errorf("g%d(1) == 0", n)
		}
		for i := 1; i <= n; i++ {
			root = gfMul(root, 2)
			if eval(root) != 0 {
				t.Errorf("g%d(2^%d) != 0", n, i)
			}
		}
		if eval(gfMul(root, 2)) == 0 {
			t.Errorf("g%d(2^%d) == 0", n, n+1)
		}
	}
}

func TestKnownVector123456(t *testing.T) {
	// ISO/IEC 16022 worked example: "123456" -> 142 164 186 + 114 25 5 88 102
	data := []byte{142, 164, 186}
	if got, err := DecodeStream(data); err != nil || got != "123456" {
		t.Errorf("DecodeStream = %q, %v", got, err)
	}
	if got := RSParity(data, 5); !bytes.Equal(got, []byte{114, 25, 5, 88, 102}) {
		t.Errorf("RSParity = %v", got)
	}
	s := Symbols[0]
	all := Codewords(data, s)
	if !bytes.Equal(all, []byte{142, 164, 186, 114, 25, 5, 88, 102}) {
		t.Errorf("Codewords = %v", all)
	}
	m := Build(all, s)
	// The symbol as printed in the standard / on Wikipedia-like renderings,
	// derived here by hand from Annex F for the 8x8 mapping matrix would be
	// circular; instead check structure and the round trip.
	if err := CheckBorders(m, s); err != nil {
		t.Error(err)
	}
	back, s2, err := ReadCodewords(m)
	if err != nil || s2 != s || !bytes.Equal(back, all) {
		t.Errorf("round trip: %v %v %v", back, s2, err)
	}
}

// deinterleave splits a full codeword sequence into RS blocks (data+parity),
// attributing ECC interleave offset j to block (j+eccShift) mod Blocks.
func deinterleave(all []byte, s Symbol, eccShift int) [][]byte {
	blocks := make([][]byte, s.Blocks)
	for i := 0; i < s.DataCW; i++ {
		blocks[i%s.Blocks] = append(blocks[i%s.Blocks], all[i])
	}
	for i := 0; i < s.ECCW; i++ {
		b := (i%s.Blocks + eccShift) % s.Blocks
		blocks[b] = append(blocks[b], all[s.DataCW+i])
	}
	return blocks
}

func allZero(b []byte) bool {
	for _, v := range b {
		if v != 0 {
			return false
		}
	}
	return true
}

func randomData(rng *rand.Rand, n int) []byte {
	d := make([]byte, n)
	for i := range d {
		d[i] = byte(rng.Intn(256))
	}
	return d
}

func TestCodewordsSyndromes(t *testing.T) {
	rng := rand.New(rand.NewSource(1))
	for _, s := range Symbols {
		data := randomData(rng, s.DataCW)
		plain := Codewords(data, s)
		skew := CodewordsSkewed144(data, s)
		if len(plain) != s.TotalCW() || !bytes.Equal(plain[:s.DataCW], data) {
			t.Fatalf("%v: data part", s)
		}
		for b, blk := range deinterleave(plain, s, 0) {
			if len(blk) != s.BlockDataSizes()[b]+s.ECPerBlock() {
				t.Errorf("%v: block %d length %d", s, b, len(blk))
			}
			if !allZero(Syndromes(blk, s.ECPerBlock())) {
				t.Errorf("%v: plain block %d has non-zero syndromes", s, b)
			}
		}
		if s.Rows == 144 {
			if bytes.Equal(plain, skew) {
				t.Errorf("144: skewed == plain")
			}
			for b, blk := range deinterleave(skew, s, 8) {
				if !allZero(Syndromes(blk, s.ECPerBlock())) {
					t.Errorf("144: skewed block %d has non-zero syndromes under (j+8)%%10", b)
				}
			}
			// the same multiset of parity columns, rotated by two
			for j := 0; j < s.ECCW; j++ {
				b, k := j%10, j/10
				if skew[s.DataCW+(b+2)%10+k*10] != plain[s.DataCW+j] {
					t.Fatalf("144: ecc offset %d not rotated by 2", j)
				}
			}
			// and reading a skewed symbol with the plain rule must fail
			bad := 0
			for _, blk := range deinterleave(skew, s, 0) {
				if !allZero(Syndromes(blk, s.ECPerBlock())) {
					bad++
				}
			}
			if bad == 0 {
				t.Errorf("144: skewed symbol also valid under the plain rule")
			}
		} else if !bytes.Equal(plain, skew) {
			t.Errorf("%v: CodewordsSkewed144 differs", s)
		}
		// a single corrupted codeword must break exactly one block
		i := rng.Intn(len(plain))
		plain[i] ^= byte(1 + rng.Intn(255))
		bad := 0
		for _, blk := range deinterleave(plain, s, 0) {
			if !allZero(Syndromes(blk, s.ECPerBlock())) {
				bad++
			}
		}
		if bad != 1 {
			t.Errorf("%v: one error broke %d blocks", s, bad)
		}
	}
}

// ---------------------------------------------------------------------------
// placement / matrix
// ---------------------------------------------------------------------------

func TestPlacementCoversMatrix(t *testing.T) {
	for _, s := range Symbols {
		R, C := s.MappingRows(), s.MappingCols()
		cw, fixed := PlacementMap(R, C)
		if len(cw) != s.TotalCW() {
			t.Errorf("%v: %d codewords placed, want %d", s, len(cw), s.TotalCW())
			continue
		}
		seen := make([]int, R*C)
		for i := range cw {
			for k := 0; k < 8; k++ {
				r, c := cw[i][k][0], cw[i][k][1]
				if r < 0 || r >= R || c < 0 || c >= C {
					t.Fatalf("%v: cw %d bit %d out of range", s, i, k)
				}
				seen[r*C+c]++
			}
		}
		free := 0
		for _, n := range seen {
			if n > 1 {
				t.Fatalf("%v: module used %d times", s, n)
			}
			if n == 0 {
				free++
			}
		}
		wantFree := R * C % 8
		if free != wantFree {
			t.Errorf("%v: %d free modules, want %d", s, free, wantFree)
		}
		if wantFree == 4 {
			if len(fixed) != 2 || fixed[0] != [2]int{R - 1, C - 1} || fixed[1] != [2]int{R - 2, C - 2} {
				t.Errorf("%v: fixed pattern %v", s, fixed)
			}
			for _, p := range [][2]int{{R - 1, C - 1}, {R - 2, C - 2}, {R - 1, C - 2}, {R - 2, C - 1}} {
				if seen[p[0]*C+p[1]] != 0 {
					t.Errorf("%v: corner module %v carries data", s, p)
				}
			}
		} else if fixed != nil {
			t.Errorf("%v: unexpected fixed pattern", s)
		}
		// The first anchor is (4,0).  Only for the 6x28 mapping matrix (8x32)
		// does a corner case (corner 3, since rows-2 == 4 and cols%8 == 4)
		// fire before it; everywhere else codeword 0 is the utah at (4,0).
		if R == 6 && C%8 == 4 {
			if cw[0] != [8][2]int{{3, 0}, {4, 0}, {5, 0}, {0, C - 2}, {0, C - 1}, {1, C - 1}, {2, C - 1}, {3, C - 1}} {
				t.Errorf("%v: codeword 0 = %v, want corner 3", s, cw[0])
			}
		} else if cw[0][7] != [2]int{4, 0} {
			t.Errorf("%v: codeword 0 LSB at %v", s, cw[0][7])
		}
	}
}

// The 8x8 mapping matrix of the 10x10 symbol, written out by hand from
// figure F.1 of the standard ("c.b" = codeword c, bit b, bit 1 = MSB).
func TestPlacement8x8Literal(t *testing.T) {
	want := [8][8]string{
		{"2.1", "2.2", "3.6", "3.7", "3.8", "4.3", "4.4", "4.5"},
		{"2.3", "2.4", "2.5", "5.1", "5.2", "4.6", "4.7", "4.8"},
		{"2.6", "2.7", "2.8", "5.3", "5.4", "5.5", "1.1", "1.2"},
		{"1.5", "6.1", "6.2", "5.6", "5.7", "5.8", "1.3", "1.4"},
		{"1.8", "6.3", "6.4", "6.5", "8.1", "8.2", "1.6", "1.7"},
		{"7.2", "6.6", "6.7", "6.8", "8.3", "8.4", "8.5", "7.1"},
		{"7.4", "7.5", "3.1", "3.2", "8.6", "8.7", "8.8", "7.3"},
		{"7.7", "7.8", "3.3", "3.4", "3.5", "4.1", "4.2", "7.6"},
	}
	cw, fixed := PlacementMap(8, 8)
	if fixed != nil {
		t.Fatal("8x8 has no fixed pattern")
	}
	var got [8][8]string
	for i := range cw {
		for k := 0; k < 8; k++ {
			p := cw[i][k]
			got[p[0]][p[1]] = string(rune('1'+i)) + "." + string(rune('1'+k))
		}
	}
	if got != want {
		for r := 0; r < 8; r++ {
			t.Logf("got  %v", got[r])
			t.Logf("want %v", want[r])
		}
		t.Error("8x8 placement differs from figure F.1")
	}
}

func TestBuildReadRoundTrip(t *testing.T) {
	for _, s := range Symbols {
		all := make([]byte, s.TotalCW())
		for i := range all {
			all[i] = byte(i*7 + 1) // counting sequence, all byte values
		}
		m := Build(all, s)
		if len(m) != s.Rows || len(m[0]) != s.Cols {
			t.Fatalf("%v: matrix size", s)
		}
		if err := CheckBorders(m, s); err != nil {
			t.Errorf("%v: %v", s, err)
		}
		back, s2, err := ReadCodewords(m)
		if err != nil || s2 != s || !bytes.Equal(back, all) {
			t.Errorf("%v: round trip failed (%v)", s, err)
		}
		// module bookkeeping: borders + 8*codewords + unused corner = area
		pos := ModulePositions(s)
		used := map[[2]int]bool{}
		for i := range pos {
			for k := 0; k < 8; k++ {
				p := pos[i][k]
				if border, _ := s.IsBorder(p[0], p[1]); border {
					t.Fatalf("%v: data module %v on a border", s, p)
				}
				if used[p] {
					t.Fatalf("%v: module %v used twice", s, p)
				}
				used[p] = true
			}
		}
		nBorder := 0
		for r := 0; r < s.Rows; r++ {
			for c := 0; c < s.Cols; c++ {
				if b, _ := s.IsBorder(r, c); b {
					nBorder++
				}
			}
		}
		if nBorder+len(used)+s.MappingRows()*s.MappingCols()%8 != s.Rows*s.Cols {
			t.Errorf("%v: module accounting", s)
		}
		// all-zero and all-ones codewords: only borders / everything dark
		zero := Build(make([]byte, s.TotalCW()), s)
		ones := Build(bytes.Repeat([]byte{255}, s.TotalCW()), s)
		for r := 0; r < s.Rows; r++ {
			for c := 0; c < s.Cols; c++ {
				if used[[2]int{r, c}] && (zero[r][c] || !ones[r][c]) {
					t.Fatalf("%v: data module (%d,%d) not driven by codewords", s, r, c)
				}
			}
		}
	}
}

func TestBorderShape(t *testing.T) {
	s := Symbols[0] // 10x10
	m := Build(make([]byte, 8), s)
	want := []string{
		"#.#.#.#.#.",
		"#........#",
		"#.........",
		"#........#",
		"#.........",
		"#........#",
		"#.........",
		"#........#",
		"#.........",
		"##########",
	}
	for r := range m {
		row := make([]byte, len(m[r]))
		for c := range row {
			row[c] = '.'
			if m[r][c] {
				row[c] = '#'
			}
		}
		if string(row) != want[r] {
			t.Errorf("row %d: %s want %s", r, row, want[r])
		}
	}
	// 32x32: borders at rows/cols 0,15,16,31; second region starts again dark
	s32, _ := SymbolBySize(32, 32)
	for c := 0; c < 32; c++ {
		if b, d := s32.IsBorder(16, c); !b || d != (c%16%2 == 0 || c%16 == 0) {
			// row 16 is the top clock row of the lower regions
			if !(c%16 == 15 && !d) {
				t.Errorf("32x32 (16,%d): border=%v dark=%v", c, b, d)
			}
		}
		if b, d := s32.IsBorder(15, c); !b || !d {
			t.Errorf("32x32 (15,%d) must be solid", c)
		}
	}
}

func TestReadCodewordsErrors(t *testing.T) {
	if _, _, err := ReadCodewords(nil); err == nil {
		t.Error("nil matrix accepted")
	}
	m := make([][]bool, 11)
	for i := range m {
		m[i] = make([]bool, 11)
	}
	if _, _, err := ReadCodewords(m); err == nil {
		t.Error("11x11 accepted")
	}
	m = m[:10]
	if _, _, err := ReadCodewords(m); err == nil {
		t.Error("10x11 accepted")
	}
}

// ---------------------------------------------------------------------------
// randomising, stream decoding
// ---------------------------------------------------------------------------

func TestRandomising(t *testing.T) {
	for pos := 1; pos <= 1600; pos++ {
		p := Pad253(pos)
		if p < 1 || p > 254 {
			t.Fatalf("Pad253(%d) = %d", pos, p)
		}
		for v := 0; v < 256; v++ {
			if UnRandomize255(Randomize255(byte(v), pos), pos) != byte(v) {
				t.Fatalf("255-state round trip v=%d pos=%d", v, pos)
			}
		}
	}
	// hand computed: pos 2: 149*2%253=45 -> 129+45+1 = 175
	if Pad253(2) != 175 {
		t.Errorf("Pad253(2) = %d", Pad253(2))
	}
	// pos 3: 447%253=194 -> 129+195 = 324 -> 70
	if Pad253(3) != 70 {
		t.Errorf("Pad253(3) = %d", Pad253(3))
	}
	// 255-state: pos 2: 298%255=43 -> +44
	if Randomize255(1, 2) != 45 || Randomize255(250, 2) != 38 {
		t.Errorf("Randomize255: %d %d", Randomize255(1, 2), Randomize255(250, 2))
	}
	if got := PadStream([]byte{66}, 3); !bytes.Equal(got, []byte{66, 129, 70}) {
		t.Errorf("PadStream = %v", got)
	}
}

func TestDecodeStreamHandVectors(t *testing.T) {
	b256 := func(start int, vals ...byte) []byte { // randomise vals placed from 0-based index start
		out := make([]byte, len(vals))
		for i, v := range vals {
			out[i] = Randomize255(v, start+i+1)
		}
		return out
	}
	cat := func(parts ...[]byte) []byte { return bytes.Join(parts, nil) }
	cases := []struct {
		name string
		in   []byte
		want string
		err  error
	}{
		{"ascii", []byte{66, 98, 1, 128}, "Aa\x00\x7f", nil},
		{"digits", []byte{130, 229, 142}, "009912", nil},
		{"pad ends", []byte{66, 129, 66, 0, 255}, "A", nil},
		{"upper shift", []byte{235, 1, 235, 128}, "\u0080ÿ", nil},
		{"upper shift digits", []byte{235, 130}, "", ErrInvalid},
		{"upper shift end", []byte{66, 235}, "", ErrInvalid},
		{"zero", []byte{0}, "", ErrInvalid},
		{"242", []byte{242}, "", ErrInvalid},
		{"254 in ascii", []byte{66, 254}, "", ErrInvalid},
		{"fnc1", []byte{232, 66}, "\x1dA", nil},
		{"struct append", []byte{233, 1, 1, 1}, "", ErrUnsupported},
		{"reader prog", []byte{234}, "", ErrUnsupported},
		{"eci", []byte{241, 4}, "", ErrUnsupported},
		{"macro05", []byte{236, 66}, "[)>\x1e05\x1dA\x1e\x04", nil},
		{"macro06", []byte{237, 66, 129}, "[)>\x1e06\x1dA\x1e\x04", nil},
		{"macro late", []byte{66, 236}, "", ErrInvalid},
		// C40 "AIM" from the standard: A=14 I=22 M=26 -> 1600*14+40*22+26+1 = 23307 = 91,11
		{"c40 AIM", []byte{230, 91, 11}, "AIM", nil},
		{"c40 AIM unlatch", []byte{230, 91, 11, 254, 66}, "AIMA", nil},
		{"c40 AIM + one ascii", []byte{230, 91, 11, 66}, "AIMA", nil},
		{"text aim", []byte{239, 91, 11}, "aim", nil},
		// X12: CR * > = 0,1,2 -> 0+40+2+1 = 43 ; " 0Z" = 3,4,39 -> 4800+160+39+1=5000=19,136
		{"x12", []byte{238, 0, 43, 19, 136, 254, 50}, "\r*> 0Z1", nil},
		// shift 1 + 5 = ENQ, shift 2 + 0 = '!', shift 2 + 22 = '[', shift 3 + 0 = '`', shift 3 + 31 = DEL, 3 = space
		{"c40 shifts", c40pack(0, 5, 1, 0, 1, 22, 2, 0, 2, 31, 3, 3), "\x05![`\x7f  ", nil},
		{"text shifts", textpack(2, 0, 2, 1, 2, 26, 2, 27, 14, 39, 3, 3), "`AZ{az  ", nil},
		{"c40 upper", c40pack(1, 30, 14, 1, 30, 2, 1, 1, 30, 1, 0, 3), "Áá¡ ", nil},
		{"c40 fnc1", c40pack(1, 27, 4), "\x1d0", nil},
		{"c40 dangling shift", c40pack(14, 14, 0), "AA", nil},
		{"c40 bad shift2", c40pack(1, 28, 3), "", ErrInvalid},
		{"c40 bad shift1", c40pack(0, 32, 3), "", ErrInvalid},
		{"c40 pending upper", c40pack(14, 1, 30), "", ErrInvalid},
		{"c40 pair too large", []byte{230, 250, 1}, "", ErrInvalid},
		{"c40 pair zero", []byte{230, 0, 0}, "", ErrInvalid},
		// EDIFACT "ABC" + unlatch: A=1 B=2 C=3 U=31: 000001 000010 000011 011111
		{"edifact", []byte{240, 0x04, 0x20, 0xDF, 66}, "ABCA", nil},
		// unlatch first: 011111 00 -> 0x7C, then ASCII
		{"edifact unlatch first", []byte{240, 0x7C, 66, 67, 68}, "ABC", nil},
		// ' '=32 '?'=63 '@'=0 '^'=30 : 100000 111111 000000 011110
		{"edifact range", []byte{240, 0x83, 0xF0, 0x1E, 129}, " ?@^", nil},
		{"edifact two left", []byte{240, 66, 67}, "AB", nil},
		{"edifact full then one", []byte{240, 0x04, 0x20, 0xC4, 66}, "ABCDA", nil},
		// unlatch as second value: 000001 011111 xxxx -> 0x05 0xF0 ; third byte is in the triplet window but ASCII
		{"edifact unlatch second", []byte{240, 0x05, 0xF0, 66, 67}, "AAB", nil},
		// Base 256
		{"b256 len2", cat([]byte{231}, b256(1, 2, 0xE9, 0x00), []byte{66}), "é\x00A", nil},
		{"b256 to end", cat([]byte{66, 231}, b256(2, 0, 1, 2, 3)), "A\x01\x02\x03", nil},
		{"b256 empty to end", cat([]byte{231}, b256(1, 0)), "", nil},
		{"b256 overrun", cat([]byte{231}, b256(1, 3, 1, 2)), "", ErrInvalid},
		{"b256 no length", []byte{231}, "", ErrInvalid},
	}
	for _, c := range cases {
		got, err := DecodeStream(c.in)
		if c.err != nil {
			if !errors.Is(err, c.err) {
				t.Errorf("%s: got %q, %v; want error %v", c.name, got, err, c.err)
			}
			continue
		}
		if err != nil || got != c.want {
			t.Errorf("%s: got %q, %v; want %q", c.name, got, err, c.want)
		}
	}
	// long Base 256 run with a two-byte length field
	payload := make([]byte, 300)
	for i := range payload {
		payload[i] = byte(i)
	}
	stream := []byte{231}
	stream = append(stream, b256(1, append([]byte{250, 50}, payload...)...)...)
	stream = append(stream, 66)
	got, err := DecodeStream(stream)
	want := []rune{}
	for _, b := range payload {
		want = append(want, rune(b))
	}
	want = append(want, 'A')
	if err != nil || got != string(want) {
		t.Errorf("b256 long: %v", err)
	}
	bad := append([]byte{231}, b256(1, 250, 250, 1)...)
	if _, err := DecodeStream(bad); !errors.Is(err, ErrInvalid) {
		t.Errorf("b256 bad two-byte length accepted: %v", err)
	}
}

// c40pack packs C40 values (multiple of 3) into codewords behind a latch.
func c40pack(vals ...int) []byte  { return packTriplets(230, vals) }
func textpack(vals ...int) []byte { return packTriplets(239, vals) }

func packTriplets(latch byte, vals []int) []byte {
	if len(vals)%3 != 0 {
		panic("triplets")
	}
	out := []byte{latch}
	for i := 0; i < len(vals); i += 3 {
		v := 1600*vals[i] + 40*vals[i+1] + vals[i+2] + 1
		out = append(out, byte(v>>8), byte(v))
	}
	return out
}

func TestConcurrentUse(t *testing.T) {
	var wg sync.WaitGroup
	for g := 0; g < 8; g++ {
		wg.Add(1)
		go func(g int) {
			defer wg.Done()
			rng := rand.New(rand.NewSource(int64(g)))
			for n := 0; n < 40; n++ {
				s := Symbols[rng.Intn(len(Symbols))]
				all := CodewordsSkewed144(randomData(rng, s.DataCW), s)
				back, _, err := ReadCodewords(Build(all, s))
				if err != nil || !bytes.Equal(back, all) {
					t.Errorf("%v: concurrent round trip", s)
				}
			}
		}(g)
	}
	wg.Wait()
}
