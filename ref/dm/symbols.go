// Package dm is an independent reference model of Data Matrix ECC 200
// (ISO/IEC 16022).  It was written from the standard, not from the library
// under test, and favours short, obviously-correct loops over speed.
//
// Everything exported is safe for concurrent use.  Slices returned by
// PlacementMap and ModulePositions are shared, cached values and MUST be
// treated as read-only by callers.
package dm

import "fmt"

// Symbol describes one ECC 200 symbol size (ISO/IEC 16022 Table 7).
type Symbol struct {
	Rows, Cols             int // full symbol size including finder/clock borders
	RegionRows, RegionCols int // one data region without its border
	HRegions, VRegions     int // regions horizontally / vertically
	DataCW, ECCW           int // total data / error correction codewords
	Blocks                 int // interleaved Reed-Solomon blocks
	Rect                   bool
}

// Symbols lists all 30 ECC 200 sizes (24 square, 6 rectangular) in ascending
// order of data capacity; for equal capacity the square one comes first.
var Symbols = buildSymbols()

// row of ISO/IEC 16022 Table 7, reduced to the independent quantities:
// symbol size, number of regions, data codewords, ecc codewords, blocks.
type tableRow struct {
	rows, cols int
	vreg, hreg int
	data, ecc  int
	blocks     int
}

var table7 = []tableRow{
	{10, 10, 1, 1, 3, 5, 1},
	{12, 12, 1, 1, 5, 7, 1},
	{8, 18, 1, 1, 5, 7, 1},
	{14, 14, 1, 1, 8, 10, 1},
	{8, 32, 1, 2, 10, 11, 1},
	{16, 16, 1, 1, 12, 12, 1},
	{12, 26, 1, 1, 16, 14, 1},
	{18, 18, 1, 1, 18, 14, 1},
	{20, 20, 1, 1, 22, 18, 1},
	{12, 36, 1, 2, 22, 18, 1},
	{22, 22, 1, 1, 30, 20, 1},
	{16, 36, 1, 2, 32, 24, 1},
	{24, 24, 1, 1, 36, 24, 1},
	{26, 26, 1, 1, 44, 28, 1},
	{16, 48, 1, 2, 49, 28, 1},
	{32, 32, 2, 2, 62, 36, 1},
	{36, 36, 2, 2, 86, 42, 1},
	{40, 40, 2, 2, 114, 48, 1},
	{44, 44, 2, 2, 144, 56, 1},
	{48, 48, 2, 2, 174, 68, 1},
	{52, 52, 2, 2, 204, 84, 2},
	{64, 64, 4, 4, 280, 112, 2},
	{72, 72, 4, 4, 368, 144, 4},
	{80, 80, 4, 4, 456, 192, 4},
	{88, 88, 4, 4, 576, 224, 4},
	{96, 96, 4, 4, 696, 272, 4},
	{104, 104, 4, 4, 816, 336, 6},
	{120, 120, 6, 6, 1050, 408, 6},
	{132, 132, 6, 6, 1304, 496, 8},
	{144, 144, 6, 6, 1558, 620, 10},
}

func buildSymbols() []Symbol {
	out := make([]Symbol, 0, len(table7))
	for _, t := range table7 {
		if t.rows%t.vreg != 0 || t.cols%t.hreg != 0 {
			panic("dm: bad symbol table")
		}
		out = append(out, Symbol{
			Rows: t.rows, Cols: t.cols,
			RegionRows: t.rows/t.vreg - 2,
			RegionCols: t.cols/t.hreg - 2,
			HRegions:   t.hreg, VRegions: t.vreg,
			DataCW: t.data, ECCW: t.ecc,
			Blocks: t.blocks,
			Rect:   t.rows != t.cols,
		})
	}
	return out
}

// MappingRows is the height of the mapping matrix (all data regions stacked,
// borders removed).
func (s Symbol) MappingRows() int { return s.RegionRows * s.VRegions }

// MappingCols is the width of the mapping matrix.
func (s Symbol) MappingCols() int { return s.RegionCols * s.HRegions }

// TotalCW is DataCW+ECCW.
func (s Symbol) TotalCW() int { return s.DataCW + s.ECCW }

// ECPerBlock is the number of error correction codewords in every block.
func (s Symbol) ECPerBlock() int { return s.ECCW / s.Blocks }

// BlockDataSizes returns the number of data codewords of each interleaved
// block.  Data codeword i belongs to block i mod Blocks, so the first
// DataCW mod Blocks blocks are one longer than the rest (only 144x144 is
// uneven: 8 blocks of 156 then 2 of 155).
func (s Symbol) BlockDataSizes() []int {
	out := make([]int, s.Blocks)
	for b := range out {
		out[b] = s.DataCW / s.Blocks
		if b < s.DataCW%s.Blocks {
			out[b]++
		}
	}
	return out
}

func (s Symbol) String() string { return fmt.Sprintf("%dx%d", s.Rows, s.Cols) }

// SymbolBySize finds the symbol with the given full size.
func SymbolBySize(rows, cols int) (Symbol, bool) {
	for _, s := range Symbols {
		if s.Rows == rows && s.Cols == cols {
			return s, true
		}
	}
	return Symbol{}, false
}

// SmallestSymbol returns the first symbol in Symbols order able to hold n
// data codewords.  With allowRect false only square symbols are considered;
// with allowSquare false only rectangular ones.
func SmallestSymbol(n int, allowSquare, allowRect bool) (Symbol, bool) {
	for _, s := range Symbols {
		if s.Rect && !allowRect || !s.Rect && !allowSquare {
			continue
		}
		if s.DataCW >= n {
			return s, true
		}
	}
	return Symbol{}, false
}
