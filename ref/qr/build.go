package qr

import (
	"errors"
	"fmt"
)

// Build draws the complete symbol for the given data codewords
// (exactly DataCodewords(v, l) of them): function patterns, both copies of
// the format information, both copies of the version information (v >= 7),
// the dark module, the codewords of Interleave(data, v, l) in the standard
// placement, remainder bits 0, and the mask applied to the data area
// (codeword and remainder modules) only.  The result is [row][col] with
// true = dark, and is freshly allocated.
func Build(data []byte, v int, l Level, mask int) [][]bool {
	checkVersion(v)
	checkLevel(l)
	checkMask(mask)
	if len(data) != DataCodewords(v, l) {
		panic(fmt.Sprintf("qr: Build: got %d data codewords, version %d-%v needs %d",
			len(data), v, l, DataCodewords(v, l)))
	}
	lay := layoutOf(v)
	size := Size(v)
	m := newMatrix(size)
	for r := 0; r < size; r++ {
		copy(m[r], lay.base[r])
	}

	// Format information.
	format := FormatWord(l, mask)
	for _, positions := range formatPositions(size) {
		for i, p := range positions {
			m[p[0]][p[1]] = (format>>uint(i))&1 == 1
		}
	}

	// Version information.
	if v >= 7 {
		version := VersionWord(v)
		for _, positions := range versionPositions(size) {
			for i, p := range positions {
				m[p[0]][p[1]] = (version>>uint(i))&1 == 1
			}
		}
	}

	// Codewords, masked.
	codewords := Interleave(data, v, l)
	for i, cw := range codewords {
		for b, p := range lay.cwMods[i] {
			bit := (cw>>uint(7-b))&1 == 1
			m[p[0]][p[1]] = bit != MaskBit(mask, p[0], p[1])
		}
	}
	// Remainder bits are 0 before masking.
	for _, p := range lay.order[8*len(codewords):] {
		m[p[0]][p[1]] = MaskBit(mask, p[0], p[1])
	}
	return m
}

// ErrParity is returned by Read (together with the data it read) when the
// error correction codewords in the symbol are not the ones that belong to
// the data codewords, i.e. the symbol is damaged.
var ErrParity = errors.New("qr: error correction codewords do not match the data")

// Read is a reference reader without error correction.  It derives the
// version from the size, reads the format information (at least one copy
// must be an exact format word; if both are, they must agree), checks the
// version information (v >= 7; at least one copy must be exact), removes
// the mask, reads the codewords, de-interleaves them and returns the data
// codewords in block order.  If the error correction codewords found in
// the symbol differ from ECC of the data, the data is still returned but
// err is ErrParity.
func Read(m [][]bool) (v int, l Level, mask int, data []byte, err error) {
	size := len(m)
	if size < 21 || size > 177 || (size-17)%4 != 0 {
		return 0, 0, 0, nil, fmt.Errorf("qr: %d is not a valid symbol size", size)
	}
	for _, row := range m {
		if len(row) != size {
			return 0, 0, 0, nil, errors.New("qr: matrix is not square")
		}
	}
	v = (size - 17) / 4

	// Format information.
	found := false
	for _, positions := range formatPositions(size) {
		word := 0
		for i, p := range positions {
			if m[p[0]][p[1]] {
				word |= 1 << uint(i)
			}
		}
		fiveBits := (word ^ formatXORMask) >> 10
		cl, cm := levelFromBits(fiveBits>>3), fiveBits&7
		if FormatWord(cl, cm) != word {
			continue
		}
		if found && (cl != l || cm != mask) {
			return v, 0, 0, nil, errors.New("qr: the two format information copies disagree")
		}
		found = true
		l, mask = cl, cm
	}
	if !found {
		return v, 0, 0, nil, errors.New("qr: no exact format information copy")
	}

	// Version information.
	if v >= 7 {
		ok := false
		for _, positions := range versionPositions(size) {
			word := 0
			for i, p := range positions {
				if m[p[0]][p[1]] {
					word |= 1 << uint(i)
				}
			}
			if word == VersionWord(v) {
				ok = true
			}
		}
		if !ok {
			return v, l, mask, nil, errors.New("qr: no exact version information copy matching the size")
		}
	}

	// Codewords.
	cwMods := CodewordModules(v)
	codewords := make([]byte, len(cwMods))
	for i, mods := range cwMods {
		var cw byte
		for _, p := range mods {
			bit := m[p[0]][p[1]] != MaskBit(mask, p[0], p[1])
			cw <<= 1
			if bit {
				cw |= 1
			}
		}
		codewords[i] = cw
	}

	// De-interleave.
	sizes := Blocks(v, l)
	ec, _ := ECInfo(v, l)
	blocks := make([][]byte, len(sizes))
	for b, n := range sizes {
		blocks[b] = make([]byte, n+ec)
	}
	for i, bi := range CodewordIndex(v, l) {
		blocks[bi[0]][bi[1]] = codewords[i]
	}
	parityOK := true
	for b, n := range sizes {
		data = append(data, blocks[b][:n]...)
		want := ECC(blocks[b][:n], ec)
		for k := 0; k < ec; k++ {
			if want[k] != blocks[b][n+k] {
				parityOK = false
			}
		}
	}
	if !parityOK {
		return v, l, mask, data, ErrParity
	}
	return v, l, mask, data, nil
}
