package qr

import (
	"errors"
	"fmt"
)

// Segment is one run of data in a single mode, optionally preceded by an
// ECI header.
type Segment struct {
	Mode Mode
	// Data holds, depending on Mode:
	//   Numeric:      ASCII digits '0'..'9'
	//   Alphanumeric: ASCII characters of the 45-character set
	//   Byte:         raw bytes
	//   Kanji:        Shift JIS double-byte characters (2 bytes each)
	Data []byte
	// ECI, when >= 0, is an ECI assignment number (0..999999); an ECI
	// header (mode 0111 + designator) is emitted before this segment.
	// Use -1 for none.
	ECI int
	// FNC1: the symbol carries GS1 data: the mode indicator 0101 (FNC1 in first position) is
	// emitted in front of this segment's mode indicator. Meaningful on the first segment only.
	FNC1 bool
}

const alnumChars = "0123456789ABCDEFGHIJKLMNOPQRSTUVWXYZ $%*+-./:"

// AlnumIndex returns the value (0..44) of c in the alphanumeric character
// set, or -1 if c is not in the set.
func AlnumIndex(c byte) int {
	for i := 0; i < len(alnumChars); i++ {
		if alnumChars[i] == c {
			return i
		}
	}
	return -1
}

// Mode indicators.
const (
	indTerminator = 0x0
	indNumeric    = 0x1
	indAlnum      = 0x2
	indByte       = 0x4
	indECI        = 0x7
	indKanji      = 0x8
)

func modeIndicator(m Mode) int {
	checkMode(m)
	switch m {
	case Numeric:
		return indNumeric
	case Alphanumeric:
		return indAlnum
	case Byte:
		return indByte
	default:
		return indKanji
	}
}

// bitWriter accumulates bits, most significant bit first.
type bitWriter struct {
	bits []bool
}

func (w *bitWriter) put(value, width int) {
	for i := width - 1; i >= 0; i-- {
		w.bits = append(w.bits, (value>>uint(i))&1 == 1)
	}
}

// kanjiValue converts one Shift JIS double-byte character to its 13-bit
// value, or returns -1 if it is outside the ranges defined by the standard.
func kanjiValue(b1, b2 byte) int {
	if b2 < 0x40 || b2 > 0xFC {
		return -1
	}
	w := int(b1)<<8 | int(b2)
	var d int
	switch {
	case w >= 0x8140 && w <= 0x9FFC:
		d = w - 0x8140
	case w >= 0xE040 && w <= 0xEBBF:
		d = w - 0xC140
	default:
		return -1
	}
	return (d>>8)*0xC0 + (d & 0xFF)
}

// charCount returns the value of the character count indicator of s.
func charCount(s Segment) (int, error) {
	if s.Mode == Kanji {
		if len(s.Data)%2 != 0 {
			return 0, errors.New("qr: kanji segment with odd number of bytes")
		}
		return len(s.Data) / 2, nil
	}
	return len(s.Data), nil
}

// appendSegment writes the ECI header (if any), mode indicator, character
// count indicator and data of s for version v.
func appendSegment(w *bitWriter, s Segment, v int) error {
	if s.Mode < Numeric || s.Mode > Kanji {
		return fmt.Errorf("qr: invalid mode %d", int(s.Mode))
	}
	if s.ECI >= 0 {
		w.put(indECI, 4)
		switch {
		case s.ECI <= 127:
			w.put(s.ECI, 8) // 0bbbbbbb
		case s.ECI <= 16383:
			w.put(0x8000|s.ECI, 16) // 10bbbbbb bbbbbbbb
		case s.ECI <= 999999:
			w.put(0xC00000|s.ECI, 24) // 110bbbbb bbbbbbbb bbbbbbbb
		default:
			return fmt.Errorf("qr: ECI assignment number %d out of range", s.ECI)
		}
	}
	if s.FNC1 {
		w.put(5, 4) // FNC1 in first position (0101); after the ECI header when both are present
	}
	count, err := charCount(s)
	if err != nil {
		return err
	}
	ccb := CharCountBits(s.Mode, v)
	if count >= 1<<uint(ccb) {
		return fmt.Errorf("qr: %d characters do not fit a %d-bit count indicator", count, ccb)
	}
	w.put(modeIndicator(s.Mode), 4)
	w.put(count, ccb)

	d := s.Data
	switch s.Mode {
	case Numeric:
		for _, c := range d {
			if c < '0' || c > '9' {
				return fmt.Errorf("qr: %q is not a digit", c)
			}
		}
		i := 0
		for ; i+3 <= len(d); i += 3 {
			w.put(int(d[i]-'0')*100+int(d[i+1]-'0')*10+int(d[i+2]-'0'), 10)
		}
		switch len(d) - i {
		case 2:
			w.put(int(d[i]-'0')*10+int(d[i+1]-'0'), 7)
		case 1:
			w.put(int(d[i]-'0'), 4)
		}
	case Alphanumeric:
		for _, c := range d {
			if AlnumIndex(c) < 0 {
				return fmt.Errorf("qr: %q is not in the alphanumeric set", c)
			}
		}
		i := 0
		for ; i+2 <= len(d); i += 2 {
			w.put(AlnumIndex(d[i])*45+AlnumIndex(d[i+1]), 11)
		}
		if i < len(d) {
			w.put(AlnumIndex(d[i]), 6)
		}
	case Byte:
		for _, c := range d {
			w.put(int(c), 8)
		}
	case Kanji:
		for i := 0; i < len(d); i += 2 {
			val := kanjiValue(d[i], d[i+1])
			if val < 0 {
				return fmt.Errorf("qr: %02X%02X is not a kanji-mode character", d[i], d[i+1])
			}
			w.put(val, 13)
		}
	}
	return nil
}

// SegmentBits returns the bit stream of the segments alone (ECI headers,
// mode indicators, character count indicators, data), without terminator
// or padding.
func SegmentBits(segs []Segment, v int) ([]bool, error) {
	checkVersion(v)
	w := &bitWriter{}
	for _, s := range segs {
		if err := appendSegment(w, s, v); err != nil {
			return nil, err
		}
	}
	return w.bits, nil
}

// ErrTooLong is returned by DataCodewordsFor when the segments do not fit.
var ErrTooLong = errors.New("qr: data does not fit the symbol")

// DataCodewordsFor builds the data codeword sequence of the segments for
// version v, level l: the segment bits, a terminator of up to four 0 bits
// (shorter if the capacity is reached sooner), 0 bits up to a codeword
// boundary, then pad codewords 0xEC and 0x11 alternately up to exactly
// DataCodewords(v, l) codewords.
func DataCodewordsFor(segs []Segment, v int, l Level) ([]byte, error) {
	bits, err := SegmentBits(segs, v)
	if err != nil {
		return nil, err
	}
	n := DataCodewords(v, l)
	capacity := 8 * n
	if len(bits) > capacity {
		return nil, ErrTooLong
	}
	// Terminator.
	for i := 0; i < 4 && len(bits) < capacity; i++ {
		bits = append(bits, false)
	}
	// Pad to a codeword boundary.
	for len(bits)%8 != 0 {
		bits = append(bits, false)
	}
	out := make([]byte, 0, n)
	for i := 0; i < len(bits); i += 8 {
		var b byte
		for k := 0; k < 8; k++ {
			b <<= 1
			if bits[i+k] {
				b |= 1
			}
		}
		out = append(out, b)
	}
	// Pad codewords.
	pad := [2]byte{0xEC, 0x11}
	for k := 0; len(out) < n; k++ {
		out = append(out, pad[k%2])
	}
	return out, nil
}

// bitReader reads bits, most significant bit first, from a byte slice.
type bitReader struct {
	data []byte
	pos  int // in bits
}

func (r *bitReader) remaining() int { return 8*len(r.data) - r.pos }

func (r *bitReader) get(width int) (int, error) {
	if width > r.remaining() {
		return 0, errors.New("qr: bit stream ends inside a segment")
	}
	val := 0
	for i := 0; i < width; i++ {
		bit := (r.data[r.pos/8] >> uint(7-r.pos%8)) & 1
		val = val<<1 | int(bit)
		r.pos++
	}
	return val, nil
}

// ParseSegments parses a data codeword sequence of a version-v symbol back
// into segments.  Parsing stops at a terminator (0000) or when fewer than
// four bits remain (those must be 0).  Whatever follows the terminator (pad
// bits and pad codewords) is not examined.  An ECI header is attached to
// the segment that follows it; an ECI header that is not followed by a
// segment is an error, and so are the mode indicators this model does not
// cover (structured append, FNC1).
func ParseSegments(data []byte, v int) ([]Segment, error) {
	checkVersion(v)
	r := &bitReader{data: data}
	var segs []Segment
	pendingECI := -1
	for {
		if r.remaining() < 4 {
			rest, _ := r.get(r.remaining())
			if rest != 0 {
				return nil, errors.New("qr: non-zero bits in a truncated terminator")
			}
			break
		}
		ind, _ := r.get(4)
		if ind == indTerminator {
			break
		}
		if ind == indECI {
			if pendingECI >= 0 {
				return nil, errors.New("qr: two ECI headers in a row")
			}
			first, err := r.get(8)
			if err != nil {
				return nil, err
			}
			switch {
			case first&0x80 == 0:
				pendingECI = first
			case first&0xC0 == 0x80:
				rest, err := r.get(8)
				if err != nil {
					return nil, err
				}
				pendingECI = (first&0x3F)<<8 | rest
			case first&0xE0 == 0xC0:
				rest, err := r.get(16)
				if err != nil {
					return nil, err
				}
				pendingECI = (first&0x1F)<<16 | rest
			default:
				return nil, fmt.Errorf("qr: invalid ECI designator byte %02X", first)
			}
			continue
		}
		var mode Mode
		switch ind {
		case indNumeric:
			mode = Numeric
		case indAlnum:
			mode = Alphanumeric
		case indByte:
			mode = Byte
		case indKanji:
			mode = Kanji
		default:
			return nil, fmt.Errorf("qr: unsupported mode indicator %04b", ind)
		}
		count, err := r.get(CharCountBits(mode, v))
		if err != nil {
			return nil, err
		}
		seg := Segment{Mode: mode, ECI: pendingECI, Data: []byte{}}
		pendingECI = -1
		switch mode {
		case Numeric:
			left := count
			for left >= 3 {
				val, err := r.get(10)
				if err != nil {
					return nil, err
				}
				if val >= 1000 {
					return nil, fmt.Errorf("qr: invalid 3-digit group %d", val)
				}
				seg.Data = append(seg.Data, byte('0'+val/100), byte('0'+val/10%10), byte('0'+val%10))
				left -= 3
			}
			if left == 2 {
				val, err := r.get(7)
				if err != nil {
					return nil, err
				}
				if val >= 100 {
					return nil, fmt.Errorf("qr: invalid 2-digit group %d", val)
				}
				seg.Data = append(seg.Data, byte('0'+val/10), byte('0'+val%10))
			} else if left == 1 {
				val, err := r.get(4)
				if err != nil {
					return nil, err
				}
				if val >= 10 {
					return nil, fmt.Errorf("qr: invalid 1-digit group %d", val)
				}
				seg.Data = append(seg.Data, byte('0'+val))
			}
		case Alphanumeric:
			left := count
			for left >= 2 {
				val, err := r.get(11)
				if err != nil {
					return nil, err
				}
				if val >= 45*45 {
					return nil, fmt.Errorf("qr: invalid alphanumeric pair %d", val)
				}
				seg.Data = append(seg.Data, alnumChars[val/45], alnumChars[val%45])
				left -= 2
			}
			if left == 1 {
				val, err := r.get(6)
				if err != nil {
					return nil, err
				}
				if val >= 45 {
					return nil, fmt.Errorf("qr: invalid alphanumeric character %d", val)
				}
				seg.Data = append(seg.Data, alnumChars[val])
			}
		case Byte:
			for i := 0; i < count; i++ {
				val, err := r.get(8)
				if err != nil {
					return nil, err
				}
				seg.Data = append(seg.Data, byte(val))
			}
		case Kanji:
			for i := 0; i < count; i++ {
				val, err := r.get(13)
				if err != nil {
					return nil, err
				}
				d := (val/0xC0)<<8 | val%0xC0
				var w int
				if d <= 0x9FFC-0x8140 {
					w = d + 0x8140
				} else {
					w = d + 0xC140
				}
				if kanjiValue(byte(w>>8), byte(w)) != val {
					return nil, fmt.Errorf("qr: invalid kanji value %d", val)
				}
				seg.Data = append(seg.Data, byte(w>>8), byte(w))
			}
		}
		segs = append(segs, seg)
	}
	if pendingECI >= 0 {
		return nil, errors.New("qr: ECI header not followed by a segment")
	}
	return segs, nil
}
