package qr

// polyRemainder returns the remainder of the GF(2) polynomial division of
// value by generator.  Both are bit-packed polynomials (bit i = coefficient
// of x^i).
func polyRemainder(value, generator int) int {
	genDegree := bitLength(generator) - 1
	for bitLength(value)-1 >= genDegree {
		shift := bitLength(value) - 1 - genDegree
		value ^= generator << uint(shift)
	}
	return value
}

// bitLength returns the number of bits needed to represent x (0 for x == 0).
func bitLength(x int) int {
	n := 0
	for x != 0 {
		n++
		x >>= 1
	}
	return n
}

const (
	formatGenerator  = 0x537  // x^10+x^8+x^5+x^4+x^2+x+1
	formatXORMask    = 0x5412 // 101010000010010
	versionGenerator = 0x1F25 // x^12+x^11+x^10+x^9+x^8+x^5+x^2+1
)

// levelBits returns the two-bit error correction level indicator.
func levelBits(l Level) int {
	checkLevel(l)
	switch l {
	case L:
		return 1
	case M:
		return 0
	case Q:
		return 3
	default: // H
		return 2
	}
}

// levelFromBits is the inverse of levelBits.
func levelFromBits(b int) Level {
	switch b & 3 {
	case 1:
		return L
	case 0:
		return M
	case 3:
		return Q
	default:
		return H
	}
}

// FormatWord returns the 15-bit format information for level l and mask
// pattern mask: 2 level bits, 3 mask bits, 10 BCH(15,5) check bits, the
// whole XORed with 101010000010010.
func FormatWord(l Level, mask int) int {
	checkMask(mask)
	data := levelBits(l)<<3 | mask
	word := data<<10 | polyRemainder(data<<10, formatGenerator)
	return word ^ formatXORMask
}

// VersionWord returns the 18-bit version information for version v >= 7:
// 6 version bits followed by 12 BCH(18,6) check bits.
func VersionWord(v int) int {
	checkVersion(v)
	if v < 7 {
		panic("qr: version information exists only for versions 7..40")
	}
	return v<<12 | polyRemainder(v<<12, versionGenerator)
}
