// Package qr is an independent reference model of QR Code Model 2
// (ISO/IEC 18004:2006 / 2015).  It is written from the standard, not from
// any existing implementation, and is meant to be used as a trusted oracle.
//
// Conventions: matrices are [row][col] with true = dark; row 0 is the top
// row, col 0 the left column.  Versions are 1..40.  Functions that take a
// version, level, mode or mask panic when given a value out of range; this
// is a programming error of the caller, not a data error.
//
// Slices returned by FunctionModules, CodewordModules and AlignmentCenters
// are shared between callers and MUST be treated as read-only.
package qr

import "fmt"

// Level is the error correction level.
type Level int

const (
	L Level = iota
	M
	Q
	H
)

func (l Level) String() string {
	switch l {
	case L:
		return "L"
	case M:
		return "M"
	case Q:
		return "Q"
	case H:
		return "H"
	}
	return fmt.Sprintf("Level(%d)", int(l))
}

// Mode is a data encoding mode.
type Mode int

const (
	Numeric Mode = iota
	Alphanumeric
	Byte
	Kanji
)

func (m Mode) String() string {
	switch m {
	case Numeric:
		return "Numeric"
	case Alphanumeric:
		return "Alphanumeric"
	case Byte:
		return "Byte"
	case Kanji:
		return "Kanji"
	}
	return fmt.Sprintf("Mode(%d)", int(m))
}

const (
	MinVersion = 1
	MaxVersion = 40
)

func checkVersion(v int) {
	if v < MinVersion || v > MaxVersion {
		panic(fmt.Sprintf("qr: version %d out of range 1..40", v))
	}
}

func checkLevel(l Level) {
	if l < L || l > H {
		panic(fmt.Sprintf("qr: level %d out of range", int(l)))
	}
}

func checkMode(m Mode) {
	if m < Numeric || m > Kanji {
		panic(fmt.Sprintf("qr: mode %d out of range", int(m)))
	}
}

func checkMask(mask int) {
	if mask < 0 || mask > 7 {
		panic(fmt.Sprintf("qr: mask %d out of range 0..7", mask))
	}
}

// Size returns the number of modules per side of a version-v symbol.
func Size(v int) int {
	checkVersion(v)
	return 17 + 4*v
}

// AlignmentCenters returns the row/column coordinates of the alignment
// pattern centres of version v (Annex E of the standard), nil for version 1.
//
// The coordinates are computed: the first is always 6, the last is always
// size-7, there are v/7+2 of them, and all gaps except possibly the first
// are equal to an even step, laid out from the last coordinate backwards.
// The step is the smallest even number >= (last-first)/(count-1), except for
// version 32 where the published table uses 26 rather than 28.
func AlignmentCenters(v int) []int {
	checkVersion(v)
	return layoutOf(v).align
}

func computeAlignmentCenters(v int) []int {
	if v == 1 {
		return nil
	}
	count := v/7 + 2
	first := 6
	last := Size(v) - 7
	gaps := count - 1
	span := last - first
	step := (span + gaps - 1) / gaps // ceiling
	if step%2 == 1 {
		step++
	}
	if v == 32 {
		step = 26
	}
	out := make([]int, count)
	out[0] = first
	pos := last
	for i := count - 1; i >= 1; i-- {
		out[i] = pos
		pos -= step
	}
	return out
}

// dataModuleCount returns the number of modules of a version-v symbol that
// are available for codewords and remainder bits, by the counting formula.
func dataModuleCount(v int) int {
	size := Size(v)
	n := size * size
	// Three finder patterns, each with its separator: 8x8.
	n -= 3 * 8 * 8
	// Two timing patterns, each running between the separators.
	n -= 2 * (size - 16)
	// Alignment patterns: a k x k grid minus the three that would collide
	// with finder patterns; 5x5 modules each.  Those lying on row 6 or on
	// column 6 (k-2 of each) share 5 modules with a timing pattern, which
	// were already subtracted above.
	k := 0
	if v >= 2 {
		k = v/7 + 2
	}
	if k > 0 {
		n -= (k*k - 3) * 25
		n += 2 * (k - 2) * 5
	}
	// Two copies of the 15-bit format information, and the dark module.
	n -= 2*15 + 1
	// Two copies of the 18-bit version information.
	if v >= 7 {
		n -= 2 * 18
	}
	return n
}

// TotalCodewords returns the total number of codewords (data + error
// correction) of a version-v symbol.
func TotalCodewords(v int) int {
	return dataModuleCount(v) / 8
}

// RemainderBits returns the number of remainder bits of a version-v symbol.
func RemainderBits(v int) int {
	return dataModuleCount(v) % 8
}

// ecTable[v][level] = {error correction codewords per block, number of blocks}.
// Transcribed from Table 9 of the standard (levels in the order L, M, Q, H).
var ecTable = [MaxVersion + 1][4][2]int{
	1:  {{7, 1}, {10, 1}, {13, 1}, {17, 1}},
	2:  {{10, 1}, {16, 1}, {22, 1}, {28, 1}},
	3:  {{15, 1}, {26, 1}, {18, 2}, {22, 2}},
	4:  {{20, 1}, {18, 2}, {26, 2}, {16, 4}},
	5:  {{26, 1}, {24, 2}, {18, 4}, {22, 4}},
	6:  {{18, 2}, {16, 4}, {24, 4}, {28, 4}},
	7:  {{20, 2}, {18, 4}, {18, 6}, {26, 5}},
	8:  {{24, 2}, {22, 4}, {22, 6}, {26, 6}},
	9:  {{30, 2}, {22, 5}, {20, 8}, {24, 8}},
	10: {{18, 4}, {26, 5}, {24, 8}, {28, 8}},
	11: {{20, 4}, {30, 5}, {28, 8}, {24, 11}},
	12: {{24, 4}, {22, 8}, {26, 10}, {28, 11}},
	13: {{26, 4}, {22, 9}, {24, 12}, {22, 16}},
	14: {{30, 4}, {24, 9}, {20, 16}, {24, 16}},
	15: {{22, 6}, {24, 10}, {30, 12}, {24, 18}},
	16: {{24, 6}, {28, 10}, {24, 17}, {30, 16}},
	17: {{28, 6}, {28, 11}, {28, 16}, {28, 19}},
	18: {{30, 6}, {26, 13}, {28, 18}, {28, 21}},
	19: {{28, 7}, {26, 14}, {26, 21}, {26, 25}},
	20: {{28, 8}, {26, 16}, {30, 20}, {28, 25}},
	21: {{28, 8}, {26, 17}, {28, 23}, {30, 25}},
	22: {{28, 9}, {28, 17}, {30, 23}, {24, 34}},
	23: {{30, 9}, {28, 18}, {30, 25}, {30, 30}},
	24: {{30, 10}, {28, 20}, {30, 27}, {30, 32}},
	25: {{26, 12}, {28, 21}, {30, 29}, {30, 35}},
	26: {{28, 12}, {28, 23}, {28, 34}, {30, 37}},
	27: {{30, 12}, {28, 25}, {30, 34}, {30, 40}},
	28: {{30, 13}, {28, 26}, {30, 35}, {30, 42}},
	29: {{30, 14}, {28, 28}, {30, 38}, {30, 45}},
	30: {{30, 15}, {28, 29}, {30, 40}, {30, 48}},
	31: {{30, 16}, {28, 31}, {30, 43}, {30, 51}},
	32: {{30, 17}, {28, 33}, {30, 45}, {30, 54}},
	33: {{30, 18}, {28, 35}, {30, 48}, {30, 57}},
	34: {{30, 19}, {28, 37}, {30, 51}, {30, 60}},
	35: {{30, 19}, {28, 38}, {30, 53}, {30, 63}},
	36: {{30, 20}, {28, 40}, {30, 56}, {30, 66}},
	37: {{30, 21}, {28, 43}, {30, 59}, {30, 70}},
	38: {{30, 22}, {28, 45}, {30, 62}, {30, 74}},
	39: {{30, 24}, {28, 47}, {30, 65}, {30, 77}},
	40: {{30, 25}, {28, 49}, {30, 68}, {30, 81}},
}

// ECInfo returns the number of error correction codewords per block and the
// number of blocks for version v at level l.
func ECInfo(v int, l Level) (ecPerBlock, numBlocks int) {
	checkVersion(v)
	checkLevel(l)
	e := ecTable[v][l]
	return e[0], e[1]
}

// DataCodewords returns the number of data codewords of version v, level l.
func DataCodewords(v int, l Level) int {
	ec, nb := ECInfo(v, l)
	return TotalCodewords(v) - ec*nb
}

// Blocks returns the number of data codewords of each block, in block order.
// The data codewords are divided as evenly as possible; when they do not
// divide evenly the shorter blocks come first and the longer ones (one more
// data codeword each) come last.
func Blocks(v int, l Level) []int {
	_, nb := ECInfo(v, l)
	data := DataCodewords(v, l)
	short := data / nb
	numLong := data % nb
	out := make([]int, nb)
	for i := 0; i < nb; i++ {
		if i < nb-numLong {
			out[i] = short
		} else {
			out[i] = short + 1
		}
	}
	return out
}

// CharCountBits returns the width of the character count indicator.
func CharCountBits(m Mode, v int) int {
	checkVersion(v)
	checkMode(m)
	var widths [3]int // versions 1-9, 10-26, 27-40
	switch m {
	case Numeric:
		widths = [3]int{10, 12, 14}
	case Alphanumeric:
		widths = [3]int{9, 11, 13}
	case Byte:
		widths = [3]int{8, 16, 16}
	case Kanji:
		widths = [3]int{8, 10, 12}
	}
	switch {
	case v <= 9:
		return widths[0]
	case v <= 26:
		return widths[1]
	default:
		return widths[2]
	}
}

// Capacity returns the maximum number of characters that a single segment
// in mode m (without ECI header) can carry in version v at level l.
func Capacity(v int, l Level, m Mode) int {
	ccb := CharCountBits(m, v)
	bits := 8*DataCodewords(v, l) - 4 - ccb
	if bits < 0 {
		return 0
	}
	n := 0
	switch m {
	case Numeric:
		n = 3 * (bits / 10)
		rest := bits % 10
		if rest >= 7 {
			n += 2
		} else if rest >= 4 {
			n += 1
		}
	case Alphanumeric:
		n = 2 * (bits / 11)
		if bits%11 >= 6 {
			n += 1
		}
	case Byte:
		n = bits / 8
	case Kanji:
		n = bits / 13
	}
	if maxCount := 1<<uint(ccb) - 1; n > maxCount {
		n = maxCount
	}
	return n
}
