package qr

import "sync"

// MaskBit reports whether mask pattern mask inverts the module at
// (row, col).  The conditions are those of Table 10 of the standard with
// i = row and j = col.
func MaskBit(mask, row, col int) bool {
	checkMask(mask)
	i, j := row, col
	switch mask {
	case 0:
		return (i+j)%2 == 0
	case 1:
		return i%2 == 0
	case 2:
		return j%3 == 0
	case 3:
		return (i+j)%3 == 0
	case 4:
		return (i/2+j/3)%2 == 0
	case 5:
		return (i*j)%2+(i*j)%3 == 0
	case 6:
		return ((i*j)%2+(i*j)%3)%2 == 0
	default: // 7
		return ((i+j)%2+(i*j)%3)%2 == 0
	}
}

// layout holds everything about a version that does not depend on the data.
type layout struct {
	once     sync.Once
	align    []int
	function [][]bool    // true = not available for data
	base     [][]bool    // function patterns drawn, format/version areas light
	order    [][2]int    // data module positions in placement order
	cwMods   [][8][2]int // per codeword, the 8 module positions, MSB first
}

var layouts [MaxVersion + 1]layout

func layoutOf(v int) *layout {
	checkVersion(v)
	lay := &layouts[v]
	lay.once.Do(func() { lay.compute(v) })
	return lay
}

func newMatrix(size int) [][]bool {
	cells := make([]bool, size*size)
	m := make([][]bool, size)
	for r := 0; r < size; r++ {
		m[r] = cells[r*size : (r+1)*size : (r+1)*size]
	}
	return m
}

func abs(x int) int {
	if x < 0 {
		return -x
	}
	return x
}

func (lay *layout) compute(v int) {
	size := 17 + 4*v
	lay.align = computeAlignmentCenters(v)
	fn := newMatrix(size)
	base := newMatrix(size)

	// Finder patterns with separators: an 8x8 area in three corners.  The
	// 7x7 finder itself sits in the outer corner of that area.
	corners := [3][2]int{{0, 0}, {0, size - 7}, {size - 7, 0}} // top-left of each 7x7 finder
	for _, c := range corners {
		for dr := -1; dr <= 7; dr++ {
			for dc := -1; dc <= 7; dc++ {
				r, col := c[0]+dr, c[1]+dc
				if r < 0 || r >= size || col < 0 || col >= size {
					continue
				}
				fn[r][col] = true
				inside := dr >= 0 && dr <= 6 && dc >= 0 && dc <= 6
				if inside {
					ring := max(abs(dr-3), abs(dc-3)) // 0 centre .. 3 border
					base[r][col] = ring != 2
				} else {
					base[r][col] = false // separator
				}
			}
		}
	}

	// Timing patterns: row 6 and column 6 between the separators.
	for k := 8; k <= size-9; k++ {
		fn[6][k] = true
		fn[k][6] = true
		base[6][k] = k%2 == 0
		base[k][6] = k%2 == 0
	}

	// Alignment patterns: 5x5 around every pair of centre coordinates,
	// except the three pairs that fall on finder patterns.
	n := len(lay.align)
	for a := 0; a < n; a++ {
		for b := 0; b < n; b++ {
			if (a == 0 && b == 0) || (a == 0 && b == n-1) || (a == n-1 && b == 0) {
				continue
			}
			cr, cc := lay.align[a], lay.align[b]
			for dr := -2; dr <= 2; dr++ {
				for dc := -2; dc <= 2; dc++ {
					fn[cr+dr][cc+dc] = true
					base[cr+dr][cc+dc] = max(abs(dr), abs(dc)) != 1
				}
			}
		}
	}

	// Format information areas (left light in base).
	for _, copyPos := range formatPositions(size) {
		for _, p := range copyPos {
			fn[p[0]][p[1]] = true
		}
	}
	// Dark module.
	fn[size-8][8] = true
	base[size-8][8] = true

	// Version information areas (left light in base).
	if v >= 7 {
		for _, copyPos := range versionPositions(size) {
			for _, p := range copyPos {
				fn[p[0]][p[1]] = true
			}
		}
	}

	// Data module order: two-module-wide columns starting at the right
	// edge, alternately upwards and downwards, the right module of each pair
	// before the left one.  The vertical timing pattern (column 6) is not
	// part of any pair.  Function modules are skipped.
	var order [][2]int
	upwards := true
	for right := size - 1; right >= 1; right -= 2 {
		if right == 6 {
			right = 5
		}
		for k := 0; k < size; k++ {
			r := k
			if upwards {
				r = size - 1 - k
			}
			for _, c := range [2]int{right, right - 1} {
				if !fn[r][c] {
					order = append(order, [2]int{r, c})
				}
			}
		}
		upwards = !upwards
	}

	ncw := len(order) / 8
	cw := make([][8][2]int, ncw)
	for i := 0; i < ncw; i++ {
		for b := 0; b < 8; b++ {
			cw[i][b] = order[8*i+b]
		}
	}

	lay.function = fn
	lay.base = base
	lay.order = order
	lay.cwMods = cw
}

// formatPositions returns, for each of the two copies of the format
// information, the (row, col) of bit 0 (least significant) .. bit 14.
//
// Copy 0 wraps around the top-left finder pattern: bits 0..7 run down
// column 8 from row 0 to row 8 (skipping the timing row 6), bits 8..14 run
// leftwards along row 8 from column 7 to column 0 (skipping the timing
// column 6).  Copy 1 is split: bits 0..7 run leftwards along row 8 from the
// right edge, bits 8..14 run down column 8 to the bottom edge.
func formatPositions(size int) [2][15][2]int {
	var p [2][15][2]int
	// Copy 0.
	rows := [8]int{0, 1, 2, 3, 4, 5, 7, 8}
	for i := 0; i < 8; i++ {
		p[0][i] = [2]int{rows[i], 8}
	}
	cols := [7]int{7, 5, 4, 3, 2, 1, 0}
	for i := 0; i < 7; i++ {
		p[0][8+i] = [2]int{8, cols[i]}
	}
	// Copy 1.
	for i := 0; i < 8; i++ {
		p[1][i] = [2]int{8, size - 1 - i}
	}
	for i := 8; i < 15; i++ {
		p[1][i] = [2]int{size - 15 + i, 8}
	}
	return p
}

// versionPositions returns, for each of the two copies of the version
// information, the (row, col) of bit 0 (least significant) .. bit 17.
// Copy 0 is the 6-row x 3-column block left of the top-right finder
// pattern, copy 1 is its transpose above the bottom-left finder pattern.
func versionPositions(size int) [2][18][2]int {
	var p [2][18][2]int
	for i := 0; i < 18; i++ {
		long := i / 3            // 0..5
		short := size - 11 + i%3 // size-11 .. size-9
		p[0][i] = [2]int{long, short}
		p[1][i] = [2]int{short, long}
	}
	return p
}

// FunctionModules returns a [row][col] matrix that is true for every module
// that is not available for data: finder patterns and separators, timing
// patterns, alignment patterns, format and version information areas and
// the dark module.  The result is shared and must not be modified.
func FunctionModules(v int) [][]bool {
	return layoutOf(v).function
}

// CodewordModules returns, for every index into the final (interleaved)
// codeword sequence, the (row, col) of its eight modules, most significant
// bit first.  The result is shared and must not be modified.
func CodewordModules(v int) [][8][2]int {
	return layoutOf(v).cwMods
}

// RemainderModules returns the positions of the remainder bits of version v
// (those data-area modules that follow the last codeword).  The result is
// shared and must not be modified.
func RemainderModules(v int) [][2]int {
	lay := layoutOf(v)
	return lay.order[8*len(lay.cwMods):]
}

// CodewordIndex maps every position of the final (interleaved) codeword
// sequence to {block, indexInBlock}; indexInBlock counts the data codewords
// of that block first and its error correction codewords after them.
func CodewordIndex(v int, l Level) [][2]int {
	blocks := Blocks(v, l)
	ec, _ := ECInfo(v, l)
	out := make([][2]int, 0, TotalCodewords(v))
	longest := blocks[len(blocks)-1]
	for i := 0; i < longest; i++ {
		for b := 0; b < len(blocks); b++ {
			if i < blocks[b] {
				out = append(out, [2]int{b, i})
			}
		}
	}
	for i := 0; i < ec; i++ {
		for b := 0; b < len(blocks); b++ {
			out = append(out, [2]int{b, blocks[b] + i})
		}
	}
	return out
}

// Interleave splits the data codewords into the blocks of version v,
// level l, computes the error correction codewords of every block and
// returns the final codeword sequence: data codewords taken column-wise
// across the blocks, then error correction codewords likewise.
func Interleave(data []byte, v int, l Level) []byte {
	if len(data) != DataCodewords(v, l) {
		panic("qr: Interleave: wrong number of data codewords")
	}
	sizes := Blocks(v, l)
	ec, _ := ECInfo(v, l)
	dataBlocks := make([][]byte, len(sizes))
	ecBlocks := make([][]byte, len(sizes))
	offset := 0
	for b, n := range sizes {
		dataBlocks[b] = data[offset : offset+n]
		ecBlocks[b] = ECC(dataBlocks[b], ec)
		offset += n
	}
	out := make([]byte, 0, TotalCodewords(v))
	longest := sizes[len(sizes)-1]
	for i := 0; i < longest; i++ {
		for b := range dataBlocks {
			if i < len(dataBlocks[b]) {
				out = append(out, dataBlocks[b][i])
			}
		}
	}
	for i := 0; i < ec; i++ {
		for b := range ecBlocks {
			out = append(out, ecBlocks[b][i])
		}
	}
	return out
}
