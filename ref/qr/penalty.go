package qr

// Penalty returns the mask evaluation score of a finished symbol
// (section "Evaluation of data masking results" of the standard), the sum
// of four features with weights N1 = 3, N2 = 3, N3 = 40, N4 = 10.
//
// The standard's wording leaves some room; the readings used here are:
//
//	N1: every maximal run of k >= 5 same-coloured modules in a row or a
//	    column scores N1 + (k - 5).
//	N2: every 2x2 block of same-coloured modules scores N2; blocks may
//	    overlap (an m x n block therefore scores N2*(m-1)*(n-1)).
//	N3: every occurrence, in a row or a column, of the seven modules
//	    dark-light-dark-dark-dark-light-dark (1:1:3:1:1) that has four light
//	    modules directly before it or directly after it (or both) scores N3
//	    once.  Positions outside the symbol count as light (the quiet zone
//	    is light), so a pattern that starts within the first four modules of a
//	    line, or ends within the last four, and has only light modules between
//	    itself and the edge, scores as well.  In particular the finder
//	    patterns themselves score along the symbol edges.
//	    (The other defensible reading, requiring the four light modules to
//	    lie inside the symbol, is available internally as
//	    penaltyN3(m, false); the gozxing library was observed, as a black
//	    box, to use the quiet-zone-is-light reading, and with it BestMask
//	    agreed with the library's automatic choice on all sampled inputs.)
//	N4: with d the number of dark modules and t the total number of
//	    modules, the score is N4 * floor(|2d - t| * 10 / t), i.e. N4 times the
//	    number of whole 5% steps by which the dark ratio deviates from 50%.
func Penalty(m [][]bool) int {
	return penaltyN1(m) + penaltyN2(m) + penaltyN3(m, true) + penaltyN4(m)
}

const (
	weightN1 = 3
	weightN2 = 3
	weightN3 = 40
	weightN4 = 10
)

// line returns row k of m (vertical == false) or column k (vertical == true).
func line(m [][]bool, k int, vertical bool, buf []bool) []bool {
	if !vertical {
		return m[k]
	}
	for r := range m {
		buf[r] = m[r][k]
	}
	return buf
}

func penaltyN1(m [][]bool) int {
	size := len(m)
	buf := make([]bool, size)
	score := 0
	for _, vertical := range [2]bool{false, true} {
		for k := 0; k < size; k++ {
			ln := line(m, k, vertical, buf)
			run := 1
			for i := 1; i <= size; i++ {
				if i < size && ln[i] == ln[i-1] {
					run++
					continue
				}
				if run >= 5 {
					score += weightN1 + (run - 5)
				}
				run = 1
			}
		}
	}
	return score
}

func penaltyN2(m [][]bool) int {
	size := len(m)
	score := 0
	for r := 0; r+1 < size; r++ {
		for c := 0; c+1 < size; c++ {
			x := m[r][c]
			if m[r][c+1] == x && m[r+1][c] == x && m[r+1][c+1] == x {
				score += weightN2
			}
		}
	}
	return score
}

// allLight reports whether ln[from:to] consists of light modules only.
// Positions outside the line are light if outsideIsLight, else they make the
// answer false.
func allLight(ln []bool, from, to int, outsideIsLight bool) bool {
	for i := from; i < to; i++ {
		if i < 0 || i >= len(ln) {
			if !outsideIsLight {
				return false
			}
			continue
		}
		if ln[i] {
			return false
		}
	}
	return true
}

var finderLike = [7]bool{true, false, true, true, true, false, true}

func penaltyN3(m [][]bool, outsideIsLight bool) int {
	size := len(m)
	buf := make([]bool, size)
	score := 0
	for _, vertical := range [2]bool{false, true} {
		for k := 0; k < size; k++ {
			ln := line(m, k, vertical, buf)
			for s := 0; s+7 <= size; s++ {
				match := true
				for i := 0; i < 7; i++ {
					if ln[s+i] != finderLike[i] {
						match = false
						break
					}
				}
				if !match {
					continue
				}
				if allLight(ln, s-4, s, outsideIsLight) || allLight(ln, s+7, s+11, outsideIsLight) {
					score += weightN3
				}
			}
		}
	}
	return score
}

func penaltyN4(m [][]bool) int {
	total := 0
	dark := 0
	for _, row := range m {
		for _, x := range row {
			total++
			if x {
				dark++
			}
		}
	}
	return weightN4 * (abs(2*dark-total) * 10 / total)
}

// BestMask returns the mask pattern with the lowest Penalty for the given
// data codewords; the lowest-numbered pattern wins ties.
func BestMask(data []byte, v int, l Level) int {
	best := 0
	bestScore := 0
	for mask := 0; mask < 8; mask++ {
		score := Penalty(Build(data, v, l, mask))
		if mask == 0 || score < bestScore {
			best, bestScore = mask, score
		}
	}
	return best
}

// PenaltyParts returns the four features of Penalty separately (N1, N2, N3, N4 scores).
func PenaltyParts(m [][]bool) [4]int {
	return [4]int{penaltyN1(m), penaltyN2(m), penaltyN3(m, true), penaltyN4(m)}
}
