package qr

import (
	"bytes"
	"fmt"
	"math/rand"
	"strings"
	"sync"
	"testing"
	"time"

	"github.com/makiuchi-d/gozxing"
	"github.com/makiuchi-d/gozxing/qrcode/decoder"
	"github.com/makiuchi-d/gozxing/qrcode/encoder"
)

var allLevels = []Level{L, M, Q, H}
var allModes = []Mode{Numeric, Alphanumeric, Byte, Kanji}

// ---------------------------------------------------------------------------
// 1. Invariants and published values
// ---------------------------------------------------------------------------

// Published table: total codewords per version (Table 1 / Table 9).
var publishedTotalCodewords = [41]int{0,
	26, 44, 70, 100, 134, 172, 196, 242, 292, 346,
	404, 466, 532, 581, 655, 733, 815, 901, 991, 1085,
	1156, 1258, 1364, 1474, 1588, 1706, 1828, 1921, 2051, 2185,
	2323, 2465, 2611, 2761, 2876, 3034, 3196, 3362, 3532, 3706,
}

// Published table: number of data codewords per version, levels L M Q H
// (Table 7).  Deliberately a different shape from ecTable.
var publishedDataCodewords = [41][4]int{
	1:  {19, 16, 13, 9},
	2:  {34, 28, 22, 16},
	3:  {55, 44, 34, 26},
	4:  {80, 64, 48, 36},
	5:  {108, 86, 62, 46},
	6:  {136, 108, 76, 60},
	7:  {156, 124, 88, 66},
	8:  {194, 154, 110, 86},
	9:  {232, 182, 132, 100},
	10: {274, 216, 154, 122},
	11: {324, 254, 180, 140},
	12: {370, 290, 206, 158},
	13: {428, 334, 244, 180},
	14: {461, 365, 261, 197},
	15: {523, 415, 295, 223},
	16: {589, 453, 325, 253},
	17: {647, 507, 367, 283},
	18: {721, 563, 397, 313},
	19: {795, 627, 445, 341},
	20: {861, 669, 485, 385},
	21: {932, 714, 512, 406},
	22: {1006, 782, 568, 442},
	23: {1094, 860, 614, 464},
	24: {1174, 914, 664, 514},
	25: {1276, 1000, 718, 538},
	26: {1370, 1062, 754, 596},
	27: {1468, 1128, 808, 628},
	28: {1531, 1193, 871, 661},
	29: {1631, 1267, 911, 701},
	30: {1735, 1373, 985, 745},
	31: {1843, 1455, 1033, 793},
	32: {1955, 1541, 1115, 845},
	33: {2071, 1631, 1171, 901},
	34: {2191, 1725, 1231, 961},
	35: {2306, 1812, 1286, 986},
	36: {2434, 1914, 1354, 1054},
	37: {2566, 1992, 1426, 1096},
	38: {2702, 2102, 1502, 1142},
	39: {2812, 2216, 1582, 1222},
	40: {2956, 2334, 1666, 1276},
}

// Published table: alignment pattern centre coordinates (Annex E).
var publishedAlignment = [41][]int{
	1: nil,
	2: {6, 18}, 3: {6, 22}, 4: {6, 26}, 5: {6, 30}, 6: {6, 34},
	7: {6, 22, 38}, 8: {6, 24, 42}, 9: {6, 26, 46}, 10: {6, 28, 50},
	11: {6, 30, 54}, 12: {6, 32, 58}, 13: {6, 34, 62},
	14: {6, 26, 46, 66}, 15: {6, 26, 48, 70}, 16: {6, 26, 50, 74},
	17: {6, 30, 54, 78}, 18: {6, 30, 56, 82}, 19: {6, 30, 58, 86},
	20: {6, 34, 62, 90},
	21: {6, 28, 50, 72, 94}, 22: {6, 26, 50, 74, 98}, 23: {6, 30, 54, 78, 102},
	24: {6, 28, 54, 80, 106}, 25: {6, 32, 58, 84, 110}, 26: {6, 30, 58, 86, 114},
	27: {6, 34, 62, 90, 118},
	28: {6, 26, 50, 74, 98, 122}, 29: {6, 30, 54, 78, 102, 126},
	30: {6, 26, 52, 78, 104, 130}, 31: {6, 30, 56, 82, 108, 134},
	32: {6, 34, 60, 86, 112, 138}, 33: {6, 30, 58, 86, 114, 142},
	34: {6, 34, 62, 90, 118, 146},
	35: {6, 30, 54, 78, 102, 126, 150}, 36: {6, 24, 50, 76, 102, 128, 154},
	37: {6, 28, 54, 80, 106, 132, 158}, 38: {6, 32, 58, 84, 110, 136, 162},
	39: {6, 26, 54, 82, 110, 138, 166}, 40: {6, 30, 58, 86, 114, 142, 170},
}

// Published table C.1: format information words, indexed by the five data
// bits (level bits << 3 | mask).
var publishedFormat = [32]int{
	0x5412, 0x5125, 0x5E7C, 0x5B4B, 0x45F9, 0x40CE, 0x4F97, 0x4AA0, // 00 = M
	0x77C4, 0x72F3, 0x7DAA, 0x789D, 0x662F, 0x6318, 0x6C41, 0x6976, // 01 = L
	0x1689, 0x13BE, 0x1CE7, 0x19D0, 0x0762, 0x0255, 0x0D0C, 0x083B, // 10 = H
	0x355F, 0x3068, 0x3F31, 0x3A06, 0x24B4, 0x2183, 0x2EDA, 0x2BED, // 11 = Q
}

// Published table D.1: version information words for versions 7..40.
var publishedVersion = []int{
	0x07C94, 0x085BC, 0x09A99, 0x0A4D3, 0x0BBF6, 0x0C762, 0x0D847, 0x0E60D,
	0x0F928, 0x10B78, 0x1145D, 0x12A17, 0x13532, 0x149A6, 0x15683, 0x168C9,
	0x177EC, 0x18EC4, 0x191E1, 0x1AFAB, 0x1B08E, 0x1CC1A, 0x1D33F, 0x1ED75,
	0x1F250, 0x209D5, 0x216F0, 0x228BA, 0x2379F, 0x24B0B, 0x2542E, 0x26A64,
	0x27541, 0x28C69,
}

func TestSizesAndCodewordCounts(t *testing.T) {
	for v := 1; v <= 40; v++ {
		if Size(v) != 17+4*v {
			t.Errorf("Size(%d) = %d", v, Size(v))
		}
		if got := TotalCodewords(v); got != publishedTotalCodewords[v] {
			t.Errorf("TotalCodewords(%d) = %d, published %d", v, got, publishedTotalCodewords[v])
		}
		wantRem := 0
		switch {
		case v >= 2 && v <= 6:
			wantRem = 7
		case v >= 14 && v <= 20:
			wantRem = 3
		case v >= 21 && v <= 27:
			wantRem = 4
		case v >= 28 && v <= 34:
			wantRem = 3
		}
		if got := RemainderBits(v); got != wantRem {
			t.Errorf("RemainderBits(%d) = %d, published %d", v, got, wantRem)
		}
		// The formula must agree with an actual count of the free modules.
		free := 0
		for _, row := range FunctionModules(v) {
			for _, f := range row {
				if !f {
					free++
				}
			}
		}
		if free != 8*TotalCodewords(v)+RemainderBits(v) {
			t.Errorf("v%d: %d free modules, formula says %d", v, free, 8*TotalCodewords(v)+RemainderBits(v))
		}
		if len(CodewordModules(v)) != TotalCodewords(v) {
			t.Errorf("v%d: CodewordModules has %d entries", v, len(CodewordModules(v)))
		}
		if len(RemainderModules(v)) != RemainderBits(v) {
			t.Errorf("v%d: RemainderModules has %d entries", v, len(RemainderModules(v)))
		}
	}
}

func TestECTable(t *testing.T) {
	entries := 0
	for v := 1; v <= 40; v++ {
		for _, l := range allLevels {
			entries++
			ec, nb := ECInfo(v, l)
			if nb*ec+DataCodewords(v, l) != TotalCodewords(v) {
				t.Errorf("%d-%v: blocks*ec + data != total", v, l)
			}
			if got := DataCodewords(v, l); got != publishedDataCodewords[v][l] {
				t.Errorf("DataCodewords(%d,%v) = %d, published %d", v, l, got, publishedDataCodewords[v][l])
			}
			blocks := Blocks(v, l)
			if len(blocks) != nb {
				t.Errorf("%d-%v: %d blocks, want %d", v, l, len(blocks), nb)
			}
			sum := 0
			for i, b := range blocks {
				sum += b
				if i > 0 && b < blocks[i-1] {
					t.Errorf("%d-%v: blocks not sorted short first: %v", v, l, blocks)
				}
				if b-blocks[0] > 1 {
					t.Errorf("%d-%v: block sizes differ by more than 1: %v", v, l, blocks)
				}
				// Block length is bounded by the field size.
				if b+ec > 255 {
					t.Errorf("%d-%v: block longer than 255", v, l)
				}
			}
			if sum != DataCodewords(v, l) {
				t.Errorf("%d-%v: blocks sum %d", v, l, sum)
			}
			if ec%2 != 0 && !(v == 1 && (l == L || l == Q || l == H)) && !(v == 3 && l == L) {
				// All published ec-per-block values are even except 1-L (7),
				// 1-Q (13), 1-H (17) and 3-L (15).
				t.Errorf("%d-%v: odd ec count %d", v, l, ec)
			}
			// Higher levels have fewer data codewords.
			if l > L && DataCodewords(v, l) >= DataCodewords(v, l-1) {
				t.Errorf("%d-%v: data codewords not decreasing with level", v, l)
			}
		}
	}
	if entries != 160 {
		t.Fatalf("entries = %d", entries)
	}
	// A few published block structures (Table 9): (c,k) x count.
	check := func(v int, l Level, want ...int) {
		t.Helper()
		got := Blocks(v, l)
		if fmt.Sprint(got) != fmt.Sprint(want) {
			t.Errorf("Blocks(%d,%v) = %v, want %v", v, l, got, want)
		}
	}
	check(1, L, 19)
	check(5, Q, 15, 15, 16, 16)
	check(5, H, 11, 11, 12, 12)
	check(7, H, 13, 13, 13, 13, 14)
	check(10, L, 68, 68, 69, 69)
	check(15, L, 87, 87, 87, 87, 87, 88)
	b := Blocks(40, H) // 20 x (45,15) + 61 x (46,16)
	if len(b) != 81 || b[0] != 15 || b[19] != 15 || b[20] != 16 || b[80] != 16 {
		t.Errorf("Blocks(40,H) = %v", b)
	}
	b = Blocks(40, L) // 19 x (148,118) + 6 x (149,119)
	if len(b) != 25 || b[0] != 118 || b[18] != 118 || b[19] != 119 || b[24] != 119 {
		t.Errorf("Blocks(40,L) = %v", b)
	}
}

func TestCapacities(t *testing.T) {
	type row struct {
		v          int
		l          Level
		n, a, b, k int
	}
	published := []row{
		{1, L, 41, 25, 17, 10},
		{1, M, 34, 20, 14, 8},
		{1, Q, 27, 16, 11, 7},
		{1, H, 17, 10, 7, 4},
		{2, L, 77, 47, 32, 20},
		{9, L, 552, 335, 230, 141},
		{10, L, 652, 395, 271, 167},
		{10, H, 288, 174, 119, 74},
		{26, L, 3283, 1990, 1367, 842},
		{27, L, 3517, 2132, 1465, 902},
		{27, H, 1501, 910, 625, 385},
		{40, L, 7089, 4296, 2953, 1817},
		{40, M, 5596, 3391, 2331, 1435},
		{40, Q, 3993, 2420, 1663, 1024},
		{40, H, 3057, 1852, 1273, 784},
	}
	for _, p := range published {
		got := [4]int{Capacity(p.v, p.l, Numeric), Capacity(p.v, p.l, Alphanumeric), Capacity(p.v, p.l, Byte), Capacity(p.v, p.l, Kanji)}
		want := [4]int{p.n, p.a, p.b, p.k}
		if got != want {
			t.Errorf("Capacity(%d-%v) = %v, published %v", p.v, p.l, got, want)
		}
	}
	// Capacity must be exactly the fitting boundary of DataCodewordsFor.
	for v := 1; v <= 40; v++ {
		for _, l := range allLevels {
			for _, m := range allModes {
				c := Capacity(v, l, m)
				if _, err := DataCodewordsFor([]Segment{{Mode: m, Data: payload(m, c, v), ECI: -1}}, v, l); err != nil {
					t.Errorf("%d-%v %v: %d characters should fit: %v", v, l, m, c, err)
				}
				if _, err := DataCodewordsFor([]Segment{{Mode: m, Data: payload(m, c+1, v), ECI: -1}}, v, l); err == nil {
					t.Errorf("%d-%v %v: %d characters should not fit", v, l, m, c+1)
				}
			}
		}
	}
}

func TestCharCountBits(t *testing.T) {
	want := map[Mode][3]int{Numeric: {10, 12, 14}, Alphanumeric: {9, 11, 13}, Byte: {8, 16, 16}, Kanji: {8, 10, 12}}
	for v := 1; v <= 40; v++ {
		g := 0
		if v >= 10 {
			g = 1
		}
		if v >= 27 {
			g = 2
		}
		for _, m := range allModes {
			if CharCountBits(m, v) != want[m][g] {
				t.Errorf("CharCountBits(%v,%d) = %d", m, v, CharCountBits(m, v))
			}
		}
	}
}

func TestAlignmentCenters(t *testing.T) {
	for v := 1; v <= 40; v++ {
		got := AlignmentCenters(v)
		if fmt.Sprint(got) != fmt.Sprint(publishedAlignment[v]) {
			t.Errorf("AlignmentCenters(%d) = %v, published %v", v, got, publishedAlignment[v])
		}
	}
	if AlignmentCenters(1) != nil {
		t.Errorf("AlignmentCenters(1) must be nil")
	}
}

func hamming(a, b int) int {
	n := 0
	for x := a ^ b; x != 0; x >>= 1 {
		n += x & 1
	}
	return n
}

func TestFormatAndVersionWords(t *testing.T) {
	bits := map[Level]int{L: 1, M: 0, Q: 3, H: 2}
	var all []int
	for _, l := range allLevels {
		for mask := 0; mask < 8; mask++ {
			got := FormatWord(l, mask)
			want := publishedFormat[bits[l]<<3|mask]
			if got != want {
				t.Errorf("FormatWord(%v,%d) = %#x, published %#x", l, mask, got, want)
			}
			if got>>10 != (bits[l]<<3|mask)^(0x5412>>10) {
				t.Errorf("FormatWord(%v,%d): data bits wrong", l, mask)
			}
			all = append(all, got)
		}
	}
	if FormatWord(M, 0) != 0x5412 { // data 00000 -> 101010000010010
		t.Errorf("FormatWord(M,0) = %#x", FormatWord(M, 0))
	}
	if FormatWord(M, 5) != 0x40CE { // the standard's example: 100000011001110
		t.Errorf("FormatWord(M,5) = %015b", FormatWord(M, 5))
	}
	for i := range all {
		for j := i + 1; j < len(all); j++ {
			if hamming(all[i], all[j]) < 7 {
				t.Errorf("format words %#x %#x closer than 7", all[i], all[j])
			}
		}
	}
	for v := 7; v <= 40; v++ {
		if got := VersionWord(v); got != publishedVersion[v-7] {
			t.Errorf("VersionWord(%d) = %#x, published %#x", v, got, publishedVersion[v-7])
		}
		for w := v + 1; w <= 40; w++ {
			if hamming(VersionWord(v), VersionWord(w)) < 8 {
				t.Errorf("version words %d %d closer than 8", v, w)
			}
		}
	}
	if VersionWord(7) != 0x07C94 || VersionWord(40) != 0x28C69 {
		t.Errorf("VersionWord(7), VersionWord(40) wrong")
	}
}

func TestMaskBit(t *testing.T) {
	// Spot values read off the standard's mask pattern pictures (top-left
	// 6x6 corner, dark = inverted), row by row.
	pictures := [8][6]string{
		{"#.#.#.", ".#.#.#", "#.#.#.", ".#.#.#", "#.#.#.", ".#.#.#"},
		{"######", "......", "######", "......", "######", "......"},
		{"#..#..", "#..#..", "#..#..", "#..#..", "#..#..", "#..#.."},
		{"#..#..", "..#..#", ".#..#.", "#..#..", "..#..#", ".#..#."},
		{"###...", "###...", "...###", "...###", "###...", "###..."},
		{"######", "#.....", "#..#..", "#.#.#.", "#..#..", "#....."},
		{"######", "###...", "##.##.", "#.#.#.", "#.##.#", "#...##"},
		{"#.#.#.", "...###", "#...##", ".#.#.#", "###...", ".###.."},
	}
	for mask := 0; mask < 8; mask++ {
		for r := 0; r < 6; r++ {
			for c := 0; c < 6; c++ {
				want := pictures[mask][r][c] == '#'
				if MaskBit(mask, r, c) != want {
					t.Errorf("MaskBit(%d,%d,%d) = %v", mask, r, c, !want)
				}
			}
		}
	}
}

func TestFunctionModules(t *testing.T) {
	for v := 1; v <= 40; v++ {
		size := Size(v)
		fn := FunctionModules(v)
		if len(fn) != size {
			t.Fatalf("v%d: %d rows", v, len(fn))
		}
		// Symmetric under transposition: every function area has a mirror
		// image (format/version copies, finders, timing, alignment grid),
		// except the dark module, which mirrors onto a format module anyway.
		for r := 0; r < size; r++ {
			if len(fn[r]) != size {
				t.Fatalf("v%d: row %d has %d cols", v, r, len(fn[r]))
			}
			for c := 0; c < size; c++ {
				if fn[r][c] != fn[c][r] {
					t.Errorf("v%d: function map not symmetric at %d,%d", v, r, c)
				}
			}
		}
		for k := 0; k < size; k++ {
			if !fn[6][k] || !fn[k][6] {
				t.Errorf("v%d: timing line not function at %d", v, k)
			}
		}
		if !fn[size-8][8] || !fn[8][8] || !fn[7][7] || fn[9][9] || fn[size-1][size-1] {
			t.Errorf("v%d: spot checks failed", v)
		}
		// Every module is a function module or belongs to exactly one
		// codeword bit / remainder bit.
		seen := newMatrix(size)
		mark := func(p [2]int) {
			if fn[p[0]][p[1]] {
				t.Errorf("v%d: data position %v is a function module", v, p)
			}
			if seen[p[0]][p[1]] {
				t.Errorf("v%d: data position %v used twice", v, p)
			}
			seen[p[0]][p[1]] = true
		}
		for _, cw := range CodewordModules(v) {
			for _, p := range cw {
				mark(p)
			}
		}
		for _, p := range RemainderModules(v) {
			mark(p)
		}
		for r := 0; r < size; r++ {
			for c := 0; c < size; c++ {
				if fn[r][c] == seen[r][c] {
					t.Errorf("v%d: module %d,%d neither/both function and data", v, r, c)
				}
			}
		}
	}
	// The first codeword of every symbol sits in the bottom-right corner,
	// upwards: bits 7..0 at (s-1,s-1) (s-1,s-2) (s-2,s-1) (s-2,s-2) ...
	for v := 1; v <= 40; v++ {
		s := Size(v)
		want := [8][2]int{{s - 1, s - 1}, {s - 1, s - 2}, {s - 2, s - 1}, {s - 2, s - 2}, {s - 3, s - 1}, {s - 3, s - 2}, {s - 4, s - 1}, {s - 4, s - 2}}
		if CodewordModules(v)[0] != want {
			t.Errorf("v%d: first codeword at %v", v, CodewordModules(v)[0])
		}
	}
}

// ---------------------------------------------------------------------------
// GF(256), Reed-Solomon
// ---------------------------------------------------------------------------

func TestGF(t *testing.T) {
	// alpha = 2 is primitive: its powers run through all 255 non-zero
	// elements and alpha^255 = 1.
	seen := map[byte]bool{}
	x := byte(1)
	pow := make([]byte, 256)
	for i := 0; i < 255; i++ {
		if seen[x] {
			t.Fatalf("alpha^%d repeats", i)
		}
		seen[x] = true
		pow[i] = x
		x = gfMul(x, 2)
	}
	if x != 1 {
		t.Fatalf("alpha^255 = %d", x)
	}
	// Published antilog values.
	if pow[8] != 29 || pow[9] != 58 || pow[25] != 3 || pow[254] != 142 {
		t.Errorf("alpha^8=%d alpha^9=%d alpha^25=%d alpha^254=%d", pow[8], pow[9], pow[25], pow[254])
	}
	// Multiplication agrees with addition of exponents, is commutative,
	// and distributes over XOR.
	for i := 0; i < 255; i++ {
		for j := 0; j < 255; j++ {
			if gfMul(pow[i], pow[j]) != pow[(i+j)%255] {
				t.Fatalf("alpha^%d * alpha^%d wrong", i, j)
			}
		}
	}
	for a := 0; a < 256; a++ {
		if gfMul(byte(a), 0) != 0 || gfMul(0, byte(a)) != 0 || gfMul(byte(a), 1) != byte(a) {
			t.Fatalf("0/1 laws fail for %d", a)
		}
	}
	// Published generator polynomial for 7 ec codewords (Annex A):
	// x^7 + a^87 x^6 + a^229 x^5 + a^146 x^4 + a^149 x^3 + a^238 x^2 + a^102 x + a^21
	g := rsGenerator(7)
	wantExp := []int{0, 87, 229, 146, 149, 238, 102, 21}
	for i, e := range wantExp {
		if g[i] != pow[e] {
			t.Errorf("generator(7)[%d] = %d, want alpha^%d = %d", i, g[i], e, pow[e])
		}
	}
	// 10 ec codewords: exponents 0 251 67 46 61 118 70 64 94 32 45
	g = rsGenerator(10)
	wantExp = []int{0, 251, 67, 46, 61, 118, 70, 64, 94, 32, 45}
	for i, e := range wantExp {
		if g[i] != pow[e] {
			t.Errorf("generator(10)[%d] = %d, want alpha^%d = %d", i, g[i], e, pow[e])
		}
	}
}

// evalPoly evaluates the polynomial with coefficients p (highest first) at x.
func evalPoly(p []byte, x byte) byte {
	var y byte
	for _, c := range p {
		y = gfMul(y, x) ^ c
	}
	return y
}

func TestECC(t *testing.T) {
	// The standard's worked example, "01234567" in version 1-M.
	data := []byte{0x10, 0x20, 0x0C, 0x56, 0x61, 0x80, 0xEC, 0x11, 0xEC, 0x11, 0xEC, 0x11, 0xEC, 0x11, 0xEC, 0x11}
	want := []byte{0xA5, 0x24, 0xD4, 0xC1, 0xED, 0x36, 0xC7, 0x87, 0x2C, 0x55}
	if got := ECC(data, 10); !bytes.Equal(got, want) {
		t.Errorf("ECC = % X, want % X", got, want)
	}
	// Another widely published example: "HELLO WORLD" 1-M.
	data = []byte{32, 91, 11, 120, 209, 114, 220, 77, 67, 64, 236, 17, 236, 17, 236, 17}
	want = []byte{196, 35, 39, 119, 235, 215, 231, 226, 93, 23}
	if got := ECC(data, 10); !bytes.Equal(got, want) {
		t.Errorf("ECC = %v, want %v", got, want)
	}
	// Syndromes: every codeword polynomial has roots alpha^0..alpha^(n-1).
	rng := rand.New(rand.NewSource(1))
	for _, n := range []int{7, 10, 13, 15, 16, 17, 18, 20, 22, 24, 26, 28, 30} {
		for trial := 0; trial < 20; trial++ {
			d := make([]byte, 1+rng.Intn(123))
			rng.Read(d)
			cw := append(append([]byte{}, d...), ECC(d, n)...)
			root := byte(1)
			for i := 0; i < n; i++ {
				if evalPoly(cw, root) != 0 {
					t.Fatalf("n=%d: syndrome %d non-zero", n, i)
				}
				root = gfMul(root, 2)
			}
			if evalPoly(cw, root) == 0 && trial == 0 {
				t.Logf("n=%d: alpha^%d is accidentally a root too", n, n)
			}
		}
	}
}

func TestInterleave(t *testing.T) {
	for v := 1; v <= 40; v++ {
		for _, l := range allLevels {
			data := make([]byte, DataCodewords(v, l))
			for i := range data {
				data[i] = byte(i*131 + v)
			}
			out := Interleave(data, v, l)
			if len(out) != TotalCodewords(v) {
				t.Fatalf("%d-%v: Interleave returned %d codewords", v, l, len(out))
			}
			idx := CodewordIndex(v, l)
			if len(idx) != len(out) {
				t.Fatalf("%d-%v: CodewordIndex has %d entries", v, l, len(idx))
			}
			sizes := Blocks(v, l)
			ec, _ := ECInfo(v, l)
			var blocks [][]byte
			off := 0
			for _, n := range sizes {
				d := data[off : off+n]
				blocks = append(blocks, append(append([]byte{}, d...), ECC(d, ec)...))
				off += n
			}
			used := map[[2]int]bool{}
			for i, bi := range idx {
				if used[bi] {
					t.Fatalf("%d-%v: index %v used twice", v, l, bi)
				}
				used[bi] = true
				if out[i] != blocks[bi[0]][bi[1]] {
					t.Fatalf("%d-%v: interleaved[%d] != block %d [%d]", v, l, i, bi[0], bi[1])
				}
			}
			// The first numBlocks codewords are the first data codeword of
			// each block; the last is the last ec codeword of the last block.
			for b := range sizes {
				if idx[b] != [2]int{b, 0} {
					t.Fatalf("%d-%v: idx[%d] = %v", v, l, b, idx[b])
				}
			}
			lastB := len(sizes) - 1
			if idx[len(idx)-1] != [2]int{lastB, sizes[lastB] + ec - 1} {
				t.Fatalf("%d-%v: last idx = %v", v, l, idx[len(idx)-1])
			}
		}
	}
	// 5-Q has blocks 15,15,16,16: the standard's figure shows D1 D16 D31 D47
	// D2 ... D15 D30 D45 D61 D46 D62 E1 E19 ...
	data := make([]byte, 62)
	for i := range data {
		data[i] = byte(i + 1)
	}
	out := Interleave(data, 5, Q)
	wantHead := []byte{1, 16, 31, 47, 2, 17, 32, 48}
	if !bytes.Equal(out[:8], wantHead) {
		t.Errorf("5-Q head = %v", out[:8])
	}
	wantTail := []byte{15, 30, 45, 61, 46, 62}
	if !bytes.Equal(out[56:62], wantTail) {
		t.Errorf("5-Q data tail = %v", out[56:62])
	}
}

// ---------------------------------------------------------------------------
// Segments
// ---------------------------------------------------------------------------

func bitString(bits []bool) string {
	var sb strings.Builder
	for _, b := range bits {
		if b {
			sb.WriteByte('1')
		} else {
			sb.WriteByte('0')
		}
	}
	return sb.String()
}

func TestSegmentBitsPublishedExamples(t *testing.T) {
	cases := []struct {
		name string
		segs []Segment
		v    int
		want string
	}{
		{"numeric 01234567 (1-M example)",
			[]Segment{{Mode: Numeric, Data: []byte("01234567"), ECI: -1}}, 1,
			"0001 0000001000 0000001100 0101011001 1000011"},
		{"numeric 0123456789012345 (1-H example)",
			[]Segment{{Mode: Numeric, Data: []byte("0123456789012345"), ECI: -1}}, 1,
			"0001 0000010000 0000001100 0101011001 1010100110 1110000101 0011101010 0101"},
		{"alphanumeric AC-42 (1-H example)",
			[]Segment{{Mode: Alphanumeric, Data: []byte("AC-42"), ECI: -1}}, 1,
			"0010 000000101 00111001110 11100111001 000010"},
		{"kanji 935F E4AA",
			[]Segment{{Mode: Kanji, Data: []byte{0x93, 0x5F, 0xE4, 0xAA}, ECI: -1}}, 1,
			"1000 00000010 0110110011111 1101010101010"},
		{"ECI 000009 + bytes A1..A5",
			[]Segment{{Mode: Byte, Data: []byte{0xA1, 0xA2, 0xA3, 0xA4, 0xA5}, ECI: 9}}, 1,
			"0111 00001001 0100 00000101 10100001 10100010 10100011 10100100 10100101"},
		{"ECI 16-bit and 24-bit designators",
			[]Segment{{Mode: Byte, Data: []byte{0x41}, ECI: 128}, {Mode: Numeric, Data: []byte("7"), ECI: 999999}}, 10,
			"0111 10000000 10000000 0100 0000000000000001 01000001" +
				"0111 11001111 01000010 00111111 0001 000000000001 0111"},
	}
	for _, c := range cases {
		bits, err := SegmentBits(c.segs, c.v)
		if err != nil {
			t.Errorf("%s: %v", c.name, err)
			continue
		}
		want := strings.ReplaceAll(c.want, " ", "")
		if bitString(bits) != want {
			t.Errorf("%s:\n got %s\nwant %s", c.name, bitString(bits), want)
		}
	}
	// Full codeword sequence of the 1-M example.
	data, err := DataCodewordsFor([]Segment{{Mode: Numeric, Data: []byte("01234567"), ECI: -1}}, 1, M)
	want := []byte{0x10, 0x20, 0x0C, 0x56, 0x61, 0x80, 0xEC, 0x11, 0xEC, 0x11, 0xEC, 0x11, 0xEC, 0x11, 0xEC, 0x11}
	if err != nil || !bytes.Equal(data, want) {
		t.Errorf("1-M example: % X, %v", data, err)
	}
	// "HELLO WORLD" 1-Q: 13 data codewords (widely published).
	data, err = DataCodewordsFor([]Segment{{Mode: Alphanumeric, Data: []byte("HELLO WORLD"), ECI: -1}}, 1, Q)
	want = []byte{0x20, 0x5B, 0x0B, 0x78, 0xD1, 0x72, 0xDC, 0x4D, 0x43, 0x40, 0xEC, 0x11, 0xEC}
	if err != nil || !bytes.Equal(data, want) {
		t.Errorf("HELLO WORLD 1-Q: % X, %v", data, err)
	}
}

func TestTerminatorAndPadding(t *testing.T) {
	// 1-H has 9 data codewords = 72 bits.  Numeric header is 14 bits.
	// 17 digits = 5*10+7 = 57 bits -> 71 bits: 1-bit terminator, no pad bits.
	mk := func(n int) []Segment {
		return []Segment{{Mode: Numeric, Data: payload(Numeric, n, 3), ECI: -1}}
	}
	d, err := DataCodewordsFor(mk(17), 1, H)
	if err != nil || len(d) != 9 || d[8]&1 != 0 {
		t.Errorf("17 digits 1-H: % X %v", d, err)
	}
	// 16 digits = 54 bits -> 68 bits: full 4-bit terminator, exactly 72.
	d, err = DataCodewordsFor(mk(16), 1, H)
	if err != nil || len(d) != 9 || d[8]&0xF != 0 {
		t.Errorf("16 digits 1-H: % X %v", d, err)
	}
	// 14 digits = 40+7 = 47 -> 61 bits: terminator to 65, pad bits to 72.
	d, err = DataCodewordsFor(mk(14), 1, H)
	if err != nil || len(d) != 9 || d[7]&0x7 != 0 || d[8] != 0 {
		t.Errorf("14 digits 1-H: % X %v", d, err)
	}
	// 13 digits = 44 -> 58: terminator to 62, pad bits to 64, one pad codeword EC.
	d, err = DataCodewordsFor(mk(13), 1, H)
	if err != nil || len(d) != 9 || d[8] != 0xEC {
		t.Errorf("13 digits 1-H: % X %v", d, err)
	}
	// Empty input: terminator + pads only.
	d, err = DataCodewordsFor(nil, 1, H)
	if err != nil || !bytes.Equal(d, []byte{0, 0xEC, 0x11, 0xEC, 0x11, 0xEC, 0x11, 0xEC, 0x11}) {
		t.Errorf("empty 1-H: % X %v", d, err)
	}
	if _, err = DataCodewordsFor(mk(18), 1, H); err != ErrTooLong {
		t.Errorf("18 digits 1-H: err = %v", err)
	}
	// Invalid content.
	bad := [][]Segment{
		{{Mode: Numeric, Data: []byte("12a"), ECI: -1}},
		{{Mode: Alphanumeric, Data: []byte("ab"), ECI: -1}},
		{{Mode: Kanji, Data: []byte{0x93}, ECI: -1}},
		{{Mode: Kanji, Data: []byte{0xA0, 0x40}, ECI: -1}},
		{{Mode: Kanji, Data: []byte{0x81, 0x3F}, ECI: -1}},
		{{Mode: Kanji, Data: []byte{0xEB, 0xC0}, ECI: -1}},
		{{Mode: Byte, Data: []byte{1}, ECI: 1000000}},
		{{Mode: Byte, Data: make([]byte, 256), ECI: -1}}, // 8-bit count at v1..9
	}
	for i, segs := range bad {
		if _, err := DataCodewordsFor(segs, 9, L); err == nil || err == ErrTooLong {
			t.Errorf("bad[%d]: err = %v", i, err)
		}
	}
}

func TestAlnumIndex(t *testing.T) {
	set := "0123456789ABCDEFGHIJKLMNOPQRSTUVWXYZ $%*+-./:"
	if len(set) != 45 {
		t.Fatal("test table broken")
	}
	for c := 0; c < 256; c++ {
		want := strings.IndexByte(set, byte(c))
		if AlnumIndex(byte(c)) != want {
			t.Errorf("AlnumIndex(%q) = %d, want %d", c, AlnumIndex(byte(c)), want)
		}
	}
	// Published values: space 36, $ 37, % 38, * 39, + 40, - 41, . 42, / 43, : 44.
	for c, want := range map[byte]int{'0': 0, '9': 9, 'A': 10, 'Z': 35, ' ': 36, '$': 37, '%': 38, '*': 39, '+': 40, '-': 41, '.': 42, '/': 43, ':': 44} {
		if AlnumIndex(c) != want {
			t.Errorf("AlnumIndex(%q) = %d, want %d", c, AlnumIndex(c), want)
		}
	}
}

// payload returns n characters (2n bytes for Kanji) valid in mode m.
func payload(m Mode, n int, seed int) []byte {
	var out []byte
	switch m {
	case Numeric:
		for i := 0; i < n; i++ {
			out = append(out, byte('0'+(i*7+seed+i/10)%10))
		}
	case Alphanumeric:
		set := "0123456789ABCDEFGHIJKLMNOPQRSTUVWXYZ $%*+-./:"
		for i := 0; i < n; i++ {
			out = append(out, set[(i*11+seed+i/45)%45])
		}
	case Byte:
		for i := 0; i < n; i++ {
			out = append(out, byte(i*37+seed+i/256))
		}
	case Kanji:
		for i := 0; i < n; i++ {
			// First bytes 0x81..0x9F and 0xE0..0xEA, second 0x40..0xFC:
			// all inside the two ranges of the standard.
			firsts := 0x9F - 0x81 + 1 + 0xEA - 0xE0 + 1
			f := (i*5 + seed) % firsts
			b1 := 0x81 + f
			if b1 > 0x9F {
				b1 = 0xE0 + (f - (0x9F - 0x81 + 1))
			}
			b2 := 0x40 + (i*29+seed*3)%(0xFC-0x40+1)
			out = append(out, byte(b1), byte(b2))
		}
	}
	if out == nil {
		out = []byte{}
	}
	return out
}

func segmentsEqual(a, b []Segment) bool {
	if len(a) != len(b) {
		return false
	}
	for i := range a {
		if a[i].Mode != b[i].Mode || a[i].ECI != b[i].ECI || !bytes.Equal(a[i].Data, b[i].Data) {
			return false
		}
	}
	return true
}

func TestParseSegmentsErrors(t *testing.T) {
	bad := []struct {
		name string
		bits string
	}{
		{"numeric group 1000", "0001 0000000011 1111101000"},
		{"numeric 2-digit 100", "0001 0000000010 1100100"},
		{"numeric 1-digit 10", "0001 0000000001 1010"},
		{"alnum pair 2025", "0010 000000010 11111101001"},
		{"alnum single 45", "0010 000000001 101101"},
		{"truncated byte", "0100 00000010 01000001"},
		{"mode 0011", "0011 0000 0000"},
		{"mode 0101", "0101 0000 0000"},
		{"dangling ECI", "0111 00000001 0000"},
		{"bad ECI designator", "0111 11100000 00000000 00000000"},
		// numeric "5" (18 bits) + byte "A" (20 bits) + 2 left-over bits "01"
		{"non-zero short terminator", "0001 0000000001 0101 0100 00000001 01000001 01"},
	}
	for _, c := range bad {
		if segs, err := ParseSegments(bitsToBytes(c.bits), 1); err == nil {
			t.Errorf("%s: no error, segs = %+v", c.name, segs)
		}
	}
	// Explicit terminator.
	segs, err := ParseSegments(bitsToBytes("0100 00000001 01000001 0000"), 1)
	if err != nil || len(segs) != 1 || string(segs[0].Data) != "A" {
		t.Errorf("got %+v %v", segs, err)
	}
	// Stream ends with a 2-bit (abbreviated) terminator.
	segs, err = ParseSegments(bitsToBytes("0001 0000000001 0101 0100 00000001 01000001 00"), 1)
	if err != nil || len(segs) != 2 || string(segs[0].Data) != "5" || string(segs[1].Data) != "A" {
		t.Errorf("got %+v %v", segs, err)
	}
	// An empty byte segment last; the zero padding after it reads as terminator.
	segs, err = ParseSegments(bitsToBytes("0100 00000001 01000001 0001 0000000001 0101 0100 00000000"), 1)
	if err != nil || len(segs) != 3 || len(segs[2].Data) != 0 {
		t.Errorf("got %+v %v", segs, err)
	}
}

// bitsToBytes packs a string of '0'/'1' (spaces ignored), zero-padded to a
// whole number of bytes.
func bitsToBytes(bits string) []byte {
	s := strings.ReplaceAll(bits, " ", "")
	for len(s)%8 != 0 {
		s += "0"
	}
	var data []byte
	for i := 0; i < len(s); i += 8 {
		var b byte
		for k := 0; k < 8; k++ {
			b <<= 1
			if s[i+k] == '1' {
				b |= 1
			}
		}
		data = append(data, b)
	}
	return data
}

// ---------------------------------------------------------------------------
// 2. Build -> Read -> ParseSegments round trip
// ---------------------------------------------------------------------------

// fitSegment returns the longest payload of mode m (at most want characters)
// with the given ECI that fits v-l, together with its data codewords.
func fitSegment(t *testing.T, m Mode, want, eci, v int, l Level, seed int) ([]Segment, []byte) {
	t.Helper()
	for n := want; n >= 0; n-- {
		segs := []Segment{{Mode: m, Data: payload(m, n, seed), ECI: eci}}
		data, err := DataCodewordsFor(segs, v, l)
		if err == nil {
			return segs, data
		}
		if err != ErrTooLong {
			t.Fatalf("%d-%v %v n=%d: %v", v, l, m, n, err)
		}
	}
	t.Fatalf("%d-%v %v: nothing fits", v, l, m)
	return nil, nil
}

func TestRoundTripAll(t *testing.T) {
	ecis := []int{-1, 26, -1, 899, -1, 123456, 3, -1}
	for v := 1; v <= 40; v++ {
		v := v
		t.Run(fmt.Sprintf("v%d", v), func(t *testing.T) {
			t.Parallel()
			for _, l := range allLevels {
				for mask := 0; mask < 8; mask++ {
					for _, m := range allModes {
						want := Capacity(v, l, m) - (v+mask+int(l)+int(m))%5
						if want < 0 {
							want = 0
						}
						segs, data := fitSegment(t, m, want, ecis[(mask+int(m))%8], v, l, v*mask+int(l))
						matrix := Build(data, v, l, mask)
						if len(matrix) != Size(v) {
							t.Fatalf("size %d", len(matrix))
						}
						gv, gl, gmask, gdata, err := Read(matrix)
						if err != nil || gv != v || gl != l || gmask != mask || !bytes.Equal(gdata, data) {
							t.Fatalf("%d-%v mask %d %v: Read = %d %v %d err %v, data equal %v",
								v, l, mask, m, gv, gl, gmask, err, bytes.Equal(gdata, data))
						}
						gsegs, err := ParseSegments(gdata, gv)
						if err != nil || !segmentsEqual(gsegs, segs) {
							t.Fatalf("%d-%v mask %d %v: ParseSegments err %v", v, l, mask, m, err)
						}
					}
				}
			}
		})
	}
}

func TestRoundTripMixed(t *testing.T) {
	for v := 2; v <= 40; v += 3 {
		segs := []Segment{
			{Mode: Numeric, Data: payload(Numeric, 5, v), ECI: -1},
			{Mode: Byte, Data: payload(Byte, 2, v), ECI: 26},
			{Mode: Kanji, Data: payload(Kanji, 1, v), ECI: -1},
			{Mode: Alphanumeric, Data: payload(Alphanumeric, 3, v), ECI: 20000},
			{Mode: Byte, Data: []byte{}, ECI: -1},
		}
		data, err := DataCodewordsFor(segs, v, L)
		if err != nil {
			t.Fatal(err)
		}
		_, _, _, gdata, err := Read(Build(data, v, L, v%8))
		if err != nil {
			t.Fatal(err)
		}
		got, err := ParseSegments(gdata, v)
		if err != nil || !segmentsEqual(got, segs) {
			t.Errorf("v%d: got %+v err %v", v, got, err)
		}
	}
}

func TestReadDetectsDamage(t *testing.T) {
	_, data := fitSegment(t, Byte, 20, -1, 7, M, 1)
	m := Build(data, 7, M, 3)
	// A flipped data module -> ErrParity, data still returned.
	p := CodewordModules(7)[5][2]
	m[p[0]][p[1]] = !m[p[0]][p[1]]
	_, _, _, got, err := Read(m)
	if err != ErrParity || len(got) != len(data) {
		t.Errorf("err = %v", err)
	}
	m[p[0]][p[1]] = !m[p[0]][p[1]]
	// One damaged format copy is tolerated, two are not.
	m[8][0] = !m[8][0]
	if _, _, mask, _, err := Read(m); err != nil || mask != 3 {
		t.Errorf("one damaged format copy: %v", err)
	}
	m[8][Size(7)-1] = !m[8][Size(7)-1]
	if _, _, _, _, err := Read(m); err == nil {
		t.Errorf("two damaged format copies accepted")
	}
	// Wrong sizes.
	if _, _, _, _, err := Read(newMatrix(22)); err == nil {
		t.Errorf("size 22 accepted")
	}
}

func TestBuildFunctionPatterns(t *testing.T) {
	// Function patterns must be identical across masks and data, except
	// for the format information.
	for _, v := range []int{1, 2, 6, 7, 14, 32, 40} {
		size := Size(v)
		fn := FunctionModules(v)
		a := Build(make([]byte, DataCodewords(v, L)), v, L, 0)
		_, d := fitSegment(t, Byte, Capacity(v, H, Byte), -1, v, H, 9)
		b := Build(d, v, H, 5)
		isFormat := newMatrix(size)
		for _, ps := range formatPositions(size) {
			for _, p := range ps {
				isFormat[p[0]][p[1]] = true
			}
		}
		for r := 0; r < size; r++ {
			for c := 0; c < size; c++ {
				if fn[r][c] && !isFormat[r][c] && a[r][c] != b[r][c] {
					t.Errorf("v%d: function module %d,%d differs", v, r, c)
				}
			}
		}
		// Finder corners, timing, dark module.
		if !a[0][0] || a[1][1] || !a[2][2] || !a[3][3] || a[7][7] || a[7][0] || a[0][7] ||
			!a[0][size-1] || !a[size-1][0] || !a[size-8][8] || !a[6][8] || a[6][9] || !a[8][6] || a[9][6] {
			t.Errorf("v%d: function pattern spot checks failed", v)
		}
		if v >= 2 {
			c := size - 7
			if !a[c][c] || a[c-1][c-1] || !a[c-2][c-2] || !a[c+2][c] || a[c+1][c] {
				t.Errorf("v%d: alignment pattern spot checks failed", v)
			}
		}
		// All-zero data with mask 0 leaves exactly the mask pattern in the
		// data area, wherever the codeword is 0 (data codewords; the ec
		// codewords of all-zero data are 0 as well).
		for r := 0; r < size; r++ {
			for c := 0; c < size; c++ {
				if !fn[r][c] && a[r][c] != ((r+c)%2 == 0) {
					t.Fatalf("v%d: zero data mask 0 at %d,%d", v, r, c)
				}
			}
		}
	}
}

func TestConcurrentUse(t *testing.T) {
	var wg sync.WaitGroup
	for g := 0; g < 8; g++ {
		wg.Add(1)
		go func(g int) {
			defer wg.Done()
			for v := 1; v <= 40; v++ {
				data := make([]byte, DataCodewords(v, Q))
				for i := range data {
					data[i] = byte(i + g)
				}
				_, _, _, got, err := Read(Build(data, v, Q, g))
				if err != nil || !bytes.Equal(got, data) {
					t.Errorf("goroutine %d v%d: %v", g, v, err)
				}
			}
		}(g)
	}
	wg.Wait()
}

func TestBuildSpeed(t *testing.T) {
	data := make([]byte, DataCodewords(40, L))
	for i := range data {
		data[i] = byte(i * 7)
	}
	Build(data, 40, L, 0) // warm the cache
	const n = 20
	start := time.Now()
	for i := 0; i < n; i++ {
		Build(data, 40, Level(i%4), i%8)
		data = data[:DataCodewords(40, Level((i+1)%4))]
	}
	per := time.Since(start) / n
	t.Logf("Build v40: %v per symbol", per)
	if per > 5*time.Millisecond {
		t.Errorf("Build v40 takes %v, want < 5ms", per)
	}
}

func BenchmarkBuild40(b *testing.B) {
	data := make([]byte, DataCodewords(40, H))
	for i := 0; i < b.N; i++ {
		Build(data, 40, H, i%8)
	}
}

// ---------------------------------------------------------------------------
// 3. Cross-checks against the library, used as a black box
// ---------------------------------------------------------------------------

var libLevel = map[Level]decoder.ErrorCorrectionLevel{
	L: decoder.ErrorCorrectionLevel_L,
	M: decoder.ErrorCorrectionLevel_M,
	Q: decoder.ErrorCorrectionLevel_Q,
	H: decoder.ErrorCorrectionLevel_H,
}

func libEncode(t *testing.T, content string, v int, l Level, mask int, charset string) *encoder.QRCode {
	t.Helper()
	hints := map[gozxing.EncodeHintType]interface{}{}
	if v > 0 {
		hints[gozxing.EncodeHintType_QR_VERSION] = v
	}
	if mask >= 0 {
		hints[gozxing.EncodeHintType_QR_MASK_PATTERN] = mask
	}
	if charset != "" {
		hints[gozxing.EncodeHintType_CHARACTER_SET] = charset
	}
	code, err := encoder.Encoder_encode(content, libLevel[l], hints)
	if err != nil {
		t.Fatalf("library encode v%d-%v mask %d (%d chars): %v", v, l, mask, len(content), err)
	}
	return code
}

func libMatrix(code *encoder.QRCode) [][]bool {
	bm := code.GetMatrix()
	out := make([][]bool, bm.GetHeight())
	for r := range out {
		out[r] = make([]bool, bm.GetWidth())
		for c := range out[r] {
			out[r][c] = bm.Get(c, r) == 1
		}
	}
	return out
}

func toBitMatrix(t *testing.T, m [][]bool) *gozxing.BitMatrix {
	t.Helper()
	bm, err := gozxing.NewBitMatrix(len(m), len(m))
	if err != nil {
		t.Fatal(err)
	}
	for r := range m {
		for c := range m[r] {
			if m[r][c] {
				bm.Set(c, r)
			}
		}
	}
	return bm
}

func diffMatrices(a, b [][]bool) string {
	if len(a) != len(b) {
		return fmt.Sprintf("sizes %d vs %d", len(a), len(b))
	}
	n := 0
	first := ""
	for r := range a {
		for c := range a[r] {
			if a[r][c] != b[r][c] {
				if n == 0 {
					first = fmt.Sprintf("first at row %d col %d", r, c)
				}
				n++
			}
		}
	}
	if n == 0 {
		return ""
	}
	return fmt.Sprintf("%d modules differ, %s", n, first)
}

// asciiLower returns n bytes of lower-case letters (forces byte mode in the
// library, and decodes to itself under every charset guess).
func asciiLower(n, seed int) []byte {
	out := make([]byte, n)
	for i := range out {
		out[i] = byte('a' + (i*7+seed+i/26)%26)
	}
	return out
}

// Every version, level and mask: the library's encoder output for a byte
// mode payload equals Build, and the library's decoder reads Build's output.
func TestLibraryEncoderAndDecoderAllSymbols(t *testing.T) {
	for v := 1; v <= 40; v++ {
		v := v
		t.Run(fmt.Sprintf("v%d", v), func(t *testing.T) {
			t.Parallel()
			for _, l := range allLevels {
				for mask := 0; mask < 8; mask++ {
					n := Capacity(v, l, Byte) - (v+mask)%3
					text := asciiLower(n, v+mask)
					segs := []Segment{{Mode: Byte, Data: text, ECI: -1}}
					data, err := DataCodewordsFor(segs, v, l)
					if err != nil {
						t.Fatal(err)
					}
					mine := Build(data, v, l, mask)
					code := libEncode(t, string(text), v, l, mask, "")
					if d := diffMatrices(mine, libMatrix(code)); d != "" {
						t.Errorf("%d-%v mask %d: library encoder differs from reference: %s", v, l, mask, d)
					}
					res, derr := decoder.NewDecoder().Decode(toBitMatrix(t, mine), nil)
					if derr != nil {
						t.Errorf("%d-%v mask %d: library decoder fails on reference symbol: %v", v, l, mask, derr)
						continue
					}
					if res.GetText() != string(text) {
						t.Errorf("%d-%v mask %d: library decoder text differs", v, l, mask)
					}
					if !bytes.Equal(res.GetRawBytes(), data) {
						t.Errorf("%d-%v mask %d: library decoder raw bytes differ from data codewords", v, l, mask)
					}
				}
			}
		})
	}
}

// Shift JIS bytes of a few characters usable for kanji-mode tests.
var sjis = map[rune][2]byte{
	'点': {0x93, 0x5F},
	'茗': {0xE4, 0xAA},
	'あ': {0x82, 0xA0},
	'日': {0x93, 0xFA},
	'本': {0x96, 0x7B},
	'語': {0x8C, 0xEA},
}

func kanjiText(n, seed int) (string, []byte) {
	runes := []rune{'点', '茗', 'あ', '日', '本', '語'}
	var sb strings.Builder
	var raw []byte
	for i := 0; i < n; i++ {
		r := runes[(i*5+seed+i/6)%len(runes)]
		sb.WriteRune(r)
		raw = append(raw, sjis[r][0], sjis[r][1])
	}
	return sb.String(), raw
}

// Numeric, alphanumeric and kanji modes (and ECI) for every version/level,
// one mask each.
func TestLibraryOtherModes(t *testing.T) {
	for v := 1; v <= 40; v++ {
		v := v
		t.Run(fmt.Sprintf("v%d", v), func(t *testing.T) {
			t.Parallel()
			for _, l := range allLevels {
				mask := (v*3 + int(l)) % 8
				type tc struct {
					name    string
					content string
					charset string
					segs    []Segment
				}
				var cases []tc
				nn := Capacity(v, l, Numeric) - v%4
				num := payload(Numeric, nn, v)
				cases = append(cases, tc{"numeric", string(num), "", []Segment{{Mode: Numeric, Data: num, ECI: -1}}})
				na := Capacity(v, l, Alphanumeric) - v%3
				aln := payload(Alphanumeric, na, v)
				if strings.Trim(string(aln), "0123456789") == "" {
					aln[0] = 'A'
				}
				cases = append(cases, tc{"alphanumeric", string(aln), "", []Segment{{Mode: Alphanumeric, Data: aln, ECI: -1}}})
				nk := Capacity(v, l, Kanji) - v%2
				ktext, kraw := kanjiText(nk, v)
				cases = append(cases, tc{"kanji", ktext, "Shift_JIS", []Segment{{Mode: Kanji, Data: kraw, ECI: -1}}})
				// Byte mode with an explicit charset: ECI header first.
				nb := Capacity(v, l, Byte) - 2 - v%3
				if nb >= 1 {
					txt := asciiLower(nb, v)
					cases = append(cases, tc{"byte+ECI26", string(txt), "UTF-8", []Segment{{Mode: Byte, Data: txt, ECI: 26}}})
				}
				for _, c := range cases {
					data, err := DataCodewordsFor(c.segs, v, l)
					if err != nil {
						t.Fatalf("%d-%v %s: %v", v, l, c.name, err)
					}
					mine := Build(data, v, l, mask)
					code := libEncode(t, c.content, v, l, mask, c.charset)
					if d := diffMatrices(mine, libMatrix(code)); d != "" {
						t.Errorf("%d-%v mask %d %s: library encoder differs from reference: %s", v, l, mask, c.name, d)
					}
					res, derr := decoder.NewDecoder().Decode(toBitMatrix(t, mine), nil)
					if derr != nil {
						t.Errorf("%d-%v mask %d %s: library decoder fails on reference symbol: %v", v, l, mask, c.name, derr)
						continue
					}
					if res.GetText() != c.content {
						t.Errorf("%d-%v mask %d %s: library decoder text differs", v, l, mask, c.name)
					}
				}
			}
		})
	}
}

// Mixed-mode symbols (which the library's encoder never produces) through
// the library's decoder.
func TestLibraryDecoderMixedSegments(t *testing.T) {
	ktext, kraw := kanjiText(3, 1)
	segs := []Segment{
		{Mode: Numeric, Data: []byte("0123456789"), ECI: -1},
		{Mode: Alphanumeric, Data: []byte("HELLO WORLD $%*+-./:"), ECI: -1},
		{Mode: Kanji, Data: kraw, ECI: -1},
		{Mode: Byte, Data: []byte("h\xC3\xA9llo"), ECI: 26},
		{Mode: Numeric, Data: []byte("7"), ECI: -1},
	}
	want := "0123456789" + "HELLO WORLD $%*+-./:" + ktext + "héllo" + "7"
	for _, v := range []int{5, 9, 10, 26, 27, 40} {
		for _, l := range allLevels {
			data, err := DataCodewordsFor(segs, v, l)
			if err != nil {
				t.Fatalf("%d-%v: %v", v, l, err)
			}
			for mask := 0; mask < 8; mask++ {
				res, derr := decoder.NewDecoder().Decode(toBitMatrix(t, Build(data, v, l, mask)), nil)
				if derr != nil {
					t.Errorf("%d-%v mask %d: %v", v, l, mask, derr)
					continue
				}
				if res.GetText() != want {
					t.Errorf("%d-%v mask %d: text %q, want %q", v, l, mask, res.GetText(), want)
				}
			}
		}
	}
}

// The library's automatic version choice picks the smallest version whose
// capacity suffices; check against Capacity on the boundaries.
func TestLibraryVersionChoice(t *testing.T) {
	for v := 1; v <= 40; v++ {
		for _, l := range allLevels {
			for _, m := range []Mode{Numeric, Alphanumeric, Byte} {
				n := Capacity(v, l, m)
				var content []byte
				switch m {
				case Byte:
					content = asciiLower(n, v)
				default:
					content = payload(m, n, v)
					if m == Alphanumeric {
						content[0] = 'A'
					}
				}
				code := libEncode(t, string(content), 0, l, -1, "")
				if got := code.GetVersion().GetVersionNumber(); got != v {
					t.Errorf("%v %d chars at %v: library chose version %d, reference says %d", m, n, l, got, v)
				}
				if v < 40 {
					content = append(content, content[0])
					code = libEncode(t, string(content), 0, l, -1, "")
					if got := code.GetVersion().GetVersionNumber(); got != v+1 {
						t.Errorf("%v %d chars at %v: library chose version %d, reference says %d", m, n+1, l, got, v+1)
					}
				}
			}
		}
	}
}

func toByteMatrix(m [][]bool) *encoder.ByteMatrix {
	bm := encoder.NewByteMatrix(len(m), len(m))
	for r := range m {
		for c := range m[r] {
			bm.SetBool(c, r, m[r][c])
		}
	}
	return bm
}

// The four penalty features against the library's exported rule functions.
func TestPenaltyRulesAgainstLibrary(t *testing.T) {
	rng := rand.New(rand.NewSource(7))
	check := func(name string, m [][]bool) {
		bm := toByteMatrix(m)
		if a, b := penaltyN1(m), encoder.MaskUtil_applyMaskPenaltyRule1(bm); a != b {
			t.Errorf("%s: N1 reference %d, library %d", name, a, b)
		}
		if a, b := penaltyN2(m), encoder.MaskUtil_applyMaskPenaltyRule2(bm); a != b {
			t.Errorf("%s: N2 reference %d, library %d", name, a, b)
		}
		if a, b := penaltyN3(m, true), encoder.MaskUtil_applyMaskPenaltyRule3(bm); a != b {
			t.Errorf("%s: N3 reference %d (outside not light: %d), library %d", name, a, penaltyN3(m, false), b)
		}
		if a, b := penaltyN4(m), encoder.MaskUtil_applyMaskPenaltyRule4(bm); a != b {
			t.Errorf("%s: N4 reference %d, library %d", name, a, b)
		}
	}
	for trial := 0; trial < 60; trial++ {
		v := 1 + rng.Intn(40)
		l := Level(rng.Intn(4))
		data := make([]byte, DataCodewords(v, l))
		rng.Read(data)
		check(fmt.Sprintf("random symbol %d-%v", v, l), Build(data, v, l, rng.Intn(8)))
	}
	// Random noise of several densities, and some structured matrices.
	for trial := 0; trial < 60; trial++ {
		size := 21 + 4*rng.Intn(10)
		m := newMatrix(size)
		density := rng.Intn(11)
		for r := range m {
			for c := range m[r] {
				m[r][c] = rng.Intn(10) < density
			}
		}
		check(fmt.Sprintf("noise %d density %d", trial, density), m)
	}
	// Rows made of back-to-back finder-like patterns touching the edges.
	m := newMatrix(21)
	pat := "1011101" + "0000" + "1011101" + "000"
	for r := range m {
		for c := range m[r] {
			m[r][c] = pat[c] == '1'
		}
	}
	check("finder rows", m)
	pat = "0001011101" + "0000" + "1011101"
	for r := range m {
		for c := range m[r] {
			m[r][c] = pat[(c+r)%21] == '1'
		}
	}
	check("shifted finder rows", m)
}

// Automatic mask choice: BestMask must agree with the library.
func TestBestMaskAgainstLibrary(t *testing.T) {
	rng := rand.New(rand.NewSource(42))
	disagreements := 0
	total := 0
	for trial := 0; trial < 240; trial++ {
		v := 1 + rng.Intn(40)
		if trial%3 != 0 {
			v = 1 + rng.Intn(10) // keep most of them small and fast
		}
		l := Level(rng.Intn(4))
		m := []Mode{Numeric, Alphanumeric, Byte}[rng.Intn(3)]
		n := rng.Intn(Capacity(v, l, m) + 1)
		if n == 0 {
			n = 1
		}
		var content []byte
		switch m {
		case Numeric:
			for i := 0; i < n; i++ {
				content = append(content, byte('0'+rng.Intn(10)))
			}
		case Alphanumeric:
			for i := 0; i < n; i++ {
				content = append(content, alnumChars[rng.Intn(45)])
			}
			content[0] = 'A' + byte(rng.Intn(26))
		case Byte:
			for i := 0; i < n; i++ {
				content = append(content, byte('a'+rng.Intn(26)))
			}
		}
		data, err := DataCodewordsFor([]Segment{{Mode: m, Data: content, ECI: -1}}, v, l)
		if err != nil {
			t.Fatal(err)
		}
		code := libEncode(t, string(content), v, l, -1, "")
		total++
		lib := code.GetMaskPattern()
		ref := BestMask(data, v, l)
		if lib != ref {
			disagreements++
			t.Errorf("trial %d: %d-%v %v %q...: library mask %d (reference penalty %d), reference mask %d (penalty %d)",
				trial, v, l, m, content[:min(len(content), 20)], lib, Penalty(Build(data, v, l, lib)), ref, Penalty(Build(data, v, l, ref)))
			continue
		}
		if d := diffMatrices(Build(data, v, l, ref), libMatrix(code)); d != "" {
			t.Errorf("trial %d: %d-%v: matrices differ: %s", trial, v, l, d)
		}
	}
	t.Logf("BestMask: %d/%d disagreements with the library", disagreements, total)
}
