package qr

// gfMul multiplies two elements of GF(2^8) defined by the primitive
// polynomial x^8+x^4+x^3+x^2+1 (0x11D): shift-and-add (carry-less)
// multiplication with reduction after every shift.
func gfMul(a, b byte) byte {
	var product int
	x := int(a)
	for i := 0; i < 8; i++ {
		if (b>>uint(i))&1 == 1 {
			product ^= x
		}
		x <<= 1
		if x&0x100 != 0 {
			x ^= 0x11D
		}
	}
	return byte(product)
}

// rsGenerator returns the coefficients of prod_{i=0}^{n-1} (x - alpha^i),
// alpha = 2, highest power first; the result has n+1 entries and a leading 1.
func rsGenerator(n int) []byte {
	g := []byte{1}
	root := byte(1) // alpha^0
	for i := 0; i < n; i++ {
		// g = g * (x + root); subtraction equals addition in GF(2^k).
		next := make([]byte, len(g)+1)
		for j := 0; j < len(g); j++ {
			next[j] ^= g[j]                // g[j] * x
			next[j+1] ^= gfMul(g[j], root) // g[j] * root
		}
		g = next
		root = gfMul(root, 2)
	}
	return g
}

// ECC returns the n Reed-Solomon error correction codewords of one block:
// the remainder of data(x) * x^n divided by the generator polynomial
// prod_{i=0}^{n-1} (x - alpha^i).  data[0] is the highest-order coefficient.
func ECC(data []byte, n int) []byte {
	if n <= 0 {
		panic("qr: ECC needs n > 0")
	}
	gen := rsGenerator(n)
	// Long division; rem holds the current n-coefficient remainder.
	rem := make([]byte, n)
	for _, d := range data {
		factor := d ^ rem[0]
		// Shift the remainder left by one coefficient.
		copy(rem, rem[1:])
		rem[n-1] = 0
		// Subtract factor * generator (the leading 1 is implicit).
		for j := 0; j < n; j++ {
			rem[j] ^= gfMul(gen[j+1], factor)
		}
	}
	return rem
}
