// Package twin builds "near twins" of byte blocks: copies that differ from the original by a
// difference that a digest commonly used for memoisation does not see - a multiple of a CRC-32
// polynomial (IEEE, Castagnoli, Koopman; solved for by elimination and verified with hash/crc32),
// +1 -2 +1 on neighbouring bytes (byte sum and Adler-32 unchanged), the same value xor-ed into two
// bytes, two neighbouring bytes exchanged, or a change confined to the middle of the block. Code
// that recognises "the same block again" by anything less than its contents goes wrong on them.
package twin

import (
	"hash/adler32"
	"hash/crc32"
)

// Diff is one way of changing a block so that some digest of it keeps its value.
type Diff struct {
	Name string
	// apply changes blk in place around position p (0 <= p, p+5 <= len) and reports whether it did
	Apply func(blk []byte, p int) bool
}

// crcCollide finds a 5-byte xor pattern d (d[0] != 0) at position p that leaves crc(tab) of the
// block unchanged: CRC is affine, so the 40 single-bit patterns are combined by elimination.
func crcCollide(tab *crc32.Table, n, p int) []byte {
	zero := make([]byte, n)
	base := crc32.Checksum(zero, tab)
	type row struct {
		v    uint32
		bits uint64
	}
	var rows []row
	for i := 0; i < 40; i++ {
		b := make([]byte, n)
		b[p+i/8] = 1 << uint(i%8)
		rows = append(rows, row{crc32.Checksum(b, tab) ^ base, 1 << uint(i)})
	}
	// Gaussian elimination over GF(2): 40 vectors in a 32-dimensional space have a dependency
	var basis [32]*row
	for i := range rows {
		r := rows[i]
		for bit := 31; bit >= 0 && r.v != 0; bit-- {
			if r.v>>uint(bit)&1 == 0 {
				continue
			}
			if basis[bit] == nil {
				rr := r
				basis[bit] = &rr
				r.v = 0
				r.bits = 0
				break
			}
			r.v ^= basis[bit].v
			r.bits ^= basis[bit].bits
		}
		if r.v == 0 && r.bits != 0 {
			d := make([]byte, 5)
			for k := 0; k < 40; k++ {
				if r.bits>>uint(k)&1 == 1 {
					d[k/8] |= 1 << uint(k%8)
				}
			}
			return d
		}
	}
	return nil
}

// Diffs returns the difference kinds (see the package comment).
func Diffs() []Diff {
	crc := func(name string, tab *crc32.Table) Diff {
		return Diff{name, func(blk []byte, p int) bool {
			d := crcCollide(tab, len(blk), p)
			if d == nil {
				return false
			}
			before := crc32.Checksum(blk, tab)
			for i := range d {
				blk[p+i] ^= d[i]
			}
			if crc32.Checksum(blk, tab) != before {
				panic("harness: CRC collision construction is wrong")
			}
			return true
		}}
	}
	return []Diff{
		{"identical", func(blk []byte, p int) bool { return true }},
		crc("crc32-ieee", crc32.IEEETable),
		crc("crc32-castagnoli", crc32.MakeTable(crc32.Castagnoli)),
		crc("crc32-koopman", crc32.MakeTable(crc32.Koopman)),
		{"sum+adler", func(blk []byte, p int) bool {
			if blk[p] == 255 || blk[p+1] < 2 || blk[p+2] == 255 {
				return false
			}
			a, s := adler32.Checksum(blk), 0
			for _, v := range blk {
				s += int(v)
			}
			blk[p]++
			blk[p+1] -= 2
			blk[p+2]++
			s2 := 0
			for _, v := range blk {
				s2 += int(v)
			}
			if adler32.Checksum(blk) != a || s != s2 {
				panic("harness: Adler collision construction is wrong")
			}
			return true
		}},
		{"xor", func(blk []byte, p int) bool { blk[p] ^= 0x5a; blk[p+3] ^= 0x5a; return true }},
		{"swap", func(blk []byte, p int) bool {
			if blk[p] == blk[p+1] {
				return false
			}
			blk[p], blk[p+1] = blk[p+1], blk[p]
			return true
		}},
		{"middle-only", func(blk []byte, p int) bool {
			if len(blk) < 10 {
				return false
			}
			for i := 4; i < len(blk)-4; i++ {
				blk[i] ^= byte(i*7 + 1)
			}
			return true
		}},
	}
}
