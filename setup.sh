#!/bin/bash
# MANIFEST.setup_cmd: offline build of every check binary (warms the Go build cache).
export GOFLAGS=-mod=mod GOPROXY=off GOSUMDB=off GOTOOLCHAIN=local
cd /verif
mkdir -p build/bin evidence replays
cmp -s /repo/go.sum go.sum || cp /repo/go.sum go.sum
python3 tools/mkoverlay.py > build/overlay.tmp.json || exit 1
mv build/overlay.tmp.json build/overlay.json
rc=0
for d in checks/*/; do
  n=$(basename "$d")
  go build -tags verif -overlay build/overlay.json -o "build/bin/$n" "./checks/$n" || rc=1
done
if [ -x checks/c18/prebuild.sh ]; then checks/c18/prebuild.sh setup || rc=1; fi
exit $rc
