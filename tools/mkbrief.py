#!/usr/bin/env python3
# tools/mkbrief.py <Cxx> <suffix>  ->  /tmp/brief-<cxx><suffix>.txt for worktree /tmp/wt-<cxx><suffix>
# The brief given to a fresh sub-agent that writes a property-breaking change: ONLY the property
# text, the rules, and one-line summaries of the changes earlier agents already made (so that it
# looks elsewhere). Nothing of /verif's machinery.
import json, sys, glob, os, re
pid, suf = sys.argv[1], sys.argv[2]
low = pid.lower()
wt = f"/tmp/wt-{low}{suf}"
prop = None
for l in open('/verif/properties.jsonl'):
    d = json.loads(l)
    if d['id'] == pid: prop = d
anch = (prop.get('anchors') or {}).get('files', [])
files = anch
done = []
for m in sorted(glob.glob(f'/verif/seeded/{low}-*/meta.json')):
    j = json.load(open(m))
    done.append('- ' + re.sub(r'\s+', ' ', j.get('summary', ''))[:330])
q = prop.get('quantifier'); qt = q.get('text') if isinstance(q, dict) else str(q)
T = f"""You are helping to evaluate a verification effort for the Go library makiuchi-d/gozxing (a pure-Go port of the ZXing barcode library). You get one PROPERTY of the library (below) and your own scratch git worktree of the library at {wt} (a detached checkout; work ONLY inside it; never touch /repo or /verif, never read /verif).

Your job: produce ONE realistic change to the library source (non-test files only) that BREAKS the property while
  (1) the library still compiles, and
  (2) the library's own test suite still passes completely: `cd {wt} && export GOFLAGS=-mod=mod GOPROXY=off GOSUMDB=off GOTOOLCHAIN=local && go test -vet=off -count=1 ./...` (no network is available), and
  (3) the breakage needs something SPECIFIC to manifest - a particular size/boundary/residue class, a particular table row, a multi-step sequence of operations, an unusual but legal input, or two cooperating edits that each look fine alone - NOT something ordinary use would expose at once. Think of the kind of mistake a maintainer could plausibly make in a refactor or optimisation, and keep the diff small (a few lines).
Also write a DEMONSTRATION: a small Go test file `zz_demo_test.go` placed in the appropriate package directory of the worktree that FAILS with your change and PASSES without it (verify both). The demonstration must exercise only the library's public behaviour that the property talks about (it may be an internal `_test.go` in the package if needed), and it must be SINGLE-THREADED and deterministic: no goroutines.

Deliver, inside {wt}:
  - the change applied to the working tree (uncommitted),
  - `patch.diff` at the worktree root = `git diff` of the non-test change only (exclude the demo and patch.diff itself),
  - the demonstration test file,
  - `meta.json` at the worktree root: {{"property": "...", "summary": "what was changed", "needs": "what is needed for the breakage to manifest", "demo": "path of the demo test and the command to run it", "suite_passes": true}}.
Final message: the diff, what it needs to manifest, the demo command and its output with and without the change, and confirmation that the full suite passes with the change.
Do not make a change that panics or fails for every input, do not disable the feature, do not edit tests, and do not make more than one independent change.

PROPERTY:
Property {pid} - {prop.get('title')}

Statement: {prop.get('statement')}

Quantifier: {qt}

Code anchors (files): {', '.join(files)}

ADDITIONAL GUIDANCE FOR THIS RUN (the hardest target so far): the property is already guarded by a bounded-exhaustive checker. It enumerates ALL sizes/versions/table rows named in the property and all short inputs over class-representative alphabets with fresh objects per case, AND ALSO: reuse of one reader/writer/encoder/decoder object across call sequences; results retained across later calls; argument slices passed with spare capacity, as windows of larger arrays, aliased to each other, or rewritten in place by the caller between calls; sub-images with strides and non-zero origins; long inputs (thousands of characters) with late special characters; every single byte value as content; every argument value of positional operations (every left/width, start/end, crop rectangle); very large scales and very tall / wide images (every height and width up to ~1000); off-centre and non-square canvases; mirrored and rotated poses combined with hints; hint VALUES in every documented spelling (ints as decimal strings incl. zero-padded and signed, flag hints mapped to true / nil / struct{{}}{{}}, charset names incl. aliases and names the IANA index knows but Go does not implement, encoding values); every Unicode code point as content; decoder/reader objects reused after calls that FAILED (every failure exit); rows and matrices whose padding bits beyond the size are dirty; algebraically special payloads (Reed-Solomon parity all zero or starting with zeros, data blocks that are multiples of the generator); size ladders around powers of two (255/256/257, 512, 1024) for every container and view operation; twisted perspective transforms whose interior sample points leave the image; valid symbols of symbologies the library cannot write itself (Aztec, RSS-14, UPC/EAN add-ons) from independent reference encoders over all group/table boundaries; the image view of bit matrices through every standard-library consumer; self-consistency of chosen symbol sizes with the writer's own codeword count; contents that maximise characters per codeword or bytes per character (macro envelopes with digit bodies filling the largest symbols, single-byte charset characters that are three bytes in UTF-8 at the capacity of every large version, runs of two-character Aztec punctuation codes); grey (not only black/white) pixel rows with every centre value against the exact binarisation model; coordinates in tiny and huge units (1e-9 .. 1e6) with relative error bounds; extreme numeric arguments (0, 1e-300, 1e19, MaxFloat64, +Inf); error patterns and data crafted by linear algebra (errors that zero part of the syndromes, data that drives the encoder's division register into special states); every ordered list value of list-valued hints; hint combinations (callback + row-level hints) on upside-down / sideways / mirrored retry paths; reader histories that include hinted reads and every failure exit; ragged and over-long nested slices; call histories through REFUSED requests for every stateless-looking function; hint values of every well-typed kind on ECI-designated as well as undesignated symbols (encodings whose decoder fails, nil, numbers); several writer hints given TOGETHER; the automatic choices of the encoders (mask, version, mode, symbol size) compared with the standard's rule and with what the returned object reports; symbols of more than 103 / 206 characters for modulo-103 checks; canvases of more than 2^31 pixels; arguments whose unused padding bits are dirty, also as seen one operation later; state that flows through the CALLER's own objects (ONE hints map handed to several writers / readers / reads in turn, ONE BinaryBitmap read several times by several readers, ONE multi-format reader shown different symbologies in turn, ONE binariser asked again after a refusal; foreign symbols as steps of such histories); encoder / decoder objects reused over parity counts on both sides of 256 and 512; Code 128 symbols of up to 13600 characters; every mask-evaluation feature compared with the standard at every 5 % boundary of every version; data blocks that are equal or differ only by CRC-32 / Adler-32 / sum / xor / order collisions; every malformed ECI designator prefix; trailer or header fragments of the macro envelope in ordinary text behind runs of every encodation; slanted and 45-degree-rotated grids at every 1/8-pixel translation across every image edge; pixel runs aligned to 32/64-bit storage words; every byte value at every position of fixed-length numeric contents; string arguments holding multi-byte, multi-rune and empty strings; symbols touching two opposite image edges; several symbols on one canvas incl. structured-append parts; every well-typed value of callback hints (typed nil, untyped nil, function literal); operations applied to derived objects after results were cached (BinaryBitmap crops / rotations after GetBlackMatrix, a transform object sampled twice); writer objects first asked for a FOREIGN format; long sequential call histories (N degenerate calls between two requests, N around 2^8 and 2^16) for package-level counters; Reed-Solomon words with up to 2000 errors; every Unicode code point without charset hint in seven contexts; the whole content space of short 1-D contents (every 1-2 character string, every 4-digit string) upside down; containers 2^13 .. 2^21 bits wide with ranges at word and block boundaries; every run length up to the largest Data Matrix symbol followed by shift characters; rows cut exactly at an element boundary for every width residue modulo 64; luminance sources and binarisers whose k-th call FAILS (every k); data blocks that are near twins and are damaged to read like their neighbour; damaged-but-correctable symbols read concurrently. Any breakage that needs two goroutines is ALSO already covered (a schedule explorer and a race-detector pass run every pair of library operations concurrently) and is NOT wanted: the violation must show in a sequential program. Aim for a change all of that could still plausibly MISS while the property is genuinely violated: e.g. a rare combination of THREE conditions, a dependence on a specific numeric value deep inside a table that only one symbol size and one content class reaches, an arithmetic overflow or rounding that needs particular magnitudes, an interaction between two different symbologies or features through legitimately shared read-only state, an error path taken only after a particular earlier failure, or a hint value in an unusual but documented type.

ALREADY DONE for this property by earlier agents (do NOT repeat these or trivial variants of them; use a different mechanism, file or feature):
{chr(10).join(done) if done else '- (none)'}
"""
open(f"/tmp/brief-{low}{suf}.txt", "w").write(T)
print(f"/tmp/brief-{low}{suf}.txt", len(done), "earlier changes listed")
