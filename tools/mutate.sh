#!/bin/bash
# Mutation experiment without touching /repo:
#   tools/mutate.sh <Cxx> <tier> <repo-relative-file> <mutated-copy> [<repo-relative-file> <mutated-copy> ...]
# Builds the check with a go-build overlay that substitutes the mutated copies, runs it with
# evidence/replays redirected to a scratch directory, prints the tail of the output and the
# exit status. Also runs the repository's own tests of the touched packages under the same
# overlay (they should still pass for a "realistic" mutant).
set -u
export GOFLAGS=-mod=mod GOPROXY=off GOSUMDB=off GOTOOLCHAIN=local
cd /verif
id="$1"; tier="$2"; shift 2
lc=$(echo "$id" | tr 'A-Z' 'a-z')
scratch=$(mktemp -d /tmp/mut.XXXXXX)
args=()
pkgs=()
while [ $# -ge 2 ]; do args+=("$1" "$2"); pkgs+=("./$(dirname "$1")"); shift 2; done
python3 - "$scratch/overlay.json" "${args[@]}" <<'PY'
import json,sys,subprocess
out=sys.argv[1]; a=sys.argv[2:]
ov=json.loads(subprocess.check_output(["python3","/verif/tools/mkoverlay.py"]))
for i in range(0,len(a),2):
    ov["Replace"]["/repo/"+a[i]]=a[i+1]
json.dump(ov,open(out,"w"))
PY
if [ -x "checks/$lc/prebuild.sh" ]; then VERIF_OVERLAY="$scratch/overlay.json" "checks/$lc/prebuild.sh" "$tier" || { echo "PREBUILD FAILED"; rm -rf "$scratch"; exit 2; }; fi
go build -tags verif -overlay "$scratch/overlay.json" -o "$scratch/bin" "./checks/$lc" || { echo "MUTANT DOES NOT COMPILE"; rm -rf "$scratch"; exit 2; }
VERIF_OUT="$scratch" VERIF_TIER="$tier" "$scratch/bin" -tier "$tier" > "$scratch/out" 2> "$scratch/err"
rc=$?
grep -E "^VIOLATION|^KNOWN|^  key=|^  what=" "$scratch/out" | head -${MUT_HEAD:-12}
tail -1 "$scratch/out"
echo "check exit status: $rc"
if [ "${SKIP_SUITE:-0}" != 1 ]; then
  upkgs=$(printf "%s\n" "${pkgs[@]}" | sort -u | tr '\n' ' ')
  (cd /repo && go test -mod=mod -vet=off -count=1 -overlay "$scratch/overlay.json" $upkgs 2>&1 | tail -5)
fi
rm -rf "$scratch"
exit $rc
