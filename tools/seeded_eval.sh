#!/bin/bash
# Evaluate a seeded change without touching /repo:
#   tools/seeded_eval.sh /verif/seeded/<name> <Cxx> [tier]
# Applies seeded/<name>/patch.diff to scratch copies of the touched files and runs the check
# through tools/mutate.sh (go build -overlay).
set -u
dir="$1"; id="$2"; tier="${3:-quick}"
scratch=$(mktemp -d /tmp/seed.XXXXXX)
files=$(grep '^+++ b/' "$dir/patch.diff" | sed 's|^+++ b/||')
args=()
for f in $files; do
  mkdir -p "$scratch/$(dirname "$f")"
  if [ -f "/repo/$f" ]; then cp "/repo/$f" "$scratch/$f"; else : > "$scratch/$f"; fi
done
(cd "$scratch" && patch -s -p1 < "$dir/patch.diff") || { echo "PATCH DOES NOT APPLY"; rm -rf "$scratch"; exit 2; }
for f in $files; do args+=("$f" "$scratch/$f"); done
/verif/tools/mutate.sh "$id" "$tier" "${args[@]}"
rc=$?
rm -rf "$scratch"
exit $rc
