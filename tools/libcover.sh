#!/bin/bash
# tools/libcover.sh [tier] [Cxx ...]  — diagnostic, not a check: builds the check binaries with
# `go build -cover -coverpkg=<library>/...`, runs them (evidence/replays redirected to scratch) and
# prints the library functions that NO listed check executes and the statement coverage per
# package. Mutants living in unexecuted code cannot be seen by any check; the list tells where
# the input alphabets need to grow. (C18 has its own reach report; it is skipped here.)
set -u
export GOFLAGS=-mod=mod GOPROXY=off GOSUMDB=off GOTOOLCHAIN=local
cd /verif
tier="${1:-quick}"; shift || true
checks=("$@"); [ ${#checks[@]} -eq 0 ] && checks=(C01 C02 C03 C04 C05 C06 C07 C08 C09 C10 C11 C12 C13 C14 C15 C16 C17 C19 C20)
work=$(mktemp -d /tmp/libcover.XXXXXX)
# black-box build: the cover tool cannot see overlay-added hook files
for id in "${checks[@]}"; do
  lc=$(echo "$id" | tr 'A-Z' 'a-z')
  mkdir -p "$work/cov/$lc"
  go build -cover -coverpkg=github.com/makiuchi-d/gozxing/...,verif/checks/$lc -tags "verif blackbox" -o "$work/$lc" "./checks/$lc" 2> "$work/$lc.log" || { echo "build failed: $id"; cat "$work/$lc.log" | head; continue; }
  VERIF_OUT="$work/out" GOCOVERDIR="$work/cov/$lc" "$work/$lc" -tier "$tier" > "$work/$lc.out" 2>&1
  echo "$id: $(grep -h 'tier=' "$work/$lc.out" | tail -1 | sed 's/ evaluations.*wall=/ wall=/')"
done
dirs=$(ls -d "$work"/cov/* | tr '\n' ',' | sed 's/,$//')
go tool covdata percent -i="$dirs" 2>/dev/null | sed 's|github.com/makiuchi-d/gozxing|.|' | sort
go tool covdata textfmt -i="$dirs" -o "$work/all.txt" 2>/dev/null
go tool cover -func="$work/all.txt" 2>/dev/null | sed 's|github.com/makiuchi-d/gozxing/||' | grep -v '^verif/' | awk '$NF=="0.0%"{print $1" "$2}' > "$work/unreached.txt"
echo "functions no check executes: $(wc -l < "$work/unreached.txt") (list: $work/unreached.txt)"
cat "$work/unreached.txt"
