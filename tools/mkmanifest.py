#!/usr/bin/env python3
# Generates /verif/MANIFEST.json from the table below (one entry per claimed property).
import json, subprocess
ALL = ["C%02d" % i for i in range(1, 21)]
CHECKS = {
 "C17": dict(cat="model_checking", tech="explicit-state BFS over view-operation histories on real luminance sources vs a naive pixel-array model; exhaustive enumeration of small bilevel images for the binarisers",
   text="Ten source kinds (Go image Gray/RGBA/NRGBA/Paletted/custom, RGB ints, planar YUV plain/reversed/offset) x every size 1..6 squared (thorough 1..12 squared) and six large sizes with position-coded pixels: all sequences of crop (in- and out-of-range rectangles, ~12 per state) / invert / rotate of depth <=2/3 over the full menu and <=4/6 over a six-operation sub-menu, replayed on fresh objects, deduplicated; after every step dimensions, every row (nil/short/exact/oversized buffers, rows -1 and height), the matrix and capability flags are compared with index arithmetic on a full copy. Binarisers: every bilevel image with <=12/16 pixels, sizes around the 40-pixel switch with one flipped pixel at every lattice/every position, rendered symbols of 11 writers at scales 1..4: black matrix == (lum==0) or NotFound, black rows == the re-stated one-row model, BinaryBitmap crop/rotate consistent.",
   note="Trusted: the pixel-array model and the re-stated global-histogram row model in checks/c17. A crop leaving the current view but inside the underlying image may be an error or show the underlying pixels; zero/negative sizes need only 'error or consistent empty view'. Partly transparent pixels have no luminance oracle.",
   ref="5/C17"),
 "C01": dict(cat="exploration", tech="exhaustive enumeration of boundary payloads x versions x levels x masks and of all short texts x option assignments, round-trip oracle",
   text="QR write->read on the real code: every version x level x five payload families (numeric, alphanumeric, byte ISO-8859-1 over all 256 values, byte UTF-8, Kanji) at capacity, capacity-1 (thorough: -2) with forced masks (quick: rotating mask, all masks on five versions; thorough: all 9 mask settings), capacity+1 refused, the automatic version choice at every boundary, all strings of length <=2 (thorough <=3/4) over a 16-symbol alphabet x deviation-bounded / full products of level, mask, version and charset hints, and the rendered-image path in pure-barcode mode for 10/40 versions x 7 sizes x 4 margins. Capacities and representability come from ref/qr and x/text; the reference reader independently confirms version, level, mask and mode of each symbol.",
   note="Round-trip property: the oracle is read(write(t)) == t on the library itself; ref/qr supplies capacities and confirms the symbol parameters. Charsets other than UTF-8/ISO-8859-1/Shift_JIS are C15's.",
   ref="5/C01"),
 "C07": dict(cat="exploration", tech="exhaustive comparison of every table entry, code word and module matrix with an independent ISO/IEC 18004 construction",
   text="All 1280 (version, level, mask) configurations x payload families (quick: 5 lengths, all masks on ten versions and a rotating mask elsewhere; thorough: full product x 9 lengths x 2 patterns), raw codeword streams through MatrixUtil_buildMatrix (zero/ones/55/AA/counting and single-bit streams), every character group of every mode on version 40, every payload length on versions 1..9/1..20: library matrix == ref/qr.Build module for module, mismatches classified by module class. Decoder tables for all 160 (version, level) and 40 versions, all 32768 format words (both arguments) and all 262144 version words against BCH recomputation and brute-force Hamming distance, both mask implementations on the full 177x177 grid, character-count widths, dimension lookup.",
   note="Trusted: verif/ref/qr (written from the standard, validated against published tables and worked examples). Reed-Solomon linearity is used to derive the reference for single-bit codeword streams.",
   ref="5/C07"),
 "C08": dict(cat="exploration", tech="exhaustive comparison of every table row, parity vector, placement and randomiser position with an independent ISO/IEC 16022 construction",
   text="For all 30 ECC 200 sizes: encoder symbol attributes and the decoder's version table (white-box accessor and black-box via decoding reference symbols with floor(ec/2) errors in every block) against ref/dm; ErrorCorrection_EncodeECC200 for zero/ones/55/AA/counting/every single-bit vector (thorough: every value at every position of single-block sizes) against the reference incl. the 144x144 block rotation; all 16 generator polynomials black-box and white-box; DefaultPlacement for the same vector family, every module; whole symbols from the writer for texts reaching all 30 sizes; pad codewords at every position 2..1558 and Base-256 randomisation at every position against the 253/255-state formulae.",
   note="Trusted: verif/ref/dm. Which size and encodation the high-level encoder chooses is not judged here (C02, C13). Base-256 exact-fill lengths are left to C02.",
   ref="5/C08"),
 "C09": dict(cat="exploration", tech="exhaustive enumeration of the padding x scale x rotation x mirror x try-harder transform group over library-written symbols",
   text="Images written by the library's own writers (QR versions 1..10 x levels x texts, 6/12 Data Matrix sizes, nine 1-D symbologies x 4/12 contents) are padded {0,1,4,16,40}, upscaled 1..6, rotated by quarter turns, transposed (QR) and read through the normal locating path with and without TRY_HARDER: the outcome must be the exact content or a NotFound/Checksum/Format error. Positive obligations: upside-down 1-D symbols read with ORIENTATION 180, sideways ones under TRY_HARDER, the QR decoder on the transposed matrix reads and flags mirrored, a mirrored QR image reads in at least one pose. Outcome counts per transform class are recorded; classes without a successful read are flagged vacuous.",
   note="Locating is heuristic: not finding a symbol is never a violation here. Quick trims axes (stated in the sub-space names) rather than sampling.",
   ref="5/C09"),
 "C14": dict(cat="exploration", tech="exhaustive sweep of requested sizes and margins, per-pixel comparison with the statement's geometry formula",
   text="QR version 1 on the full square of (width,height) requests up to 3x natural+2 and versions 2/7/40 on width/height/diagonal sweeps x margins {0,1,4,5,20,none} (thorough 0..20); Data Matrix 10x10 and 8x18 full squares, larger sizes on sweeps; nine 1-D writers x 2 contents x margins x heights {0,1,2,37} x every width up to 4x/8x natural+2: size, module size, padding, quiet zone, every pixel, centre sampling and the image.Image view against the formula of the property evaluated independently.",
   note="The module matrix is Encoder_encode's for QR and the 0x0/margin-0 rendering for Data Matrix and 1-D (by definition the bare symbol; structurally validated). Negative sizes/margins belong to C12.",
   ref="5/C14"),
 "C18": dict(cat="model_checking", tech="stateless schedule exploration (cooperative scheduler over automatically instrumented library, iterative preemption bounding) + free-running race-detector pass",
   text="Stage 1: the shared-state footprint (deep hash of every package-level variable, re-hashed during the run) of each of 51 operations in a fresh process. Stage 2: every pair of operations (threads [a,b] || [b,a]) and triples of a sub-alphabet run under the cooperative scheduler of sched/zzrt on the instrumented library; when no thread writes a variable another accesses, the operations are independent at every statement and all thread orders are executed; otherwise every schedule with 0,1,..K preemptions at the statements that can touch those variables is executed, one fresh process each; every call must return what it returns alone, no panic, shared state unchanged. Stage 3: the same bodies, plain library, -race, free running, on 4 (thorough 2/8/16) goroutines.",
   note="Scheduling points are statements that mention a package-level variable or run inside a function that received a pointer/slice/map into memory reachable from one (receiver/parameter based; a struct field aliasing shared memory without passing through a parameter is only seen by the race pass). Sequential consistency between points. Point and execution caps are reported when hit.",
   ref="5/C18"),
 "C19": dict(cat="exploration", tech="exhaustive enumeration of quadrilateral pairs, grids and edge offsets against exact rational projective geometry",
   text="44 496 strictly convex source quadrilaterals (7 bases x 3^8 corner displacements) x a destination family (5 quick / 40 thorough) plus square<->quadrilateral constructors: corners and a 9x9 probe lattice against the unique projective map solved exactly in big.Rat; grid sampling for 39/49 dimension pairs x 57 dyadic transforms x 4 images x both entry points, every cell against pixel(floor(T(x+1/2,y+1/2))); nudging per edge and per pass, directly and through both sampler entry points, over the 1/8-pixel lattice from 3 px outside one side to 3 px outside the other, with ring-coded images so that any out-of-image or displaced pixel is visible.",
   note="Trusted: the exact oracle in checks/c19. Nudge band (-2,-1) accepted either way (truncation toward zero, as documented in DESIGN.md section 7). Cells within 1/64 px of a pixel boundary are skipped by an exact test.",
   ref="5/C19"),
 "C06": dict(cat="exploration", tech="exhaustive enumeration of short inputs and deviation-bounded mutation of valid symbols, totality oracle",
   text="Every byte string up to 2/3 bytes into the QR (4 versions) and Data Matrix codeword parsers, every mode nibble x 18 segment kinds x every truncation x charset hints, every ECI designator in all three encodings, every bit string up to 16/20 bits and all FLG(n)/binary-shift headers into the Aztec high-level decoder; QR and Data Matrix module decoders on every width x height up to 40/50 squared and the large sizes with 8 fills, every single (and for the smallest symbols double) module flip of valid symbols; the Aztec decoder on every (mode, layers, data-block count) incl. out-of-range ones; 14 row decoders on every pixel row up to 14/20 pixels and on valid rows with every single run +-1, truncation and reversal, Code 39 for every string <=2/3 over its alphabet in all four flag combinations; 16 image readers on every bilevel image up to 9/16 pixels, every size up to 30/48 squared with fills, rendered symbols with every pixel flip / deleted row or column / crop and all 256 hint subsets. Oracle: returns under the watchdog, no panic, exactly one of result/error, image-level errors carry a NotFound/Checksum/Format exception in their chain.",
   note="Valid symbols are produced by the library's own writers (only totality is judged, so no independent encoder is needed). Symbol-character-level mutation of Code 93/128 rows is added through ref/oned once available.",
   ref="5/C06"),
 "C12": dict(cat="exploration", tech="deviation-bounded exhaustive product over call parameters, plus full products of interacting axes",
   text="Every assignment that differs from each of the 11 writers' default call in at most 2 (quick) / 3 (thorough) of 14 axes (format incl. all 17 values and out-of-range ones, ~95 contents incl. empty/4000-char/invalid UTF-8/escape characters, symbolic widths and heights around the bare and natural sizes, ten hint keys with in- and out-of-range values), plus full products: margin -130..30 x width 0..160 x height for QR and the nine 1-D writers, Code 128 forced code set x all strings <=3/4 over 12 classes, all writers x all strings <=2/3 over 21 classes. Oracle: returns under the watchdog, no panic, exactly one of matrix/error, matrix >= the bare symbol (same call at 0x0, margin 0) and for QR/1-D >= max(requested,1), 1-D symbol actually drawn.",
   note="Hint values are of the Go types each hint documents. The bare-symbol size comes from the library itself (margin-0 rendering); symbol-size correctness against the standards is C07/C08/C13/C14.",
   ref="5/C12"),
 "C04": dict(cat="exploration", tech="exhaustive enumeration of field element pairs and of bounded error patterns against a naive GF/RS reference",
   text="All element pairs of all six Galois fields against carry-less polynomial arithmetic; Reed-Solomon: every (k,r) over GF(16) with every error pattern of weight 1 and 2 (all magnitudes) and every position set of weight 3..t; for the 256/64/1024/4096 fields every block shape of the QR, Data Matrix and Aztec size tables with all single errors, all position pairs and full-weight position families; encoder instances re-used across parity counts. Oracle: data unchanged, zero syndromes under the reference field, parity equals the reference, decode restores the pristine word.",
   note="Trusted: verif/ref/gf (carry-less multiply, Horner evaluation, long-division parity). For fields larger than 16 elements weight-3+ patterns are structured position families, not all subsets; magnitudes use a menu in the quick tier.",
   ref="5/C04"),
 "C20": dict(cat="exploration", tech="exhaustive enumeration of pixel rows / counter vectors against a run-length model and an integer score formula",
   text="RecordPattern and RecordPatternInReverse on every pixel row of length 0..12 (quick) / 0..17 (thorough) x every start x counter counts 1..10, plus all rows built from <=6/8 runs of {1,2,5,40} pixels; PatternMatchVariance on every pattern of every reader table (via the verif accessor) and all synthetic patterns over {1..4}^<=4 x every counter vector with entries 0..5/0..6 x six limits, exact multiples, scale invariance and two-position sweeps 0..40, against the formula evaluated in integer arithmetic (+Inf cases decided exactly; a run deviating by exactly the limit is accepted either way).",
   note="Trusted: the run-length model and score formula in checks/c20. The white-box accessor only supplies the pattern tables; without it (blackbox build) synthetic patterns are used.",
   ref="5/C20"),
 "C16": dict(cat="model_checking", tech="explicit-state BFS over operation histories on the real object vs naive model",
   text="Explicit-state search over operation histories of the real BitMatrix/BitArray: every width 1..130 x height 1..8 and every BitArray size 0..200 with four initial contents, all operation sequences up to the tier's depth from a menu that covers the whole public API at word-boundary coordinates; after every transition every query is compared with a naive bool-grid model; states are deduplicated on dimensions+raw words (the complete hidden state).",
   note="Trusted: the naive []bool model in checks/c16. Arguments are in range as the property states. Depth is bounded (2 quick / 3 thorough over all shapes; 3 / 6 with state cap on word-boundary shapes); the property's length-40 histories are covered only through state deduplication, not enumerated.",
   ref="5/C16"),
}
PENDING_REASON = "check not built yet in this round (see DESIGN.md section 5 for the planned bounded-exhaustive design); not claimed until its machinery exists and has been shown to detect a seeded defect"
def main():
    checks = []
    for pid in ALL:
        if pid not in CHECKS: continue
        c = CHECKS[pid]
        checks.append({
            "property_id": pid,
            "quick_cmd": "./run.sh %s quick" % pid,
            "thorough_cmd": "./run.sh %s thorough" % pid,
            "evidence_file": "/verif/evidence/%s.json" % pid,
            "replay_cmd_template": "./run.sh %s quick -replay {path}" % pid,
            "engine": "mc",
            "level_claimed": {"category": c["cat"], "text": c["text"], "design_ref": "DESIGN.md section " + c["ref"]},
            "level_note": c["note"],
            "technique": c["tech"],
        })
    m = {
        "version": 1,
        "setup_cmd": "./setup.sh",
        "hooks": {
            "guard": "verif",
            "enable": "go build -tags verif -overlay /verif/build/overlay.json (add-only files from /verif/hooks/<pkg>/, generated by tools/mkoverlay.py; /repo itself carries no hook code)",
            "baseline_off_cmd": "cd /repo && go test -mod=mod -vet=off -count=1 ./...",
            "source_commits": [],
            "add_only": True,
        },
        "engines": [
            {"name": "mc", "path": "/verif/mc", "serves_properties": sorted(CHECKS.keys()),
             "kind_free_text": "hand-written bounded-exhaustive explorer (sched/zzrt + sched/instr: cooperative scheduler and AST instrumenter for C18);: odometer/string enumeration, explicit-state BFS over operation histories replayed on real objects, deviation-bounded fault enumeration, parallel range runner with panic capture and CPU-time hang watchdog"},
        ],
        "checks": checks,
        "not_applicable": [{"property_id": p, "reason": PENDING_REASON} for p in ALL if p not in CHECKS],
        "notes": "All checks rebuild from /repo's working tree (go.mod replace => /repo). Known findings: /verif/known_findings.txt.",
    }
    json.dump(m, open("/verif/MANIFEST.json", "w"), indent=1)
main()
