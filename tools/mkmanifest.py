#!/usr/bin/env python3
# Generates /verif/MANIFEST.json from the table below (one entry per claimed property).
import json, subprocess
ALL = ["C%02d" % i for i in range(1, 21)]
CHECKS = {
 "C06": dict(cat="exploration", tech="exhaustive enumeration of short inputs and deviation-bounded mutation of valid symbols, totality oracle",
   text="Every byte string up to 2/3 bytes into the QR (4 versions) and Data Matrix codeword parsers, every mode nibble x 18 segment kinds x every truncation x charset hints, every ECI designator in all three encodings, every bit string up to 16/20 bits and all FLG(n)/binary-shift headers into the Aztec high-level decoder; QR and Data Matrix module decoders on every width x height up to 40/50 squared and the large sizes with 8 fills, every single (and for the smallest symbols double) module flip of valid symbols; the Aztec decoder on every (mode, layers, data-block count) incl. out-of-range ones; 14 row decoders on every pixel row up to 14/20 pixels and on valid rows with every single run +-1, truncation and reversal, Code 39 for every string <=2/3 over its alphabet in all four flag combinations; 16 image readers on every bilevel image up to 9/16 pixels, every size up to 30/48 squared with fills, rendered symbols with every pixel flip / deleted row or column / crop and all 256 hint subsets. Oracle: returns under the watchdog, no panic, exactly one of result/error, image-level errors carry a NotFound/Checksum/Format exception in their chain.",
   note="Valid symbols are produced by the library's own writers (only totality is judged, so no independent encoder is needed). Symbol-character-level mutation of Code 93/128 rows is added through ref/oned once available.",
   ref="5/C06"),
 "C12": dict(cat="exploration", tech="deviation-bounded exhaustive product over call parameters, plus full products of interacting axes",
   text="Every assignment that differs from each of the 11 writers' default call in at most 2 (quick) / 3 (thorough) of 14 axes (format incl. all 17 values and out-of-range ones, ~95 contents incl. empty/4000-char/invalid UTF-8/escape characters, symbolic widths and heights around the bare and natural sizes, ten hint keys with in- and out-of-range values), plus full products: margin -130..30 x width 0..160 x height for QR and the nine 1-D writers, Code 128 forced code set x all strings <=3/4 over 12 classes, all writers x all strings <=2/3 over 21 classes. Oracle: returns under the watchdog, no panic, exactly one of matrix/error, matrix >= the bare symbol (same call at 0x0, margin 0) and for QR/1-D >= max(requested,1), 1-D symbol actually drawn.",
   note="Hint values are of the Go types each hint documents. The bare-symbol size comes from the library itself (margin-0 rendering); symbol-size correctness against the standards is C07/C08/C13/C14.",
   ref="5/C12"),
 "C04": dict(cat="exploration", tech="exhaustive enumeration of field element pairs and of bounded error patterns against a naive GF/RS reference",
   text="All element pairs of all six Galois fields against carry-less polynomial arithmetic; Reed-Solomon: every (k,r) over GF(16) with every error pattern of weight 1 and 2 (all magnitudes) and every position set of weight 3..t; for the 256/64/1024/4096 fields every block shape of the QR, Data Matrix and Aztec size tables with all single errors, all position pairs and full-weight position families; encoder instances re-used across parity counts. Oracle: data unchanged, zero syndromes under the reference field, parity equals the reference, decode restores the pristine word.",
   note="Trusted: verif/ref/gf (carry-less multiply, Horner evaluation, long-division parity). For fields larger than 16 elements weight-3+ patterns are structured position families, not all subsets; magnitudes use a menu in the quick tier.",
   ref="5/C04"),
 "C20": dict(cat="exploration", tech="exhaustive enumeration of pixel rows / counter vectors against a run-length model and an integer score formula",
   text="RecordPattern and RecordPatternInReverse on every pixel row of length 0..12 (quick) / 0..17 (thorough) x every start x counter counts 1..10, plus all rows built from <=6/8 runs of {1,2,5,40} pixels; PatternMatchVariance on every pattern of every reader table (via the verif accessor) and all synthetic patterns over {1..4}^<=4 x every counter vector with entries 0..5/0..6 x six limits, exact multiples, scale invariance and two-position sweeps 0..40, against the formula evaluated in integer arithmetic (+Inf cases decided exactly; a run deviating by exactly the limit is accepted either way).",
   note="Trusted: the run-length model and score formula in checks/c20. The white-box accessor only supplies the pattern tables; without it (blackbox build) synthetic patterns are used.",
   ref="5/C20"),
 "C16": dict(cat="model_checking", tech="explicit-state BFS over operation histories on the real object vs naive model",
   text="Explicit-state search over operation histories of the real BitMatrix/BitArray: every width 1..130 x height 1..8 and every BitArray size 0..200 with four initial contents, all operation sequences up to the tier's depth from a menu that covers the whole public API at word-boundary coordinates; after every transition every query is compared with a naive bool-grid model; states are deduplicated on dimensions+raw words (the complete hidden state).",
   note="Trusted: the naive []bool model in checks/c16. Arguments are in range as the property states. Depth is bounded (2 quick / 3 thorough over all shapes; 3 / 6 with state cap on word-boundary shapes); the property's length-40 histories are covered only through state deduplication, not enumerated.",
   ref="5/C16"),
}
PENDING_REASON = "check not built yet in this round (see DESIGN.md section 5 for the planned bounded-exhaustive design); not claimed until its machinery exists and has been shown to detect a seeded defect"
def main():
    checks = []
    for pid in ALL:
        if pid not in CHECKS: continue
        c = CHECKS[pid]
        checks.append({
            "property_id": pid,
            "quick_cmd": "./run.sh %s quick" % pid,
            "thorough_cmd": "./run.sh %s thorough" % pid,
            "evidence_file": "/verif/evidence/%s.json" % pid,
            "replay_cmd_template": "./run.sh %s quick -replay {path}" % pid,
            "engine": "mc",
            "level_claimed": {"category": c["cat"], "text": c["text"], "design_ref": "DESIGN.md section " + c["ref"]},
            "level_note": c["note"],
            "technique": c["tech"],
        })
    m = {
        "version": 1,
        "setup_cmd": "./setup.sh",
        "hooks": {
            "guard": "verif",
            "enable": "go build -tags verif -overlay /verif/build/overlay.json (add-only files from /verif/hooks/<pkg>/, generated by tools/mkoverlay.py; /repo itself carries no hook code)",
            "baseline_off_cmd": "cd /repo && go test -mod=mod -vet=off -count=1 ./...",
            "source_commits": [],
            "add_only": True,
        },
        "engines": [
            {"name": "mc", "path": "/verif/mc", "serves_properties": sorted(CHECKS.keys()),
             "kind_free_text": "hand-written bounded-exhaustive explorer: odometer/string enumeration, explicit-state BFS over operation histories replayed on real objects, deviation-bounded fault enumeration, parallel range runner with panic capture and CPU-time hang watchdog"},
        ],
        "checks": checks,
        "not_applicable": [{"property_id": p, "reason": PENDING_REASON} for p in ALL if p not in CHECKS],
        "notes": "All checks rebuild from /repo's working tree (go.mod replace => /repo). Known findings: /verif/known_findings.txt.",
    }
    json.dump(m, open("/verif/MANIFEST.json", "w"), indent=1)
main()
