#!/bin/bash
# Confirm a seeded change in a scratch worktree of /repo (removed afterwards):
#   - patch applies, tree builds, the repository's full suite passes with it
#   - the demonstration test fails with the patch and passes without it
# usage: tools/seeded_confirm.sh /verif/seeded/<name> <package-dir-of-demo> [extra go test flags]
set -u
export GOFLAGS=-mod=mod GOPROXY=off GOSUMDB=off GOTOOLCHAIN=local
dir="$1"; pkg="$2"; shift 2
wt=$(mktemp -d /tmp/confirm.XXXXXX); rmdir "$wt"
git -C /repo worktree add -q --detach "$wt" HEAD || exit 2
cd "$wt"
git apply "$dir/patch.diff" || { echo "PATCH DOES NOT APPLY"; cd /; git -C /repo worktree remove --force "$wt"; exit 2; }
go build ./... || echo "BUILD FAILS"
suite=$(go test -vet=off -count=1 ./... 2>&1 | grep -v "^ok" | grep -v "no test files")
if [ -z "$suite" ]; then echo "suite with patch: PASS"; else echo "suite with patch: FAIL"; echo "$suite" | head -5; fi
cp "$dir"/zz_demo_test.go "$pkg/"
if go test -vet=off -count=1 "$@" -run 'Demo' "./$pkg/" > /tmp/confirm.out 2>&1; then echo "demo with patch: passes (UNEXPECTED)"; else echo "demo with patch: fails (expected)"; fi
git apply -R "$dir/patch.diff"
if go test -vet=off -count=1 "$@" -run 'Demo' "./$pkg/" > /tmp/confirm.out 2>&1; then echo "demo without patch: passes (expected)"; else echo "demo without patch: FAILS (UNEXPECTED)"; tail -5 /tmp/confirm.out; fi
cd /; git -C /repo worktree remove --force "$wt"; git -C /repo worktree prune; rm -f /tmp/confirm.out
