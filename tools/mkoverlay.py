#!/usr/bin/env python3
# Emits a `go build -overlay` file mapping every /verif/hooks/<pkgpath>/<file>.go to
# /repo/<pkgpath>/<file>.go (add-only: a hook never replaces an existing repository file).
import json, os, sys
root = "/verif/hooks"
rep = {}
for d, _, fs in os.walk(root):
    for f in fs:
        if not f.endswith(".go"):
            continue
        rel = os.path.relpath(os.path.join(d, f), root)
        dst = os.path.join("/repo", rel)
        if os.path.exists(dst):
            sys.stderr.write("hook would replace existing file: %s\n" % dst)
            sys.exit(1)
        rep[dst] = os.path.join(d, f)
json.dump({"Replace": rep}, sys.stdout, indent=1)
