#!/bin/bash
# tools/seed_intake.sh <worktree> <seed-name> <Cxx>[,Cyy...] [extra go test flags for the demo]
# Copies patch.diff / meta.json / demo from the agent's worktree into /verif/seeded/<seed-name>,
# evaluates it with the named checks (overlay build) and confirms it in a scratch worktree.
set -u
wt="$1"; name="$2"; checks="$3"; shift 3
d=/verif/seeded/$name
mkdir -p "$d"
cp "$wt/patch.diff" "$wt/meta.json" "$d/" 2>/dev/null
demo=$(cd "$wt" && git status --porcelain | grep -E '_test\.go$' | awk '{print $2}' | head -1)
[ -n "$demo" ] && cp "$wt/$demo" "$d/zz_demo_test.go"
pkg=$(dirname "${demo:-./x}")
echo "== $name (demo $demo)"
for c in $(echo "$checks" | tr ',' ' '); do
  /verif/tools/seeded_eval.sh "$d" "$c" quick 2>&1 | cut -c1-240 | grep -E "key=|tier=|exit status|DOES NOT" | head -5
done
/verif/tools/seeded_confirm.sh "$d" "$pkg" "$@" | tr '\n' ';'; echo
