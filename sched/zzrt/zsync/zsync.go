// Package zsync replaces "sync" in instrumented copies of the library (the instrumenter
// rewrites the import path). Under the cooperative scheduler a real mutex would block the only
// running goroutine, so Lock/Wait become scheduling points that hand the baton to another
// enabled thread; with no controller attached the real primitives are used.
package zsync

import (
	"sync"

	"github.com/makiuchi-d/gozxing/zzrt"
)

type Locker = sync.Locker

type Mutex struct {
	real sync.Mutex
	held bool
}

func (m *Mutex) Lock() {
	if !zzrt.Controlled() {
		m.real.Lock()
		return
	}
	zzrt.SyncPoint()
	for m.held {
		zzrt.Block(func() bool { return !m.held })
	}
	m.held = true
}

func (m *Mutex) TryLock() bool {
	if !zzrt.Controlled() {
		return m.real.TryLock()
	}
	zzrt.SyncPoint()
	if m.held {
		return false
	}
	m.held = true
	return true
}

func (m *Mutex) Unlock() {
	if !zzrt.Controlled() {
		m.real.Unlock()
		return
	}
	if !m.held {
		panic("zsync: unlock of unlocked mutex")
	}
	m.held = false
	zzrt.SyncPoint()
}

type RWMutex struct {
	real    sync.RWMutex
	writer  bool
	readers int
}

func (m *RWMutex) Lock() {
	if !zzrt.Controlled() {
		m.real.Lock()
		return
	}
	zzrt.SyncPoint()
	for m.writer || m.readers > 0 {
		zzrt.Block(func() bool { return !m.writer && m.readers == 0 })
	}
	m.writer = true
}

func (m *RWMutex) Unlock() {
	if !zzrt.Controlled() {
		m.real.Unlock()
		return
	}
	m.writer = false
	zzrt.SyncPoint()
}

func (m *RWMutex) RLock() {
	if !zzrt.Controlled() {
		m.real.RLock()
		return
	}
	zzrt.SyncPoint()
	for m.writer {
		zzrt.Block(func() bool { return !m.writer })
	}
	m.readers++
}

func (m *RWMutex) RUnlock() {
	if !zzrt.Controlled() {
		m.real.RUnlock()
		return
	}
	m.readers--
	zzrt.SyncPoint()
}

func (m *RWMutex) RLocker() Locker { return rlocker{m} }

type rlocker struct{ m *RWMutex }

func (r rlocker) Lock()   { r.m.RLock() }
func (r rlocker) Unlock() { r.m.RUnlock() }

type Once struct {
	real sync.Once
	m    Mutex
	done bool
}

func (o *Once) Do(f func()) {
	if !zzrt.Controlled() {
		o.real.Do(func() { f(); o.done = true })
		return
	}
	zzrt.SyncPoint()
	if o.done {
		return
	}
	o.m.Lock()
	defer o.m.Unlock()
	if !o.done {
		defer func() { o.done = true }()
		f()
	}
}

type WaitGroup struct {
	real sync.WaitGroup
	n    int
}

func (w *WaitGroup) Add(d int) {
	if !zzrt.Controlled() {
		w.real.Add(d)
		return
	}
	w.n += d
	zzrt.SyncPoint()
}
func (w *WaitGroup) Done() { w.Add(-1) }
func (w *WaitGroup) Wait() {
	if !zzrt.Controlled() {
		w.real.Wait()
		return
	}
	zzrt.SyncPoint()
	for w.n > 0 {
		zzrt.Block(func() bool { return w.n <= 0 })
	}
}

// Pool never retains objects under the scheduler (a valid sync.Pool behaviour).
type Pool struct {
	real sync.Pool
	New  func() interface{}
}

func (p *Pool) Get() interface{} {
	if !zzrt.Controlled() {
		p.real.New = p.New
		return p.real.Get()
	}
	zzrt.SyncPoint()
	if p.New != nil {
		return p.New()
	}
	return nil
}

func (p *Pool) Put(x interface{}) {
	if !zzrt.Controlled() {
		p.real.Put(x)
		return
	}
	zzrt.SyncPoint()
}

// Map is a mutex-protected map.
type Map struct {
	mu Mutex
	m  map[interface{}]interface{}
}

func (m *Map) Load(k interface{}) (interface{}, bool) {
	m.mu.Lock()
	defer m.mu.Unlock()
	v, ok := m.m[k]
	return v, ok
}

func (m *Map) Store(k, v interface{}) {
	m.mu.Lock()
	defer m.mu.Unlock()
	if m.m == nil {
		m.m = map[interface{}]interface{}{}
	}
	m.m[k] = v
}

func (m *Map) LoadOrStore(k, v interface{}) (interface{}, bool) {
	m.mu.Lock()
	defer m.mu.Unlock()
	if m.m == nil {
		m.m = map[interface{}]interface{}{}
	}
	if old, ok := m.m[k]; ok {
		return old, true
	}
	m.m[k] = v
	return v, false
}

func (m *Map) Delete(k interface{}) {
	m.mu.Lock()
	defer m.mu.Unlock()
	delete(m.m, k)
}

func (m *Map) Range(f func(k, v interface{}) bool) {
	m.mu.Lock()
	cp := make(map[interface{}]interface{}, len(m.m))
	for k, v := range m.m {
		cp[k] = v
	}
	m.mu.Unlock()
	for k, v := range cp {
		if !f(k, v) {
			return
		}
	}
}
