// Package zzrt is the runtime that the C18 instrumenter links into instrumented copies of
// the library (it is added to the module as a virtual package through `go build -overlay`;
// nothing of it exists in /repo). It provides
//
//   - a registry of the addresses of all package-level variables of the library (filled by
//     generated init functions), a deep hash per variable and the set of heap addresses
//     reachable from them ("shared memory");
//   - a cooperative scheduler: harness threads are goroutines of which exactly one runs at a
//     time; instrumented statements call P before they execute, and P is a scheduling point
//     when the statement mentions a package-level variable or runs inside the dynamic extent of
//     a function that received a pointer into shared memory. At a scheduling point the
//     controller consults the schedule prefix being replayed, otherwise continues the running
//     thread (non-preemptive default).
//
// With no controller attached every hook is one atomic load.
package zzrt

import (
	"fmt"
	"hash/fnv"
	"reflect"
	"sort"
	"strings"
	"sync"
	"sync/atomic"
	"unsafe"
)

const ModulePrefix = "github.com/makiuchi-d/gozxing"

// ---------------------------------------------------------------------------- registry

type root struct {
	name string
	ptr  reflect.Value // pointer to the variable
}

var (
	regMu sync.Mutex
	roots []root
)

// Register is called from generated init functions with the address of a package-level var.
func Register(name string, ptr interface{}) {
	regMu.Lock()
	roots = append(roots, root{name, reflect.ValueOf(ptr)})
	regMu.Unlock()
}

// RootNames returns the registered variable names, sorted; index = root id.
func RootNames() []string {
	sortRoots()
	n := make([]string, len(roots))
	for i, r := range roots {
		n[i] = r.name
	}
	return n
}

var sorted bool

func sortRoots() {
	regMu.Lock()
	if !sorted {
		sort.Slice(roots, func(i, j int) bool { return roots[i].name < roots[j].name })
		sorted = true
	}
	regMu.Unlock()
}

func inModule(t reflect.Type) bool {
	for t.Kind() == reflect.Ptr || t.Kind() == reflect.Slice || t.Kind() == reflect.Array {
		t = t.Elem()
	}
	p := t.PkgPath()
	// sync/atomic: the value held by an atomic.Value / Int32 / ... is shared state like any other
	// (hashing runs while no other thread does)
	return p == "" || p == "sync/atomic" || strings.HasPrefix(p, ModulePrefix)
}

type walker struct {
	h       interface{ Write([]byte) (int, error) }
	seen    map[uintptr]bool
	reach   map[uintptr]int // heap address -> root id (only filled when collect)
	rootID  int
	collect bool
	budget  int
}

func (w *walker) bytes(b ...byte) {
	if w.h != nil {
		w.h.Write(b)
	}
}

func (w *walker) u64(v uint64) {
	w.bytes(byte(v), byte(v>>8), byte(v>>16), byte(v>>24), byte(v>>32), byte(v>>40), byte(v>>48), byte(v>>56))
}

func (w *walker) mark(p uintptr) {
	if w.collect && p != 0 {
		if _, ok := w.reach[p]; !ok {
			w.reach[p] = w.rootID
		}
	}
}

// walk hashes the value v (addressable or not) deeply; pointers, slices and maps are followed
// when their element type belongs to the library module or is unnamed/basic; values of other
// modules (x/text encodings, ...) contribute only their identity.
func (w *walker) walk(v reflect.Value) {
	w.budget--
	if w.budget < 0 {
		return
	}
	switch v.Kind() {
	case reflect.Bool:
		if v.Bool() {
			w.bytes(1)
		} else {
			w.bytes(0)
		}
	case reflect.Int, reflect.Int8, reflect.Int16, reflect.Int32, reflect.Int64:
		w.u64(uint64(v.Int()))
	case reflect.Uint, reflect.Uint8, reflect.Uint16, reflect.Uint32, reflect.Uint64, reflect.Uintptr:
		w.u64(v.Uint())
	case reflect.Float32, reflect.Float64:
		w.u64(uint64(int64(v.Float() * 1e6)))
	case reflect.String:
		w.u64(uint64(v.Len()))
		if w.h != nil {
			w.h.Write([]byte(v.String()))
		}
	case reflect.Ptr:
		if v.IsNil() {
			w.bytes(0)
			return
		}
		p := v.Pointer()
		w.mark(p)
		if w.seen[p] || !inModule(v.Type()) {
			w.bytes(2)
			return
		}
		w.seen[p] = true
		w.bytes(1)
		w.walk(v.Elem())
	case reflect.Slice:
		if v.IsNil() {
			w.bytes(0)
			return
		}
		w.u64(uint64(v.Len()))
		if v.Len() > 0 {
			p := v.Pointer()
			w.mark(p)
			// the whole backing range is shared memory
			if w.collect {
				sz := v.Type().Elem().Size()
				for i := 1; i < v.Len() && i < 4096; i++ {
					w.mark(p + uintptr(i)*sz)
				}
			}
		}
		if !inModule(v.Type()) {
			return
		}
		switch v.Type().Elem().Kind() {
		case reflect.Bool, reflect.Int, reflect.Int8, reflect.Int16, reflect.Int32, reflect.Int64,
			reflect.Uint, reflect.Uint8, reflect.Uint16, reflect.Uint32, reflect.Uint64, reflect.Uintptr:
			// pointer-free elements: hash the backing memory directly
			if w.h != nil && v.Len() > 0 {
				n := v.Len() * int(v.Type().Elem().Size())
				w.h.Write(unsafe.Slice((*byte)(unsafe.Pointer(v.Pointer())), n))
			}
			return
		}
		for i := 0; i < v.Len(); i++ {
			w.walk(v.Index(i))
		}
	case reflect.Array:
		for i := 0; i < v.Len(); i++ {
			w.walk(v.Index(i))
		}
	case reflect.Map:
		if v.IsNil() {
			w.bytes(0)
			return
		}
		w.mark(v.Pointer())
		w.u64(uint64(v.Len()))
		if !inModule(v.Type().Elem()) && !inModule(v.Type().Key()) {
			return
		}
		// order-independent: sum of entry hashes
		var sum uint64
		it := v.MapRange()
		for it.Next() {
			// a fresh visited-set per entry: map iteration order must not influence the hash
			sub := &walker{h: fnv.New64a(), seen: map[uintptr]bool{}, reach: w.reach, rootID: w.rootID, collect: w.collect, budget: w.budget}
			sub.walk(it.Key())
			sub.walk(it.Value())
			sum += sub.h.(interface{ Sum64() uint64 }).Sum64()
		}
		w.u64(sum)
	case reflect.Struct:
		if !inModule(v.Type()) {
			w.bytes(3)
			return
		}
		for i := 0; i < v.NumField(); i++ {
			f := v.Field(i)
			if !f.CanInterface() && f.CanAddr() {
				f = reflect.NewAt(f.Type(), unsafe.Pointer(f.UnsafeAddr())).Elem()
			}
			w.walk(f)
		}
	case reflect.Interface:
		if v.IsNil() {
			w.bytes(0)
			return
		}
		e := v.Elem()
		if w.h != nil {
			w.h.Write([]byte(e.Type().String()))
		}
		if inModule(e.Type()) {
			if e.Kind() == reflect.Struct && !e.CanAddr() {
				c := reflect.New(e.Type()).Elem()
				c.Set(e)
				e = c
			}
			w.walk(e)
		}
	case reflect.Func, reflect.Chan, reflect.UnsafePointer:
		w.bytes(4)
	}
}

// HashRoots returns one hash per registered variable (index = root id).
func HashRoots() []uint64 {
	sortRoots()
	out := make([]uint64, len(roots))
	for i, r := range roots {
		h := fnv.New64a()
		w := &walker{h: h, seen: map[uintptr]bool{}, budget: 4 << 20}
		w.walk(r.ptr.Elem())
		out[i] = h.Sum64()
	}
	return out
}

// reachable returns heap address -> root id for everything reachable from the registry, plus
// the addresses of the variables themselves.
func reachable() map[uintptr]int {
	sortRoots()
	m := map[uintptr]int{}
	for i, r := range roots {
		m[r.ptr.Pointer()] = i
		w := &walker{seen: map[uintptr]bool{}, reach: m, rootID: i, collect: true, budget: 4 << 20}
		w.walk(r.ptr.Elem())
	}
	return m
}

// ---------------------------------------------------------------------------- scheduler

// Point is one scheduling point of an execution (explore mode).
type Point struct {
	Thread  int    `json:"t"` // running thread (-1 at the initial choice)
	Site    uint32 `json:"s"` // instrumented statement about to execute (0: thread start/end)
	Roots   []int  `json:"r,omitempty"`
	Write   bool   `json:"w,omitempty"`
	Enabled []int  `json:"e"` // enabled threads, canonical order: running thread first, then ascending ids
	Choice  int    `json:"c"` // index into Enabled that was taken
}

type thread struct {
	id           int
	baton        chan struct{}
	done         bool
	sharedDepth  int
	sharedRoots  []int // stack of roots of the open shared extents
	frames       []int // number of entries each open extent pushed
	pendingWrite bool
	waiting      func() bool // non-nil while blocked in zsync: becomes enabled when it returns true
}

// Config selects what the controller does at instrumented statements.
type Config struct {
	Prefix []int // choices to replay at successive scheduling points; afterwards choice 0
	// Interesting[root] == true makes statements that may access that root scheduling points.
	// nil: no statement is a scheduling point (only thread start/end are).
	Interesting []bool
	// Trace: do not schedule at statements; record accessed roots, and re-hash the registry after
	// every potential write inside shared code to find the roots that change (also transiently).
	Trace     bool
	MaxPoints int // cap on recorded statement points (0 = none); beyond it statements stop being points
	MaxHashes int // cap on trace-mode re-hashes
	HashEvery int // trace: after the first 16 potential writes, re-hash on every HashEvery-th one (0 = every one)
}

type Controller struct {
	cfg         Config
	threads     []*thread
	cur         *thread
	Points      []Point
	Accessed    []bool // trace: roots accessed at shared statements
	Changed     []bool // trace: roots whose deep hash changed at some moment
	SharedStmts int64
	Hashes      int
	WriteEvents int64
	CapHit      bool
	Diverged    string
	Deadlock    string
	reach       map[uintptr]int
	lastHash    []uint64
	fin         chan struct{}
	panics      []string
}

var ctlPtr unsafe.Pointer // *Controller

func loadCtl() *Controller { return (*Controller)(atomic.LoadPointer(&ctlPtr)) }

// SiteRoots maps a site id to the root ids of the package-level variables the statement
// mentions; installed by the worker from the instrumenter's site table.
var SiteRoots func(site uint32) []int

// Run executes the thread bodies under the cooperative scheduler. At every scheduling point the
// controller takes the next choice of cfg.Prefix, or choice 0 (= keep running the current
// thread; at a thread's end: the lowest-numbered unfinished thread) when the prefix is exhausted.
func Run(bodies []func(), cfg Config) *Controller {
	c := &Controller{cfg: cfg, fin: make(chan struct{})}
	c.reach = reachable()
	n := len(RootNames())
	c.Accessed = make([]bool, n)
	c.Changed = make([]bool, n)
	if cfg.Trace {
		c.lastHash = HashRoots()
	}
	for i := range bodies {
		c.threads = append(c.threads, &thread{id: i, baton: make(chan struct{}, 1)})
	}
	if !atomic.CompareAndSwapPointer(&ctlPtr, nil, unsafe.Pointer(c)) {
		panic("zzrt: controller already attached")
	}
	defer atomic.StorePointer(&ctlPtr, nil)
	for i, b := range bodies {
		t := c.threads[i]
		body := b
		go func() {
			<-t.baton
			func() {
				defer func() {
					if r := recover(); r != nil {
						c.panics = append(c.panics, fmt.Sprintf("thread %d: %v", t.id, r))
					}
				}()
				body()
			}()
			c.finish(t)
		}()
	}
	first := c.choose(nil, 0, nil, false)
	c.cur = c.threads[first]
	c.cur.baton <- struct{}{}
	<-c.fin
	if cfg.Trace {
		c.rehash()
	}
	return c
}

func (c *Controller) Panics() []string { return c.panics }

func (t *thread) runnable() bool {
	return !t.done && (t.waiting == nil || t.waiting())
}

func (c *Controller) enabled(running *thread) []int {
	var e []int
	if running != nil && running.runnable() {
		e = append(e, running.id)
	}
	for _, t := range c.threads {
		if t.runnable() && (running == nil || t.id != running.id) {
			e = append(e, t.id)
		}
	}
	return e
}

func (c *Controller) choose(running *thread, site uint32, rts []int, write bool) int {
	en := c.enabled(running)
	idx := 0
	n := len(c.Points)
	if n < len(c.cfg.Prefix) {
		idx = c.cfg.Prefix[n]
		if idx < 0 || idx >= len(en) {
			if c.Diverged == "" {
				c.Diverged = fmt.Sprintf("schedule prefix choice %d at point %d out of range (enabled %v)", idx, n, en)
			}
			idx = 0
		}
	}
	tid := -1
	if running != nil {
		tid = running.id
	}
	c.Points = append(c.Points, Point{Thread: tid, Site: site, Roots: rts, Write: write, Enabled: en, Choice: idx})
	return en[idx]
}

func (c *Controller) rehash() {
	h := HashRoots()
	c.Hashes++
	changed := false
	for i := range h {
		if i < len(c.lastHash) && h[i] != c.lastHash[i] {
			c.Changed[i] = true
			changed = true
		}
	}
	if changed {
		c.reach = reachable()
	}
	c.lastHash = h
}

func (c *Controller) finish(t *thread) {
	t.done = true
	if c.cfg.Trace {
		c.rehash()
	}
	en := c.enabled(nil)
	if len(en) == 0 {
		for _, o := range c.threads {
			if !o.done {
				c.Deadlock = fmt.Sprintf("thread %d finished and every remaining thread is blocked", t.id)
			}
		}
		close(c.fin)
		return
	}
	next := c.choose(t, 0, nil, false)
	c.cur = c.threads[next]
	c.cur.baton <- struct{}{}
}

// flags of P
const (
	FlagGlobal = 1 // statement mentions a package-level variable
	FlagWrite  = 2 // statement is syntactically a potential write to non-local memory
)

// statement coverage of the controlled executions of this process (one bit per site)
var covered []uint32

// CoveredSites returns the ids of the statement sites executed under a controller so far.
func CoveredSites() []uint32 {
	var out []uint32
	for w, bits := range covered {
		for b := uint32(0); b < 32; b++ {
			if bits&(1<<b) != 0 {
				out = append(out, uint32(w)*32+b)
			}
		}
	}
	return out
}

// P is called before every instrumented statement.
func P(site uint32, flags uint8) {
	c := loadCtl()
	if c == nil {
		return
	}
	t := c.cur
	if t == nil {
		return
	}
	if w := int(site >> 5); w < len(covered) {
		covered[w] |= 1 << (site & 31)
	} else {
		n := make([]uint32, len(SiteTable)/32+1)
		copy(n, covered)
		covered = n
		if w < len(covered) {
			covered[w] |= 1 << (site & 31)
		}
	}
	if t.pendingWrite {
		t.pendingWrite = false
		c.WriteEvents++
		due := c.WriteEvents <= 16 || c.cfg.HashEvery <= 1 || c.WriteEvents%int64(c.cfg.HashEvery) == 0
		if due {
			if c.cfg.MaxHashes == 0 || c.Hashes < c.cfg.MaxHashes {
				c.rehash()
			} else {
				c.CapHit = true
			}
		}
	}
	if flags&FlagGlobal == 0 && t.sharedDepth == 0 {
		return
	}
	c.SharedStmts++
	var rts []int
	if flags&FlagGlobal != 0 && SiteRoots != nil {
		rts = SiteRoots(site)
	}
	if t.sharedDepth > 0 {
		rts = append(append([]int{}, rts...), t.sharedRoots...)
	}
	if c.cfg.Trace {
		for _, r := range rts {
			c.Accessed[r] = true
		}
		if flags&FlagWrite != 0 {
			t.pendingWrite = true
		}
		return
	}
	if c.cfg.Interesting == nil {
		return
	}
	hit := false
	for _, r := range rts {
		if r < len(c.cfg.Interesting) && c.cfg.Interesting[r] {
			hit = true
			break
		}
	}
	if !hit {
		return
	}
	if c.cfg.MaxPoints > 0 && len(c.Points) >= c.cfg.MaxPoints {
		c.CapHit = true
		return
	}
	next := c.choose(t, site, rts, flags&FlagWrite != 0)
	if next != t.id {
		nt := c.threads[next]
		c.cur = nt
		nt.baton <- struct{}{}
		<-t.baton
		c.cur = t
	}
}

// E is called at function entry with the pointer-like arguments (receiver, *T, slice data,
// map header). It reports whether any of them points into shared memory; the caller then
// defers L.
func E(ptrs ...unsafe.Pointer) bool {
	c := loadCtl()
	if c == nil {
		return false
	}
	t := c.cur
	if t == nil {
		return false
	}
	hit := false
	pushed := 0
	for _, p := range ptrs {
		if p == nil {
			continue
		}
		if r, ok := c.reach[uintptr(p)]; ok {
			hit = true
			dup := false
			for _, o := range t.sharedRoots {
				if o == r {
					dup = true
					break
				}
			}
			if !dup {
				t.sharedRoots = append(t.sharedRoots, r)
				pushed++
			}
		}
	}
	if hit {
		t.sharedDepth++
		t.frames = append(t.frames, pushed)
	}
	return hit
}

// L leaves a shared extent entered by E.
func L() {
	c := loadCtl()
	if c == nil {
		return
	}
	t := c.cur
	if t == nil || t.sharedDepth == 0 {
		return
	}
	t.sharedDepth--
	n := t.frames[len(t.frames)-1]
	t.frames = t.frames[:len(t.frames)-1]
	t.sharedRoots = t.sharedRoots[:len(t.sharedRoots)-n]
}

// ---------------------------------------------------------------------------- hooks for zsync

// Controlled reports whether the calling code runs under the cooperative scheduler.
func Controlled() bool {
	c := loadCtl()
	return c != nil && c.cur != nil && !c.cfg.Trace
}

// SyncPoint is an unconditional scheduling point (lock, unlock, once, wait).
func SyncPoint() {
	c := loadCtl()
	if c == nil || c.cur == nil || c.cfg.Trace {
		return
	}
	t := c.cur
	next := c.choose(t, 0, nil, false)
	if next != t.id {
		nt := c.threads[next]
		c.cur = nt
		nt.baton <- struct{}{}
		<-t.baton
		c.cur = t
	}
}

// Block parks the running thread until ready() holds; another enabled thread must run. If there
// is none the execution is a deadlock: it is recorded and the run ends (blocked goroutines are
// abandoned; the worker process exits after reporting).
func Block(ready func() bool) {
	c := loadCtl()
	if c == nil || c.cur == nil {
		return
	}
	t := c.cur
	t.waiting = ready
	en := c.enabled(nil)
	if len(en) == 0 {
		c.Deadlock = fmt.Sprintf("thread %d blocks and no thread is enabled", t.id)
		close(c.fin)
		select {} // never resumes
	}
	next := c.choose(t, 0, nil, false)
	nt := c.threads[next]
	c.cur = nt
	nt.baton <- struct{}{}
	<-t.baton
	t.waiting = nil
	c.cur = t
}
