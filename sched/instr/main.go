// instr generates instrumented copies of every non-test source file of /repo for the C18
// schedule explorer, plus a `go build -overlay` file that substitutes them (nothing is written
// to /repo). See /verif/sched/zzrt for what the inserted calls do.
//
//	instr -repo /repo -out /verif/build/c18 [-base overlay.json]
//
// -base names an existing overlay (hooks, or a mutated copy of a library file): replaced files
// are read from their replacement, so a mutated tree is instrumented as mutated.
package main

import (
	"encoding/json"
	"flag"
	"fmt"
	"go/ast"
	"go/parser"
	"go/printer"
	"go/token"
	"os"
	"path/filepath"
	"sort"
	"strconv"
	"strings"
)

const module = "github.com/makiuchi-d/gozxing"

type site struct {
	ID    int      `json:"id"`
	Func  string   `json:"func"`
	Pos   string   `json:"pos"`
	Roots []string `json:"roots,omitempty"`
	Write bool     `json:"write,omitempty"`
}

type pkgInfo struct {
	dir     string // relative to repo ("" = root)
	path    string // import path
	name    string
	files   map[string]*ast.File // by absolute /repo path
	vars    map[string]bool
	varDecl map[*ast.ValueSpec]bool
}

var (
	fset    = token.NewFileSet()
	sites   []site
	pkgs    = map[string]*pkgInfo{} // by import path
	overlay = map[string]string{}
)

func main() {
	repo := flag.String("repo", "/repo", "")
	out := flag.String("out", "/verif/build/c18", "")
	base := flag.String("base", "", "")
	flag.Parse()
	if *base != "" {
		b, err := os.ReadFile(*base)
		if err == nil {
			var o struct{ Replace map[string]string }
			json.Unmarshal(b, &o)
			for k, v := range o.Replace {
				overlay[k] = v
			}
		}
	}
	os.RemoveAll(filepath.Join(*out, "src"))
	// 1. collect files per directory
	byDir := map[string][]string{}
	filepath.Walk(*repo, func(p string, fi os.FileInfo, err error) error {
		if err != nil {
			return nil
		}
		if fi.IsDir() {
			n := fi.Name()
			if n == ".git" || n == "testdata" || n == "testutil" || n == "zzrt" {
				return filepath.SkipDir
			}
			return nil
		}
		if strings.HasSuffix(p, ".go") && !strings.HasSuffix(p, "_test.go") {
			byDir[filepath.Dir(p)] = append(byDir[filepath.Dir(p)], p)
		}
		return nil
	})
	// files that exist only in the base overlay (hook files) belong to their directory too
	for dst := range overlay {
		if strings.HasPrefix(dst, *repo+"/") && strings.HasSuffix(dst, ".go") && !strings.HasSuffix(dst, "_test.go") {
			found := false
			for _, f := range byDir[filepath.Dir(dst)] {
				if f == dst {
					found = true
				}
			}
			if !found && !strings.Contains(dst, "/zzrt/") {
				byDir[filepath.Dir(dst)] = append(byDir[filepath.Dir(dst)], dst)
			}
		}
	}
	// 2. parse
	for dir, files := range byDir {
		rel, _ := filepath.Rel(*repo, dir)
		if rel == "." {
			rel = ""
		}
		pi := &pkgInfo{dir: rel, path: strings.TrimSuffix(module+"/"+rel, "/"), files: map[string]*ast.File{}, vars: map[string]bool{}, varDecl: map[*ast.ValueSpec]bool{}}
		sort.Strings(files)
		for _, f := range files {
			src := f
			if r, ok := overlay[f]; ok {
				src = r
			}
			b, err := os.ReadFile(src)
			if err != nil {
				fatal("read %s: %v", src, err)
			}
			if strings.Contains(string(b), "//go:build verif") {
				// hook files: compiled as they are (they only export accessors)
				continue
			}
			af, err := parser.ParseFile(fset, f, b, 0)
			if err != nil {
				fatal("parse %s: %v", f, err)
			}
			pi.files[f] = af
			pi.name = af.Name.Name
			for _, d := range af.Decls {
				if gd, ok := d.(*ast.GenDecl); ok && gd.Tok == token.VAR {
					for _, sp := range gd.Specs {
						vs := sp.(*ast.ValueSpec)
						pi.varDecl[vs] = true
						for _, n := range vs.Names {
							if n.Name != "_" {
								pi.vars[n.Name] = true
							}
						}
					}
				}
			}
		}
		if len(pi.files) > 0 {
			pkgs[pi.path] = pi
		}
	}
	// 3. instrument
	rep := map[string]string{}
	for k, v := range overlay {
		rep[k] = v
	}
	var paths []string
	for p := range pkgs {
		paths = append(paths, p)
	}
	sort.Strings(paths)
	for _, p := range paths {
		pi := pkgs[p]
		var fnames []string
		for f := range pi.files {
			fnames = append(fnames, f)
		}
		sort.Strings(fnames)
		for _, f := range fnames {
			af := pi.files[f]
			instrumentFile(pi, af)
			rel, _ := filepath.Rel(*repo, f)
			dst := filepath.Join(*out, "src", rel)
			os.MkdirAll(filepath.Dir(dst), 0o755)
			w, err := os.Create(dst)
			if err != nil {
				fatal("%v", err)
			}
			af.Comments = nil
			if err := printer.Fprint(w, fset, af); err != nil {
				fatal("print %s: %v", f, err)
			}
			w.Close()
			rep[f] = dst
		}
		// registration file
		var names []string
		for n := range pi.vars {
			names = append(names, n)
		}
		sort.Strings(names)
		if len(names) > 0 {
			var sb strings.Builder
			fmt.Fprintf(&sb, "package %s\n\nimport zzrt_ %q\n\nfunc init() {\n", pi.name, module+"/zzrt")
			for _, n := range names {
				fmt.Fprintf(&sb, "\tzzrt_.Register(%q, &%s)\n", pi.path+"."+n, n)
			}
			sb.WriteString("}\n")
			dst := filepath.Join(*out, "src", pi.dir, "zz_verif_reg.go")
			os.MkdirAll(filepath.Dir(dst), 0o755)
			os.WriteFile(dst, []byte(sb.String()), 0o644)
			rep[filepath.Join(*repo, pi.dir, "zz_verif_reg.go")] = dst
		}
	}
	// 4. runtime package + site table
	zdir := filepath.Join(*out, "src", "zzrt")
	os.MkdirAll(zdir, 0o755)
	rt, err := os.ReadFile("/verif/sched/zzrt/zzrt.go")
	if err != nil {
		fatal("%v", err)
	}
	os.WriteFile(filepath.Join(zdir, "zzrt.go"), rt, 0o644)
	var sb strings.Builder
	sb.WriteString("package zzrt\n\n// generated by /verif/sched/instr\n\ntype SiteInfo struct {\n\tFunc  string\n\tPos   string\n\tRoots []string\n\tWrite bool\n}\n\nvar SiteTable = []SiteInfo{\n\t{},\n")
	for _, s := range sites {
		fmt.Fprintf(&sb, "\t{%q, %q, %#v, %v},\n", s.Func, s.Pos, s.Roots, s.Write)
	}
	sb.WriteString("}\n")
	os.WriteFile(filepath.Join(zdir, "sites_gen.go"), []byte(sb.String()), 0o644)
	rep[filepath.Join(*repo, "zzrt", "zzrt.go")] = filepath.Join(zdir, "zzrt.go")
	rep[filepath.Join(*repo, "zzrt", "sites_gen.go")] = filepath.Join(zdir, "sites_gen.go")
	zs, err := os.ReadFile("/verif/sched/zzrt/zsync/zsync.go")
	if err != nil {
		fatal("%v", err)
	}
	os.MkdirAll(filepath.Join(zdir, "zsync"), 0o755)
	os.WriteFile(filepath.Join(zdir, "zsync", "zsync.go"), zs, 0o644)
	rep[filepath.Join(*repo, "zzrt", "zsync", "zsync.go")] = filepath.Join(zdir, "zsync", "zsync.go")
	js, _ := json.MarshalIndent(map[string]interface{}{"Replace": rep}, "", " ")
	os.WriteFile(filepath.Join(*out, "overlay.json"), js, 0o644)
	nv := 0
	for _, p := range pkgs {
		nv += len(p.vars)
	}
	fmt.Printf("instr: %d packages, %d package-level variables registered, %d statement sites\n", len(pkgs), nv, len(sites))
}

func fatal(f string, a ...interface{}) {
	fmt.Fprintf(os.Stderr, "instr: "+f+"\n", a...)
	os.Exit(1)
}

// ---------------------------------------------------------------------------- instrumentation

type fileCtx struct {
	pi        *pkgInfo
	imports   map[string]string // local name -> import path
	useUnsafe bool
	used      bool
	curFunc   string
}

func instrumentFile(pi *pkgInfo, af *ast.File) {
	fc := &fileCtx{pi: pi, imports: map[string]string{}}
	for _, im := range af.Imports {
		p, _ := strconv.Unquote(im.Path.Value)
		if p == "sync" {
			// cooperative replacements of the blocking primitives
			if im.Name == nil {
				im.Name = ast.NewIdent("sync")
			}
			im.Path.Value = strconv.Quote(module + "/zzrt/zsync")
		}
		name := filepath.Base(p)
		if im.Name != nil {
			name = im.Name.Name
		}
		fc.imports[name] = p
	}
	for _, d := range af.Decls {
		fd, ok := d.(*ast.FuncDecl)
		if !ok || fd.Body == nil {
			continue
		}
		fc.curFunc = pi.dir + "." + fd.Name.Name
		if fd.Recv != nil && len(fd.Recv.List) > 0 {
			t := fd.Recv.List[0].Type
			if st, ok := t.(*ast.StarExpr); ok {
				t = st.X
			}
			if id, ok := t.(*ast.Ident); ok {
				fc.curFunc = pi.dir + "." + id.Name + "." + fd.Name.Name
			}
		}
		fc.instrumentFunc(fd.Recv, fd.Type, fd.Body)
	}
	if fc.used {
		addImport(af, "zzrt_", module+"/zzrt")
	}
	if fc.useUnsafe {
		addImport(af, "zzunsafe_", "unsafe")
	}
}

func addImport(af *ast.File, name, path string) {
	spec := &ast.ImportSpec{Name: ast.NewIdent(name), Path: &ast.BasicLit{Kind: token.STRING, Value: strconv.Quote(path)}}
	gd := &ast.GenDecl{Tok: token.IMPORT, Specs: []ast.Spec{spec}}
	af.Decls = append([]ast.Decl{gd}, af.Decls...)
	af.Imports = append(af.Imports, spec)
}

func call(fn string, args ...ast.Expr) *ast.CallExpr {
	if fn == "(*zzunsafe_.Pointer)" {
		return &ast.CallExpr{Fun: &ast.ParenExpr{X: &ast.StarExpr{X: &ast.SelectorExpr{X: ast.NewIdent("zzunsafe_"), Sel: ast.NewIdent("Pointer")}}}, Args: args}
	}
	parts := strings.Split(fn, ".")
	var f ast.Expr = ast.NewIdent(parts[0])
	for _, p := range parts[1:] {
		f = &ast.SelectorExpr{X: f, Sel: ast.NewIdent(p)}
	}
	return &ast.CallExpr{Fun: f, Args: args}
}

func intLit(v int) ast.Expr { return &ast.BasicLit{Kind: token.INT, Value: strconv.Itoa(v)} }

// entry returns the function-entry statement `if zzrt_.E(ptrs...) { defer zzrt_.L() }`.
func (fc *fileCtx) entry(recv *ast.FieldList, ft *ast.FuncType) ast.Stmt {
	var args []ast.Expr
	add := func(fl *ast.FieldList) {
		if fl == nil {
			return
		}
		for _, f := range fl.List {
			for _, n := range f.Names {
				if n.Name == "_" || n.Name == "" {
					continue
				}
				// first word of a pointer / slice header / map value = the address it refers to
				hdr := func() ast.Expr {
					return &ast.StarExpr{X: call("(*zzunsafe_.Pointer)", call("zzunsafe_.Pointer", &ast.UnaryExpr{Op: token.AND, X: ast.NewIdent(n.Name)}))}
				}
				switch t := f.Type.(type) {
				case *ast.StarExpr:
					args = append(args, call("zzunsafe_.Pointer", ast.NewIdent(n.Name)))
				case *ast.ArrayType:
					if t.Len == nil {
						args = append(args, hdr())
					}
				case *ast.Ellipsis:
					args = append(args, hdr())
				case *ast.MapType:
					args = append(args, hdr())
				}
			}
		}
	}
	add(recv)
	add(ft.Params)
	if len(args) == 0 {
		return nil
	}
	fc.useUnsafe = true
	fc.used = true
	return &ast.IfStmt{
		Cond: call("zzrt_.E", args...),
		Body: &ast.BlockStmt{List: []ast.Stmt{&ast.DeferStmt{Call: call("zzrt_.L")}}},
	}
}

func (fc *fileCtx) instrumentFunc(recv *ast.FieldList, ft *ast.FuncType, body *ast.BlockStmt) {
	fc.block(body)
	if e := fc.entry(recv, ft); e != nil {
		body.List = append([]ast.Stmt{e}, body.List...)
	}
}

// block instruments a statement list in place.
func (fc *fileCtx) block(b *ast.BlockStmt) {
	if b == nil {
		return
	}
	b.List = fc.stmts(b.List)
}

func (fc *fileCtx) stmts(list []ast.Stmt) []ast.Stmt {
	var out []ast.Stmt
	for _, s := range list {
		fc.nested(s)
		if p := fc.probe(s); p != nil {
			out = append(out, p)
		}
		out = append(out, s)
	}
	return out
}

// nested instruments the blocks and function literals contained in a statement.
func (fc *fileCtx) nested(s ast.Stmt) {
	switch st := s.(type) {
	case *ast.BlockStmt:
		fc.block(st)
	case *ast.IfStmt:
		fc.block(st.Body)
		if st.Else != nil {
			fc.nested(st.Else)
		}
	case *ast.ForStmt:
		fc.block(st.Body)
		fc.loopHead(st.Body, []ast.Node{st.Cond, st.Post})
	case *ast.RangeStmt:
		fc.block(st.Body)
		fc.loopHead(st.Body, []ast.Node{st.X})
	case *ast.SwitchStmt:
		fc.clauses(st.Body)
	case *ast.TypeSwitchStmt:
		fc.clauses(st.Body)
	case *ast.SelectStmt:
		fc.clauses(st.Body)
	case *ast.LabeledStmt:
		fc.nested(st.Stmt)
	}
	// function literals inside the statement's expressions
	fc.funcLits(s)
}

func (fc *fileCtx) clauses(b *ast.BlockStmt) {
	if b == nil {
		return
	}
	for _, c := range b.List {
		switch cc := c.(type) {
		case *ast.CaseClause:
			cc.Body = fc.stmts(cc.Body)
		case *ast.CommClause:
			cc.Body = fc.stmts(cc.Body)
		}
	}
}

// loopHead puts a probe carrying the loop header's mentions at the top of the body, so that the
// condition evaluated on every iteration is covered by a scheduling point.
func (fc *fileCtx) loopHead(body *ast.BlockStmt, header []ast.Node) {
	var roots []string
	for _, n := range header {
		if n != nil && !isNilNode(n) {
			roots = append(roots, fc.mentions(n)...)
		}
	}
	if len(roots) == 0 || body == nil {
		return
	}
	body.List = append([]ast.Stmt{fc.mkProbe(body.Pos(), roots, false)}, body.List...)
}

func isNilNode(n ast.Node) bool {
	switch v := n.(type) {
	case ast.Expr:
		return v == nil
	case ast.Stmt:
		return v == nil
	}
	return n == nil
}

func (fc *fileCtx) funcLits(s ast.Stmt) {
	ast.Inspect(s, func(n ast.Node) bool {
		switch x := n.(type) {
		case *ast.BlockStmt:
			if n != ast.Node(s) {
				return false // nested blocks were handled by nested()
			}
		case *ast.FuncLit:
			fc.instrumentFunc(nil, x.Type, x.Body)
			return false
		case *ast.CaseClause, *ast.CommClause:
			return false
		}
		return true
	})
}

// header returns the nodes of a statement that are evaluated when the statement itself (not its
// nested blocks) executes.
func header(s ast.Stmt) []ast.Node {
	switch st := s.(type) {
	case *ast.IfStmt:
		return []ast.Node{st.Init, st.Cond}
	case *ast.ForStmt:
		return []ast.Node{st.Init, st.Cond}
	case *ast.RangeStmt:
		return []ast.Node{st.Key, st.Value, st.X}
	case *ast.SwitchStmt:
		return []ast.Node{st.Init, st.Tag}
	case *ast.TypeSwitchStmt:
		return []ast.Node{st.Init, st.Assign}
	case *ast.BlockStmt, *ast.SelectStmt:
		return nil
	case *ast.LabeledStmt:
		return header(st.Stmt)
	}
	return []ast.Node{s}
}

// mentions lists the package-level variables of the module referred to inside n (function
// literal bodies excluded: their statements carry their own probes).
func (fc *fileCtx) mentions(n ast.Node) []string {
	var out []string
	seen := map[string]bool{}
	add := func(r string) {
		if !seen[r] {
			seen[r] = true
			out = append(out, r)
		}
	}
	ast.Inspect(n, func(x ast.Node) bool {
		switch e := x.(type) {
		case *ast.FuncLit:
			return false
		case *ast.SelectorExpr:
			if id, ok := e.X.(*ast.Ident); ok && id.Obj == nil {
				if p, ok := fc.imports[id.Name]; ok {
					if pk := pkgs[p]; pk != nil && pk.vars[e.Sel.Name] {
						add(p + "." + e.Sel.Name)
					}
					return false
				}
			}
			// only the operand can mention a variable, not the field/method name
			ast.Inspect(e.X, func(y ast.Node) bool {
				if id, ok := y.(*ast.Ident); ok && fc.isPkgVar(id) {
					add(fc.pi.path + "." + id.Name)
				}
				if _, ok := y.(*ast.FuncLit); ok {
					return false
				}
				if se, ok := y.(*ast.SelectorExpr); ok {
					for _, r := range fc.mentions(se) {
						add(r)
					}
					return false
				}
				return true
			})
			return false
		case *ast.Ident:
			if fc.isPkgVar(e) {
				add(fc.pi.path + "." + e.Name)
			}
		}
		return true
	})
	return out
}

func (fc *fileCtx) isPkgVar(id *ast.Ident) bool {
	if !fc.pi.vars[id.Name] {
		return false
	}
	if id.Obj == nil {
		return true // declared in another file of the package
	}
	if vs, ok := id.Obj.Decl.(*ast.ValueSpec); ok && fc.pi.varDecl[vs] {
		return true
	}
	return false
}

func (fc *fileCtx) isLocalIdent(e ast.Expr) bool {
	id, ok := e.(*ast.Ident)
	if !ok {
		return false
	}
	return !fc.isPkgVar(id)
}

// potentialWrite: the statement may store to memory that is not a plain local variable.
func (fc *fileCtx) potentialWrite(s ast.Stmt) bool {
	w := false
	for _, h := range header(s) {
		if h == nil || isNilNode(h) {
			continue
		}
		ast.Inspect(h, func(x ast.Node) bool {
			switch e := x.(type) {
			case *ast.FuncLit:
				return false
			case *ast.AssignStmt:
				if e.Tok != token.DEFINE {
					for _, l := range e.Lhs {
						if !fc.isLocalIdent(l) {
							w = true
						}
					}
				}
			case *ast.IncDecStmt:
				if !fc.isLocalIdent(e.X) {
					w = true
				}
			case *ast.RangeStmt:
				if e.Tok == token.ASSIGN {
					w = true
				}
			case *ast.CallExpr:
				switch f := e.Fun.(type) {
				case *ast.Ident:
					if f.Obj == nil && (f.Name == "copy" || f.Name == "delete" || f.Name == "clear") {
						w = true
					}
				case *ast.SelectorExpr:
					if id, ok := f.X.(*ast.Ident); ok && id.Obj == nil {
						if p, ok := fc.imports[id.Name]; ok && !strings.HasPrefix(p, module) {
							w = true // call into another module with arguments it may write through
						}
					}
				}
			}
			return true
		})
	}
	return w
}

func (fc *fileCtx) mkProbe(pos token.Pos, roots []string, write bool) ast.Stmt {
	id := len(sites) + 1
	p := fset.Position(pos)
	sites = append(sites, site{ID: id, Func: fc.curFunc, Pos: fmt.Sprintf("%s:%d", strings.TrimPrefix(p.Filename, "/repo/"), p.Line), Roots: roots, Write: write})
	flags := 0
	if len(roots) > 0 {
		flags |= 1
	}
	if write {
		flags |= 2
	}
	fc.used = true
	return &ast.ExprStmt{X: call("zzrt_.P", intLit(id), intLit(flags))}
}

func (fc *fileCtx) probe(s ast.Stmt) ast.Stmt {
	switch s.(type) {
	case *ast.EmptyStmt:
		return nil
	}
	var roots []string
	for _, h := range header(s) {
		if h != nil && !isNilNode(h) {
			for _, r := range fc.mentions(h) {
				dup := false
				for _, o := range roots {
					if o == r {
						dup = true
					}
				}
				if !dup {
					roots = append(roots, r)
				}
			}
		}
	}
	return fc.mkProbe(s.Pos(), roots, fc.potentialWrite(s))
}
