// Package mc is the shared engine of the bounded-exhaustive checks: case accounting,
// evidence files, known-findings handling, violation/replay files, a parallel range
// runner with panic capture and a CPU-time based hang watchdog.
//
// Nothing in here samples: the runner visits every index of the range it is given.
package mc

import (
	"crypto/sha1"
	"encoding/hex"
	"encoding/json"
	"flag"
	"fmt"
	"hash/fnv"
	"os"
	"path/filepath"
	"runtime"
	"runtime/debug"
	"sort"
	"strconv"
	"strings"
	"sync"
	"sync/atomic"
	"syscall"
	"time"
)

const VerifDir = "/verif"

// outDir is where evidence/ and replays/ are written: /verif, or $VERIF_OUT for mutation
// experiments (tools/mutate.sh) so that they never overwrite real evidence.
func outDir() string {
	if d := os.Getenv("VERIF_OUT"); d != "" {
		return d
	}
	return VerifDir
}

// Check is one run of one property's check binary.
type Check struct {
	ID    string
	Level string // evidence level: exploration | fault_enumeration | model_checking
	Tier  string
	Seed  int64
	Rule  string

	start    time.Time
	deadline time.Time

	mu          sync.Mutex
	counters    map[string]int64
	distinct    map[string]map[uint64]struct{}
	samples     []interface{}
	sampleSeen  map[string]int
	subspaces   map[string]interface{}
	assumptions []string
	exhaustive  bool
	violKeys    map[string]bool
	knownHit    map[string]bool
	violations  int
	findings    []Finding
	replayPath  string
	notes       []string
	deadlineHit int32
}

// Finding is one line of /verif/known_findings.jsonl.
type Finding struct {
	Property string `json:"property"`
	Key      string `json:"key"`
	Status   string `json:"status"` // "known" or "fixed"
	Commit   string `json:"commit,omitempty"`
	What     string `json:"what"`
}

// New parses the common flags (-tier quick|thorough, -replay file, -budget seconds).
func New(id, level string) *Check {
	tier := os.Getenv("VERIF_TIER")
	if tier == "" {
		tier = "quick"
	}
	ft := flag.String("tier", tier, "quick|thorough")
	fr := flag.String("replay", "", "replay file")
	fb := flag.Int("budget", 0, "internal deadline in seconds (0 = tier default)")
	flag.Parse()
	c := &Check{ID: id, Level: level, Tier: *ft, start: time.Now(), exhaustive: true,
		counters: map[string]int64{}, distinct: map[string]map[uint64]struct{}{},
		sampleSeen: map[string]int{}, subspaces: map[string]interface{}{},
		violKeys: map[string]bool{}, knownHit: map[string]bool{}, replayPath: *fr}
	if c.Tier != "quick" && c.Tier != "thorough" {
		c.Tier = "quick"
	}
	if s := os.Getenv("VERIF_SEED"); s != "" {
		c.Seed, _ = strconv.ParseInt(s, 10, 64)
	}
	budget := *fb
	if budget == 0 {
		if c.Tier == "quick" {
			budget = 240
		} else {
			budget = 3000
		}
	}
	c.deadline = c.start.Add(time.Duration(budget) * time.Second)
	c.loadFindings()
	return c
}

func (c *Check) Quick() bool        { return c.Tier == "quick" }
func (c *Check) ReplayFile() string { return c.replayPath }

// Pick returns q in the quick tier and t in the thorough tier.
func (c *Check) Pick(q, t int) int {
	if c.Quick() {
		return q
	}
	return t
}

// Expired reports whether the internal deadline has passed; a sub-space that stops
// because of it must call Incomplete.
func (c *Check) Expired() bool {
	if time.Now().After(c.deadline) {
		atomic.StoreInt32(&c.deadlineHit, 1)
		return true
	}
	return false
}

// Incomplete records that a named sub-space was not enumerated completely.
func (c *Check) Incomplete(subspace, why string) {
	c.mu.Lock()
	defer c.mu.Unlock()
	c.exhaustive = false
	c.subspaces[subspace] = "INCOMPLETE: " + why
}

// Subspace records a completed sub-space with a description of its size.
func (c *Check) Subspace(name string, info interface{}) {
	c.mu.Lock()
	defer c.mu.Unlock()
	if _, ok := c.subspaces[name]; !ok {
		c.subspaces[name] = info
	}
}

func (c *Check) Assume(s string) { c.mu.Lock(); c.assumptions = append(c.assumptions, s); c.mu.Unlock() }
func (c *Check) Note(s string)   { c.mu.Lock(); c.notes = append(c.notes, s); c.mu.Unlock() }

// Count adds n to a named counter. "evaluations", "states", "transitions" are the
// schema's own keys; any other name is reported under coverage.counters.
func (c *Check) Count(name string, n int64) {
	c.mu.Lock()
	c.counters[name] += n
	c.mu.Unlock()
}

// Distinct records key in the named distinct-set (stored as a 64-bit hash).
func (c *Check) Distinct(set, key string) {
	h := fnv.New64a()
	h.Write([]byte(key))
	v := h.Sum64()
	c.mu.Lock()
	m := c.distinct[set]
	if m == nil {
		m = map[uint64]struct{}{}
		c.distinct[set] = m
	}
	m[v] = struct{}{}
	c.mu.Unlock()
}

// Local is a per-worker accumulator merged into the check at the end (avoids lock traffic).
type Local struct {
	c        *Check
	slot     *slot
	counters map[string]int64
	distinct map[string]map[uint64]struct{}
}

func (c *Check) NewLocal() *Local {
	return &Local{c: c, counters: map[string]int64{}, distinct: map[string]map[uint64]struct{}{}}
}
func (l *Local) Count(name string, n int64) { l.counters[name] += n }

// Beat tells the hang watchdog that the worker has finished one unit of work inside a long
// Range case (the watchdog measures the age of the latest beat, not of the whole case).
func (l *Local) Beat(desc string) {
	if l.slot != nil {
		if desc != "" {
			l.slot.desc.Store(desc)
		}
		atomic.StoreInt64(&l.slot.since, time.Now().UnixNano())
	}
}
func (l *Local) Distinct(set, key string) {
	h := fnv.New64a()
	h.Write([]byte(key))
	m := l.distinct[set]
	if m == nil {
		m = map[uint64]struct{}{}
		l.distinct[set] = m
	}
	m[h.Sum64()] = struct{}{}
}
func (l *Local) DistinctU(set string, v uint64) {
	m := l.distinct[set]
	if m == nil {
		m = map[uint64]struct{}{}
		l.distinct[set] = m
	}
	m[v] = struct{}{}
}
func (l *Local) Merge() {
	l.c.mu.Lock()
	for k, v := range l.counters {
		l.c.counters[k] += v
	}
	for s, m := range l.distinct {
		d := l.c.distinct[s]
		if d == nil {
			d = map[uint64]struct{}{}
			l.c.distinct[s] = d
		}
		for k := range m {
			d[k] = struct{}{}
		}
	}
	l.c.mu.Unlock()
	l.counters = map[string]int64{}
	l.distinct = map[string]map[uint64]struct{}{}
}

// Sample keeps up to perClass literal cases per class for the evidence file.
func (c *Check) Sample(class string, v interface{}) {
	c.mu.Lock()
	if c.sampleSeen[class] < 2 && len(c.samples) < 40 {
		c.sampleSeen[class]++
		c.samples = append(c.samples, map[string]interface{}{"class": class, "case": v})
	}
	c.mu.Unlock()
}

func (c *Check) loadFindings() {
	// /verif/known_findings.txt, one entry per line, never written at run time:
	//   known: property=<id> key=<key> <what fails>
	//   fixed: property=<id> <commit> <what failed>          (documentation only; suppresses nothing)
	b, err := os.ReadFile(filepath.Join(VerifDir, "known_findings.txt"))
	if err != nil {
		return
	}
	for _, ln := range strings.Split(string(b), "\n") {
		ln = strings.TrimSpace(ln)
		if !strings.HasPrefix(ln, "known: property="+c.ID+" key=") {
			continue
		}
		rest := strings.TrimPrefix(ln, "known: property="+c.ID+" key=")
		key, what := rest, ""
		if i := strings.Index(rest, " "); i > 0 {
			key, what = rest[:i], strings.TrimSpace(rest[i+1:])
		}
		c.findings = append(c.findings, Finding{Property: c.ID, Key: key, Status: "known", What: what})
	}
}

// Violation reports one failing case. key classifies the failure narrowly
// ("C16/Rotate180/width%32==0"); a key listed as status "known" in
// known_findings.jsonl prints KNOWN-FINDING and does not affect the exit status; every
// other key prints a VIOLATION line (once per key) with a replay file.
func (c *Check) Violation(key, what string, replay interface{}) {
	c.mu.Lock()
	defer c.mu.Unlock()
	for _, f := range c.findings {
		if f.Status == "known" && f.Key == key {
			if !c.knownHit[key] {
				c.knownHit[key] = true
				fmt.Printf("KNOWN-FINDING: property=%s %s [%s]\n", c.ID, f.What, key)
			}
			return
		}
	}
	c.violations++
	if c.violKeys[key] {
		return
	}
	c.violKeys[key] = true
	if len(c.violKeys) > 25 {
		if os.Getenv("VERIF_ALLKEYS") != "" { // diagnostic: list every distinct key beyond the 25 that get replay files
			fmt.Printf("  key=%s\n  what=%s\n", key, what)
		}
		return
	}
	body := map[string]interface{}{"property": c.ID, "key": key, "what": what, "case": replay, "tier": c.Tier}
	js, _ := json.MarshalIndent(body, "", " ")
	sum := sha1.Sum([]byte(key))
	path := filepath.Join(outDir(), "replays", c.ID+"-"+hex.EncodeToString(sum[:6])+".json")
	os.MkdirAll(filepath.Dir(path), 0o755)
	os.WriteFile(path, js, 0o644)
	fmt.Printf("VIOLATION property=%s replay=%s\n", c.ID, path)
	fmt.Printf("  key=%s\n  what=%s\n", key, what)
}

// Violations returns the number of non-known violations so far.
func (c *Check) Violations() int { c.mu.Lock(); defer c.mu.Unlock(); return c.violations }

// Finish writes the evidence file and exits.
func (c *Check) Finish() {
	c.mu.Lock()
	cov := map[string]interface{}{}
	ev := c.counters["evaluations"]
	cov["evaluations"] = ev
	nontriv := 0
	dsets := map[string]int{}
	for s, m := range c.distinct {
		dsets[s] = len(m)
	}
	if m, ok := c.distinct["nontrivial"]; ok {
		nontriv = len(m)
	}
	cov["distinct_nontrivial"] = nontriv
	if m, ok := c.distinct["outcomes"]; ok {
		cov["distinct_outcomes"] = len(m)
	}
	cov["distinct_sets"] = dsets
	cov["rule"] = c.Rule
	if len(c.samples) == 0 {
		c.samples = append(c.samples, "no sample recorded")
	}
	cov["samples"] = c.samples
	if c.Level == "model_checking" {
		st := c.counters["states"]
		tr := c.counters["transitions"]
		cov["states"] = st
		cov["transitions"] = tr
		tv := c.counters["traces_validated_against_impl"]
		if tv == 0 {
			tv = ev
		}
		cov["traces_validated_against_impl"] = tv
	}
	other := map[string]int64{}
	for k, v := range c.counters {
		switch k {
		case "evaluations", "states", "transitions", "traces_validated_against_impl":
		default:
			other[k] = v
		}
	}
	cov["counters"] = other
	if atomic.LoadInt32(&c.deadlineHit) != 0 {
		c.exhaustive = false
	}
	cov["exhaustive"] = c.exhaustive
	cov["subspaces"] = c.subspaces
	if len(c.notes) > 0 {
		cov["notes"] = c.notes
	}
	var kf []string
	for k := range c.knownHit {
		kf = append(kf, k)
	}
	sort.Strings(kf)
	cov["known_findings_hit"] = kf
	if c.assumptions == nil {
		c.assumptions = []string{}
	}
	out := map[string]interface{}{
		"property_id": c.ID, "tier": c.Tier, "seed": c.Seed, "level": c.Level,
		"coverage": cov, "assumptions": c.assumptions,
		"wall_s": time.Since(c.start).Seconds(), "violations": c.violations,
	}
	js, _ := json.MarshalIndent(out, "", " ")
	os.MkdirAll(filepath.Join(outDir(), "evidence"), 0o755)
	os.WriteFile(filepath.Join(outDir(), "evidence", c.ID+".json"), js, 0o644)
	v := c.violations
	fmt.Printf("%s tier=%s evaluations=%d distinct_nontrivial=%d states=%d transitions=%d exhaustive=%v violations=%d wall=%.1fs\n",
		c.ID, c.Tier, ev, nontriv, c.counters["states"], c.counters["transitions"], c.exhaustive, v, time.Since(c.start).Seconds())
	c.mu.Unlock()
	if v > 0 {
		os.Exit(1)
	}
	os.Exit(0)
}

// ---------------------------------------------------------------------------------------
// Parallel runner with watchdog

type slot struct {
	desc  atomic.Value // string
	since int64        // unix nano of case start, 0 = idle
}

// Workers returns the number of worker goroutines to use.
func Workers() int {
	n := runtime.NumCPU()
	if s := os.Getenv("VERIF_WORKERS"); s != "" {
		if v, err := strconv.Atoi(s); err == nil && v > 0 {
			n = v
		}
	}
	if n > 16 {
		n = 16
	}
	return n
}

func cpuSeconds() float64 {
	var ru syscall.Rusage
	syscall.Getrusage(syscall.RUSAGE_SELF, &ru)
	return float64(ru.Utime.Sec) + float64(ru.Utime.Usec)/1e6 + float64(ru.Stime.Sec) + float64(ru.Stime.Usec)/1e6
}

// HangSeconds is the wall-clock age at which an in-flight case is examined; it is
// reported as a hang only if it is also burning CPU (so that a stalled machine cannot
// raise a false alarm). Cases normally cost microseconds to milliseconds.
var HangSeconds = 120.0

// Range runs fn(worker, i) for every i in [0,n) on Workers() goroutines. fn is executed
// under recover(); a panic is passed to onPanic (with the index). desc(i) names the case
// for the hang report. Returns false if the internal deadline stopped the range early.
func (c *Check) Range(name string, n int, desc func(i int) string, fn func(l *Local, i int)) bool {
	t0 := time.Now()
	w := Workers()
	if w > n {
		w = n
	}
	if w < 1 {
		w = 1
	}
	slots := make([]slot, w)
	var next int64
	var stopped int32
	var wg sync.WaitGroup
	done := make(chan struct{})
	go func() { // watchdog
		lastCPU := cpuSeconds()
		lastT := time.Now()
		for {
			select {
			case <-done:
				return
			case <-time.After(2 * time.Second):
			}
			now := time.Now()
			for k := range slots {
				s := atomic.LoadInt64(&slots[k].since)
				if s == 0 {
					continue
				}
				age := now.Sub(time.Unix(0, s)).Seconds()
				if age > HangSeconds {
					cpu := cpuSeconds()
					if cpu-lastCPU > 0.4*now.Sub(lastT).Seconds() { // at least ~half a core busy throughout
						d, _ := slots[k].desc.Load().(string)
						c.Violation(c.ID+"/hang/"+name, fmt.Sprintf("case did not return within %.0fs (sub-space %s): %s", age, name, d), map[string]interface{}{"subspace": name, "case": d})
						c.Incomplete(name, "hang")
						c.Finish()
					}
				}
			}
			if now.Sub(lastT) > 60*time.Second {
				lastCPU, lastT = cpuSeconds(), now
			}
		}
	}()
	for k := 0; k < w; k++ {
		wg.Add(1)
		go func(k int) {
			defer wg.Done()
			l := c.NewLocal()
			l.slot = &slots[k]
			defer l.Merge()
			for {
				i := int(atomic.AddInt64(&next, 1) - 1)
				if i >= n {
					return
				}
				if i%64 == 0 && c.Expired() {
					atomic.StoreInt32(&stopped, 1)
					return
				}
				if desc != nil {
					slots[k].desc.Store(desc(i))
				} else {
					slots[k].desc.Store(name + "#" + strconv.Itoa(i))
				}
				atomic.StoreInt64(&slots[k].since, time.Now().UnixNano())
				func() {
					defer func() {
						if r := recover(); r != nil {
							d, _ := slots[k].desc.Load().(string)
							st := string(debug.Stack())
							c.Violation(c.ID+"/harness-panic/"+name+"/"+panicSite(st), fmt.Sprintf("unexpected panic in sub-space %s case %s: %v", name, d, r), map[string]interface{}{"subspace": name, "case": d, "panic": fmt.Sprint(r), "stack": st})
						}
					}()
					fn(l, i)
				}()
				atomic.StoreInt64(&slots[k].since, 0)
			}
		}(k)
	}
	wg.Wait()
	close(done)
	if atomic.LoadInt32(&stopped) != 0 {
		c.Incomplete(name, fmt.Sprintf("internal deadline reached after %d of %d cases", atomic.LoadInt64(&next), n))
		return false
	}
	c.Subspace(name, map[string]interface{}{"cases": n, "complete": true, "wall_s": float64(int(time.Since(t0).Seconds()*10)) / 10})
	return true
}

// Guard runs fn and returns a description of the panic it raised ("" if none) together
// with the innermost library frame, for use as a finding key.
func Guard(fn func()) (msg string, site string) {
	defer func() {
		if r := recover(); r != nil {
			msg = fmt.Sprint(r)
			if msg == "" {
				msg = "panic"
			}
			site = panicSite(string(debug.Stack()))
		}
	}()
	fn()
	return "", ""
}

// panicSite extracts "file.go:func" of the first gozxing frame below the panic.
func panicSite(stack string) string {
	lines := strings.Split(stack, "\n")
	seenPanic := false
	for i := 0; i < len(lines)-1; i++ {
		ln := lines[i]
		if strings.HasPrefix(ln, "panic(") {
			seenPanic = true
			continue
		}
		if !seenPanic {
			continue
		}
		if strings.Contains(ln, "makiuchi-d/gozxing") {
			fn := ln
			if j := strings.LastIndex(fn, "("); j > 0 {
				fn = fn[:j]
			}
			if j := strings.LastIndex(fn, "/"); j >= 0 {
				fn = fn[j+1:]
			}
			return fn
		}
	}
	for i := 0; i < len(lines)-1; i++ {
		if strings.Contains(lines[i], "makiuchi-d/gozxing") {
			fn := lines[i]
			if j := strings.LastIndex(fn, "("); j > 0 {
				fn = fn[:j]
			}
			if j := strings.LastIndex(fn, "/"); j >= 0 {
				fn = fn[j+1:]
			}
			return fn
		}
	}
	return "unknown"
}

// LoadReplay reads the "case" member of a replay file into v.
func LoadReplay(path string, v interface{}) error {
	b, err := os.ReadFile(path)
	if err != nil {
		return err
	}
	var w struct {
		Case json.RawMessage `json:"case"`
	}
	if err := json.Unmarshal(b, &w); err != nil {
		return err
	}
	return json.Unmarshal(w.Case, v)
}
